import ZenonVerif.Gen.Contracts
/-
L5 — embedded contracts that lock funds, as state machines over their storage entries.
Stands for vm/embedded/implementation/{plasma,stake,htlc,pillars,sentinel,common}.go, the stake entries of liquidity.go
and the unwrap requests of bridge.go (ReceiveBlock of each method, followed line by line) and for vm/vm.go
generateEmbeddedReceive / rollbackEmbedded (`vmStep`). Reward bookkeeping (Update / CollectReward), legacy pillar
registration, votes, liquidity/bridge administration, wrap requests and fees are not modelled.

A method is `σ → Ctx → Option (σ × List Payout)`: `none` = the Go method returns an error, the VM rolls the storage
back and refunds the sent amount. Storage is an association list per key prefix (`put` = db.Put: overwrite,
`erase` = db.Delete). Amounts are naturals (Go *big.Int, never negative here; stored through abi.U256, i.e. modulo
2^256 — every amount on the ledger is below 2^255, the token contract's maximal supply). Times are integers (int64
unix seconds), heights naturals (uint64; no wrap-around below 2^63).
The lock periods are fields of `Params` (they are package variables in vm/constants); `Params.production` takes
them from the generated facts, the theorems hold for every value.
-/
namespace ZV.Contracts

abbrev Addr := Nat
abbrev Tok := Nat
abbrev Hash := Nat

/-- embedded contract addresses are the identifiers below `embeddedBound` (the real test is the address prefix) -/
def embeddedBound : Nat := 16
def tokenContract : Addr := 0
def zeroTok : Tok := 0
def znnTok : Tok := 1
def qsrTok : Tok := 2
def isEmbedded (a : Addr) : Bool := a < embeddedBound

structure Params where
  fuseMinAmount : Nat
  costPerFusionUnit : Nat
  fuseExpiration : Nat
  stakeMinAmount : Nat
  stakeTimeUnit : Int
  stakeTimeMin : Int
  stakeTimeMax : Int
  pillarStakeAmount : Nat
  pillarQsrBase : Nat
  pillarQsrIncrease : Nat
  pillarLock : Int
  pillarRevoke : Int
  sentinelZnn : Nat
  sentinelQsr : Nat
  sentinelLock : Int
  sentinelRevoke : Int
  deriving Repr

/-- vm/constants/embedded.go as found in the tree (regenerated on every run) -/
def Params.production : Params where
  fuseMinAmount := ZV.Gen.FuseMinAmount
  costPerFusionUnit := ZV.Gen.CostPerFusionUnitC
  fuseExpiration := ZV.Gen.FuseExpiration
  stakeMinAmount := ZV.Gen.StakeMinAmount
  stakeTimeUnit := ZV.Gen.CtStakeTimeUnitSec
  stakeTimeMin := ZV.Gen.StakeTimeMinSec
  stakeTimeMax := ZV.Gen.StakeTimeMaxSec
  pillarStakeAmount := ZV.Gen.PillarStakeAmount
  pillarQsrBase := ZV.Gen.PillarQsrStakeBaseAmount
  pillarQsrIncrease := ZV.Gen.PillarQsrStakeIncreaseAmount
  pillarLock := ZV.Gen.PillarEpochLockTime
  pillarRevoke := ZV.Gen.PillarEpochRevokeTime
  sentinelZnn := ZV.Gen.SentinelZnnRegisterAmount
  sentinelQsr := ZV.Gen.SentinelQsrDepositAmount
  sentinelLock := ZV.Gen.SentinelLockTimeWindow
  sentinelRevoke := ZV.Gen.SentinelRevokeTimeWindow

/-! ### storage: association lists (one per key prefix) -/

section AList
variable {κ : Type} [DecidableEq κ] {ν : Type}

/-- db.Get + parse: first entry with the key -/
def lookup (k : κ) : List (κ × ν) → Option ν
  | [] => none
  | (k', v) :: r => if k' = k then some v else lookup k r

/-- db.Delete: no entry with the key remains -/
def erase (k : κ) : List (κ × ν) → List (κ × ν)
  | [] => []
  | (k', v) :: r => if k' = k then erase k r else (k', v) :: erase k r

/-- db.Put: overwrite -/
def put (k : κ) (v : ν) (l : List (κ × ν)) : List (κ × ν) := (k, v) :: erase k l

/-- Σ f over all stored values -/
def total (f : ν → Nat) : List (κ × ν) → Nat
  | [] => 0
  | (_, v) :: r => f v + total f r

end AList

/-! ### what a contract receive sees -/

/-- the send block being received and the frontier momentum of the receive (`context.GetFrontierMomentum()`) -/
structure Ctx where
  now : Int        -- momentum.Timestamp.Unix()
  height : Nat     -- momentum.Height
  sender : Addr    -- sendBlock.Address
  amount : Nat     -- sendBlock.Amount
  token : Tok      -- sendBlock.TokenStandard
  hash : Hash      -- sendBlock.Hash (the id of an entry created by this call)
  deriving Repr

/-- the call a descendant send block carries: none (plain transfer), the token contract's Burn, or its Mint -/
inductive PayCall where
  | none
  | burn
  | mint (tok : Tok) (amt : Nat) (to : Addr)
  deriving DecidableEq, Repr

/-- a descendant send block returned by a method -/
structure Payout where
  dst : Addr
  tok : Tok
  amt : Nat
  call : PayCall := .none
  deriving DecidableEq, Repr

/-- send-time validation of a descendant addressed to an embedded contract: only the token contract's Burn with a
    positive amount and its Mint of a positive amount carried by a zero-amount block are ever produced -/
def PayCall.validFor (c : PayCall) (dst : Addr) (amt : Nat) : Bool :=
  match c with
  | .none => false
  | .burn => dst == tokenContract && decide (amt > 0)
  | .mint _ m _ => dst == tokenContract && decide (m > 0) && amt == 0

abbrev Method (σ : Type) := σ → Ctx → Option (σ × List Payout)

/-! ### plasma.go -/

structure Fusion where
  amount : Nat
  expH : Nat
  beneficiary : Addr
  deriving DecidableEq, Repr

structure Plasma where
  fusions : List ((Addr × Hash) × Fusion) := []     -- prefix 1: key (owner, id)
  fused : List (Addr × Nat) := []                   -- prefix 2: key beneficiary
  deriving Repr

/-- definition.GetFusedAmount: absent = 0 -/
def Plasma.fusedOf (s : Plasma) (b : Addr) : Nat := (lookup b s.fused).getD 0

/-- FuseMethod.ReceiveBlock -/
def fuse (P : Params) (beneficiary : Addr) : Method Plasma := fun s c =>
  if c.token ≠ qsrTok ∨ c.amount < P.fuseMinAmount then none
  else if c.amount % P.costPerFusionUnit ≠ 0 then none
  else some ({ fusions := put (c.sender, c.hash) ⟨c.amount, c.height + P.fuseExpiration, beneficiary⟩ s.fusions,
               fused := put beneficiary (s.fusedOf beneficiary + c.amount) s.fused }, [])

/-- CancelFuseMethod.ReceiveBlock. `fused.Amount.Sub` is a big.Int subtraction: were the recorded total smaller than
    the entry, the negative result would be stored through abi.U256 (two's complement, 256 bits). -/
def cancelFuse (id : Hash) : Method Plasma := fun s c =>
  if c.amount > 0 then none
  else match lookup (c.sender, id) s.fusions with
    | none => none
    | some f =>
      if f.expH > c.height then none
      else
        let rest : Int := (s.fusedOf f.beneficiary : Int) - f.amount
        let fused' := if rest = 0 then erase f.beneficiary s.fused
                      else put f.beneficiary (if rest < 0 then rest + (2 ^ 256 : Int) else rest).toNat s.fused
        some ({ fusions := erase (c.sender, id) s.fusions, fused := fused' }, [⟨c.sender, qsrTok, f.amount, .none⟩])

/-- Σ of all fusion entries (QSR) -/
def Plasma.owed (s : Plasma) : Nat := total (·.amount) s.fusions

/-- Σ of the fusion entries of one beneficiary -/
def Plasma.entriesFor (s : Plasma) (b : Addr) : Nat := total (fun f => if f.beneficiary = b then f.amount else 0) s.fusions

/-- what the plasma contract owes, per token -/
def plasmaOwed (s : Plasma) (tok : Tok) : Nat := if tok = qsrTok then s.owed else 0

inductive PlasmaOp where
  | fuse (beneficiary : Addr)
  | cancelFuse (id : Hash)
  deriving Repr

def PlasmaOp.method (P : Params) : PlasmaOp → Method Plasma
  | .fuse b => ZV.Contracts.fuse P b
  | .cancelFuse id => ZV.Contracts.cancelFuse id

/-! ### stake.go (rewards excluded) -/

structure StakeE where
  amount : Nat
  weighted : Nat
  start : Int
  revoke : Int
  expiration : Int
  deriving DecidableEq, Repr

structure Stake where
  entries : List ((Addr × Hash) × StakeE) := []     -- prefix 1: key (stake address, id)
  deriving Repr

/-- getWeightedStakeAmount: (9 + stakingTime / unit) * amount / 10, int64 / big.Int truncated division -/
def weightedStake (P : Params) (amount : Nat) (duration : Int) : Nat :=
  (((9 + duration.tdiv P.stakeTimeUnit) * amount).tdiv 10).toNat

/-- StakeMethod.ReceiveBlock -/
def stake (P : Params) (duration : Int) : Method Stake := fun s c =>
  if c.amount < P.stakeMinAmount ∨ c.token ≠ znnTok then none
  else if duration < P.stakeTimeMin ∨ duration > P.stakeTimeMax ∨ duration.tmod P.stakeTimeUnit ≠ 0 then none
  else some ({ entries := put (c.sender, c.hash) ⟨c.amount, weightedStake P c.amount duration, c.now, 0, c.now + duration⟩ s.entries }, [])

/-- CancelStakeMethod.ReceiveBlock: the entry is kept with amount 0 and the revoke time (deleted by a later reward update) -/
def cancelStake (id : Hash) : Method Stake := fun s c =>
  if c.amount ≠ 0 then none
  else match lookup (c.sender, id) s.entries with
    | none => none
    | some e =>
      if e.expiration > c.now then none
      else some ({ entries := put (c.sender, id) { e with revoke := c.now, amount := 0 } s.entries },
                 [⟨c.sender, znnTok, e.amount, .none⟩])

/-- computeStakeRewardsForEpoch (the only effect on the entries): a cancelled entry — amount 0, revoke time set — is
    deleted once its reward epoch has been paid; anything else is left alone. Which entries and when is decided by the
    reward machinery (C11), here an input. -/
def Stake.collect (s : Stake) (k : Addr × Hash) : Option Stake :=
  match lookup k s.entries with
  | none => none
  | some e => if e.amount = 0 ∧ e.revoke ≠ 0 then some { entries := erase k s.entries } else none

/-- Σ of all stake entries (ZNN); cancelled entries are recorded with amount 0 -/
def Stake.owed (s : Stake) : Nat := total (·.amount) s.entries

/-- what the stake contract owes, per token -/
def stakeOwed (s : Stake) (tok : Tok) : Nat := if tok = znnTok then s.owed else 0

inductive StakeOp where
  | stake (duration : Int)
  | cancel (id : Hash)
  deriving Repr

def StakeOp.method (P : Params) : StakeOp → Method Stake
  | .stake d => ZV.Contracts.stake P d
  | .cancel id => ZV.Contracts.cancelStake id

/-! ### htlc.go -/

abbrev Bytes := List UInt8

/-- the hash functions are parameters: hash type → preimage → digest (crypto.Hash = SHA3-256, crypto.HashSHA256) -/
abbrev HashFn := Nat → Bytes → Bytes

structure HtlcE where
  timeLocked : Addr
  hashLocked : Addr
  tok : Tok
  amount : Nat
  expiration : Int
  hashType : Nat
  keyMax : Nat
  hashLock : Bytes
  deriving DecidableEq, Repr

structure Htlc where
  entries : List (Hash × HtlcE) := []       -- prefix 1: key id
  proxy : List (Addr × Bool) := []          -- prefix 2: explicit proxy-unlock settings
  deriving Repr

/-- definition.HashTypeDigestSizes, `none` for an unknown hash type (checkHtlc: ErrInvalidHashType) -/
def digestSize (ty : Nat) : Option Nat :=
  if ty = ZV.Gen.HashTypeSHA3 then some ZV.Gen.DigestSizeSHA3
  else if ty = ZV.Gen.HashTypeSHA256 then some ZV.Gen.DigestSizeSHA256
  else none

/-- GetHtlcProxyUnlockStatus: no explicit setting = allowed -/
def Htlc.proxyAllowed (s : Htlc) (a : Addr) : Bool := (lookup a s.proxy).getD true

/-- CreateHtlcMethod.ReceiveBlock -/
def createHtlc (hashLocked : Addr) (expiration : Int) (hashType keyMax : Nat) (hashLock : Bytes) : Method Htlc := fun s c =>
  match digestSize hashType with
  | none => none
  | some n =>
    if hashLock.length ≠ n then none
    else if c.amount = 0 then none
    else if c.now ≥ expiration then none
    else some ({ s with entries := put c.hash ⟨c.sender, hashLocked, c.token, c.amount, expiration, hashType, keyMax, hashLock⟩ s.entries }, [])

/-- ReclaimHtlcMethod.ReceiveBlock -/
def reclaimHtlc (id : Hash) : Method Htlc := fun s c =>
  if c.amount > 0 then none
  else match lookup id s.entries with
    | none => none
    | some e =>
      if e.timeLocked ≠ c.sender then none
      else if c.now < e.expiration then none
      else some ({ s with entries := erase id s.entries }, [⟨e.timeLocked, e.tok, e.amount, .none⟩])

/-- UnlockHtlcMethod.ReceiveBlock -/
def unlockHtlc (H : HashFn) (id : Hash) (preimage : Bytes) : Method Htlc := fun s c =>
  if c.amount > 0 then none
  else match lookup id s.entries with
    | none => none
    | some e =>
      if !s.proxyAllowed e.hashLocked && c.sender ≠ e.hashLocked then none
      else if c.now ≥ e.expiration then none
      else if preimage.length > e.keyMax then none
      else if H e.hashType preimage ≠ e.hashLock then none
      else some ({ s with entries := erase id s.entries }, [⟨e.hashLocked, e.tok, e.amount, .none⟩])

/-- Deny / AllowHtlcProxyUnlockMethod.ReceiveBlock -/
def setProxyUnlock (allowed : Bool) : Method Htlc := fun s c =>
  if c.amount ≠ 0 then none
  else some ({ s with proxy := put c.sender allowed s.proxy }, [])

/-- what the htlc contract owes in one token: Σ of its entries in that token -/
def htlcOwed (s : Htlc) (tok : Tok) : Nat := total (fun e => if e.tok = tok then e.amount else 0) s.entries

inductive HtlcOp where
  | create (hashLocked : Addr) (expiration : Int) (hashType keyMax : Nat) (hashLock : Bytes)
  | reclaim (id : Hash)
  | unlock (id : Hash) (preimage : Bytes)
  | deny
  | allow
  deriving Repr

def HtlcOp.method (H : HashFn) : HtlcOp → Method Htlc
  | .create a e t k l => createHtlc a e t k l
  | .reclaim id => reclaimHtlc id
  | .unlock id p => unlockHtlc H id p
  | .deny => setProxyUnlock false
  | .allow => setProxyUnlock true

/-! ### common.go: QSR deposits (pillar and sentinel contracts each keep their own) -/

abbrev Deposits := List (Addr × Nat)       -- prefix 130: key depositor

/-- definition.GetQsrDeposit: absent = 0 -/
def depositOf (d : Deposits) (a : Addr) : Nat := (lookup a d).getD 0

/-- DepositQsrMethod.ReceiveBlock -/
def depositQsr (d : Deposits) (c : Ctx) : Option Deposits :=
  if c.token ≠ qsrTok ∨ c.amount = 0 then none
  else some (put c.sender (depositOf d c.sender + c.amount) d)

/-- WithdrawQsrMethod.ReceiveBlock: pays the whole deposit back to the depositor and deletes it -/
def withdrawQsr (d : Deposits) (c : Ctx) : Option (Deposits × List Payout) :=
  if c.amount ≠ 0 then none
  else if depositOf d c.sender = 0 then none
  else some (erase c.sender d, [⟨c.sender, qsrTok, depositOf d c.sender, .none⟩])

/-- checkAndConsumeQsr -/
def consumeQsr (d : Deposits) (owner : Addr) (required : Nat) : Option Deposits :=
  if depositOf d owner < required then none
  else if depositOf d owner - required = 0 then some (erase owner d)
  else some (put owner (depositOf d owner - required) d)

def depositsTotal (d : Deposits) : Nat := total id d

/-! ### pillars.go (rewards, legacy registration and votes excluded) -/

structure PillarE where
  stakeAddr : Addr
  amount : Nat
  regTime : Int
  revokeTime : Int
  producer : Addr
  reward : Addr
  ptype : Nat
  pctBlock : Nat
  pctDelegate : Nat
  deriving DecidableEq, Repr

structure Pillar where
  pillars : List (Hash × PillarE) := []      -- prefix 1: key hash(name); names are opaque identifiers
  producing : List (Addr × Hash) := []       -- prefix 2: producing address → pillar name
  delegations : List (Addr × Hash) := []     -- prefix 4: backer → pillar name
  deposits : Deposits := []
  deriving Repr

/-- PillarGetRevokeStatus / GetSentinelRevokeStatus: Go's `%` truncates toward zero -/
def revocable (lock window reg now : Int) : Bool := !decide ((now - reg).tmod (lock + window) < lock)

/-- number of active pillars of the normal type (GetPillarsList(onlyActive, NormalPillarType)) -/
def activeNormal : List (Hash × PillarE) → Nat
  | [] => 0
  | (_, e) :: r => (if e.revokeTime = 0 ∧ e.ptype = ZV.Gen.NormalPillarType then 1 else 0) + activeNormal r

/-- GetQsrCostForNextPillar -/
def pillarQsrCost (P : Params) (s : Pillar) : Nat := P.pillarQsrBase + P.pillarQsrIncrease * activeNormal s.pillars

/-- checkAvailableProducingAddress -/
def producerAvailable (s : Pillar) (producer : Addr) (name : Hash) : Bool :=
  match lookup producer s.producing with
  | none => true
  | some n => n == name

/-- RegisterMethod.ReceiveBlock. `nameOk` = checkPillarNameStatic(name) (a regular expression; oracle). -/
def registerPillar (P : Params) (name : Hash) (producer reward : Addr) (pctBlock pctDelegate : Nat) (nameOk : Bool) : Method Pillar := fun s c =>
  if !nameOk then none
  else if pctBlock > 100 ∨ pctDelegate > 100 then none
  else if c.token ≠ znnTok ∨ c.amount ≠ P.pillarStakeAmount then none
  else
    let required := pillarQsrCost P s
    if (lookup name s.pillars).isSome then none
    else if !producerAvailable s producer name then none
    else match consumeQsr s.deposits c.sender required with
      | none => none
      | some d' =>
        some ({ s with pillars := put name ⟨c.sender, P.pillarStakeAmount, c.now, 0, producer, reward, ZV.Gen.NormalPillarType, pctBlock, pctDelegate⟩ s.pillars,
                       producing := put producer name s.producing,
                       deposits := d' },
              [⟨tokenContract, qsrTok, required, .burn⟩])

/-- RevokeMethod.ReceiveBlock: pays the constant PillarStakeAmount (not the recorded amount) -/
def revokePillar (P : Params) (name : Hash) (nameOk : Bool) : Method Pillar := fun s c =>
  if !nameOk then none
  else if c.amount ≠ 0 then none
  else match lookup name s.pillars with
    | none => none
    | some p =>
      if p.revokeTime ≠ 0 then none
      else if p.stakeAddr ≠ c.sender then none
      else if !revocable P.pillarLock P.pillarRevoke p.regTime c.now then none
      else some ({ s with pillars := put name { p with revokeTime := c.now, amount := 0 } s.pillars },
                 [⟨p.stakeAddr, znnTok, P.pillarStakeAmount, .none⟩])

/-- UpdatePillarMethod.ReceiveBlock -/
def updatePillar (name : Hash) (producer reward : Addr) (pctBlock pctDelegate : Nat) (nameOk : Bool) : Method Pillar := fun s c =>
  if !nameOk then none
  else if pctBlock > 100 ∨ pctDelegate > 100 then none
  else if c.amount ≠ 0 then none
  else match lookup name s.pillars with
    | none => none
    | some p =>
      if p.stakeAddr ≠ c.sender then none
      else if p.revokeTime ≠ 0 then none
      else if producer ≠ p.producer ∧ !producerAvailable s producer name then none
      else
        some ({ s with pillars := put name { p with producer := producer, reward := reward, pctBlock := pctBlock, pctDelegate := pctDelegate } s.pillars,
                       producing := if producer ≠ p.producer then put producer name s.producing else s.producing }, [])

/-- DelegateMethod.ReceiveBlock -/
def delegate (name : Hash) (nameOk : Bool) : Method Pillar := fun s c =>
  if !nameOk then none
  else if c.amount ≠ 0 then none
  else match lookup name s.pillars with
    | none => none
    | some p =>
      if p.revokeTime ≠ 0 then none
      else some ({ s with delegations := put c.sender name s.delegations }, [])

/-- UndelegateMethod.ReceiveBlock -/
def undelegate : Method Pillar := fun s c =>
  if c.amount ≠ 0 then none
  else match lookup c.sender s.delegations with
    | none => none
    | some _ => some ({ s with delegations := erase c.sender s.delegations }, [])

def pillarDeposit : Method Pillar := fun s c =>
  match depositQsr s.deposits c with
  | none => none
  | some d => some ({ s with deposits := d }, [])

def pillarWithdraw : Method Pillar := fun s c =>
  match withdrawQsr s.deposits c with
  | none => none
  | some (d, ps) => some ({ s with deposits := d }, ps)

/-- what the pillar contract owes: the collateral of its pillars in ZNN, the deposits in QSR -/
def pillarOwed (s : Pillar) (tok : Tok) : Nat :=
  if tok = znnTok then total (·.amount) s.pillars
  else if tok = qsrTok then depositsTotal s.deposits
  else 0

inductive PillarOp where
  | register (name : Hash) (producer reward : Addr) (pctBlock pctDelegate : Nat) (nameOk : Bool)
  | revoke (name : Hash) (nameOk : Bool)
  | update (name : Hash) (producer reward : Addr) (pctBlock pctDelegate : Nat) (nameOk : Bool)
  | delegate (name : Hash) (nameOk : Bool)
  | undelegate
  | deposit
  | withdraw
  deriving Repr

def PillarOp.method (P : Params) : PillarOp → Method Pillar
  | .register n p r b d ok => registerPillar P n p r b d ok
  | .revoke n ok => revokePillar P n ok
  | .update n p r b d ok => updatePillar n p r b d ok
  | .delegate n ok => ZV.Contracts.delegate n ok
  | .undelegate => ZV.Contracts.undelegate
  | .deposit => pillarDeposit
  | .withdraw => pillarWithdraw

/-! ### sentinel.go (rewards excluded) -/

structure SentinelE where
  regTime : Int
  revokeTime : Int
  znn : Nat
  qsr : Nat
  deriving DecidableEq, Repr

structure Sentinel where
  entries : List (Addr × SentinelE) := []    -- prefix 1: key owner
  deposits : Deposits := []
  deriving Repr

/-- RegisterSentinelMethod.ReceiveBlock -/
def registerSentinel (P : Params) : Method Sentinel := fun s c =>
  if c.token ≠ znnTok ∨ c.amount ≠ P.sentinelZnn then none
  else if (lookup c.sender s.entries).isSome then none
  else match consumeQsr s.deposits c.sender P.sentinelQsr with
    | none => none
    | some d' => some ({ entries := put c.sender ⟨c.now, 0, P.sentinelZnn, P.sentinelQsr⟩ s.entries, deposits := d' }, [])

/-- RevokeSentinelMethod.ReceiveBlock -/
def revokeSentinel (P : Params) : Method Sentinel := fun s c =>
  if c.amount ≠ 0 then none
  else match lookup c.sender s.entries with
    | none => none
    | some e =>
      if e.revokeTime ≠ 0 then none
      else if !revocable P.sentinelLock P.sentinelRevoke e.regTime c.now then none
      else some ({ s with entries := put c.sender { e with revokeTime := c.now, znn := 0, qsr := 0 } s.entries },
                 [⟨c.sender, znnTok, e.znn, .none⟩, ⟨c.sender, qsrTok, e.qsr, .none⟩])

def sentinelDeposit : Method Sentinel := fun s c =>
  match depositQsr s.deposits c with
  | none => none
  | some d => some ({ s with deposits := d }, [])

def sentinelWithdraw : Method Sentinel := fun s c =>
  match withdrawQsr s.deposits c with
  | none => none
  | some (d, ps) => some ({ s with deposits := d }, ps)

/-- what the sentinel contract owes: ZNN collateral; QSR collateral + QSR deposits -/
def sentinelOwed (s : Sentinel) (tok : Tok) : Nat :=
  if tok = znnTok then total (·.znn) s.entries
  else if tok = qsrTok then total (·.qsr) s.entries + depositsTotal s.deposits
  else 0

inductive SentinelOp where
  | register
  | revoke
  | deposit
  | withdraw
  deriving Repr

def SentinelOp.method (P : Params) : SentinelOp → Method Sentinel
  | .register => registerSentinel P
  | .revoke => revokeSentinel P
  | .deposit => sentinelDeposit
  | .withdraw => sentinelWithdraw

/-! ### liquidity.go: stake entries only (reward pools, administration and time challenges excluded) -/

structure LStakeE where
  amount : Nat
  tok : Tok
  weighted : Nat
  start : Int
  revoke : Int
  expiration : Int
  deriving DecidableEq, Repr

structure Liquidity where
  entries : List ((Addr × Hash) × LStakeE) := []   -- key (stake address, id)
  tuples : List (Tok × Nat) := []                  -- LiquidityInfo.TokenTuples: stakeable token → minimal amount (set by the administrator)
  deriving Repr

/-- getWeightedLiquidityStakeAmount: LiquidityStakeWeights[stakingTime / unit] * amount -/
def weightedLiquidityStake (P : Params) (amount : Nat) (duration : Int) : Nat :=
  ZV.Gen.CtLiquidityStakeWeights.getD (duration.tdiv P.stakeTimeUnit).toNat 0 * amount

/-- LiquidityStakeMethod.ReceiveBlock: the first tuple of the sent token decides -/
def liquidityStake (P : Params) (duration : Int) : Method Liquidity := fun s c =>
  if duration < P.stakeTimeMin ∨ duration > P.stakeTimeMax ∨ duration.tmod P.stakeTimeUnit ≠ 0 then none
  else match lookup c.token s.tuples with
    | none => none
    | some minAmount =>
      if c.amount < minAmount then none
      else
        let e : LStakeE := ⟨c.amount, c.token, weightedLiquidityStake P c.amount duration, c.now, 0, c.now + duration⟩
        some ({ s with entries := put (c.sender, c.hash) e s.entries }, [])

/-- CancelLiquidityStakeMethod.ReceiveBlock -/
def cancelLiquidityStake (id : Hash) : Method Liquidity := fun s c =>
  if c.amount ≠ 0 then none
  else match lookup (c.sender, id) s.entries with
    | none => none
    | some e =>
      if e.expiration > c.now then none
      else some ({ s with entries := put (c.sender, id) { e with revoke := c.now, amount := 0 } s.entries },
                 [⟨c.sender, e.tok, e.amount, .none⟩])

/-- UnlockLiquidityStakeEntries.ReceiveBlock — the ONE legitimate early release: the administrator (`isAdmin` = the
    sender is LiquidityInfo.Administrator, an input) ends the lock of every still-locked entry of the token the call
    carries; the entries stay, their owners cancel them as matured ones. -/
def unlockEntry (c : Ctx) (e : LStakeE) : LStakeE :=
  if e.tok = c.token ∧ e.expiration > c.now then { e with expiration := c.now } else e

def unlockLiquidityStakeEntries (isAdmin : Bool) : Method Liquidity := fun s c =>
  if c.amount ≠ 0 then none
  else if !isAdmin then none
  else some ({ s with entries := s.entries.map fun ke => (ke.1, unlockEntry c ke.2) }, [])

/-- SetTokenTupleMethod.ReceiveBlock once its time challenge is over: the administrator replaces the token tuples -/
def setLiquidityTuples (isAdmin : Bool) (ts : List (Tok × Nat)) : Method Liquidity := fun s c =>
  if c.amount ≠ 0 then none
  else if !isAdmin then none
  else some ({ s with tuples := ts }, [])

/-- computeLiquidityStakeRewardsForEpoch (the only effect on the entries): deletion of a cancelled entry -/
def Liquidity.collect (s : Liquidity) (k : Addr × Hash) : Option Liquidity :=
  match lookup k s.entries with
  | none => none
  | some e => if e.amount = 0 ∧ e.revoke ≠ 0 then some { s with entries := erase k s.entries } else none

/-- BurnZnnMethod.ReceiveBlock (accelerator spork active; `isSpork` = the caller is the spork address, checked by
    ValidateSendBlock): burns `amount` ZNN out of the contract's balance, whatever that balance is made of. The Go
    method's own "balance ≥ amount, else error" is the funds check of `applyPayout` followed by the refund. -/
def liquidityBurnZnn (amount : Nat) (isSpork : Bool) : Method Liquidity := fun s _ =>
  if !isSpork then none else some (s, [⟨tokenContract, znnTok, amount, .burn⟩])

/-- what the liquidity contract owes its stakers in one token -/
def liquidityOwed (s : Liquidity) (tok : Tok) : Nat := total (fun e => if e.tok = tok then e.amount else 0) s.entries

inductive LiquidityOp where
  | stake (duration : Int)
  | cancel (id : Hash)
  deriving Repr

def LiquidityOp.method (P : Params) : LiquidityOp → Method Liquidity
  | .stake d => liquidityStake P d
  | .cancel id => cancelLiquidityStake id

/-! ### bridge.go: unwrap requests and their redemption
(administration, time challenges, wrap requests and fees excluded; what the methods read from the administrator's
configuration — may the bridge act, the token pair found — and the TSS signature check are oracle inputs) -/

structure UnwrapReq where
  regHeight : Nat          -- RegistrationMomentumHeight
  toAddr : Addr            -- ToAddress named in the signed request
  tokenAddress : Nat       -- foreign token address (opaque)
  tok : Tok                -- TokenStandard of the pair found at registration
  amount : Nat
  redeemed : Nat           -- uint8 flags
  revoked : Nat
  deriving DecidableEq, Repr

structure Bridge where
  requests : List ((Hash × Nat) × UnwrapReq) := []     -- key (transaction hash, log index)
  deriving Repr

/-- the token pair the code finds in the network configuration -/
structure PairInfo where
  tok : Tok
  redeemable : Bool
  owned : Bool
  redeemDelay : Nat
  deriving DecidableEq, Repr

/-- UnwrapTokenMethod.ReceiveBlock. `canAct` = CanPerformAction succeeds; `pair` = CheckNetworkAndPairExist (none = unknown
    network or no pair); `sigOk` = CheckECDSASignature(GetUnwrapTokenRequestMessage(param), TSS key, signature). -/
def unwrapToken (canAct sigOk : Bool) (pair : Option PairInfo) (tx : Hash) (log : Nat) (to : Addr) (tokenAddress amount : Nat) : Method Bridge := fun s c =>
  if amount = 0 then none
  else if c.amount ≠ 0 then none
  else if !canAct then none
  else if (lookup (tx, log) s.requests).isSome then none
  else match pair with
    | none => none
    | some p =>
      if !p.redeemable then none
      else if !sigOk then none
      else some ({ requests := put (tx, log) ⟨c.height, to, tokenAddress, p.tok, amount, 0, 0⟩ s.requests }, [])

/-- RedeemMethod.ReceiveBlock. `pair` = the first pair of the request's network whose token standard or token address
    matches the request. For a token not owned by the bridge the Go method's own balance check is the funds check of
    `applyPayout` followed by the refund. -/
def redeemUnwrap (canAct : Bool) (pair : Option PairInfo) (tx : Hash) (log : Nat) : Method Bridge := fun s c =>
  if c.amount ≠ 0 then none
  else if !canAct then none
  else match lookup (tx, log) s.requests with
    | none => none
    | some r =>
      if r.redeemed > 0 ∨ r.revoked > 0 then none
      else match pair with
        | none => none
        | some p =>
          if c.height - r.regHeight < p.redeemDelay then none
          else
            let s' : Bridge := { requests := put (tx, log) { r with redeemed := 1 } s.requests }
            if p.owned then some (s', [⟨tokenContract, p.tok, 0, .mint p.tok r.amount r.toAddr⟩])
            else some (s', [⟨r.toAddr, p.tok, r.amount, .none⟩])

/-- RevokeUnwrapRequestMethod.ReceiveBlock; `isAdmin` = the caller is the bridge administrator -/
def revokeUnwrap (isAdmin : Bool) (tx : Hash) (log : Nat) : Method Bridge := fun s c =>
  if c.amount ≠ 0 then none
  else match lookup (tx, log) s.requests with
    | none => none
    | some r =>
      if !isAdmin then none
      else some ({ requests := put (tx, log) { r with revoked := 1 } s.requests }, [])

/-! ### vm.go: generateEmbeddedReceive / rollbackEmbedded -/

abbrev Bal := List (Tok × Nat)
def Bal.get (b : Bal) (t : Tok) : Nat := (lookup t b).getD 0
def Bal.set (b : Bal) (t : Tok) (v : Nat) : Bal := put t v b

/-- applySend of one descendant block: a send to an embedded address must name a method of that contract and pass its
    validation; enoughFunds; SubBalance -/
def applyPayout (b : Bal) (p : Payout) : Option Bal :=
  if isEmbedded p.dst && !p.call.validFor p.dst p.amt then none
  else if p.tok ≠ zeroTok ∧ b.get p.tok < p.amt then none
  else some (b.set p.tok (b.get p.tok - p.amt))

def applyPayouts (b : Bal) : List Payout → Option Bal
  | [] => some b
  | p :: ps => match applyPayout b p with
    | none => none
    | some b' => applyPayouts b' ps

/-- the refund of rollbackEmbedded -/
def refundOf (c : Ctx) : List Payout := if c.amount > 0 then [⟨c.sender, c.token, c.amount, .none⟩] else []

structure Result (σ : Type) where
  st : σ
  bal : Bal
  status : Nat               -- 1 = applied, 2 = failed and refunded
  descs : List Payout

/-- generateEmbeddedReceive: credit the amount, run the method, apply its descendant sends; on any error restore the
    storage and send the amount back -/
def vmStep {σ : Type} (m : Method σ) (st : σ) (bal : Bal) (c : Ctx) : Result σ :=
  let bal1 := bal.set c.token (bal.get c.token + c.amount)
  let refund : Result σ := ⟨st, (if c.amount > 0 then bal1.set c.token (bal1.get c.token - c.amount) else bal1), 2, refundOf c⟩
  match m st c with
  | none => refund
  | some (st', ps) =>
    match applyPayouts bal1 ps with
    | none => refund
    | some bal2 => ⟨st', bal2, 1, ps⟩

end ZV.Contracts
