import ZenonVerif.Model.Num
import ZenonVerif.Model.AbiTy
import ZenonVerif.Gen.Abi
/-
C09-T3 — the embedded-contract ABI decoder, vm/abi/{unpack.go, argument.go, abi.go, type.go, pack.go, numbers.go}.

The decoder is where hostile call data is parsed: on the send path (`ValidateSendBlock`) and again on the receive path of a
producing pillar (every `ReceiveBlock` starts with `ValidateSendBlock`), which has no `recover`. The model follows the Go
control flow line by line and makes every slice expression `output[a:b]` explicit: `goSlice` returns `panic` where Go's
bounds check would fail, `makeSlice` returns `panic` where `reflect.MakeSlice` would be asked for more than the runtime
can allocate. Go `int` is 64-bit two's complement: every `int` addition/multiplication goes through `wrap64`; `big.Int`
arithmetic is exact; the conversions `big.Int.Uint64()` and `int(uint64)` are `u64`/`toInt64`.

Outcome of every function: `ok v` (Go returns a value), `err` (Go returns an error), `panic` (Go would panic).

Conservative point (documented, not hidden): Go bounds a slice expression by the *capacity* of the operand, the model by
its *length* (capacity ≥ length, and the capacity of a block's `Data` is not observable). So `panic` in the model is
necessary, not sufficient, for a Go panic; the theorem `abi_no_panic` (model never panics) therefore transfers.
-/
namespace ZV.Abi
open ZV

/-- outcome of a Go function that may return a value, return an error, or panic -/
inductive Res (α : Type) where
  | ok (v : α)
  | err
  | panic
  deriving Repr, DecidableEq, Inhabited

namespace Res
@[inline] def bind {α β : Type} (r : Res α) (f : α → Res β) : Res β :=
  match r with
  | .ok v => f v
  | .err => .err
  | .panic => .panic
instance : Monad Res where
  pure := .ok
  bind := Res.bind
end Res

/-- decoded Go values. `num`: uintN / intN (Go value: int8..int64 are signed, everything else non-negative);
    `bytes`: string, []byte, address, tokenStandard, hash, [n]byte; `list`: slices and arrays -/
inductive Val where
  | num (n : Int)
  | bool (b : Bool)
  | bytes (b : Bytes)
  | list (vs : List Val)
  deriving Repr, Inhabited

/-! ## Go integer conversions -/

def i63 : Int := 9223372036854775808      -- 2^63
def i64 : Int := 18446744073709551616     -- 2^64

/-- value of a 64-bit two's complement `int` after an arithmetic operation on mathematical integers -/
def wrap64 (x : Int) : Int := (x + i63) % i64 - i63

/-- Go `a + b` on `int` -/
def iadd (a b : Int) : Int := wrap64 (a + b)
/-- Go `a - b` on `int` -/
def isub (a b : Int) : Int := wrap64 (a - b)
/-- Go `a * b` on `int` -/
def imul (a b : Int) : Int := wrap64 (a * b)

/-- `big.Int.Uint64()` of a non-negative big integer: the low 64 bits -/
def u64 (n : Nat) : Nat := n % two64
/-- `int(x)` for `x : uint64` -/
def toInt64 (n : Nat) : Int := wrap64 (n : Int)

/-- `big.Int.BitLen()` -/
def bitLen (n : Nat) : Nat := if n = 0 then 0 else Nat.log2 n + 1

/-- `reflect.MakeSlice` / runtime `maxAlloc` on linux/amd64 (2^48 bytes) -/
def maxAlloc : Nat := 281474976710656

/-- upper bound of `unsafe.Sizeof` of the Go type of any ABI element (types.Hash = 32 bytes is the largest) -/
def maxElemSize : Nat := 32

def wordSize : Int := Gen.abiWordSize

/-! ## slice expressions -/

/-- Go `b[lo:hi]` -/
def goSlice (b : Bytes) (lo hi : Int) : Res Bytes :=
  if 0 ≤ lo ∧ lo ≤ hi ∧ hi ≤ (b.length : Int) then .ok ((b.drop lo.toNat).take (hi.toNat - lo.toNat)) else .panic

/-- Go `b[lo:]` -/
def goSliceFrom (b : Bytes) (lo : Int) : Res Bytes := goSlice b lo b.length

/-- Go `b[i]` -/
def goIndex (b : Bytes) (i : Int) : Res Nat :=
  if 0 ≤ i ∧ i < (b.length : Int) then .ok (b.getD i.toNat 0) else .panic

/-- `reflect.MakeSlice(t, size, size)`: panics for a negative length or when the allocation exceeds `maxAlloc` -/
def makeSlice (size : Int) : Res Unit :=
  if 0 ≤ size ∧ size * maxElemSize ≤ maxAlloc then .ok () else .panic

/-! ## vm/abi/unpack.go -/

/-- signed reading of an unsigned `bits`-bit value: `int8(x)`, `int16(x)`, … -/
def signed (bits : Nat) (x : Nat) : Int := if x < 2 ^ (bits - 1) then x else (x : Int) - (2 ^ bits : Nat)

/-- `readInteger(kind, b)`: `b[len(b)-k:]` big-endian for the machine widths (all other bytes of the word are ignored),
    `new(big.Int).SetBytes(b)` — unsigned, no range check — for every other width, signed or not. -/
def readInteger (isSigned : Bool) (bits : Nat) (b : Bytes) : Res Val :=
  if bits = 8 then do
    let x ← goIndex b (isub b.length 1)
    pure (.num (if isSigned then signed 8 x else x))
  else if bits = 16 ∨ bits = 32 ∨ bits = 64 then do
    let s ← goSliceFrom b (isub b.length (bits / 8 : Nat))
    -- binary.BigEndian.UintN(s) indexes s[0..N/8-1]
    if s.length < bits / 8 then .panic
    else
      let x := beVal (s.take (bits / 8))
      pure (.num (if isSigned then signed bits x else x))
  else pure (.num (beVal b))

/-- `readBool(word)`: `word[:31]` all zero and `word[31]` ∈ {0,1}, anything else is errBadBool -/
def readBool (word : Bytes) : Res Val := do
  let hd ← goSlice word 0 31
  if hd.any (· != 0) then .err
  else
    let l ← goIndex word 31
    if l = 0 then pure (.bool false) else if l = 1 then pure (.bool true) else .err

/-- `readFixedBytes(t, word)`: `word[0:t.Size]` copied into a `[t.Size]byte` -/
def readFixedBytes (n : Nat) (word : Bytes) : Res Val := do
  let s ← goSlice word 0 n
  pure (.bytes s)

/-- `getFullElemSize(elem)` (int arithmetic) -/
def fullElemSize : Ty → Int
  | .array n e => imul (fullElemSize e) n
  | _ => wordSize

/-- `getArraySize(arr)` for `arr = array n e` (int arithmetic) -/
def arraySize (n : Nat) (e : Ty) : Int :=
  match e with
  | .array m e' => imul n (arraySize m e')
  | _ => n

/-- `lengthPrefixPointsTo(index, output)` → (start, length) -/
def lengthPrefixPointsTo (index : Int) (output : Bytes) : Res (Int × Int) := do
  let w ← goSlice output index (iadd index wordSize)
  let bigOffsetEnd : Nat := beVal w + 32                      -- big.Int, exact
  let outputLength : Nat := output.length                     -- SetInt64(int64(len(output)))
  if bigOffsetEnd > outputLength then .err                    -- errBigSliceOffsetOverflow
  else if bitLen bigOffsetEnd > 63 then .err                  -- errBigOffsetOverflow
  else do
    let offsetEnd := toInt64 (u64 bigOffsetEnd)               -- int(bigOffsetEnd.Uint64())
    let lw ← goSlice output (isub offsetEnd wordSize) offsetEnd
    let lengthBig : Nat := beVal lw
    let totalSize : Nat := bigOffsetEnd + lengthBig
    if bitLen totalSize > 63 then .err                        -- errBigLengthOverflow
    else if totalSize > outputLength then .err                -- errInsufficientBigLength
    else pure (toInt64 (u64 bigOffsetEnd), toInt64 (u64 lengthBig))

/-- the loop of `forEachUnpack`: `for i, j := start, 0; j < size; i, j = i+elemSize, j+1 { toGoType(i, *t.Elem, output) }` -/
def unpackLoop (dec : Int → Bytes → Res Val) (elemSize : Int) (output : Bytes) : Int → Nat → Res (List Val)
  | _, 0 => pure []
  | i, n + 1 => do
    let v ← dec i output
    let vs ← unpackLoop dec elemSize output (iadd i elemSize) n
    pure (v :: vs)

/-- `forEachUnpack(t, output, start, size)` with `dec = toGoType(·, *t.Elem, ·)`; `isSlice`: t.T == SliceTy (MakeSlice),
    otherwise ArrayTy (`reflect.New(t.Type).Elem()`, a fixed Go type, no run-time size) -/
def forEachUnpack (dec : Int → Bytes → Res Val) (isSlice : Bool) (elemSize : Int) (output : Bytes) (start size : Int) : Res Val :=
  if size < 0 then .err                                                        -- errNegativeInputSize
  else if iadd start (imul wordSize size) > (output.length : Int) then .err    -- errArrayOffsetOverflow
  else do
    let _ ← (if isSlice then makeSlice size else pure ())
    let vs ← unpackLoop dec elemSize output start size.toNat
    pure (.list vs)

/-- `toGoType(index, t, output)` -/
def toGoType : Ty → Int → Bytes → Res Val
  | t, index, output =>
    if iadd index wordSize > (output.length : Int) then .err                    -- errInsufficientLength
    else
      match t with
      | .string => do
          let (b, l) ← lengthPrefixPointsTo index output
          let s ← goSlice output b (iadd b l)
          pure (.bytes s)
      | .bytes => do
          let (b, l) ← lengthPrefixPointsTo index output
          let s ← goSlice output b (iadd b l)
          pure (.bytes s)
      | .slice e => do
          let (b, l) ← lengthPrefixPointsTo index output
          let sub ← goSliceFrom output b
          forEachUnpack (toGoType e) true wordSize sub 0 l
      | .array n e => do
          let _ ← goSlice output index (iadd index wordSize)                    -- returnOutput (unused for arrays)
          forEachUnpack (toGoType e) false (fullElemSize e) output index n
      | .uint bits => do
          let w ← goSlice output index (iadd index wordSize)
          readInteger false bits w
      | .int bits => do
          let w ← goSlice output index (iadd index wordSize)
          readInteger true bits w
      | .bool => do
          let w ← goSlice output index (iadd index wordSize)
          readBool w
      | .address => do
          let w ← goSlice output index (iadd index wordSize)
          let a ← goSlice w (wordSize - Gen.abiAddressSize) wordSize             -- BytesToAddress: error ignored, length is right
          pure (.bytes a)
      | .tokenStandard => do
          let w ← goSlice output index (iadd index wordSize)
          let a ← goSlice w (wordSize - Gen.abiTokenStandardSize) wordSize
          pure (.bytes a)
      | .hash => do
          let w ← goSlice output index (iadd index wordSize)
          let a ← goSlice w (wordSize - Gen.abiHashSize) wordSize
          if a.length = Gen.abiHashSize then pure (.bytes a) else .err           -- BytesToHash's error is returned
      | .fixedBytes n => do
          let w ← goSlice output index (iadd index wordSize)
          readFixedBytes n w

/-! ## vm/abi/argument.go -/

/-- `Arguments.UnpackValues(data)`: argument `k` is read at `(k + virtualArgs) * 32` -/
def unpackValues : List Ty → Int → Int → Bytes → Res (List Val)
  | [], _, _, _ => pure []
  | t :: ts, index, virtualArgs, data => do
    let r := toGoType t (imul (iadd index virtualArgs) wordSize) data
    let va := match t with
      | .array n e => iadd virtualArgs (isub (arraySize n e) 1)
      | _ => virtualArgs
    let v ← r
    let vs ← unpackValues ts (iadd index 1) va data
    pure (v :: vs)

/-- `Arguments.Unpack(v, data)` into a target of the right shape (a struct with one field of the argument's Go type per
    argument for a tuple, a pointer to a variable of the argument's Go type for a single argument): `unpackTuple` /
    `unpackAtomic` then only copy. With no arguments `unpackAtomic` fails (`len(marshalledValues) != 1`). -/
def unpack (tys : List Ty) (data : Bytes) : Res (List Val) := do
  let vs ← unpackValues tys 0 0 data
  if tys.length = 0 then .err else pure vs

/-! ## vm/abi/abi.go -/

/-- `ABIContract.UnpackMethod(v, name, input)` for the method with selector `sel` and argument types `tys`.
    `MethodById(input[0:4])` finds the method iff the first four bytes are its selector (selectors are pairwise distinct
    within every embedded ABI — `C09Abi.selectors_distinct`). -/
def unpackMethod (sel : Bytes) (tys : List Ty) (input : Bytes) : Res (List Val) :=
  if input.length ≤ 4 then .err                       -- errEmptyInput
  else do
    let id ← goSlice input 0 4
    if id = sel then do
      let body ← goSliceFrom input 4
      unpack tys body
    else .err                                         -- errCouldNotLocateNamedMethod

/-- `ABIContract.UnpackEmptyMethod(name, input)` -/
def unpackEmptyMethod (sel : Bytes) (input : Bytes) : Res (List Val) :=
  if input.length < 4 then .err
  else if input.length > 4 then .err
  else do
    let id ← goSlice input 0 4
    if id = sel then pure [] else .err

/-! ## vm/abi/pack.go, type.go `pack`, argument.go `Pack` (the encoder `ValidateSendBlock` re-packs with) -/

def two256 : Nat := 2 ^ 256

/-- `U256(n)` = `PaddedBigBytes(n & (2^256-1), 32)`: two's complement, 32 bytes big-endian -/
def packNum (n : Int) : Bytes := beBytes 32 (n % (two256 : Int)).toNat

def ceil32 (n : Nat) : Nat := (n + 31) / 32 * 32

/-- `common.RightPadBytes(b, l)` -/
def rightPad (b : Bytes) (l : Nat) : Bytes := if l ≤ b.length then b else b ++ List.replicate (l - b.length) 0
/-- `common.LeftPadBytes(b, l)` -/
def leftPad (b : Bytes) (l : Nat) : Bytes := if l ≤ b.length then b else List.replicate (l - b.length) 0 ++ b

/-- `packBytesSlice(bytes, l)` -/
def packBytesSlice (b : Bytes) (l : Nat) : Bytes := packNum l ++ rightPad b (ceil32 l)

def Ty.isDynamic : Ty → Bool
  | .string | .bytes | .slice _ => true
  | _ => false

/-- `getTypeSize(t)` -/
def typeSize : Ty → Nat
  | .array n e => if e.isDynamic then 32 else match e with
      | .array _ _ => n * typeSize e
      | _ => n * 32
  | _ => 32

/-- the element loop of `Type.pack` for slices/arrays: (offsets, packed) -/
def packElems (packE : Val → Option Bytes) (offsetReq : Bool) : List Val → Nat → Option (Bytes × Bytes)
  | [], _ => some ([], [])
  | v :: vs, offset => do
    let val ← packE v
    let (offs, packed) ← packElems packE offsetReq vs (offset + val.length)
    pure ((if offsetReq then packNum offset else []) ++ offs, val ++ packed)

/-- `Type.pack(v)`; `none`: typeCheck / packElement error -/
def pack : Ty → Val → Option Bytes
  | .uint _, .num n => some (packNum n)
  | .int _, .num n => some (packNum n)
  | .bool, .bool b => some (packNum (if b then 1 else 0))
  | .string, .bytes b => some (packBytesSlice b b.length)
  | .bytes, .bytes b => some (packBytesSlice b b.length)
  | .address, .bytes b => if b.length = Gen.abiAddressSize then some (leftPad b 32) else none
  | .tokenStandard, .bytes b => if b.length = Gen.abiTokenStandardSize then some (leftPad b 32) else none
  | .hash, .bytes b => if b.length = Gen.abiHashSize then some (leftPad b 32) else none
  | .fixedBytes n, .bytes b => if b.length = n then some (rightPad b 32) else none
  | .slice e, .list vs => do
      let (offs, packed) ← packElems (pack e) e.isDynamic vs (if e.isDynamic then typeSize e * vs.length else 0)
      pure (packBytesSlice (offs ++ packed) vs.length)
  | .array n e, .list vs =>
      if vs.length = n then do
        let (offs, packed) ← packElems (pack e) e.isDynamic vs (if e.isDynamic then typeSize e * vs.length else 0)
        pure (offs ++ packed)
      else none
  | _, _ => none

/-- the argument loop of `Arguments.Pack`: (ret, variableInput) -/
def packArgsLoop (inputOffset : Nat) : List Ty → List Val → Bytes → Option (Bytes × Bytes)
  | [], [], variableInput => some ([], variableInput)
  | t :: ts, v :: vs, variableInput => do
    let packed ← pack t v
    if t.isDynamic then do
      let (ret, vi) ← packArgsLoop inputOffset ts vs (variableInput ++ packed)
      pure (packNum (inputOffset + variableInput.length) ++ ret, vi)
    else do
      let (ret, vi) ← packArgsLoop inputOffset ts vs variableInput
      pure (packed ++ ret, vi)
  | _, _, _ => none                                                       -- errArgLengthMismatch

/-- head size: `inputOffset` of `Arguments.Pack` -/
def headSize : List Ty → Nat
  | [] => 0
  | .array n _ :: ts => 32 * n + headSize ts
  | _ :: ts => 32 + headSize ts

/-- `Arguments.Pack(args...)` -/
def packArgs (tys : List Ty) (vs : List Val) : Option Bytes := do
  let (ret, vi) ← packArgsLoop (headSize tys) tys vs []
  pure (ret ++ vi)

/-- `ABIContract.PackMethod(name, args...)` -/
def packMethod (sel : Bytes) (tys : List Ty) (vs : List Val) : Option Bytes := do
  let a ← packArgs tys vs
  pure (sel ++ a)

/-! ## rendering (line protocol of the `abi` stream) -/

mutual
def renderVal : Val → String
  | .num n => toString n
  | .bool b => if b then "true" else "false"
  | .bytes b => showHex b
  | .list vs => "[" ++ renderVals vs ++ "]"
def renderVals : List Val → String
  | [] => ""
  | [v] => renderVal v
  | v :: vs => renderVal v ++ "," ++ renderVals vs
end

def renderTuple (vs : List Val) : String :=
  if vs.isEmpty then "-" else ";".intercalate (vs.map renderVal)

/-- the `abi` operation of the stream: decode, and on success re-pack the decoded values -/
def decodeCase (sel : Bytes) (tys : List Ty) (input : Bytes) : Res (List Val) :=
  if tys.isEmpty then unpackEmptyMethod sel input else unpackMethod sel tys input

def runCase (sel : Bytes) (tys : List Ty) (input : Bytes) : String :=
  match decodeCase sel tys input with
  | .panic => "panic"
  | .err => "err"
  | .ok vs =>
    match packMethod sel tys vs with
    | some d => s!"ok {renderTuple vs} {showHex d}"
    | none => s!"ok {renderTuple vs} repack-error"

def lookupSig (abi method : String) : Option (Bytes × List Ty) :=
  (Gen.abiSignatures.find? (fun s => s.1 == abi && s.2.1 == method)).map (fun s => (s.2.2.1, s.2.2.2))

end ZV.Abi
