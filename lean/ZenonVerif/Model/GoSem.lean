/-
L12 (support) — the Go semantics the translator `zvh facts` (harness/cmd/zvh/f_translate.go) refers to.
Hand-written, core Lean only, small on purpose: every definition here is part of the trusted base of the
translated subset (DESIGN.md §2 L12, §6). `Gen/Translated.lean` (regenerated) imports this file and nothing else.

Representation chosen by the translator:
  uint64 / int64 / int  ↦ BitVec 64   (int is the 64-bit int of the supported targets; signed operations are
                                        `BitVec.sdiv` / `BitVec.srem` / comparisons on `BitVec.toInt`)
  uint32                ↦ BitVec 32
  bool                  ↦ Bool
  *big.Int              ↦ Int          (`Option Int` for a parameter the function compares with nil)
  types.Hash & co.      ↦ List Nat     (`[N]byte` named types: the bytes, each < 256 — `ZV.Bytes`)
  [8]byte               ↦ List Nat
  error                 ↦ Option String (nil = none; a sentinel `ErrX` = some "ErrX"; errors.Errorf/New = some "errorf")
  []byte                ↦ List Nat     (nil and empty are not distinguished; an element `x[i]` ↦ Nat, compared only)
  []int64 / []uint64 / []int (package-level tables of constants, read at their initial value) ↦ List (BitVec 64)
  for i := a; i < b; i++ { … }  ↦ `loopThen (forIn (upS a b) s₀ (fun i s => …)) (fun s => …)` over the loop-carried locals
-/
namespace ZV.Go

/-- outcome of a translated function that can panic, or of a translated fragment of a function -/
inductive Res (α : Type) where
  | ok (a : α)       -- function: the returned values; fragment: the values of the output variables at its end
  | panic            -- run-time panic: integer division by zero, nil *big.Int used, explicit `panic(...)`
  | exit (k : Nat)   -- fragment only: the k-th `return` of the fragment (source order) left the function
  deriving DecidableEq, Repr

/-- `bytes.Compare` as an `int`: -1 / 0 / +1, lexicographic, a proper prefix is smaller -/
def bytesCompareInt : List Nat → List Nat → Int
  | [], [] => 0
  | [], _ :: _ => -1
  | _ :: _, [] => 1
  | a :: as, b :: bs => if a < b then -1 else if b < a then 1 else bytesCompareInt as bs

def bytesCompare (a b : List Nat) : BitVec 64 := BitVec.ofInt 64 (bytesCompareInt a b)

/-- `x.Cmp(y)` -/
def bigCmp (x y : Int) : BitVec 64 := if x < y then BitVec.ofInt 64 (-1) else if x = y then 0#64 else 1#64
/-- `x.Sign()` -/
def bigSign (x : Int) : BitVec 64 := bigCmp x 0
/-- `x.Uint64()`: the low 64 bits of |x| ("undefined" in the documentation for values that do not fit; this is what
    math/big does: `low64(x.abs)`) -/
def bigUint64 (x : Int) : BitVec 64 := BitVec.ofNat 64 x.natAbs
/-- `x.IsUint64()` -/
def bigIsUint64 (x : Int) : Bool := decide (0 ≤ x ∧ x < 18446744073709551616)
/-- `x.BitLen()`: the length of |x| in bits, 0 for 0 -/
def bigBitLen (x : Int) : BitVec 64 := BitVec.ofNat 64 (if x = 0 then 0 else Nat.log2 x.natAbs + 1)
/-- `z.Quo(x, y)` for y ≠ 0: truncated toward zero (the translator guards y = 0 as a panic) -/
def bigQuo (x y : Int) : Int := Int.tdiv x y
/-- `z.Div(x, y)` for y ≠ 0: Euclidean division (remainder ≥ 0) -/
def bigDiv (x y : Int) : Int := Int.ediv x y
/-- `z.Exp(x, y, nil)`: x^y, and 1 for y ≤ 0 -/
def bigExp (x y : Int) : Int := x ^ y.toNat
/-- `z.SetUint64(v)` -/
def bigOfU64 (v : BitVec 64) : Int := (v.toNat : Int)
/-- `big.NewInt(v)` / `z.SetInt64(v)` -/
def bigOfI64 (v : BitVec 64) : Int := v.toInt

/-- `binary.LittleEndian.PutUint64(b[:], v)` on an `[8]byte` -/
def le8 (v : BitVec 64) : List Nat :=
  (List.range 8).map (fun i => (v.toNat / 256 ^ i) % 256)

/-- the zero value of `[8]byte` -/
def zero8 : List Nat := List.replicate 8 0

/-! ### slices, package-level tables, counting loops (round 6) -/

/-- `len(x)` as an `int` -/
def len {α : Type} (l : List α) : BitVec 64 := BitVec.ofNat 64 l.length

/-- the bounds check of `x[i]` for a signed index: Go panics (index out of range) iff `i < 0 ∨ i ≥ len(x)` -/
def oobS {α : Type} (l : List α) (i : BitVec 64) : Bool := decide (i.toInt < 0) || decide (l.length ≤ i.toNat)
/-- the bounds check of `x[i]` for an unsigned index -/
def oobU {α : Type} (l : List α) (i : BitVec 64) : Bool := decide (l.length ≤ i.toNat)
/-- `x[i]` of a byte slice / byte array once the bounds check passed -/
def atB (l : List Nat) (i : BitVec 64) : Nat := l.getD i.toNat 0
/-- `x[i]` of a slice of 64-bit integers once the bounds check passed -/
def atW (l : List (BitVec 64)) (i : BitVec 64) : BitVec 64 := l.getD i.toNat 0#64

/-- the values the counter of `for i := a; i < b; i++` takes (signed comparison; the body does not assign `i`) -/
def upS (a b : BitVec 64) : List (BitVec 64) := (List.range (b.toInt - a.toInt).toNat).map (fun k => a + BitVec.ofNat 64 k)
/-- the same for an unsigned counter -/
def upU (a b : BitVec 64) : List (BitVec 64) := (List.range (b.toNat - a.toNat)).map (fun k => a + BitVec.ofNat 64 k)
/-- the values the counter of `for i := a; i > b; i--` takes (signed comparison) -/
def downS (a b : BitVec 64) : List (BitVec 64) := (List.range (a.toInt - b.toInt).toNat).map (fun k => a - BitVec.ofNat 64 k)

/-- outcome of one iteration of a translated loop body over the loop-carried variables `σ`:
    fall through / `continue` (next), `break` (brk), or the enclosing function is left (done: return, panic, exit) -/
inductive Step (σ ρ : Type) where
  | next (s : σ)
  | brk (s : σ)
  | done (r : Res ρ)

/-- a counting loop as a fold over the values of its counter, stopping at the first `break` / `return` / panic -/
def forIn {σ ρ : Type} : List (BitVec 64) → σ → (BitVec 64 → σ → Step σ ρ) → Step σ ρ
  | [], s, _ => .next s
  | i :: is, s, body =>
    match body i s with
    | .next s' => forIn is s' body
    | .brk s' => .brk s'
    | .done r => .done r

/-- what follows the loop: runs on the final loop-carried variables unless the loop left the function -/
def loopThen {σ ρ : Type} (r : Step σ ρ) (k : σ → Res ρ) : Res ρ :=
  match r with
  | .next s => k s
  | .brk s => k s
  | .done r => r

end ZV.Go
