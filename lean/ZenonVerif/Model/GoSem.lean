/-
L12 (support) — the Go semantics the translator `zvh facts` (harness/cmd/zvh/f_translate.go) refers to.
Hand-written, core Lean only, small on purpose: every definition here is part of the trusted base of the
translated subset (DESIGN.md §2 L12, §6). `Gen/Translated.lean` (regenerated) imports this file and nothing else.

Representation chosen by the translator:
  uint64 / int64 / int  ↦ BitVec 64   (int is the 64-bit int of the supported targets; signed operations are
                                        `BitVec.sdiv` / `BitVec.srem` / comparisons on `BitVec.toInt`)
  uint32                ↦ BitVec 32
  bool                  ↦ Bool
  *big.Int              ↦ Int          (`Option Int` for a parameter the function compares with nil)
  types.Hash & co.      ↦ List Nat     (`[N]byte` named types: the bytes, each < 256 — `ZV.Bytes`)
  [8]byte               ↦ List Nat
  error                 ↦ Option String (nil = none; a sentinel `ErrX` = some "ErrX"; errors.Errorf/New = some "errorf")
-/
namespace ZV.Go

/-- outcome of a translated function that can panic, or of a translated fragment of a function -/
inductive Res (α : Type) where
  | ok (a : α)       -- function: the returned values; fragment: the values of the output variables at its end
  | panic            -- run-time panic: integer division by zero, nil *big.Int used, explicit `panic(...)`
  | exit (k : Nat)   -- fragment only: the k-th `return` of the fragment (source order) left the function
  deriving DecidableEq, Repr

/-- `bytes.Compare` as an `int`: -1 / 0 / +1, lexicographic, a proper prefix is smaller -/
def bytesCompareInt : List Nat → List Nat → Int
  | [], [] => 0
  | [], _ :: _ => -1
  | _ :: _, [] => 1
  | a :: as, b :: bs => if a < b then -1 else if b < a then 1 else bytesCompareInt as bs

def bytesCompare (a b : List Nat) : BitVec 64 := BitVec.ofInt 64 (bytesCompareInt a b)

/-- `x.Cmp(y)` -/
def bigCmp (x y : Int) : BitVec 64 := if x < y then BitVec.ofInt 64 (-1) else if x = y then 0#64 else 1#64
/-- `x.Sign()` -/
def bigSign (x : Int) : BitVec 64 := bigCmp x 0
/-- `x.Uint64()`: the low 64 bits of |x| ("undefined" in the documentation for values that do not fit; this is what
    math/big does: `low64(x.abs)`) -/
def bigUint64 (x : Int) : BitVec 64 := BitVec.ofNat 64 x.natAbs
/-- `x.IsUint64()` -/
def bigIsUint64 (x : Int) : Bool := decide (0 ≤ x ∧ x < 18446744073709551616)
/-- `z.Quo(x, y)` for y ≠ 0: truncated toward zero (the translator guards y = 0 as a panic) -/
def bigQuo (x y : Int) : Int := Int.tdiv x y
/-- `z.Div(x, y)` for y ≠ 0: Euclidean division (remainder ≥ 0) -/
def bigDiv (x y : Int) : Int := Int.ediv x y
/-- `z.Exp(x, y, nil)`: x^y, and 1 for y ≤ 0 -/
def bigExp (x y : Int) : Int := x ^ y.toNat
/-- `z.SetUint64(v)` -/
def bigOfU64 (v : BitVec 64) : Int := (v.toNat : Int)
/-- `big.NewInt(v)` / `z.SetInt64(v)` -/
def bigOfI64 (v : BitVec 64) : Int := v.toInt

/-- `binary.LittleEndian.PutUint64(b[:], v)` on an `[8]byte` -/
def le8 (v : BitVec 64) : List Nat :=
  (List.range 8).map (fun i => (v.toNat / 256 ^ i) % 256)

/-- the zero value of `[8]byte` -/
def zero8 : List Nat := List.replicate 8 0

end ZV.Go
