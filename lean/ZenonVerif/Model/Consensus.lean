import ZenonVerif.Model.Num
import ZenonVerif.Gen.Consensus
import ZenonVerif.Gen.Consts
/-
L6 — consensus: election algorithm, ticker, schedule, proof momentum, momentum verifier.
Stands for common/ticker.go, consensus/{election_algorithm,election,consensus,context}.go,
common/types/pillar_delegation.go, chain/momentum/range.go, verifier/momentum.go.
Go's `sort.Sort` and `math/rand.Perm` are parameters (`sort`, `perm`); crypto is a set of oracle booleans.
-/
namespace ZV.Consensus
open ZV

/-! ## Go integer conversions -/

def two64i : Int := 18446744073709551616

/-- `int64(x)` for a `uint64` value x (given as a natural number, reduced mod 2^64) -/
def toInt64 (n : Nat) : Int :=
  let m := n % two64
  if m < two63 then (m : Int) else (m : Int) - two64i

/-- wrap-around of an `int64` computation -/
def wrap64 (i : Int) : Int := toInt64 (i % two64i).toNat

/-- `uint64(x)` for an `int64` value x -/
def toUInt64 (i : Int) : Nat := (i % two64i).toNat

/-! ## Election (consensus/election_algorithm.go) -/

/-- `types.PillarDelegation` -/
structure PD where
  name : Bytes
  producing : Bytes
  weight : Int
deriving DecidableEq, Repr, Inhabited

/-- `SortPDByWeight.Less(i, j)` with a = a[i], b = a[j]:
    `r := b.Weight.Cmp(a.Weight); if r == 0 { return a.Name < b.Name } else { return r < 0 }`
    (Go string `<` is bytewise lexicographic). -/
def pdLess (a b : PD) : Bool :=
  if b.weight = a.weight then bytesLt a.name b.name else decide (b.weight < a.weight)

/-- what `sort.Sort` establishes between an earlier element a and a later element b: `!Less(b, a)` -/
def pdLe (a b : PD) : Bool := !pdLess b a

/-- a concrete sorting function (stable insertion sort) used by the driver; every theorem is stated for
    an arbitrary `sort` that returns a sorted permutation, so Go's unstable pdqsort is covered. -/
def insertPD (x : PD) : List PD → List PD
  | [] => [x]
  | y :: ys => if pdLe x y then x :: y :: ys else y :: insertPD x ys

def sortPD : List PD → List PD
  | [] => []
  | x :: xs => insertPD x (sortPD xs)

/-- outcome of running Go code that may not return -/
inductive Outcome where
  | ok (l : List PD)
  | hang      -- the `for len(result) < total` loop never makes progress
  | panic     -- index / slice bounds out of range
deriving DecidableEq, Repr

/-- `for _, v := range idx { result = append(result, g[v]) }` — `none` = index out of range -/
def pick (g : List PD) (idx : List Nat) : Option (List PD) :=
  if idx.all (fun i => decide (i < g.length)) then some (idx.map (fun i => g.getD i default)) else none

/-- `electionAlgorithm.filterByWeight` -/
def filterByWeight (sort : List PD → List PD) (nodeCount : Nat) (delegs : List PD) : List PD × List PD :=
  if delegs.length ≤ nodeCount then (delegs, [])
  else
    let s := sort delegs
    (s.take nodeCount, s.drop nodeCount)

/-- the loop `for len(result) < total { arr := Perm(len(groupA)); for .. { append groupA[index] } }`;
    `round` is what one pass appends (`none`: the pass panics). One pass appends the same elements every
    time (same seed), so a pass that appends nothing repeats forever: with `fuel = total` passes the loop
    has either finished or will never finish. -/
def fillLoop (round : Option (List PD)) (total : Nat) : Nat → List PD → Outcome
  | 0, acc => if acc.length < total then .hang else .ok acc
  | fuel + 1, acc =>
    if acc.length < total then
      match round with
      | none => .panic
      | some r => fillLoop round total fuel (acc ++ r)
    else .ok acc

/-- `electionAlgorithm.filterRandom` after the two `sort.Sort` calls (gA, gB sorted) -/
def filterRandomSorted (perm : Int → Nat → List Nat) (nodeCount randCount : Nat)
    (gA gB : List PD) (seed : Int) : Outcome :=
  if nodeCount ≠ gA.length then
    match fillLoop (pick gA (perm seed gA.length)) nodeCount nodeCount [] with
    | .ok r => .ok (r.take nodeCount)
    | o => o
  else if randCount > nodeCount then .panic   -- topTotal < 0: `topIndex[index]` with a negative index
  else
    let topTotal := nodeCount - randCount
    let topIndex := perm seed gA.length
    if topIndex.length < nodeCount then .panic else
    match pick gA (topIndex.take topTotal), pick gA ((topIndex.drop topTotal).take randCount) with
    | some top, some rest =>
      let gB' := gB ++ rest
      let p2 := perm (wrap64 (seed + 1)) gB'.length
      if p2.length < randCount then .panic else
      match pick gB' (p2.take randCount) with
      | some promo => .ok (top ++ promo)
      | none => .panic
    | _, _ => .panic

/-- `electionAlgorithm.filterRandom` -/
def filterRandom (sort : List PD → List PD) (perm : Int → Nat → List Nat) (nodeCount randCount : Nat)
    (gA0 gB0 : List PD) (seed : Int) : Outcome :=
  filterRandomSorted perm nodeCount randCount (sort gA0) (sort gB0) seed

/-- `electionAlgorithm.shuffleOrder` -/
def shuffleOrder (perm : Int → Nat → List Nat) (producers : List PD) (seed : Int) : Outcome :=
  match pick producers (perm seed producers.length) with
  | some r => .ok r
  | none => .panic

/-- `electionAlgorithm.findSeed`: `int64(context.hashH.Height)` -/
def findSeed (height : Nat) : Int := toInt64 height

/-- `electionAlgorithm.SelectProducers` -/
def selectProducers (sort : List PD → List PD) (perm : Int → Nat → List Nat) (nodeCount randCount : Nat)
    (delegs : List PD) (height : Nat) : Outcome :=
  let seed := findSeed height
  let g := filterByWeight sort nodeCount delegs
  match filterRandom sort perm nodeCount randCount g.1 g.2 seed with
  | .ok producers => shuffleOrder perm producers seed
  | o => o

/-- the assumption on `sort.Sort`: the result is a permutation of the input in which no later element is
    `Less` than an earlier one -/
def IsSort (sort : List PD → List PD) : Prop :=
  ∀ l, (sort l).Perm l ∧ (sort l).Pairwise (fun a b => pdLe a b = true)

/-- the assumption on `rand.Perm` -/
def IsPerm (perm : Int → Nat → List Nat) : Prop :=
  ∀ s n, (perm s n).Perm (List.range n)

/-! ## Ticker (common/ticker.go). Instants and durations are integers in nanoseconds. -/

def nsPerSec : Int := 1000000000
def maxDuration : Int := 9223372036854775807
def minDuration : Int := -9223372036854775808

/-- `time.Time.Sub`: the difference, saturated to the int64 nanosecond range -/
def timeSub (t u : Int) : Int :=
  let d := t - u
  if d > maxDuration then maxDuration else if d < minDuration then minDuration else d

/-- `Duration.Seconds()` converted to an integer type. `Seconds()` is `float64(d/Second) + float64(d%Second)/1e9`;
    for a whole number of seconds (all instants on the consensus path are `time.Unix(sec, 0)`, the interval is
    `time.Second * k`) the float is exact (|sec| < 2^34) and the conversion is the truncated quotient. For other
    durations Go's float rounding may add one; the driver refuses such inputs (`wholeSeconds`). -/
def durSeconds (d : Int) : Int := Int.tdiv d nsPerSec

def wholeSeconds (d : Int) : Bool := d % nsPerSec == 0

/-- `common.ticker` -/
structure Ticker where
  start : Int      -- startTime, ns since the Unix epoch
  interval : Int   -- time.Duration, ns
deriving Repr

/-- `ticker.ToTime`: `startTime.Add(interval * time.Duration(tick))`, int64 product with wrap-around -/
def Ticker.toTime (tk : Ticker) (tick : Nat) : Int × Int :=
  (tk.start + wrap64 (tk.interval * toInt64 tick), tk.start + wrap64 (tk.interval * toInt64 (tick + 1)))

/-- `ticker.TickMultiplier` once the two durations are known (`c` = the callee's `cEnd - cStart`, `b` = the bigger
    ticker's, int64 nanoseconds): `c > b` → error; `b % c != 0` → error; else `b / c`.
    `none` = integer divide by zero (c = 0), `some none` = the error answer. -/
def tickMultiplier (c b : Int) : Option (Option Int) :=
  if c > b then some none
  else if c = 0 then none
  else if Int.tmod b c ≠ 0 then some none
  else some (some (wrap64 (Int.tdiv b c)))

/-- `ticker.ToTick`: `uint64(int64(time.Sub(start).Seconds())) / uint64(interval.Seconds())`;
    `none` = integer divide by zero -/
def Ticker.toTick (tk : Ticker) (t : Int) : Option Nat :=
  let subSec := durSeconds (timeSub t tk.start)
  let iv := toUInt64 (durSeconds tk.interval)
  if iv = 0 then none else some (toUInt64 subSec / iv)

/-- `consensus.Context` (NewConsensusContext): ticker interval = BlockTime * NodeCount seconds -/
structure Ctx where
  genesis : Int       -- GenesisTime, ns
  blockTime : Int     -- int64 seconds
  nodeCount : Nat     -- uint8
deriving Repr

/-- `time.Second*time.Duration(uint64(config.BlockTime)*uint64(config.NodeCount))` -/
def Ctx.ticker (c : Ctx) : Ticker :=
  ⟨c.genesis, wrap64 (nsPerSec * toInt64 (toUInt64 c.blockTime * c.nodeCount))⟩

/-- `consensus.ProducerEvent` -/
structure ProducerEvent where
  startTime : Int
  endTime : Int
  producer : Bytes
deriving Repr, DecidableEq

/-- the loop of `generateProducers`: `etime := sTime.Add(Duration(BlockTime) * Second)`; append; `sTime = etime` -/
def genEvents (blockTime : Int) : Int → List Bytes → List ProducerEvent
  | _, [] => []
  | s, a :: as =>
    let e := s + wrap64 (blockTime * nsPerSec)
    ⟨s, e, a⟩ :: genEvents blockTime e as

/-- `consensus.generateProducers(info, tick, producerAddresses)` (nil when the count is not NodeCount) -/
def generateProducers (c : Ctx) (tick : Nat) (addrs : List Bytes) : List ProducerEvent :=
  if addrs.length ≠ c.nodeCount then [] else genEvents c.blockTime (c.ticker.toTime tick).1 addrs

/-- `electionManager.genProofTime` -/
def genProofTime (c : Ctx) (tick : Nat) : Int :=
  if tick < 2 then c.genesis + nsPerSec else (c.ticker.toTime (tick - 2)).2

deriving instance DecidableEq for Except

/-- reasons for which `GetMomentumProducer` returns an error -/
inductive ProducerErr where
  | beforeGenesis      -- ErrElectionBeforeGenesis
  | divByZero          -- panic in ToTick
  | electionFailed     -- getMomentumBeforeTime / ComputePillarDelegations / name lookup failed
  | noSlotStartsHere   -- "couldn't find producer for timestamp"
deriving DecidableEq, Repr

/-- `consensus.GetMomentumProducer(timestamp)`; `elected tick` = `data.Producers` of `ElectionByTick(tick)`
    (the addresses of the election result for the tick's proof momentum) or `none` when that fails. -/
def getMomentumProducer (c : Ctx) (elected : Nat → Option (List Bytes)) (t : Int) : Except ProducerErr Bytes :=
  if t < c.genesis then .error .beforeGenesis          -- ElectionByTime: t.Before(GenesisTime)
  else match c.ticker.toTick t with
    | none => .error .divByZero
    | some tick =>
      if toInt64 tick < 0 then .error .beforeGenesis   -- ElectionByTick: int64(tick) < 0
      else match elected tick with
        | none => .error .electionFailed
        | some addrs =>
          match (generateProducers c tick addrs).find? (fun p => p.startTime == t) with   -- plan.StartTime == timestamp
          | some p => .ok p.producer
          | none => .error .noSlotStartsHere

/-! ## Proof momentum: `GetMomentumBeforeTime` (chain/momentum/range.go)
The chain is the list of momentum timestamps (Unix seconds) by height: `ts[h-1]` is the timestamp of height h. -/

inductive BT where
  | found (height : Nat)
  | none                -- (nil, nil): no momentum before the instant
  | err                 -- GetMomentumByHeight failed / returned nil
  | hang                -- the estimate loop does not terminate
deriving DecidableEq, Repr

/-- specification: the last momentum whose timestamp is earlier than the instant `tNs` (nanoseconds) -/
def beforeSpec (ts : List Int) (tNs : Int) : Option Nat :=
  ((List.range ts.length).reverse.find? (fun i => decide (ts.getD i 0 * nsPerSec < tNs))).map (· + 1)

/-- `GetMomentumByHeight(h).Timestamp.Unix()` -/
def tsAt (ts : List Int) (h : Nat) : Option Int := if h = 0 then none else ts[h - 1]?

/-- Go's `sort.Search(n, f)`: `i, j := 0, n; for i < j { h := (i+j)/2; if !f(h) { i = h+1 } else { j = h } }; return i` -/
def searchLoop (f : Nat → Bool) : Nat → Nat → Nat → Nat
  | 0, i, _ => i
  | fuel + 1, i, j =>
    if i < j then
      let h := (i + j) / 2
      if !f h then searchLoop f fuel (h + 1) j else searchLoop f fuel i h
    else i

def goSearch (n : Nat) (f : Nat → Bool) : Nat := searchLoop f (n + 1) 0 n

/-- `binarySearchBeforeTime(start, end, timeNanosecond)` on heights lo..hi -/
def binarySearchBefore (ts : List Int) (tNs : Int) (lo hi : Nat) : BT :=
  let n := hi - lo + 1
  let i := goSearch n (fun i => match tsAt ts (lo + i) with
    | some b => decide (b * nsPerSec ≥ tNs)
    | none => true)
  if i ≥ n then .none
  else if i = 0 then (match tsAt ts (lo - 1) with | some _ => .found (lo - 1) | none => .err)
  else .found (lo + i - 1)

/-- after the estimate loop: `if high.Height == low.Height+1 { return low }` else binary search -/
def btFinish (ts : List Int) (tNs : Int) (hi lo : Nat) : BT :=
  if hi = lo + 1 then .found lo else binarySearchBefore ts tNs lo hi

/-- one round of the estimate loop; `k` continues the loop with (estimateHeight, highBoundary, lowBoundary) -/
def btBody (ts : List Int) (tNs tSec : Int) (frontierH : Nat) (k : Nat → Option Nat → Option Nat → BT)
    (est : Nat) (high low : Option Nat) : BT :=
  match tsAt ts est with
  | none => .err
  | some b =>
    if b * nsPerSec ≥ tNs then
      -- highBoundary = block; gap := uint64(block.ts - timeSec); if gap <= 0 { gap = 1 }
      let gap0 := toUInt64 (b - tSec)
      let gap := if gap0 = 0 then 1 else gap0
      if est ≤ gap then btFinish ts tNs est 1        -- lowBoundary = genesis; break
      else k (est - gap) (some est) low
    else
      -- lowBoundary = block; estimateHeight = block.Height + uint64(timeSec - block.ts)
      let est' := (est + toUInt64 (tSec - b)) % two64
      k est' (if est' > frontierH then some frontierH else high) (some est)

/-- the estimate loop `for highBoundary == nil || lowBoundary == nil`; boundaries are heights -/
def btLoop (ts : List Int) (tNs tSec : Int) (frontierH : Nat) : Nat → Nat → Option Nat → Option Nat → BT
  | _, _, some hi, some lo => btFinish ts tNs hi lo
  | 0, _, _, _ => .hang
  | fuel + 1, est, high, low => btBody ts tNs tSec frontierH (btLoop ts tNs tSec frontierH fuel) est high low

/-- `momentumStore.GetMomentumBeforeTime(t)`; `tNs` = t.UnixNano(), chain non-empty (genesis = height 1).
    The fuel (2·height+4 rounds) is never exhausted when the loop makes progress; see
    `before_time_subsecond_hangs` for an input on which the real loop spins. -/
def getMomentumBeforeTime (ts : List Int) (tNs : Int) : BT :=
  match ts.head?, ts.getLast? with
  | some g, some f =>
    let frontierH := ts.length
    if g * nsPerSec ≥ tNs then .none
    else if f * nsPerSec < tNs then .found frontierH
    else
      let tSec := tNs / nsPerSec
      let gap := toUInt64 (f - tSec)
      let est := if frontierH > gap then frontierH - gap else 1
      btLoop ts tNs tSec frontierH (2 * frontierH + 4) est none none
  | _, _ => .err

/-! ## Election cache (consensus/election.go `electionManager.generateProducers`, consensus/storage/db.go)
The result is stored under the HASH of the proof momentum and returned from there when present. -/

/-- `em.generateProducers(proofBlock)`: `cached, _ := db.GetElectionResultByHash(hash); if cached != nil { return cached }`,
    otherwise compute from the store of the proof momentum and store it. Returns (result, new cache). -/
def generateProducersCached (cache : Bytes → Option (List Bytes)) (compute : Bytes → List Bytes) (proofHash : Bytes) :
    List Bytes × (Bytes → Option (List Bytes)) :=
  match cache proofHash with
  | some r => (r, cache)
  | none => (compute proofHash, fun h => if h = proofHash then some (compute proofHash) else cache h)

/-! ## Momentum verifier (verifier/momentum.go, vm/supervisor.go ApplyMomentum)
The ORDER of the checks is not written here: it is read from the generated lists `Gen.MV_raw_all` and
`Gen.MV_tx_all` (extracted from the AST of `rawMomentumVerifier.all` / `momentumTransactionVerifier.all`), so a
check removed from the Go code disappears from the model and `momentum_verify_sound` stops being provable. -/

/-- verdicts; the `Err…` names are the identifiers of verifier/errors.go -/
inductive Reason where
  | ErrMNotGenesis | ErrMPrevHashMissing | ErrMPreviousMissing
  | ErrABChainIdentifierMissing | ErrABChainIdentifierMismatch
  | ErrMVersionMissing | ErrMVersionInvalid
  | ErrMTimestampMissing | ErrMTimestampInTheFuture | ErrMTimestampNotIncreasing
  | ErrMDataMustBeZero | ErrMContentTooBig
  | contentSizeMismatch     -- "momentum content size is different than the size of the prefetched account-blocks"
  | contentHeaderMissing    -- header without prefetched block: `isBatched(nil)` dereferences nil (recovered: ErrVmRunPanic)
  | contentGap              -- "gap in previous"
  | vmFailed                -- momentumVM.applyMomentum / context.Changes returned an error
  | ErrMChangesHashInvalid | ErrMHashInvalid
  | ErrMSignatureMissing | ErrMPublicKeyMissing | sigInternal | ErrMSignatureInvalid
  | producerInternal (e : ProducerErr) | ErrMProducerInvalid
  | unknownCheck (name : String)
deriving DecidableEq, Repr

/-- `types.AccountHeader` (an entry of `Momentum.Content`) -/
structure Header where
  address : Bytes
  hash : Bytes
  height : Nat
deriving DecidableEq, Repr

/-- the fields of a prefetched `nom.AccountBlock` that `content()` reads -/
structure PBlock where
  address : Bytes
  hash : Bytes
  height : Nat
  prevHash : Bytes
  batched : Bool      -- `isBatched`: a send block of an embedded contract
deriving DecidableEq, Repr

/-- `nom.Momentum` as far as the verifier reads it -/
structure Momentum where
  version : Nat
  chainId : Nat
  height : Nat
  tsUnix : Nat          -- TimestampUnix (hashed)
  tsCache : Int         -- *Timestamp, ns (cache filled by EnsureCache from TimestampUnix; not hashed)
  hash : Bytes
  prevHash : Bytes
  changesHash : Bytes
  dataLen : Nat
  content : List Header
  pubKeyLen : Nat
  sigLen : Nat
deriving Repr

/-- values computed on the candidate by code that is not modelled (crypto, the momentum VM) -/
structure Oracle where
  computedHash : Bytes   -- momentum.ComputeHash()
  vmOk : Bool            -- applyMomentum and context.Changes() succeed
  patchHash : Bytes      -- db.PatchHash(changes)
  sigErr : Bool          -- wallet.VerifySignature returned an error (malformed key)
  sigOk : Bool           -- ed25519 verdict for (PublicKey, Hash, Signature)
  producer : Bytes       -- types.PubKeyToAddress(PublicKey)
deriving Repr

/-- `chain.GetMomentumStore(identifier)`: the ledger as of one momentum -/
structure StoreView where
  chainId : Nat
  fHash : Bytes          -- GetFrontierMomentum(): hash, height, TimestampUnix
  fHeight : Nat
  fTs : Nat
  accFrontier : Bytes → Option (Bytes × Nat)   -- GetFrontierAccountBlock(address).Identifier()

structure VState where
  storeAt : Bytes → Nat → Option StoreView          -- by (hash, height)
  expected : Int → Except ProducerErr Bytes         -- consensus.GetMomentumProducer(timestamp)

def isZeroHash (h : Bytes) : Bool := h.all (· == 0)

/-- `Momentum.Previous().Height`: `m.Height - 1` in uint64 -/
def prevHeight (m : Momentum) : Nat := (m.height + two64 - 1) % two64

/-- `momentumVerifier.getContext` -/
def getContext (s : VState) (m : Momentum) : Except Reason StoreView :=
  if m.height = 1 then .error .ErrMNotGenesis
  else if isZeroHash m.prevHash then .error .ErrMPrevHashMissing
  else match s.storeAt m.prevHash (prevHeight m) with
    | none => .error .ErrMPreviousMissing
    | some v => .ok v

def chkChainIdentifier (v : StoreView) (m : Momentum) : Except Reason Unit :=
  if m.chainId = 0 then .error .ErrABChainIdentifierMissing
  else if m.chainId ≠ v.chainId then .error .ErrABChainIdentifierMismatch
  else .ok ()

def chkVersion (m : Momentum) : Except Reason Unit :=
  if m.version = 0 then .error .ErrMVersionMissing
  else if m.version ≠ 1 then .error .ErrMVersionInvalid
  else .ok ()

/-- `rawMomentumVerifier.timestamp`; `now` = time.Now() in ns -/
def chkTimestamp (v : StoreView) (now : Int) (m : Momentum) : Except Reason Unit :=
  if m.tsCache / nsPerSec = 0 then .error .ErrMTimestampMissing                         -- Timestamp.Unix() == 0
  else if m.tsCache > now + nsPerSec * Gen.MomentumFutureSeconds then .error .ErrMTimestampInTheFuture
  else if v.fTs ≥ m.tsUnix then .error .ErrMTimestampNotIncreasing
  else .ok ()

def chkPrevious (v : StoreView) (m : Momentum) : Except Reason Unit :=
  if m.height = 1 then .error .ErrMNotGenesis
  else if isZeroHash m.prevHash then .error .ErrMPrevHashMissing
  else if m.prevHash ≠ v.fHash ∨ prevHeight m ≠ v.fHeight then .error .ErrMPreviousMissing
  else .ok ()

def chkData (m : Momentum) : Except Reason Unit :=
  if m.dataLen ≠ 0 then .error .ErrMDataMustBeZero else .ok ()

/-- `blocksLookup[id]`: the map is filled in order, later entries overwrite earlier ones -/
def lookupBlock (blocks : List PBlock) (hash : Bytes) (height : Nat) : Option PBlock :=
  blocks.reverse.find? (fun b => b.hash == hash && b.height == height)

/-- `len(blocksLookup)`: number of distinct identifiers -/
def distinctIds (blocks : List PBlock) : Nat := ((blocks.map fun b => (b.hash, b.height)).eraseDups).length

/-- `previous` of the loop of `content()`: the head recorded for the address, else the account frontier of the
    store, else `types.ZeroHashHeight` -/
def prevOf (v : StoreView) (heads : List (Bytes × Bytes × Nat)) (address : Bytes) : Bytes × Nat :=
  match heads.find? (fun e => e.1 == address) with
  | some e => e.2
  | none => match v.accFrontier address with
    | none => (List.replicate 32 0, 0)
    | some id => id

/-- the loop of `content()`; `heads` = association list address ↦ identifier -/
def contentLoop (v : StoreView) (blocks : List PBlock) : List (Bytes × Bytes × Nat) → List Header → Except Reason Unit
  | _, [] => .ok ()
  | heads, h :: rest =>
    match lookupBlock blocks h.hash h.height with
    | none => .error .contentHeaderMissing
    | some b =>
      if b.batched then contentLoop v blocks heads rest
      else if b.prevHash ≠ (prevOf v heads h.address).1 ∨ (b.height + two64 - 1) % two64 ≠ (prevOf v heads h.address).2
        then .error .contentGap
      else contentLoop v blocks ((h.address, b.hash, b.height) :: heads) rest

def chkContent (v : StoreView) (m : Momentum) (blocks : List PBlock) : Except Reason Unit :=
  if m.content.length > Gen.MaxAccountBlocksInMomentum then .error .ErrMContentTooBig
  else if distinctIds blocks ≠ m.content.length then .error .contentSizeMismatch
  else contentLoop v blocks [] m.content

/-- the checks of `rawMomentumVerifier` by method name -/
def rawCheck (v : StoreView) (now : Int) (m : Momentum) (blocks : List PBlock) : String → Except Reason Unit
  | "chainIdentifier" => chkChainIdentifier v m
  | "version" => chkVersion m
  | "timestamp" => chkTimestamp v now m
  | "previous" => chkPrevious v m
  | "data" => chkData m
  | "content" => chkContent v m blocks
  | n => .error (.unknownCheck n)

def chkChangesHash (m : Momentum) (o : Oracle) : Except Reason Unit :=
  if o.patchHash ≠ m.changesHash then .error .ErrMChangesHashInvalid else .ok ()

def chkHash (m : Momentum) (o : Oracle) : Except Reason Unit :=
  if o.computedHash ≠ m.hash then .error .ErrMHashInvalid else .ok ()

def chkSignature (m : Momentum) (o : Oracle) : Except Reason Unit :=
  if m.sigLen = 0 then .error .ErrMSignatureMissing
  else if m.pubKeyLen = 0 then .error .ErrMPublicKeyMissing
  else if o.sigErr then .error .sigInternal
  else if !o.sigOk then .error .ErrMSignatureInvalid
  else .ok ()

/-- `momentumTransactionVerifier.producer` with `consensus.VerifyMomentumProducer` -/
def chkProducer (s : VState) (m : Momentum) (o : Oracle) : Except Reason Unit :=
  match s.expected m.tsCache with
  | .error e => .error (.producerInternal e)
  | .ok exp => if o.producer = exp then .ok () else .error .ErrMProducerInvalid

/-- the checks of `momentumTransactionVerifier` by method name -/
def txCheck (s : VState) (m : Momentum) (o : Oracle) : String → Except Reason Unit
  | "changesHash" => chkChangesHash m o
  | "hash" => chkHash m o
  | "signature" => chkSignature m o
  | "producer" => chkProducer s m o
  | n => .error (.unknownCheck n)

/-- `if err := check(); err != nil { return err }` for each check in order -/
def runAll (f : String → Except Reason Unit) : List String → Except Reason Unit
  | [] => .ok ()
  | n :: ns => match f n with
    | .ok () => runAll f ns
    | .error e => .error e

/-- `Supervisor.ApplyMomentum`: verifier.Momentum (getContext, raw checks), momentum VM, packMomentum →
    verifier.MomentumTransaction (changes hash, hash, signature, producer) -/
def verifyMomentum (s : VState) (now : Int) (m : Momentum) (blocks : List PBlock) (o : Oracle) : Except Reason Unit :=
  match getContext s m with
  | .error e => .error e
  | .ok v =>
    match runAll (rawCheck v now m blocks) Gen.MV_raw_all with
    | .error e => .error e
    | .ok () =>
      if !o.vmOk then .error .vmFailed
      else runAll (txCheck s m o) Gen.MV_tx_all

/-- `momentumPool.AddMomentumTransaction` → `ldbManager.Add` as far as the frontier is concerned: the commit is
    applied iff its `Previous()` is the manager's current frontier identifier; otherwise nothing is written (the
    call returns nil). Frontier = (hash, height). -/
def addMomentum (frontier : Bytes × Nat) (m : Momentum) : Bytes × Nat :=
  if m.prevHash = frontier.1 ∧ prevHeight m = frontier.2 then (m.hash, m.height) else frontier

end ZV.Consensus
