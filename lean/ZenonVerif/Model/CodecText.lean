import ZenonVerif.Model.Num
import ZenonVerif.Gen.HashFields
/-
L9 `Codec` (part 3) — the number / string forms used by the JSON marshalling of account blocks.
Stands for chain/nom/account_block.go {ToNomMarshalJson: `ab.Amount.String()`, `hex.EncodeToString(ab.Nonce.Data[:])`;
UnmarshalJSON: `common.StringToBigInt(aux.Amount)`, `ab.Nonce.UnmarshalText`}, common/bytes.go StringToBigInt and
math/big `(*Int).String` / `SetString(s, 10)`, encoding/hex. JSON object structure is not modelled.
-/
namespace ZV.Codec
open ZV

/-- decimal digits, least significant first (`fuel` > n suffices) -/
def natDigitsLE : Nat → Nat → List Nat
  | 0, _ => []
  | f + 1, n => if n < 10 then [n] else (n % 10) :: natDigitsLE f (n / 10)

def digitChar (d : Nat) : Char := Char.ofNat (48 + d)

/-- `(*big.Int).String()`: decimal, most significant digit first, "-" in front of negative values, "0" for 0 -/
def showAmount (a : Int) : List Char :=
  (if a < 0 then ['-'] else []) ++ ((natDigitsLE (a.natAbs + 1) a.natAbs).reverse.map digitChar)

/-- the digit loop of `nat.scan` for base 10 without prefix and without '_' separators: every character must
    be '0'…'9' -/
def parseDigitsAux : Nat → List Char → Option Nat
  | acc, [] => some acc
  | acc, c :: r => if '0' ≤ c ∧ c ≤ '9' then parseDigitsAux (acc * 10 + (c.toNat - 48)) r else none

/-- `scanSign`: an optional leading '+' or '-' -/
def stripSign : List Char → Bool × List Char
  | '-' :: r => (true, r)
  | '+' :: r => (false, r)
  | r => (false, r)

/-- `(*big.Int).SetString(s, 10)`: optional sign '+' or '-', then at least one digit, nothing else; the whole
    string must be consumed. `none` = `ok == false`. -/
def setString10 (s : List Char) : Option Int :=
  let p := stripSign s
  if p.2.isEmpty then none
  else (parseDigitsAux 0 p.2).map (fun n => if p.1 then -(n : Int) else (n : Int))

/-- `common.StringToBigInt`: 0 when the string does not parse -/
def stringToBigInt (s : List Char) : Int := (setString10 s).getD 0

/-- `hex.EncodeToString` (lower case) -/
def hexChars (b : Bytes) : List Char := b.flatMap fun x => [hexDigit (x / 16), hexDigit (x % 16)]

/-- `(n *Nonce) UnmarshalText`: `hex.DecodeString` (upper or lower case, even length) and exactly 8 bytes;
    `none` = error -/
def nonceUnmarshalText (s : List Char) : Option Bytes :=
  match ofHexChars s with
  | none => none
  | some b => if b.length = 8 then some b else none

/-- reviewed copy of the composite literal of `(ab *AccountBlock) ToNomMarshalJson()`: which text form every
    field takes in JSON (amount: decimal string, nonce: hex string, everything else by its own marshaller) -/
def reviewed_abJsonAssign : List (String × String) := [
  ("Version", "ab.Version"),
  ("ChainIdentifier", "ab.ChainIdentifier"),
  ("BlockType", "ab.BlockType"),
  ("Hash", "ab.Hash"),
  ("PreviousHash", "ab.PreviousHash"),
  ("Height", "ab.Height"),
  ("MomentumAcknowledged", "ab.MomentumAcknowledged"),
  ("Address", "ab.Address"),
  ("ToAddress", "ab.ToAddress"),
  ("Amount", "ab.Amount.String()"),
  ("TokenStandard", "ab.TokenStandard"),
  ("FromBlockHash", "ab.FromBlockHash"),
  ("Data", "ab.Data"),
  ("FusedPlasma", "ab.FusedPlasma"),
  ("Difficulty", "ab.Difficulty"),
  ("Nonce", "hex.EncodeToString(ab.Nonce.Data[:])"),
  ("BasePlasma", "ab.BasePlasma"),
  ("TotalPlasma", "ab.TotalPlasma"),
  ("ChangesHash", "ab.ChangesHash"),
  ("PublicKey", "ab.PublicKey"),
  ("Signature", "ab.Signature")]

end ZV.Codec
