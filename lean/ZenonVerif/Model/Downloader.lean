import ZenonVerif.Gen.Downloader
/-
C15 (synchronisation) — the control logic of protocol/downloader/{downloader.go, queue.go, peer.go} as a transition
system over EVENTS. Stands for Synchronise / synchronise / syncWithPeer / findAncestor / fetchHashes / fetchBlocks /
process / DeliverHashes / DeliverBlocks / cancel and queue.{Reserve, Deliver, Expire, Reset, Prepare, TakeBlocks}.

What is kept: who the node synchronises from, where the hash fetcher stands (head probe, binary search, hash download,
blocked on its last send, returned), whether the time-out of the pending hash request is armed and how long it has to run,
where the block fetcher stands, the three channels between the goroutines (capacity 1 each — `Gen.Dl…ChCap`) with whatever
a previous synchronisation left in them, the hash queue (pending / in flight per peer with its deadline / delivered blocks
with the peer that delivered each and whether the import will accept it), the registered peers with their idle flag.
What is dropped: contents (a hash is a number — the height its momentum commits to; a delivered block is (hash,
`ComputeHash() == hash`, height inside the download window, passes import)), reputation and capacity (they only order and
size the requests; which peer is asked for which hashes is an input: `update rs`), throttling (the cache of 4096 blocks is
never full), `maxQueuedHashes`, the ban list.

Time: one `tick` is one period of fetchBlocks' ticker (`Gen.DlTickerMs` = 100 ms).

The goroutines are abstracted to interleavings of events; a goroutine that has to leave (cancel channel closed) leaves at
once. The variants of the code that were or could be in the tree are a parameter (`Cfg`), so that the same step function
states the theorem for the code as it is and yields the counterexample for the variant.
-/
namespace ZV.Dl

/-- time-out of a hash request, in ticks (`hashTTL`) -/
def hashTTL : Nat := Gen.DlHashTTLms / Gen.DlTickerMs
/-- time allowance of a block request, in ticks (`blockHardTTL`, the argument of `queue.Expire`) -/
def blockTTL : Nat := Gen.DlBlockHardTTLms / Gen.DlTickerMs

/-- the variants of the code -/
structure Cfg where
  /-- fetchHashes: `if hashPack.peerId != p.id { break }` comes before `timeout.Stop()` (false: seeded change C15-r2-1) -/
  senderTestFirst : Bool
  /-- synchronise drains hashCh / blockCh / processCh before it starts (false: before 4fc5ee4, FU2) -/
  drain : Bool
  /-- queue.Deliver: `ComputeHash() != hash` is tested before `block.Height` is used (false: before 7ec6f07, FU1) -/
  hashBeforeHeight : Bool
  deriving DecidableEq, Repr

/-- the code as it is meant to be -/
def Cfg.fixed : Cfg := ⟨true, true, true⟩
/-- the code as the working tree has it (generated facts) -/
def Cfg.ofCode : Cfg :=
  ⟨Gen.FetchHashesSenderTestBeforeStop, Gen.SynchroniseDrainBeforeSyncWithPeer, Gen.DeliverHashTestBeforeHeight⟩

/-- why a synchronisation ended or a peer was dropped -/
inductive Why where
  | timeout | emptyHashSet | badPeer | invalidChain | unavailable | noPeers | cancelled
  | forged | importFailed
  deriving DecidableEq, Repr

/-- the Go name of the error -/
def Why.goName : Why → String
  | .timeout => "errTimeout"
  | .emptyHashSet => "errEmptyHashSet"
  | .badPeer => "errBadPeer"
  | .invalidChain => "errInvalidChain"
  | .unavailable => "errPeersUnavailable"
  | .noPeers => "errNoPeers"
  | .cancelled => "errCancelBlockFetch"
  | .forged => "errForgedBlock"
  | .importFailed => "insertChain"

/-- `Synchronise`: the errors of `synchronise` that are answered with `d.dropPeer(id)` — read from the switch of the
    working tree -/
def Why.dropsOrigin (w : Why) : Bool := Gen.SynchroniseDropErrors.contains w.goName

/-- `peer`: identity and `idle == 0` -/
structure Peer where
  id : Nat
  idle : Bool
  deriving DecidableEq, Repr

/-- `fetchRequest` in `pendPool`: the peer, the hashes, the ticks left until `Expire` hands them back -/
structure Req where
  peer : Nat
  ids : List Nat
  left : Nat
  deriving DecidableEq, Repr

/-- `Block` in `blockCache`: the hash, `OriginPeer`, and whether `insertChain` will accept it -/
structure Blk where
  id : Nat
  src : Nat
  ok : Bool
  deriving DecidableEq, Repr

/-- the hash fetcher (findAncestor, then fetchHashes) -/
inductive HF where
  | probe                  -- findAncestor: head probe sent
  | search (lo hi : Nat)   -- findAncestor: binary search, the hash at (lo+hi)/2 requested
  | fetch                  -- fetchHashes: a request for the next `MaxHashFetch` hashes is pending
  | blocked                -- fetchHashes: in `select { case d.processCh <- false: case <-d.cancelCh: }`, processCh full
  | done                   -- fetchHashes returned nil
  deriving DecidableEq, Repr

/-- the block fetcher (fetchBlocks) -/
inductive BF where
  | off                    -- not started yet (findAncestor runs)
  | run (finished : Bool)  -- in its loop; `finished` as in the code
  | done                   -- returned nil
  deriving DecidableEq, Repr

/-- a running synchronisation -/
structure Run where
  origin : Nat
  head : Nat               -- the local height when it started (upper end of the binary search)
  hf : HF
  timer : Option Nat       -- time-out of the pending hash request: `none` = not armed, `some t` = fires at the t-th tick from now
  bf : BF
  deriving DecidableEq, Repr

/-- what the local chain says about the hashes of an answer to the ancestor search: head probe — `known`: one of them is
    held; binary search — `known`: held at the height asked for, `unknown`: not held, `wrong`: held at another height -/
inductive Q where
  | known | unknown | wrong
  deriving DecidableEq, Repr

structure HashPack where
  ids : List Nat
  q : Q
  deriving DecidableEq, Repr

/-- one delivered block: the hash it is filed under, `ComputeHash() == Hash`, `Height` inside the download window,
    accepted by `insertChain` -/
structure Item where
  id : Nat
  hashOk : Bool
  inWin : Bool
  valid : Bool
  deriving DecidableEq, Repr

structure State where
  peers : List Peer := []
  run : Option Run := none
  hashCh : Option (Nat × HashPack) := none
  blockCh : Option (Nat × List Item) := none
  processCh : Option Bool := none
  pending : List Nat := []          -- hashQueue
  inflight : List Req := []         -- pendPool
  cache : List Blk := []            -- blockCache (position = id)
  offset : Nat := 0                 -- blockOffset: the next height to import
  head : Nat := 0                   -- the height of the local chain as far as the downloader raised it
  deriving DecidableEq, Repr

abbrev Drop := Nat × Why

inductive Event where
  | register (p : Nat)                          -- RegisterPeer
  | unregister (p : Nat)                        -- UnregisterPeer (the peer left)
  | sync (p : Nat) (head : Nat)                 -- Synchronise(p, …) called by the protocol manager; local height `head`
  | hashes (p : Nat) (pk : HashPack)            -- DeliverHashes
  | blocks (p : Nat) (items : List Item)        -- DeliverBlocks
  | tick                                        -- 100 ms pass
  | update (rs : List (Nat × List Nat))         -- fetchBlocks' `<-update` case; `rs`: the requests it hands out (peer, hashes)
  | requeue (p : Nat)                           -- queue.Cancel: the request in flight at p is handed back (peer.Fetch failed)
  | imp                                         -- process(): TakeBlocks + insertChain on what is available
  | cancel                                      -- Terminate / cancel from outside
  deriving DecidableEq, Repr

/-! ### helpers -/

def registered (s : State) (p : Nat) : Bool := s.peers.any (·.id == p)

def isIdle (s : State) (p : Nat) : Bool := s.peers.any (fun x => x.id == p && x.idle)

def setIdle (s : State) (p : Nat) (b : Bool) : State :=
  { s with peers := s.peers.map (fun x => if x.id == p then { x with idle := b } else x) }

/-- `dropPeer` = ProtocolManager.removePeer: unknown peers are left alone, a known one is unregistered and disconnected -/
def dropPeer (s : State) (p : Nat) (w : Why) : State × List Drop :=
  if registered s p then ({ s with peers := s.peers.filter (·.id != p) }, [(p, w)]) else (s, [])

/-- `queue.Reset` -/
def resetQueue (s : State) : State := { s with pending := [], inflight := [], cache := [], offset := 0 }

/-- the synchronisation ends with an error: `cancel()` (both fetchers leave, the queue is reset) and the answer of
    `Synchronise` to that error. The channels keep what they hold. -/
def abort (s : State) (r : Run) (w : Why) : State × List Drop :=
  let s := resetQueue { s with run := none }
  if w.dropsOrigin then dropPeer s r.origin w else (s, [])

/-- store the run; it is over when both fetchers have returned nil -/
def setRun (s : State) (r : Run) : State :=
  if r.hf = .done ∧ r.bf = .done then { s with run := none } else { s with run := some r }

def poolIds (s : State) : List Nat := s.pending ++ s.inflight.flatMap (·.ids)

/-- `queue.Insert`: the hashes not yet in `hashPool`, in order (a repetition inside the pack is not new either) -/
def freshIds : List Nat → List Nat → List Nat
  | _, [] => []
  | pool, h :: t => if pool.contains h then freshIds pool t else h :: freshIds (h :: pool) t

/-- fetchHashes starts (and fetchBlocks with it): first request sent, time-out armed, `queue.Prepare(from)` -/
def startFetch (s : State) (r : Run) (frm : Nat) : State :=
  { s with run := some { r with hf := .fetch, timer := some hashTTL, bf := .run false }, offset := max s.offset frm }

/-! ### DeliverHashes -/

/-- findAncestor, head probe -/
def onProbe (s : State) (r : Run) (p : Nat) (pk : HashPack) : State × List Drop :=
  if p ≠ r.origin then (s, [])
  else if pk.ids = [] then abort s r .emptyHashSet
  else if pk.q = .known ∧ 1 < r.head then
    ({ s with run := some { r with hf := .search 0 r.head, timer := some hashTTL } }, [])
  else (startFetch s r 1, [])

/-- findAncestor, one step of the binary search -/
def onSearch (s : State) (r : Run) (lo hi : Nat) (p : Nat) (pk : HashPack) : State × List Drop :=
  if p ≠ r.origin then (s, [])
  else if pk.ids.length ≠ 1 then abort s r .badPeer
  else match pk.q with
    | .wrong => abort s r .badPeer
    | q =>
      let mid := (lo + hi) / 2
      let lo' := if q = .known then mid else lo
      let hi' := if q = .known then hi else mid
      if lo' + 1 < hi' then ({ s with run := some { r with hf := .search lo' hi', timer := some hashTTL } }, [])
      else (startFetch s r (lo' + 1), [])

/-- fetchHashes, the `hashCh` case -/
def onFetch (cfg : Cfg) (s : State) (r : Run) (p : Nat) (pk : HashPack) : State × List Drop :=
  -- the variant stops the timer before it looks at the sender
  let r := if cfg.senderTestFirst then r else { r with timer := none }
  if p ≠ r.origin then ({ s with run := some r }, [])
  else
    let r := { r with timer := none }                         -- timeout.Stop()
    if pk.ids = [] then
      -- `select { case d.processCh <- false: case <-d.cancelCh: }`
      match s.processCh with
      | none => (setRun { s with processCh := some false } { r with hf := .done }, [])
      | some _ => ({ s with run := some { r with hf := .blocked } }, [])
    else if (freshIds (poolIds s) pk.ids).length ≠ pk.ids.length then abort s r .badPeer
    else
      let s := { s with pending := s.pending ++ pk.ids }
      -- `select { case d.processCh <- cont: default: }`, then the next request: `timeout.Reset(hashTTL)`
      let s := if s.processCh.isNone then { s with processCh := some true } else s
      ({ s with run := some { r with timer := some hashTTL } }, [])

def onHashes (cfg : Cfg) (s : State) (p : Nat) (pk : HashPack) : State × List Drop :=
  match s.run with
  | none => (s, [])                                            -- errNoSyncActive
  | some r =>
    match r.hf with
    | .probe => onProbe s r p pk
    | .search lo hi => onSearch s r lo hi p pk
    | .fetch => onFetch cfg s r p pk
    | _ => (if s.hashCh.isNone then { s with hashCh := some (p, pk) } else s, [])   -- nobody reads: the buffer takes one pack

/-! ### DeliverBlocks -/

/-- outcome of the loop of `queue.Deliver` -/
structure DAcc where
  want : List Nat          -- request.Hashes still open
  got : List Blk
  errs : Nat
  forged : Bool
  invalid : Bool
  deriving DecidableEq, Repr

def deliverLoop (cfg : Cfg) (p : Nat) : List Item → DAcc → DAcc
  | [], a => a
  | it :: rest, a =>
    if a.invalid then a
    else if !a.want.contains it.id then deliverLoop cfg p rest { a with errs := a.errs + 1 }
    else if cfg.hashBeforeHeight && !it.hashOk then deliverLoop cfg p rest { a with errs := a.errs + 1, forged := true }
    else if !it.inWin then { a with invalid := true }
    else deliverLoop cfg p rest
      { a with want := a.want.erase it.id, got := ⟨it.id, p, it.valid && it.hashOk⟩ :: a.got }

def cacheInsert (c : List Blk) (b : Blk) : List Blk := b :: c.filter (·.id != b.id)

/-- fetchBlocks, the `blockCh` case (the peer is registered) -/
def onBlocksRun (cfg : Cfg) (s : State) (r : Run) (p : Nat) (items : List Item) : State × List Drop :=
  match s.inflight.find? (·.peer == p) with
  | none => (setIdle s p true, [])                             -- errNoFetchesPending
  | some q =>
    let s := { s with inflight := s.inflight.filter (·.peer != p) }
    let a := deliverLoop cfg p items ⟨q.ids, [], 0, false, false⟩
    if a.invalid then abort s r .invalidChain
    else
      let s := { s with pending := s.pending ++ a.want, cache := a.got.foldl cacheInsert s.cache }
      if a.forged then dropPeer s p .forged                    -- errForgedBlock: d.dropPeer(blockPack.peerId)
      else if a.errs ≠ 0 ∧ a.errs = items.length then (s, [])  -- errStaleDelivery: demoted, not idle
      else (setIdle s p true, [])                              -- nil / partial failure: SetIdle

def onBlocks (cfg : Cfg) (s : State) (p : Nat) (items : List Item) : State × List Drop :=
  match s.run with
  | none => (s, [])                                            -- errNoSyncActive
  | some r =>
    match r.bf with
    | .off => (s, [])                                          -- findAncestor: `case <-d.blockCh:` ignored
    | .run _ => if registered s p then onBlocksRun cfg s r p items else (s, [])
    | .done => (if s.blockCh.isNone then { s with blockCh := some (p, items) } else s, [])

/-! ### time -/

def onTick (s : State) : State × List Drop :=
  let s := { s with inflight := s.inflight.map (fun (q : Req) => { q with left := q.left - 1 }) }
  match s.run with
  | none => (s, [])
  | some r =>
    match r.timer with
    | none => (s, [])
    | some t => if t ≤ 1 then abort s r .timeout else ({ s with run := some { r with timer := some (t - 1) } }, [])

/-! ### fetchBlocks' update -/

/-- the block fetcher takes what is on processCh; a hash fetcher blocked on its last send gets it through.
    (channel content, hash fetcher, `finished`) before ↦ after -/
def takeProcess (pc : Option Bool) (hf : HF) (fin : Bool) : Option Bool × HF × Bool :=
  match pc with
  | none => (none, hf, fin)
  | some c => if hf = .blocked then (some false, .done, fin || !c) else (none, hf, fin || !c)

/-- the part of the state `queue.Expire` / `queue.Reserve` / `peer.Fetch` work on -/
structure Sched where
  peers : List Peer
  pending : List Nat
  inflight : List Req
  deriving DecidableEq, Repr

def State.sched (s : State) : Sched := ⟨s.peers, s.pending, s.inflight⟩
def State.withSched (s : State) (q : Sched) : State :=
  { s with peers := q.peers, pending := q.pending, inflight := q.inflight }

/-- `queue.Expire` -/
def expire (q : Sched) : Sched :=
  { q with pending := q.pending ++ (q.inflight.filter (·.left == 0)).flatMap (·.ids),
           inflight := q.inflight.filter (·.left != 0) }

def subset (a b : List Nat) : Bool := a.all b.contains

def markBusy (ps : List Peer) (p : Nat) : List Peer := ps.map (fun x => if x.id == p then { x with idle := false } else x)

/-- `queue.Reserve` + `peer.Fetch` for the requests the scheduler chose; a choice the code cannot make is skipped -/
def reserve (q : Sched) : List (Nat × List Nat) → Sched
  | [] => q
  | (p, ids) :: rest =>
    if q.peers.any (fun x => x.id == p && x.idle) && !q.inflight.any (·.peer == p) && !ids.isEmpty && subset ids q.pending then
      reserve ⟨markBusy q.peers p, q.pending.filter (fun h => !ids.contains h), ⟨p, ids, blockTTL⟩ :: q.inflight⟩ rest
    else reserve q rest

def anyIdle (q : Sched) : Bool := q.peers.any (·.idle)

def onUpdate (s : State) (rs : List (Nat × List Nat)) : State × List Drop :=
  match s.run with
  | none => (s, [])
  | some r =>
    match r.bf with
    | .run fin =>
      let tp := takeProcess s.processCh r.hf fin
      let fin := tp.2.2
      let r := { r with hf := tp.2.1, bf := .run fin }
      let s := { s with processCh := tp.1 }
      if s.peers.isEmpty then abort s r .noPeers
      else
        let q := expire s.sched
        if q.pending.isEmpty then
          if q.inflight.isEmpty && fin then (setRun (s.withSched q) { r with bf := .done }, [])
          else ({ s.withSched q with run := some r }, [])
        else
          let q := reserve q rs
          -- every idle peer was offered a request: nothing in flight and work left means nobody can be asked
          if q.inflight.isEmpty && !anyIdle q then abort (s.withSched q) r .unavailable
          else ({ s.withSched q with run := some r }, [])
    | _ => (s, [])

/-! ### process() -/

/-- `queue.TakeBlocks`: the blocks at offset, offset+1, … as far as they are there -/
def takeBlocks (c : List Blk) (off : Nat) : Nat → List Blk
  | 0 => []
  | n + 1 => match c.find? (·.id == off) with
    | none => []
    | some b => b :: takeBlocks c (off + 1) n

/-- index of the first block the import refuses -/
def firstBad : List Blk → Option Nat
  | [] => none
  | b :: rest => if b.ok then (firstBad rest).map (· + 1) else some 0

def onImp (s : State) : State × List Drop :=
  let batch := takeBlocks s.cache s.offset s.cache.length
  if batch.isEmpty then (s, [])
  else
    match firstBad batch with
    | none =>
      ({ s with cache := s.cache.filter (fun b => !(batch.any (·.id == b.id))), offset := s.offset + batch.length,
                head := max s.head (s.offset + batch.length - 1) }, [])
    | some i =>
      -- the momentums in front of the refused one are adopted; `d.dropPeer(blocks[index].OriginPeer)`; `d.cancel()`
      let s := { s with head := if i = 0 then s.head else max s.head (s.offset + i - 1) }
      let culprit := (batch.drop i).head?.map (·.src)
      let s := resetQueue { s with run := none }
      match culprit with
      | some p => dropPeer s p .importFailed
      | none => (s, [])

/-! ### Synchronise -/

def onSync (cfg : Cfg) (s : State) (p head : Nat) : State × List Drop :=
  if s.run.isSome then (s, [])                                              -- errBusy
  else if s.cache.any (·.id == s.offset) then (s, [])                       -- errPendingQueue
  else
    let s := resetQueue s
    let s := { s with peers := s.peers.map (fun x => { x with idle := true }), head := max s.head head }   -- peers.Reset()
    let s := if cfg.drain then { s with hashCh := none, blockCh := none, processCh := none } else s
    if !registered s p then (s, [])                                          -- errUnknownPeer
    else
      let r : Run := ⟨p, head, .probe, some hashTTL, .off⟩
      let s := { s with run := some r }
      -- what an earlier synchronisation left on hashCh / blockCh is read by findAncestor first
      match s.hashCh with
      | none => ({ s with blockCh := none }, [])
      | some (p', pk) => onProbe { s with hashCh := none, blockCh := none } r p' pk

/-! ### the step function -/

def step (cfg : Cfg) (s : State) : Event → State × List Drop
  | .register p => (if registered s p then s else { s with peers := s.peers ++ [⟨p, true⟩] }, [])
  | .unregister p => ({ s with peers := s.peers.filter (·.id != p) }, [])
  | .sync p head => onSync cfg s p head
  | .hashes p pk => onHashes cfg s p pk
  | .blocks p items => onBlocks cfg s p items
  | .tick => onTick s
  | .update rs => onUpdate s rs
  | .requeue p =>
    ({ s with pending := s.pending ++ (s.inflight.filter (·.peer == p)).flatMap (·.ids),
              inflight := s.inflight.filter (·.peer != p) }, [])
  | .imp => onImp s
  | .cancel => (resetQueue { s with run := none }, [])

/-- a run of events; the drops in the order they happen -/
def exec (cfg : Cfg) : State → List Event → State × List Drop
  | s, [] => (s, [])
  | s, e :: es =>
    let (s1, d1) := step cfg s e
    let (s2, d2) := exec cfg s1 es
    (s2, d1 ++ d2)

/-- the states the node can be in: a downloader that has done nothing yet (local chain at any height `k`), and what events
    make of it -/
inductive Reach (cfg : Cfg) : State → Prop where
  | init (k : Nat) : Reach cfg { head := k }
  | step {s : State} (e : Event) : Reach cfg s → Reach cfg (step cfg s e).1

/-- the hash fetcher waits for an answer of the origin peer -/
def HF.waiting : HF → Bool
  | .probe | .search _ _ | .fetch => true
  | _ => false

/-- the dead end of FU2: the hash fetcher is blocked on its last send, the block fetcher has left, nobody closes the
    cancel channel -/
def deadlocked (s : State) : Bool :=
  match s.run with
  | some r => r.hf == .blocked && r.bf == .done
  | none => false

/-- a synchronisation is running and time alone cannot end it: the hash fetcher waits for an answer with no time-out
    armed, or the dead end above -/
def stuck (s : State) : Bool :=
  match s.run with
  | some r => (r.hf.waiting && r.timer.isNone) || deadlocked s
  | none => false

end ZV.Dl
