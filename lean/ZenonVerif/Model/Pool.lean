import ZenonVerif.Model.Num
import ZenonVerif.Gen.Consts
import ZenonVerif.Gen.Pool
/-
L7 — unconfirmed pool. Stands for chain/account_pool.go {higherPriority, filterBlocksToCommit, canRollback,
addAccountBlockTransaction, rebuild, DeleteMomentum} over common/db/versioned_db.go memdbManager {Add, Pop}.
Core Lean only.
-/
namespace ZV.Pool
open ZV

/-- The fields of `nom.AccountBlock` the pool looks at. `hash` is the 32-byte block hash, `prevHash` is
    `PreviousHash`; `total`/`base` are the uint64 fields `TotalPlasma`/`BasePlasma`; `btype` is `BlockType`. -/
structure Blk where
  height   : Nat
  hash     : Bytes
  prevHash : Bytes
  total    : Nat := 0
  base     : Nat := 0
  btype    : Nat := 0
  deriving DecidableEq, Repr, Inhabited

/-- the three outcomes of `higherPriority`: nil, ErrPlasmaRatioIsWorse, ErrHashTieBreak -/
inductive Prio where
  | ok | ratioWorse | hashTieBreak
  deriving DecidableEq, Repr

/-- `higherPriority(a, b)`: the two products are uint64 products (wrap modulo 2^64);
    `bytes.Compare(a.Hash, b.Hash) > -1` is `¬ a.Hash < b.Hash` lexicographically. -/
def higherPriority (a b : Blk) : Prio :=
  let l := (a.total * b.base) % two64
  let r := (b.total * a.base) % two64
  if l < r then .ratioWorse
  else if l = r ∧ bytesLt a.hash b.hash = false then .hashTieBreak
  else .ok

/-- one competition step of `addAccountBlockTransaction` (not forced): the challenger replaces the block
    currently held at that height iff `higherPriority challenger current` returns nil -/
def pick (cur ch : Blk) : Blk := if higherPriority ch cur = .ok then ch else cur

/-- the block left at a height after the competitors arrived in the order of the list -/
def winner : List Blk → Option Blk
  | [] => none
  | x :: xs => some (xs.foldl pick x)

/-! ### filterBlocksToCommit -/

/-- loop of `filterBlocksToCommit`: `tc` = toCommit, `batch` = batch, first argument = blocks[index:] -/
def filterGo {α : Type} (isCS : α → Bool) (max : Nat) : List α → List α → List α → List α
  | [], tc, _ => tc
  | b :: bs, tc, batch =>
    let batch' := batch ++ [b]
    if isCS b then filterGo isCS max bs tc batch'
    else if tc.length + batch'.length > max then tc
    else filterGo isCS max bs (tc ++ batch') []

def isContractSend (t : Nat) : Bool := t == Gen.BlockTypeContractSend

/-- `accountPool.filterBlocksToCommit` on the list of block types -/
def filterBlocksToCommit (ts : List Nat) : List Nat :=
  filterGo isContractSend Gen.MaxAccountBlocksInMomentum ts [] []

/-! ### the per-address pool: `accountPool` over a `memdbManager`

One address. A transaction is one block without descendant blocks (user blocks, contract receives that emit nothing);
`confirmed` is the account chain in the chain's stable database, oldest first. -/

/-- `types.HashHeight` -/
abbrev Id := Bytes × Nat

def zeroHash : Bytes := List.replicate 32 0

/-- `types.ZeroHashHeight`: the frontier identifier of an empty database -/
def zeroId : Id := (zeroHash, 0)

/-- `AccountBlock.Identifier()` -/
def Blk.id (b : Blk) : Id := (b.hash, b.height)

/-- `AccountBlock.Previous()` without descendants: `{PreviousHash, Height - 1}` (uint64 subtraction) -/
def Blk.prev (b : Blk) : Id := (b.prevHash, if b.height = 0 then two64 - 1 else b.height - 1)

/-- `db.GetFrontierIdentifier` of a database holding the chain `c` (every block was written with SetFrontier) -/
def lastId (c : List Blk) : Id :=
  match c.getLast? with
  | some b => b.id
  | none => zeroId

/-- `accountStore.ByHeight` on a database holding the chain `c`: the entry-by-height key is overwritten by later
    writes, so the last block written at that height answers -/
def byHeight (c : List Blk) (h : Nat) : Option Blk := c.reverse.find? (fun b => b.height == h)

/-- `memdbManager`: `base` is the chain in `stableDB` when the manager was created (its last identifier is
    `stableIdentifier`), `pooled` are the transactions added since (the `previous` links form this stack) -/
structure Mgr where
  base   : List Blk
  pooled : List Blk
  deriving DecidableEq, Repr

/-- frontier identifier of the manager -/
def Mgr.frontierId (m : Mgr) : Id := lastId (m.base ++ m.pooled)

/-- the state of the pool for one address together with the stable chain it reads -/
structure PState where
  confirmed : List Blk
  mgr       : Option Mgr      -- `ap.managers[address]`
  deriving DecidableEq, Repr

/-- `getAccountManager`: created on first use from the current stable database -/
def PState.manager (s : PState) : Mgr := s.mgr.getD ⟨s.confirmed, []⟩

inductive AddRes where
  | fastForward         -- nil, appended on top
  | already             -- nil, "account-block is already inserted"
  | replaced            -- nil, rolled back and inserted
  | olderThanStable     -- canRollback: stable height ≥ block height
  | missingPrevious     -- canRollback: no block at height-1
  | previousMismatch    -- canRollback: block at height-1 is not the claimed previous
  | ratioWorse          -- ErrPlasmaRatioIsWorse
  | hashTieBreak        -- ErrHashTieBreak
  | cantPopStable       -- manager.Pop(): "can't rollback stable db"
  | addFailed           -- manager.Add refused (previous ≠ frontier)
  | nilDeref            -- higherPriority(block, nil): runtime panic
  deriving DecidableEq, Repr

/-- `memdbManager.Add` of a one-block transaction -/
def Mgr.add (m : Mgr) (b : Blk) : Option Mgr :=
  if b.prev = m.frontierId then some { m with pooled := m.pooled ++ [b] } else none

/-- `memdbManager.Pop`: refuses when the frontier is the stable identifier, else drops the newest transaction -/
def Mgr.pop (m : Mgr) : Option Mgr :=
  if lastId m.base = m.frontierId then none
  else some { m with pooled := m.pooled.dropLast }

/-- the rollback loop of `addAccountBlockTransaction`: pop until the frontier is `previous`;
    `fuel` = number of pooled transactions + 1 bounds the iterations. Returns the manager reached and whether the
    loop ended by reaching `previous` (false = a Pop failed). -/
def rollbackTo (previous : Id) : Nat → Mgr → Mgr × Bool
  | 0, m => (m, decide (m.frontierId = previous))
  | fuel + 1, m =>
    if m.frontierId = previous then (m, true)
    else match m.pop with
      | none => (m, false)
      | some m' => rollbackTo previous fuel m'

/-- `canRollback`: refused when not above the stable height; the first block of an account (height 1, previous =
    zero identifier) has no previous block to look up; otherwise the block at height-1 must be the claimed previous -/
def canRollback (s : PState) (m : Mgr) (b : Blk) : Option AddRes :=
  if (lastId s.confirmed).2 ≥ b.height then some .olderThanStable
  else if b.height = 1 ∧ b.prev = zeroId then none
  else match byHeight (m.base ++ m.pooled) b.prev.2 with
    | none => some .missingPrevious
    | some tp => if tp.id ≠ b.prev then some .previousMismatch else none

/-- `addAccountBlockTransaction(transaction, forceAdd)` -/
def addBlock (s : PState) (b : Blk) (force : Bool) : PState × AddRes :=
  let m := s.manager
  let s1 : PState := { s with mgr := some m }            -- getFrontierAccountStore created the manager
  if b.prev = m.frontierId then
    match m.add b with
    | some m' => ({ s with mgr := some m' }, .fastForward)
    | none => (s1, .addFailed)
  else
    let trueBlock := byHeight (m.base ++ m.pooled) b.height
    if trueBlock.map Blk.id = some b.id then (s1, .already)
    else match canRollback s m b with
      | some e => (s1, e)
      | none =>
        match trueBlock with
        | none => (s1, .nilDeref)
        | some tb =>
          let pr := higherPriority b tb
          if !force && pr = .ratioWorse then (s1, .ratioWorse)
          else if !force && pr = .hashTieBreak then (s1, .hashTieBreak)
          else
            let (m', reached) := rollbackTo b.prev (m.pooled.length + 1) m
            if !reached then ({ s with mgr := some m' }, .cantPopStable)
            else match m'.add b with
              | some m'' => ({ s with mgr := some m'' }, .replaced)
              | none => ({ s with mgr := some m' }, .addFailed)

/-- the blocks `rebuild` re-applies: `uncommittedStore.ByHeight(i)` for i = stable.height+1 … frontier.height;
    none = a height is missing (nil block, nil dereference later) -/
def uncommittedOf (view : List Blk) (lo : Nat) : Nat → Option (List Blk)
  | 0 => some []
  | n + 1 => do
    let b ← byHeight view (lo + n)        -- heights lo … lo+n, collected from the top
    let rest ← uncommittedOf view lo n
    pure (rest ++ [b])

/-- re-adding the uncommitted blocks to a fresh manager; none = "Unable to re-apply block" -/
def addAll (m : Mgr) : List Blk → Option Mgr
  | [] => some m
  | b :: bs => match m.add b with
    | none => none
    | some m' => addAll m' bs

inductive RebuildRes where
  | noManager | emptied | rebuilt | failed | nilDeref
  deriving DecidableEq, Repr

/-- `InsertMomentum` → `rebuild` for this address after the momentum extended the confirmed chain by `nb`. Every address
    is rebuilt on its own (a failure drops this address's pooled blocks and the loop goes on — `Gen.rebuildLoopReturns`);
    blocks of type ContractSend are not re-applied on their own (they are the descendants carried by a contract
    receive). -/
def insertMomentum (s : PState) (nb : List Blk) : PState × RebuildRes :=
  let conf := s.confirmed ++ nb
  match s.mgr with
  | none => ({ confirmed := conf, mgr := none }, .noManager)
  | some old =>
    let view := old.base ++ old.pooled
    let lo := (lastId conf).2 + 1
    let hi := (lastId view).2
    match uncommittedOf view lo (hi + 1 - lo) with
    | none => ({ confirmed := conf, mgr := none }, .nilDeref)
    | some [] => ({ confirmed := conf, mgr := none }, .emptied)
    | some unc =>
      match addAll ⟨conf, []⟩ (unc.filter (fun b => !isContractSend b.btype)) with
      | none => ({ confirmed := conf, mgr := none }, .failed)
      | some m => ({ confirmed := conf, mgr := some m }, .rebuilt)

/-- `DeleteMomentum`: all managers are dropped; the rolled-back momentum takes its account blocks with it -/
def deleteMomentum (s : PState) (keep : Nat) : PState :=
  { confirmed := s.confirmed.take keep, mgr := none }

/-- `getUncommittedAccountBlocksByAddress` (heights stable+1 … frontier of the frontier store) -/
def uncommittedBlocks (s : PState) : Option (List Blk) :=
  let m := s.manager
  let view := m.base ++ m.pooled
  let lo := (lastId s.confirmed).2 + 1
  uncommittedOf view lo ((lastId view).2 + 1 - lo)

inductive Op where
  | add (b : Blk) (force : Bool)
  | insert (nb : List Blk)
  | delete (keep : Nat)
  deriving Repr

def step (s : PState) : Op → PState
  | .add b f => (addBlock s b f).1
  | .insert nb => (insertMomentum s nb).1
  | .delete k => deleteMomentum s k

end ZV.Pool
