import ZenonVerif.Model.Num
import ZenonVerif.Gen.Consts
import ZenonVerif.Gen.Pool
/-
L7 — unconfirmed pool. Stands for chain/account_pool.go {higherPriority, filterBlocksToCommit, canRollback,
addAccountBlockTransaction, rebuild, DeleteMomentum} over common/db/versioned_db.go memdbManager {Add, Pop}.
Core Lean only.
-/
namespace ZV.Pool
open ZV

/-- The fields of `nom.AccountBlock` the pool looks at. `hash` is the 32-byte block hash, `prevHash` is
    `PreviousHash`; `total`/`base` are the uint64 fields `TotalPlasma`/`BasePlasma`; `btype` is `BlockType`. -/
structure Blk where
  height   : Nat
  hash     : Bytes
  prevHash : Bytes
  total    : Nat := 0
  base     : Nat := 0
  btype    : Nat := 0
  deriving DecidableEq, Repr, Inhabited

/-- the three outcomes of `higherPriority`: nil, ErrPlasmaRatioIsWorse, ErrHashTieBreak -/
inductive Prio where
  | ok | ratioWorse | hashTieBreak
  deriving DecidableEq, Repr

/-- `higherPriority(a, b)`: the two products are uint64 products (wrap modulo 2^64);
    `bytes.Compare(a.Hash, b.Hash) > -1` is `¬ a.Hash < b.Hash` lexicographically. -/
def higherPriority (a b : Blk) : Prio :=
  let l := (a.total * b.base) % two64
  let r := (b.total * a.base) % two64
  if l < r then .ratioWorse
  else if l = r ∧ bytesLt a.hash b.hash = false then .hashTieBreak
  else .ok

/-- one competition step of `addAccountBlockTransaction` (not forced): the challenger replaces the block
    currently held at that height iff `higherPriority challenger current` returns nil -/
def pick (cur ch : Blk) : Blk := if higherPriority ch cur = .ok then ch else cur

/-- the block left at a height after the competitors arrived in the order of the list -/
def winner : List Blk → Option Blk
  | [] => none
  | x :: xs => some (xs.foldl pick x)

/-! ### filterBlocksToCommit -/

/-- loop of `filterBlocksToCommit`: `tc` = toCommit, `batch` = batch, first argument = blocks[index:] -/
def filterGo {α : Type} (isCS : α → Bool) (max : Nat) : List α → List α → List α → List α
  | [], tc, _ => tc
  | b :: bs, tc, batch =>
    let batch' := batch ++ [b]
    if isCS b then filterGo isCS max bs tc batch'
    else if tc.length + batch'.length > max then tc
    else filterGo isCS max bs (tc ++ batch') []

def isContractSend (t : Nat) : Bool := t == Gen.BlockTypeContractSend

/-- `accountPool.filterBlocksToCommit` on the list of block types -/
def filterBlocksToCommit (ts : List Nat) : List Nat :=
  filterGo isContractSend Gen.MaxAccountBlocksInMomentum ts [] []

end ZV.Pool
