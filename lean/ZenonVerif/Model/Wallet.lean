import ZenonVerif.Model.Num
import ZenonVerif.Gen.Wallet
/-
L11 — wallet glue: derivation-path grammar, hardened-index arithmetic, SLIP-0010 step layout, key-file
encrypt/decrypt glue, address layout. Stands for wallet/{derivation,keystore,keyfile,crypto,password,keypair}.go
and common/types/address.go PubKeyToAddress.

All cryptographic primitives (HMAC-SHA512, SHA3-256, Ed25519, Argon2id, AES-256-GCM, BIP-39) are PARAMETERS:
`CryptoFns` carries the bare functions (this is what the executable model and the driver use — the driver
instantiates it with the oracle values the harness computed with Go's standard library), `Crypto` adds the assumed
laws as fields (this is what the theorems take). Nothing about the strength of the primitives is assumed or proved.
-/
namespace ZV.Wallet
open ZV

/-- the primitives as uninterpreted functions -/
structure CryptoFns where
  /-- HMAC-SHA512 `key msg` -/
  hmac : Bytes → Bytes → Bytes
  /-- SHA3-256 -/
  sha3 : Bytes → Bytes
  /-- ed25519 public key of a 32-byte seed (`ed25519.GenerateKey(bytes.NewReader(seed))`) -/
  edPub : Bytes → Bytes
  /-- ed25519 signature `seed msg` -/
  edSign : Bytes → Bytes → Bytes
  /-- ed25519 verification `pub msg sig` -/
  edVerify : Bytes → Bytes → Bytes → Bool
  /-- `argon2.IDKey(pw, salt, time, mem, threads, keyLen)` as `kdf [time, mem, threads, keyLen] pw salt` -/
  kdf : List Nat → Bytes → Bytes → Bytes
  /-- AES-256-GCM `Seal`: `key nonce ad plaintext` -/
  aeadSeal : Bytes → Bytes → Bytes → Bytes → Bytes
  /-- AES-256-GCM `Open`: `key nonce ad ciphertext`, `none` = authentication failed -/
  aeadOpen : Bytes → Bytes → Bytes → Bytes → Option Bytes
  /-- `bip39.NewMnemonic(entropy)`, `none` = entropy size refused -/
  mnemonic : Bytes → Option Bytes
  /-- `bip39.NewSeed(mnemonic, "")` -/
  seed : Bytes → Bytes

/-- the primitives with the behaviour the wallet code relies on (assumptions of the theorems, never axioms) -/
structure Crypto extends CryptoFns where
  open_seal : ∀ k n ad m, aeadOpen k n ad (aeadSeal k n ad m) = some m
  verify_sign : ∀ sk msg, edVerify (edPub sk) msg (edSign sk msg) = true
  hmac_len : ∀ k m, (hmac k m).length = 64
  sha3_len : ∀ m, (sha3 m).length = 32

/-! ### path grammar — `isValidPath` -/

def cM : Nat := 109      -- 'm'
def cSlash : Nat := 47   -- '/'
def cQuote : Nat := 39   -- '\''

def isDigit (c : Nat) : Bool := 48 ≤ c && c ≤ 57

/-- states of the automaton of `pathRegex = ^m(\/[0-9]+')+$` (Go RE2: `$` without the m flag is end of text,
    `[0-9]` is ASCII only, so matching bytes and matching runes coincide) -/
inductive PSt
  | start | afterM | afterSlash | inDigits | afterQuote | dead
  deriving DecidableEq, Repr

def pstep : PSt → Nat → PSt
  | .start, c => if c = cM then .afterM else .dead
  | .afterM, c => if c = cSlash then .afterSlash else .dead
  | .afterSlash, c => if isDigit c then .inDigits else .dead
  | .inDigits, c => if isDigit c then .inDigits else if c = cQuote then .afterQuote else .dead
  | .afterQuote, c => if c = cSlash then .afterSlash else .dead
  | .dead, _ => .dead

def prun : PSt → Bytes → PSt
  | q, [] => q
  | q, c :: cs => prun (pstep q c) cs

/-- `pathRegex.MatchString(path)` -/
def regexMatch (p : Bytes) : Bool := prun .start p == .afterQuote

/-- `strings.Split(s, "/")` on bytes: the pieces between separators (always at least one piece) -/
def splitOn (sep : Nat) : Bytes → List Bytes
  | [] => [[]]
  | c :: cs =>
    match splitOn sep cs with
    | [] => [[c]]   -- unreachable: splitOn never returns []
    | h :: t => if c = sep then [] :: h :: t else (c :: h) :: t

/-- `strings.TrimRight(s, "'")`: drop every trailing cutset byte -/
def trimRight (cut : Nat) (s : Bytes) : Bytes := (s.reverse.dropWhile (· == cut)).reverse

/-- value of a decimal digit string (most significant first) -/
def decVal (s : Bytes) : Nat := s.foldl (fun a c => 10 * a + (c - 48)) 0

/-- `strconv.ParseUint(s, 10, bits)`: `none` = error (empty, a non-digit byte — signs and underscores included —
    or value ≥ 2^bits). -/
def parseUint (bits : Nat) (s : Bytes) : Option Nat :=
  if s.isEmpty then none
  else if s.all isDigit then (if decVal s < 2 ^ bits then some (decVal s) else none)
  else none

def parseBits (args : List Nat) : Nat := args.getD 1 0

/-- segments[1:] after `strings.Split(path, "/")` -/
def segments (p : Bytes) : List Bytes := (splitOn cSlash p).tail

/-- `wallet.isValidPath` -/
def isValidPath (p : Bytes) : Bool :=
  regexMatch p &&
    (segments p).all (fun seg => (parseUint (parseBits Gen.parseUintArgs_isValidPath) (trimRight cQuote seg)).isSome)

/-! ### the grammar of the statement (specification side of T1) -/

/-- "m" followed by "/<d>'" for every digit string `d` of the list -/
def pathOf (segs : List Bytes) : Bytes := cM :: segs.flatMap (fun d => cSlash :: (d ++ [cQuote]))

/-- a non-empty string of ASCII decimal digits -/
def DigitStr (d : Bytes) : Prop := d ≠ [] ∧ d.all isDigit = true

/-- `m(/<decimal>')+` with every decimal below 2^32 (leading zeros allowed, any number of digits) -/
def PathGrammar (p : Bytes) : Prop :=
  ∃ segs : List Bytes, segs ≠ [] ∧ (∀ d ∈ segs, DigitStr d ∧ decVal d < two32) ∧ p = pathOf segs

/-! ### derivation -/

inductive Err
  | invalidPath          -- ErrInvalidPath
  | noPublicDerivation   -- ErrNoPublicDerivation
  | parse                -- strconv error inside DeriveForPath (unreachable after isValidPath; kept explicit)
  | entropy              -- bip39 refuses the entropy size
  | wrongPassword        -- ErrWrongPassword
  | version | cipher | kdfName   -- ReadKeyFile refusals
  | nonceLength          -- `cipher.AEAD.Open` PANICS ("incorrect nonce length given to GCM") — not an error value
  deriving DecidableEq, Repr

def Err.show : Err → String
  | .invalidPath => "invalid-path"
  | .noPublicDerivation => "no-public-derivation"
  | .parse => "parse"
  | .entropy => "entropy"
  | .wrongPassword => "wrong-password"
  | .version => "version"
  | .cipher => "cipher"
  | .kdfName => "kdf"
  | .nonceLength => "panic"

/-- `wallet.key` -/
structure Key where
  key : Bytes
  chain : Bytes
  deriving DecidableEq, Repr

/-- one HMAC-SHA512 evaluation requested by the derivation -/
inductive Query
  | master (seed : Bytes)
  | child (chain key : Bytes) (i : Nat)
  deriving DecidableEq, Repr

/-- `binary.BigEndian.PutUint32` ‖ layout of the data hashed in `key.derive`: 0x00 ‖ key ‖ be32(i) -/
def deriveInput (key : Bytes) (i : Nat) : Bytes := 0 :: (key ++ beBytes 4 i)

def Query.hkey : Query → Bytes
  | .master _ => Gen.seedModifier
  | .child chain _ _ => chain

def Query.msg : Query → Bytes
  | .master seed => seed
  | .child _ key i => deriveInput key i

/-- `sum[:32]`, `sum[32:]` -/
def splitKey (sum : Bytes) : Key := ⟨sum.take 32, sum.drop 32⟩

def ask (C : CryptoFns) (q : Query) : Key := splitKey (C.hmac q.hkey q.msg)

/-- `newMasterKey` -/
def newMasterKey (C : CryptoFns) (seed : Bytes) : Key := ask C (.master seed)

/-- `key.derive(i)` for a uint32 `i`: refuses non-hardened indices -/
def derive (C : CryptoFns) (k : Key) (i : Nat) : Except Err Key :=
  if i < Gen.FirstHardenedIndex then .error .noPublicDerivation
  else .ok (ask C (.child k.chain k.key i))

/-- `i := uint32(i64) + FirstHardenedIndex` — the uint32 addition wraps -/
def hardenedIndex (v : Nat) : Nat := (v % two32 + Gen.FirstHardenedIndex) % two32

/-- the loop of `DeriveForPath` over `segments[1:]`, together with the list of HMAC queries issued. The body of
    `key.derive` (`derive` above) is written in line — refusal below FirstHardenedIndex, else one HMAC query —
    (`Lemmas.Wallet.deriveSegs_step` shows it is the same as matching on `derive`). -/
def deriveSegs (C : CryptoFns) : List Bytes → Key → List Query → List Query × Except Err Key
  | [], k, log => (log, .ok k)
  | seg :: rest, k, log =>
    match parseUint (parseBits Gen.parseUintArgs_DeriveForPath) (trimRight cQuote seg) with
    | none => (log, .error .parse)
    | some v =>
      let i := hardenedIndex v
      if i < Gen.FirstHardenedIndex then (log, .error .noPublicDerivation)
      else deriveSegs C rest (ask C (.child k.chain k.key i)) (log ++ [.child k.chain k.key i])

/-- `DeriveForPath(path, seed)` up to (not including) `toKeyPair`, with the HMAC queries in order -/
def deriveForPathLog (C : CryptoFns) (path seed : Bytes) : List Query × Except Err Key :=
  if !isValidPath path then ([], .error .invalidPath)
  else deriveSegs C (segments path) (newMasterKey C seed) [.master seed]

def deriveKey (C : CryptoFns) (path seed : Bytes) : Except Err Key := (deriveForPathLog C path seed).2

/-- `types.PubKeyToAddress`: UserAddrByte ‖ sha3(pk)[:AddressCoreSize] -/
def pubKeyToAddress (C : CryptoFns) (pk : Bytes) : Bytes :=
  Gen.UserAddrByte :: (C.sha3 pk).take Gen.AddressCoreSize

/-- `wallet.KeyPair` (the ed25519 private key is seed ‖ public; only the seed is kept) -/
structure KeyPair where
  secret : Bytes
  pub : Bytes
  address : Bytes
  deriving DecidableEq, Repr

/-- `key.toKeyPair` -/
def toKeyPair (C : CryptoFns) (k : Key) : KeyPair :=
  let pub := C.edPub k.key
  ⟨k.key, pub, pubKeyToAddress C pub⟩

/-- `DeriveForPath` -/
def deriveForPath (C : CryptoFns) (path seed : Bytes) : Except Err KeyPair :=
  (deriveKey C path seed).map (toKeyPair C)

/-- decimal rendering (`%d` of an unsigned value) as bytes, most significant digit first -/
def decBytes (n : Nat) : Bytes :=
  if h : n < 10 then [48 + n] else decBytes (n / 10) ++ [48 + n % 10]
decreasing_by omega

/-- `fmt.Sprintf(ZenonAccountPathFormat, i)` -/
def indexPath (i : Nat) : Bytes := Gen.accountPathPrefix ++ decBytes i ++ Gen.accountPathSuffix

/-- `DeriveWithIndex(i, seed)` = `KeyStore.DeriveForIndexPath(i)` -/
def deriveWithIndex (C : CryptoFns) (i : Nat) (seed : Bytes) : Except Err KeyPair :=
  deriveForPath C (indexPath i) seed

/-- `KeyPair.Sign` -/
def sign (C : CryptoFns) (kp : KeyPair) (msg : Bytes) : Bytes := C.edSign kp.secret msg

/-- `wallet.VerifySignature` (ok-branch) -/
def verify (C : CryptoFns) (pub msg sig : Bytes) : Bool := C.edVerify pub msg sig

/-! ### key store and key file -/

/-- `wallet.KeyStore` -/
structure KeyStore where
  entropy : Bytes
  seed : Bytes
  mnemonic : Bytes
  baseAddress : Bytes
  deriving DecidableEq, Repr

/-- `keyStoreFromEntropy` -/
def keyStoreFromEntropy (C : CryptoFns) (entropy : Bytes) : Except Err KeyStore :=
  match C.mnemonic entropy with
  | none => .error .entropy
  | some mn =>
    let seed := C.seed mn
    match deriveWithIndex C 0 seed with
    | .error e => .error e
    | .ok kp => .ok ⟨entropy, seed, mn, kp.address⟩

/-- `wallet.KeyFile` without Path and Timestamp (wall clock) -/
structure KeyFile where
  baseAddress : Bytes
  cipherName : Bytes
  kdf : Bytes
  cipherData : Bytes
  nonce : Bytes
  salt : Bytes
  version : Nat
  deriving DecidableEq, Repr

/-! #### JSON text of the byte fields (`hexutil.Bytes`) -/

def toHexChars (b : Bytes) : List Char := b.flatMap fun x => [hexDigit (x / 16), hexDigit (x % 16)]

/-- `hexutil.Bytes.MarshalText`: "0x" followed by lower-case hex -/
def hexutilEncode (b : Bytes) : List Char := '0' :: 'x' :: toHexChars b

/-- `hexutil.Bytes.UnmarshalText`: needs the "0x" (or "0X") prefix and an even number of hex digits of either case -/
def hexutilDecode : List Char → Option Bytes
  | '0' :: 'x' :: rest => ofHexChars rest
  | '0' :: 'X' :: rest => ofHexChars rest
  | _ => none

/-- the byte-valued fields of the key file as they appear in the JSON text -/
structure KeyFileText where
  cipherData : List Char
  nonce : List Char
  salt : List Char
  deriving DecidableEq, Repr

/-- `KeyFile.Write` (the three `hexutil.Bytes` fields) -/
def KeyFile.text (kf : KeyFile) : KeyFileText :=
  ⟨hexutilEncode kf.cipherData, hexutilEncode kf.nonce, hexutilEncode kf.salt⟩

/-- `ReadKeyFile` (the three `hexutil.Bytes` fields); `none` = JSON decoding error -/
def KeyFileText.parse (t : KeyFileText) : Option (Bytes × Bytes × Bytes) := do
  let c ← hexutilDecode t.cipherData
  let n ← hexutilDecode t.nonce
  let s ← hexutilDecode t.salt
  pure (c, n, s)

/-- `passwordHash.Set` / `SetFromJSON`: `copy(h.password[:], pw[:32])` of the Argon2id output -/
def passwordKey (C : CryptoFns) (params : List Nat) (pw salt : Bytes) : Bytes := (C.kdf params pw salt).take 32

/-- `KeyStore.Encrypt(password)` with the two values drawn from crypto/rand (salt, nonce) as inputs -/
def encrypt (C : CryptoFns) (ks : KeyStore) (pw salt nonce : Bytes) : KeyFile :=
  let dk := passwordKey C Gen.argonParams_Set pw salt
  { baseAddress := ks.baseAddress
    cipherName := Gen.aesMode
    kdf := Gen.argonName
    cipherData := C.aeadSeal dk nonce Gen.sealAD ks.entropy
    nonce := nonce
    salt := salt
    version := Gen.cryptoStoreVersion }

/-- the checks of `ReadKeyFile` after JSON decoding -/
def readChecks (kf : KeyFile) : Except Err KeyFile :=
  if kf.version ≠ Gen.cryptoStoreVersion then .error .version
  else if kf.cipherName ≠ Gen.aesMode then .error .cipher
  else if kf.kdf ≠ Gen.argonName then .error .kdfName
  else .ok kf

/-- `KeyFile.Decrypt` up to the recovered entropy. A nonce that is not `gcm.NonceSize()` bytes long makes
    `stream.Open` panic (the code has no length check); every other failure of `Open` is mapped to ErrWrongPassword. -/
def decryptEntropy (C : CryptoFns) (kf : KeyFile) (pw : Bytes) : Except Err Bytes :=
  let dk := passwordKey C Gen.argonParams_SetFromJSON pw kf.salt
  if kf.nonce.length ≠ Gen.gcmNonceSize then .error .nonceLength
  else match C.aeadOpen dk kf.nonce Gen.openAD kf.cipherData with
    | none => .error .wrongPassword
    | some e => .ok e

/-- `KeyFile.Decrypt(password)` -/
def decrypt (C : CryptoFns) (kf : KeyFile) (pw : Bytes) : Except Err KeyStore :=
  match decryptEntropy C kf pw with
  | .error e => .error e
  | .ok e => keyStoreFromEntropy C e

/-! ### operation sequences on one key file object

`wallet.Manager` keeps ONE `*KeyFile` per path in its `encrypted` map for the lifetime of the node and decrypts that
same object on every `Unlock` / `GetKeyFileAndDecrypt`; a caller of `ReadKeyFile` may equally decrypt its object any
number of times, with right and wrong passwords, and `Write` it again. In the code `KeyFile.Decrypt` only READS the
object (`aesGCMDecrypt` opens into a fresh buffer, `SetFromJSON` copies the salt reference): the model's step
function returns the holder's key file untouched, and the driver compares the real object's fields with it after
every operation. -/

/-- operations on one in-memory key file object -/
inductive KfOp
  /-- `KeyFile.Decrypt(pw)` / `Manager.GetKeyFileAndDecrypt(path, pw)` -/
  | decrypt (pw : Bytes)
  /-- `Manager.Unlock(path, pw)` -/
  | unlock (pw : Bytes)
  /-- `Manager.Lock(path)` -/
  | lock
  /-- `KeyFile.Write()` followed by `ReadKeyFile`, continuing on the object read back -/
  | writeRead
  /-- the caller overwrites the entropy / seed of a key store it was handed (no effect on the key file) -/
  | scrub
  deriving DecidableEq, Repr

/-- the object under test: the key file and, for a `Manager`, the entropy of the unlocked key store -/
structure KfHolder where
  kf : KeyFile
  unlocked : Option Bytes
  deriving DecidableEq, Repr

/-- what an operation reports -/
inductive KfOut
  | entropy (r : Except Err Bytes)
  | done
  /-- the three byte fields read back by `ReadKeyFile`, `none` = JSON decoding error -/
  | reread (r : Option (Bytes × Bytes × Bytes))

def kfStep (C : CryptoFns) (h : KfHolder) : KfOp → KfHolder × KfOut
  | .decrypt pw => (h, .entropy (decryptEntropy C h.kf pw))
  | .unlock pw =>
    match decryptEntropy C h.kf pw with
    | .ok e => ({ h with unlocked := some e }, .entropy (.ok e))
    | .error e => (h, .entropy (.error e))
  | .lock => ({ h with unlocked := none }, .done)
  | .writeRead =>
    match h.kf.text.parse with
    | some (c, n, s) => ({ h with kf := { h.kf with cipherData := c, nonce := n, salt := s } }, .reread (some (c, n, s)))
    | none => (h, .reread none)
  | .scrub => (h, .done)

/-- a whole sequence: final holder and the outcomes in order -/
def kfRun (C : CryptoFns) (h : KfHolder) : List KfOp → KfHolder × List KfOut
  | [] => (h, [])
  | op :: ops =>
    let (h', o) := kfStep C h op
    let (h'', os) := kfRun C h' ops
    (h'', o :: os)

end ZV.Wallet
