import ZenonVerif.Lemmas.LedgerFifo
/-
Node-level ledger with history: the list of confirmed momentums (each with the account-block events it confirmed and
the store it left behind), the unconfirmed pool (per account a stack of applied-but-unconfirmed events on top of the
confirmed chain) and the STORED contract inboxes (front / back counters + entries), as far as C01 / C04 need them.

Stands for
  chain/momentum_pool.go   AddMomentumTransaction (push one version), RollbackTo (pop versions one by one, each pop
                           broadcasts DeleteMomentum)
  chain/account_pool.go    addAccountBlockTransaction (fast-forward insert / roll back to `previous` and insert),
                           InsertMomentum -> rebuild, DeleteMomentum (managers := empty map), restart (the pool lives in
                           memory only: `managers` is rebuilt empty by newAccountPool; the confirmed state is the ledger DB)
  chain/momentum/ledger_store.go AddAccountBlockTransaction (apply the account patch; per send: MarkAsUnreceived +
                           SequencerPushBack for an embedded addressee; per receive: marker bookkeeping)
  chain/account/sequencer.go + chain/account/mailbox/mailbox.go  sequencerFrontIndex (account key 7), SequencerPopFront,
                           SequencerFront, SequencerSize (mailbox key 7), SequencerPushBack, SequencerByHeight (prefix 8)
  verifier/account_block.go fromHash (the send must be a CONFIRMED block of the momentum store), sequencer
                           (block.FromBlockHash = SequencerFront)

The ledger seen at a point is a fold of the `Ledger` step functions (`Ledger.step`, module Lemmas/LedgerStep, core only)
over events. Where the Go code re-applies stored patches (momentum insertion merges the patches of pooled blocks, pool
rebuild re-applies the patches of the blocks that still link) the model RE-VERIFIES the events on the new state and drops /
refuses what does not verify; that both give the same pool and the same stores is what the `ledger-node` stream compares
after every operation (pool contents per account, balances, markers, counters).
A pooled block is verified against the FRONTIER confirmed state: the Go verifier reads the confirmed state as of the block's
`MomentumAcknowledged`; the blocks of the stream acknowledge the frontier momentum (what a node's own blocks do).
A store version is kept per momentum, as the versioned ledger DB does (C06 / C07 are about that DB): rollback pops versions.
-/
namespace ZV.LedgerNode
open ZV.Ledger

/-- stored inbox of one embedded contract -/
structure SeqC where
  back : Nat            -- mailbox key 7 (`SequencerSize`): number of entries ever pushed
  entries : List Hash   -- mailbox prefix 8: entry at height i (1-based) = entries[i-1]
  front : Nat           -- account-store key 7 (`sequencerFrontIndex`): number of entries received so far
  deriving DecidableEq, Repr

def SeqC.empty : SeqC := ⟨0, [], 0⟩

/-- `SequencerPushBack`: total := size + 1; put size key; put header under height `total` -/
def SeqC.pushBack (q : SeqC) (h : Hash) : SeqC := { q with back := q.back + 1, entries := q.entries ++ [h] }

/-- `SequencerPopFront`: last := front index; put last + 1 -/
def SeqC.popFront (q : SeqC) : SeqC := { q with front := q.front + 1 }

/-- `SequencerFront`: nil when last = total, else the entry at height last + 1 -/
def SeqC.frontEntry (q : SeqC) : Option Hash := if q.front = q.back then none else q.entries[q.front]?

/-- one version of the ledger database: the abstract ledger + the stored inbox counters -/
structure Store where
  led : State
  seq : Addr → SeqC

def upd (q : Addr → SeqC) (c : Addr) (v : SeqC) : Addr → SeqC := fun a => if a = c then v else q a

/-- confirmation of sends: `SequencerPushBack` for every send addressed to an embedded contract, in content order -/
def seqPush (q : Addr → SeqC) : List Send → Addr → SeqC
  | [] => q
  | x :: r => seqPush (if isEmbedded x.dst then upd q x.dst ((q x.dst).pushBack x.hash) else q) r

/-- a contract receive pops the front (part of the account patch the VM produces: pool and confirmed state alike) -/
def seqPop (q : Addr → SeqC) : Ev → Addr → SeqC
  | .crecv c _ _ _ => upd q c (q c).popFront
  | _ => q

/-- the account whose chain the block extends -/
def acct : Ev → Addr
  | .usend src _ _ _ _ _ => src
  | .urecv a _ => a
  | .crecv c _ _ _ => c

inductive NErr where
  | notFresh                 -- a hash of the block is already the hash of a known send (never on a real chain)
  | ledger (e : Err)         -- refused by the ledger step function (verifier + VM)
  | fromUnconfirmed          -- the send named by a receive is not a confirmed block
  | seqFront                 -- a contract receive does not answer the stored front entry of the inbox
  | badHeight
  | badContent
  deriving DecidableEq, Repr

/-- confirmation of one account block by a momentum: the account patch + the bookkeeping of `AddAccountBlockTransaction` -/
def confirmEv (st : Store) (e : Ev) : Except NErr Store :=
  if Admissible st.led e then
    match step st.led e with
    | .error err => .error (.ledger err)
    | .ok led' => .ok ⟨led', seqPush (seqPop st.seq e) e.newSends⟩
  else .error .notFresh

def confirmAll (st : Store) : List Ev → Except NErr Store
  | [] => .ok st
  | e :: es =>
    match confirmEv st e with
    | .error err => .error err
    | .ok st' => confirmAll st' es

/-- what the verifier reads from the MOMENTUM store (confirmed state `b`) and from the stored inbox when it checks a pooled
    receive: `fromHash` looks the send up among confirmed blocks, `sequencer` compares with `SequencerFront`
    (front index of the pool view `v`, entries of the confirmed mailbox — the pool never pushes, so `v.seq` has them) -/
def poolCheck (b v : Store) : Ev → Except NErr Unit
  | .usend .. => .ok ()
  | .urecv _ h => if (findSend b.led.sends h).isSome then .ok () else .error .fromUnconfirmed
  | .crecv c h _ _ =>
    if (findSend b.led.sends h).isSome then
      if (v.seq c).frontEntry = some h then .ok () else .error .seqFront
    else .error .fromUnconfirmed

/-- application of one block on the pool view: verification + VM; sends do NOT enter an inbox before confirmation -/
def poolEv (b v : Store) (e : Ev) : Except NErr Store :=
  match poolCheck b v e with
  | .error err => .error err
  | .ok () =>
    if Admissible v.led e then
      match step v.led e with
      | .error err => .error (.ledger err)
      | .ok led' => .ok ⟨led', seqPop v.seq e⟩
    else .error .notFresh

def poolAll (b v : Store) : List Ev → Except NErr Store
  | [] => .ok v
  | e :: es =>
    match poolEv b v e with
    | .error err => .error err
    | .ok v' => poolAll b v' es

/-- the unconfirmed pool: per account (`accountPool.managers`) the blocks above the confirmed frontier, oldest first -/
abbrev Pool := List (Addr × List Ev)

/-- all pooled blocks applied on the confirmed state, account after account -/
def poolRun (b : Store) : Store → Pool → Except NErr Store
  | v, [] => .ok v
  | v, (_, evs) :: rest =>
    match poolAll b v evs with
    | .error err => .error err
    | .ok v' => poolRun b v' rest

/-- `accountPool.rebuild`: re-apply every account's pooled blocks on the (new) confirmed state; an account whose blocks
    do not apply any more is dropped as a whole (`continue addresses`), the others are kept -/
def rebuild (b : Store) : Store → Pool → Pool × Store
  | v, [] => ([], v)
  | v, (a, evs) :: rest =>
    match poolAll b v evs with
    | .ok v' => let r := rebuild b v' rest; ((a, evs) :: r.1, r.2)
    | .error _ => rebuild b v rest

def getPool (p : Pool) (a : Addr) : List Ev :=
  match p.find? (fun x => x.1 == a) with
  | some x => x.2
  | none => []

structure Node where
  gen : Store                          -- the genesis version of the ledger DB
  chain : List (List Ev × Store)       -- confirmed momentums above genesis, NEWEST first: content + the version it left
  pool : Pool

def Node.genesis (g : Store) : Node := ⟨g, [], []⟩

def topStore (g : Store) : List (List Ev × Store) → Store
  | [] => g
  | (_, st) :: _ => st

/-- `GetFrontierMomentumStore` -/
def Node.frontier (n : Node) : Store := topStore n.gen n.chain

/-- contents of the confirmed momentums, oldest first -/
def Node.moms (n : Node) : List (List Ev) := (n.chain.map (·.1)).reverse

/-- the ledger seen through the pool (frontier account stores of all accounts over the confirmed state) -/
def Node.poolView (n : Node) : Store := (rebuild n.frontier n.frontier n.pool).2

/-- `addAccountBlockTransaction`: the block is put at pool height `k` of its account — `k` = number of pooled blocks of
    the account is the fast-forward insert, a smaller `k` is the replacement path (`manager.Pop` down to `previous`, then
    `Add`): the pooled block at that height and everything built on it in that account are displaced. Pooled receives of
    OTHER accounts never depend on a displaced block: a receive is accepted only for a CONFIRMED send (`poolCheck`). -/
def Node.putBlock (n : Node) (k : Nat) (e : Ev) : Except NErr Node :=
  let a := acct e
  let old := getPool n.pool a
  if old.length < k then .error .badHeight
  else
    let r := rebuild n.frontier n.frontier (n.pool.filter (fun x => x.1 != a))
    match poolAll n.frontier r.2 (old.take k ++ [e]) with
    | .error err => .error err
    | .ok _ => .ok { n with pool := r.1 ++ [(a, old.take k ++ [e])] }

def contentCount (content : List (Addr × Nat)) (a : Addr) : Nat :=
  match content.find? (fun x => x.1 == a) with
  | some x => x.2
  | none => 0

/-- the account blocks a momentum with this content confirms: per listed account the first `k` pooled blocks
    (`rawMomentumVerifier.content`: a gap-free chain from the confirmed frontier; `applyMomentum` takes the patches from
    the pool), in content order -/
def contentEvents (p : Pool) (content : List (Addr × Nat)) : List Ev :=
  (content.map (fun x => (getPool p x.1).take x.2)).flatten

/-- `AddMomentumTransaction` + the pool's `InsertMomentum` listener -/
def Node.insertMomentum (n : Node) (content : List (Addr × Nat)) : Except NErr Node :=
  if content.any (fun x => (getPool n.pool x.1).length < x.2) then .error .badContent
  else
    let evs := contentEvents n.pool content
    match confirmAll n.frontier evs with
    | .error err => .error err
    | .ok st =>
      let rest := (n.pool.map (fun x => (x.1, x.2.drop (contentCount content x.1)))).filter (fun x => !x.2.isEmpty)
      .ok { n with chain := (evs, st) :: n.chain, pool := (rebuild st st rest).1 }

/-- `RollbackTo` the momentum `h` levels above genesis: pops versions; every popped momentum broadcasts `DeleteMomentum`,
    which empties the pool (nothing is popped, and the pool kept, when `h` is the frontier) -/
def Node.rollbackTo (n : Node) (h : Nat) : Node :=
  if h < n.chain.length then { n with chain := n.chain.drop (n.chain.length - h), pool := [] } else n

/-- close + reopen: the confirmed state is the database, the pool is memory -/
def Node.restart (n : Node) : Node := { n with pool := [] }

inductive Op where
  | put (k : Nat) (e : Ev)
  | insertMomentum (content : List (Addr × Nat))
  | rollbackTo (h : Nat)
  | restart

/-- a refused operation leaves the node as it is -/
def Node.apply (n : Node) : Op → Node
  | .put k e => match n.putBlock k e with | .ok n' => n' | .error _ => n
  | .insertMomentum c => match n.insertMomentum c with | .ok n' => n' | .error _ => n
  | .rollbackTo h => n.rollbackTo h
  | .restart => n.restart

def Node.run (n : Node) : List Op → Node
  | [] => n
  | o :: os => (n.apply o).run os

/-- replay of momentum contents from a store -/
def replay (st : Store) : List (List Ev) → Except NErr Store
  | [] => .ok st
  | m :: ms =>
    match confirmAll st m with
    | .error err => .error err
    | .ok st' => replay st' ms

end ZV.LedgerNode
