import ZenonVerif.Model.Codec
import ZenonVerif.Gen.HashFields
import ZenonVerif.Gen.Accept
/-
L9 `Accept` — what a node STORES for an account block that is delivered to it from outside, field by field.

Stands for the path  protocol/chain_bridge.go AddAccountBlocks / InsertChain  →  vm/supervisor.go `Supervisor.ApplyBlock`
→ `applyBlock(block, nil)`:
    verifier.AccountBlock(block)                 verifier/account_block.go accountBlockVerifier.all()  — reads covered fields only
    vm.applyBlock(block)                         vm/vm.go: enoughPlasma (user blocks: `block.TotalPlasma = …`, `block.BasePlasma = …`),
                                                 applySend / applyReceive (user), or for a contract receive the REGENERATED block:
                                                 `generated.ChangesHash != block.ChangesHash`, `generated.ComputeHash() != block.Hash`,
                                                 `block.BasePlasma / TotalPlasma / DescendantBlocks = generated.…` (fix 48b97c9)
    packBlock(context, block, nil)               signFunc == nil: nothing is assigned (ChangesHash is set only when the node signs);
                                                 verifier.AccountBlockTransaction: hash(), signature(), producer(), descendantBlocks()
→ chain.AddAccountBlockTransaction (account pool) → momentumStore.AddAccountBlockTransaction: the object `transaction.Block`
is serialised with `Proto()` (every field of `Gen.abProtoAssign`; the `producer` cache is not part of it).

The DELIVERED OBJECT is kept: what is stored is the delivered block after the assignments above. Everything the node
computes from its own state and from fields the hash covers is a parameter (`Env`): these functions are applied to
`b.strip` (the block with every uncovered field erased, Model/Codec.lean), which IS the statement that they do not
read an uncovered field — tied by the regenerated fact `Gen.acceptUncoveredUses` (every place in vm/, verifier/ where an
uncovered field of a block is read or written; Props/C13Accept.lean pins the list).
-/
namespace ZV.Accept
open ZV ZV.Codec

/-- how the acceptance path treats one struct field of a delivered block -/
inductive Treat where
  | covered      -- enters `ComputeHash` (C13 T1: fixed by the hash)
  | compared     -- compared with a value the node computes itself; refused when different
  | recomputed   -- overwritten with a value the node computes itself (normalised)
  | boundToKey   -- must verify against covered fields through a cryptographic oracle; not unique for the key holder
  | boundUnique  -- must verify against covered fields through a cryptographic oracle that is injective (PublicKey ↔ Address)
  | mustBeEmpty  -- refused unless empty
  | kept         -- stored as delivered and never looked at: RESIDUE
  | notStored    -- cache, never serialised
deriving DecidableEq, Repr

/-- the two kinds of delivered blocks (`ApplyBlock` refuses BlockTypeContractSend at once; descendants travel inside
    their receive) -/
inductive Path where
  | user | contractReceive
deriving DecidableEq, Repr

def coveredNames : List String := Gen.abHashFields.map (fun p => coveredStructField p.1)

/-- reviewed per-field table (by reading the functions named in the header). Fields of the hash come from the generated
    list; only the uncovered ones are decided here. -/
def treat (p : Path) (f : String) : Treat :=
  if f = "DescendantBlocks" then (match p with | .user => .mustBeEmpty | .contractReceive => .recomputed)
  else if coveredNames.contains f then .covered
  else match p, f with
    | _, "Hash" => .compared
    | _, "producer" => .notStored
    | .user, "BasePlasma" => .recomputed
    | .user, "TotalPlasma" => .recomputed
    | .user, "ChangesHash" => .kept
    | .user, "PublicKey" => .boundUnique
    | .user, "Signature" => .boundToKey
    | .contractReceive, "BasePlasma" => .recomputed
    | .contractReceive, "TotalPlasma" => .recomputed
    | .contractReceive, "ChangesHash" => .compared
    | .contractReceive, "PublicKey" => .mustBeEmpty
    | .contractReceive, "Signature" => .mustBeEmpty
    | _, _ => .kept     -- a field nobody decided about counts as residue (and fails `residue_is_exactly`)

/-- the fields whose stored value is NOT determined by (hash, node state): stored as delivered, or determined only up to
    the holder of the signing key -/
def residue (p : Path) : List String :=
  Gen.abStructFields.filter (fun f => treat p f == .kept || treat p f == .boundToKey)

/-- reviewed copy of `Gen.acceptAssigns`: every assignment to an uncovered field of the delivered object, with its guard.
    The guard `signFunc != nil` is the node signing its OWN block (GenerateFromTemplate); a delivered block has signFunc = nil. -/
def reviewedAssigns : List (String × String × String) := [
  ("Supervisor.packBlock", "Hash", "signFunc != nil"),
  ("Supervisor.packBlock", "Signature", "signFunc != nil"),
  ("Supervisor.packBlock", "PublicKey", "signFunc != nil"),
  ("Supervisor.packBlock", "ChangesHash", "signFunc != nil"),
  ("Supervisor.packBlock", "Hash", "signFunc != nil"),
  ("Supervisor.packBlock", "Signature", "signFunc != nil"),
  ("Supervisor.packBlock", "PublicKey", "signFunc != nil"),
  ("enoughPlasma", "TotalPlasma", ""),
  ("enoughPlasma", "BasePlasma", ""),
  ("VM.applyBlock", "BasePlasma", "case nom.BlockTypeContractReceive"),
  ("VM.applyBlock", "TotalPlasma", "case nom.BlockTypeContractReceive"),
  ("VM.applyBlock", "DescendantBlocks", "case nom.BlockTypeContractReceive")]

/-- reviewed copy of `Gen.acceptUses`: every read of an uncovered field of the delivered object -/
def reviewedUses : List (String × String × String) := [
  ("Supervisor.packBlock", "Hash", "signFunc(block.Hash.Bytes())"),
  ("enoughPlasma", "TotalPlasma", "block.TotalPlasma > constants.MaxPlasmaForAccountBlock"),
  ("enoughPlasma", "TotalPlasma", "block.TotalPlasma < block.BasePlasma"),
  ("enoughPlasma", "BasePlasma", "block.TotalPlasma < block.BasePlasma"),
  ("VM.applyBlock", "ChangesHash", "generated.ChangesHash != block.ChangesHash"),
  ("VM.applyBlock", "ChangesHash", "errors.Errorf(\"auto-received block has different changes-hash expected %v but got %v\", generated.ChangesHash, block.ChangesHash)"),
  ("VM.applyBlock", "Hash", "computed != block.Hash"),
  ("accountBlockVerifier.momentumAcknowledged", "DescendantBlocks", "range abv.block.DescendantBlocks"),
  ("accountBlockTransactionVerifier.signature", "PublicKey", "len(block.PublicKey) != 0"),
  ("accountBlockTransactionVerifier.signature", "Signature", "len(block.Signature) != 0"),
  ("accountBlockTransactionVerifier.signature", "Signature", "len(block.Signature) == 0"),
  ("accountBlockTransactionVerifier.signature", "PublicKey", "len(block.PublicKey) == 0"),
  ("accountBlockTransactionVerifier.signature", "PublicKey", "wallet.VerifySignature(block.PublicKey, block.Hash.Bytes(), block.Signature)"),
  ("accountBlockTransactionVerifier.signature", "Hash", "wallet.VerifySignature(block.PublicKey, block.Hash.Bytes(), block.Signature)"),
  ("accountBlockTransactionVerifier.signature", "Signature", "wallet.VerifySignature(block.PublicKey, block.Hash.Bytes(), block.Signature)"),
  ("accountBlockTransactionVerifier.hash", "Hash", "block.Hash.IsZero()"),
  ("accountBlockTransactionVerifier.hash", "Hash", "computedHash != block.Hash"),
  ("accountBlockTransactionVerifier.producer", "PublicKey", "types.PubKeyToAddress(block.PublicKey)"),
  ("accountBlockTransactionVerifier.descendantBlocks", "DescendantBlocks", "len(block.DescendantBlocks) > 0"),
  ("accountBlockTransactionVerifier.descendantBlocks", "DescendantBlocks", "range block.DescendantBlocks")
]

/-- the fields assigned on the delivered object on a path: assignments outside `signFunc != nil`; `enoughPlasma` returns
    before its assignments for embedded addresses, the `case nom.BlockTypeContractReceive` is the contract path -/
def assignedOn (p : Path) (l : List (String × String × String)) : List String :=
  (l.filter (fun a => match p with
      | .user => a.2.2 == ""
      | .contractReceive => a.2.2 == "case nom.BlockTypeContractReceive")).map (·.2.1)

/-- the functions in which field `f` of the delivered object is read -/
def readIn (f : String) (l : List (String × String × String)) : List String :=
  ((l.filter (fun u => u.2.1 == f)).map (·.1)).eraseDups

inductive Refusal where
  | contractSend | blockType | verifier | plasma | apply | generate | changesHash | generatedHash | panic
  | hashMissing | hashInvalid | publicKeyMustBeZero | signatureMustBeZero | signatureMissing | publicKeyMissing
  | signatureInvalid | publicKeyWrongAddress | descendantMustBeZero | descendant
deriving DecidableEq, Repr

/-- everything the node computes itself. Functions of a block receive `b.strip`. -/
structure Env where
  /-- SHA3-256 (`types.NewHash`) -/
  H : Bytes → Bytes
  /-- `types.IsEmbeddedAddress` -/
  isEmbedded : Bytes → Bool
  /-- `accountBlockVerifier.all()` without `blockType()` (modelled below): version, chain identifier, amounts, pow, previous,
      momentumAcknowledged, fromHash, sequencer against the node's stores -/
  verifierOK : Block → Bool
  /-- `AvailablePlasma(context.MomentumStore(), context)` -/
  available : Block → Nat
  /-- `DifficultyToPlasma` -/
  powPlasma : Nat → Nat
  /-- `constants.MaxPlasmaForAccountBlock` -/
  maxPlasma : Nat
  /-- `GetBasePlasmaForAccountBlock(context, block)` -/
  basePlasma : Block → Nat
  /-- `applySend` / `applyReceive` succeed (embedded method validation, funds, mark-as-received) -/
  applyOK : Block → Bool
  /-- `vm.generateEmbeddedReceive(block.FromBlockHash)` in the context selected by MomentumAcknowledged, Address, Previous -/
  generate : Block → Option Block
  /-- `wallet.VerifySignature(publicKey, message, signature)` = ok and no error -/
  verifySig : Bytes → Bytes → Bytes → Bool
  /-- `types.PubKeyToAddress` -/
  pubKeyToAddress : Bytes → Bytes
  /-- `accountBlockVerifier.all()` on every element of `DescendantBlocks` (transaction verifier, descendantBlocks()) -/
  descOK : List Block → Bool

def isZeroHash (h : Bytes) : Bool := h.all (· == 0)

/-- `accountBlockVerifier.blockType()` -/
def blockTypeOK (e : Env) (b : Block) : Bool :=
  let t := b.body.blockType
  if e.isEmbedded b.body.address then t == 5 || t == 4 else t == 3 || t == 2

/-- `enoughPlasma` (vm/vm.go). uint64 addition wraps. -/
def enoughPlasma (e : Env) (b : Block) : Except Refusal Block :=
  if e.isEmbedded b.body.address then .ok b
  else if e.available b.strip < b.body.fusedPlasma then .error .plasma
  else
    let total := (e.powPlasma b.body.difficulty + b.body.fusedPlasma) % two64
    if total > e.maxPlasma then .error .plasma
    else
      let base := e.basePlasma b.strip
      if total < base then .error .plasma
      else .ok ⟨{ b.body with totalPlasma := total, basePlasma := base }, b.desc⟩

/-- the `switch block.BlockType` of `(vm *VM) applyBlock` after enoughPlasma -/
def applySwitch (e : Env) (b : Block) : Except Refusal Block :=
  if b.body.blockType = 2 ∨ b.body.blockType = 4 ∨ b.body.blockType = 3 then
    if e.applyOK b.strip then .ok b else .error .apply
  else if b.body.blockType = 5 then
    match e.generate b.strip with
    | none => .error .generate
    | some g =>
      if g.body.changesHash ≠ b.body.changesHash then .error .changesHash
      else if abComputeHash e.H g ≠ b.body.hash then .error .generatedHash
      else .ok ⟨{ b.body with basePlasma := g.body.basePlasma, totalPlasma := g.body.totalPlasma }, g.desc⟩
  else .error .panic

/-- `accountBlockTransactionVerifier.all()`: hash(), signature(), producer(), descendantBlocks() -/
def txVerify (e : Env) (b : Block) : Except Refusal Unit :=
  if isZeroHash b.body.hash then .error .hashMissing
  else if abComputeHash e.H b ≠ b.body.hash then .error .hashInvalid
  else if e.isEmbedded b.body.address then
    if b.body.publicKey.length ≠ 0 then .error .publicKeyMustBeZero
    else if b.body.signature.length ≠ 0 then .error .signatureMustBeZero
    else if !(b.body.blockType == 5 || b.body.blockType == 3 || b.body.blockType == 1) ∧ b.desc.length > 0 then .error .descendantMustBeZero
    else if !(e.descOK (stripList b.desc)) then .error .descendant
    else .ok ()
  else
    if b.body.signature.length = 0 then .error .signatureMissing
    else if b.body.publicKey.length = 0 then .error .publicKeyMissing
    else if !(e.verifySig b.body.publicKey b.body.hash b.body.signature) then .error .signatureInvalid
    else if e.pubKeyToAddress b.body.publicKey ≠ b.body.address then .error .publicKeyWrongAddress
    else if b.desc.length > 0 then .error .descendantMustBeZero
    else .ok ()

/-- `Supervisor.ApplyBlock(block)` for a block that arrives from outside (signFunc = nil): `.ok s` = accepted and `s` is
    the object handed to the account pool and serialised into the ledger -/
def applyBlock (e : Env) (b : Block) : Except Refusal Block :=
  if b.body.blockType = 4 then .error .contractSend
  else if !(blockTypeOK e b) then .error .blockType
  else if !(e.verifierOK b.strip) then .error .verifier
  else
    match enoughPlasma e b with
    | .error r => .error r
    | .ok b1 =>
      match applySwitch e b1 with
      | .error r => .error r
      | .ok b2 =>
        match txVerify e b2 with
        | .error r => .error r
        | .ok () => .ok b2

/-- the uncovered fields as an enumeration, for statements that alter one of them -/
inductive UField where
  | basePlasma (v : Nat) | totalPlasma (v : Nat) | changesHash (v : Bytes) | publicKey (v : Bytes) | signature (v : Bytes)

def UField.name : UField → String
  | .basePlasma _ => "BasePlasma" | .totalPlasma _ => "TotalPlasma" | .changesHash _ => "ChangesHash"
  | .publicKey _ => "PublicKey" | .signature _ => "Signature"

/-- the delivered block with one uncovered field replaced -/
def alter (b : Block) : UField → Block
  | .basePlasma v => ⟨{ b.body with basePlasma := v }, b.desc⟩
  | .totalPlasma v => ⟨{ b.body with totalPlasma := v }, b.desc⟩
  | .changesHash v => ⟨{ b.body with changesHash := v }, b.desc⟩
  | .publicKey v => ⟨{ b.body with publicKey := v }, b.desc⟩
  | .signature v => ⟨{ b.body with signature := v }, b.desc⟩

/-- erase the residue of the user path from a stored block -/
def eraseResidue (s : Block) : Block := ⟨{ s.body with changesHash := [], signature := [] }, s.desc⟩

end ZV.Accept
