import ZenonVerif.Lemmas.LedgerInbox
import ZenonVerif.Lemmas.LedgerTokenInbox
import ZenonVerif.Lemmas.LedgerDemo
/-
C09 — every accepted call to an embedded contract completes or refunds; the inbox cannot be wedged.
Property theorems only (helpers: Lemmas/LedgerInbox.lean, LedgerFifo.lean; vocabulary: header of Props/C01.lean).

The contract methods are parameters of the ledger model: `crecv s c h status descs` takes the observed outcome of the
method (status 1 = applied, 2 = failed and refunded; the descendant sends) and checks what the VM skeleton enforces
(`generateEmbeddedReceive` / `rollbackEmbedded`). For the token contract the method itself is modelled (`tokenMethod`).
Panic-freedom of the ABI decoder (DESIGN C09-T3) and unpack∘pack are proved over the decoder model in Props/C09Abi.lean.
Termination and panic-freedom of the Go method bodies (T4, T5) are not statements about this model; they are covered by
the autoreceive stream's monitors (harness/cmd/zvh/s_autoreceive.go).

  `pendingFor s c`    confirmed sends addressed to c that c has not received, in confirmation order
  `descSum ds t`      Σ of the descendant amounts of token t        `refundDescs snd h'`  the refund descendant list
-/
namespace ZV.C09
open ZV.Ledger

/-! ## T1 — applied or exactly refunded -/

/-- T1: an accepted contract receive of `h` is either applied (status 1) or refunded (status 2); a refund emits exactly
    `[amount of the send → its sender]` (nothing when the amount is 0), leaves the token contract's storage as it was
    and restores the contract's balance of every token. -/
theorem complete_or_refund (s s' : State) (c : Addr) (h : Hash) (st : Nat) (ds : List Desc)
    (hok : crecv s c h st ds = .ok s') :
    ∃ snd, checkFrom s c h = .ok snd ∧
      (st = 1 ∨ (st = 2 ∧ descShape ds = refundOf snd ∧ s'.toks = s.toks ∧
                 ∀ t, getBal s'.bal c t = getBal s.bal c t)) := by
  cases crecv_cases hok with
  | plain nxt snd _ _ hchk hst href _ _ hds =>
    refine ⟨snd, hchk, ?_⟩
    rcases hst with h1 | h2
    · exact Or.inl h1
    · refine Or.inr ⟨h2, href h2, (applyDescs_frame hds).2.1, ?_⟩
      intro t
      have := (balance_plain hds).1 t
      rw [descSum_refund (href h2) t] at this
      omega
  | token nxt snd out _ _ hchk _ hst _ _ _ _ => exact ⟨snd, hchk, Or.inl hst⟩

/-- T1, balance delta. In both outcomes nobody's balance but the contract's moves, and the contract's balance of every
    token `t` moves by `+ amount received − Σ descendants` — plus `mint − burn` of the method's token when the token
    contract applies a call. Stated with additions only, so the equation also says that no subtraction truncated. -/
theorem contract_balance_delta (s s' : State) (c : Addr) (h : Hash) (st : Nat) (ds : List Desc)
    (hok : crecv s c h st ds = .ok s') :
    ∃ snd, checkFrom s c h = .ok snd ∧
      (∀ a, a ≠ c → ∀ t, getBal s'.bal a t = getBal s.bal a t) ∧
      ((s'.toks = s.toks ∧
          ∀ t, getBal s'.bal c t + descSum ds t = getBal s.bal c t + (if snd.tok = t then snd.amt else 0)) ∨
       (c = tokenContract ∧ st = 1 ∧ ∃ out, tokenMethod s.toks snd (newTokOf ds) = some out ∧
          s'.toks = out.toks ∧ descShape ds = out.descs ∧
          ∀ t, getBal s'.bal c t + descSum ds t + (if out.mintTok = t then out.burn else 0)
             = getBal s.bal c t + (if snd.tok = t then snd.amt else 0) + (if out.mintTok = t then out.mint else 0))) := by
  cases crecv_cases hok with
  | plain nxt snd _ _ hchk _ _ _ _ hds =>
    exact ⟨snd, hchk, (balance_plain hds).2, Or.inl ⟨(applyDescs_frame hds).2.1, (balance_plain hds).1⟩⟩
  | token nxt snd out _ _ hchk hc hst hm hshape hburn hds =>
    exact ⟨snd, hchk, (balance_token hburn hds).2,
      Or.inr ⟨hc, hst, out, hm, (applyDescs_frame hds).2.1, hshape, (balance_token hburn hds).1⟩⟩

/-- T1 for every contract other than the token contract: storage of the token contract untouched, balance delta
    `+ amount − Σ descendants`. -/
theorem generic_contract_balance_delta (s s' : State) (c : Addr) (h : Hash) (st : Nat) (ds : List Desc)
    (hc : c ≠ tokenContract) (hok : crecv s c h st ds = .ok s') :
    ∃ snd, checkFrom s c h = .ok snd ∧ s'.toks = s.toks ∧
      ∀ t, getBal s'.bal c t + descSum ds t = getBal s.bal c t + (if snd.tok = t then snd.amt else 0) := by
  cases crecv_cases hok with
  | plain nxt snd _ _ hchk _ _ _ _ hds => exact ⟨snd, hchk, (applyDescs_frame hds).2.1, (balance_plain hds).1⟩
  | token nxt snd out _ _ _ hc' _ _ _ _ _ => exact absurd hc' hc

/-- T1, funding: every descendant of an accepted receive passed `applySend` on a balance that covers it
    (see `C01.no_underflow` for the reading of `NoUnderflow`). -/
theorem descendants_funded (s s' : State) (c : Addr) (h : Hash) (st : Nat) (ds : List Desc)
    (hok : crecv s c h st ds = .ok s') : NoUnderflow s (.crecv c h st ds) :=
  step_noUnderflow (e := .crecv c h st ds) hok

/-! ## T2 — the inbox advances by exactly one -/

/-- T2: after an accepted receive of `h` by `c`: `h` was the head of `c`'s pending queue, `(c, h)` is marked, and the
    new pending queue is the old one without its head, followed by the sends the receive's own descendants address
    to `c`; `nextInLine` is its head. -/
theorem inbox_advances (s s' : State) (c : Addr) (h : Hash) (st : Nat) (ds : List Desc)
    (hw : WF s) (hf : Fresh s (.crecv c h st ds)) (hok : crecv s c h st ds = .ok s') :
    (c, h) ∈ s'.recv ∧
    (∃ nxt tl, pendingFor s c = nxt :: tl ∧ nxt.hash = h) ∧
    pendingFor s' c = (pendingFor s c).tail ++ (ds.map (mkSend c)).filter (fun x => x.dst == c) ∧
    nextInLine s' c = ((pendingFor s c).tail ++ (ds.map (mkSend c)).filter (fun x => x.dst == c)).head? := by
  have hstep : step s (.crecv c h st ds) = .ok s' := hok
  obtain ⟨h1, h2⟩ := pending_advances hw hf hok
  refine ⟨?_, h1, h2, ?_⟩
  · rw [(step_frame hstep).2.2]; exact List.mem_cons_self ..
  · rw [nextInLine_eq_head, h2]

/-- T2, not wedged: if another send `y` to `c` was queued right behind `h`, it is next in line afterwards. -/
theorem next_queued_is_next (s s' : State) (c : Addr) (h : Hash) (st : Nat) (ds : List Desc)
    (hw : WF s) (hf : Fresh s (.crecv c h st ds)) (hok : crecv s c h st ds = .ok s')
    (x y : Send) (rest : List Send) (hq : pendingFor s c = x :: y :: rest) : nextInLine s' c = some y := by
  obtain ⟨_, _, _, h4⟩ := inbox_advances s s' c h st ds hw hf hok
  rw [h4, hq]; rfl

/-- T2: the received send is not next in line any more. -/
theorem received_not_next (s s' : State) (c : Addr) (h : Hash) (st : Nat) (ds : List Desc)
    (hok : crecv s c h st ds = .ok s') (x : Send) (hx : nextInLine s' c = some x) : x.hash ≠ h := by
  have hstep : step s (.crecv c h st ds) = .ok s' := hok
  intro he
  have hm : (c, h) ∈ s'.recv := by rw [(step_frame hstep).2.2]; exact List.mem_cons_self ..
  exact (nextInLine_spec hx).2.2 (he ▸ hm)

/-! ## the refund path cannot fail -/

/-- For every contract other than the token contract, whatever send is next in line can be received with status 2 and
    the exact refund: the `fromHash` checks pass (it is the unique confirmed send with that hash, addressed to `c`, not
    yet received by `c`), and the refund descendant is always funded — the amount was credited by this very receive, and
    a zero-token send carries no amount. This is the model-level reason why no accepted call can wedge an inbox:
    whatever the method does, the VM's fallback is accepted.
    Caveat (model vs. Go): Go's `applySend` additionally runs the method lookup / `ValidateSendBlock` of the
    *destination* when it is an embedded contract; the model's `applySend` does not. The refund block has empty call
    data, so when the sender `nxt.src` of the failed call is itself an embedded contract the Go refund is refused with
    `ErrContractMethodNotFound` and `rollbackEmbedded` returns an error. The theorem transfers to the code for
    non-embedded senders only. -/
theorem refund_always_possible (s : State) (c : Addr) (nxt : Send) (h' : Hash) (hw : WF s)
    (hc : c ≠ tokenContract) (hnext : nextInLine s c = some nxt) :
    ∃ s', crecv s c nxt.hash 2 (refundDescs nxt h') = .ok s' :=
  refund_ok hw hc hnext h'

/-- … and with a fresh descendant hash that receive is an admissible event, so the state after it is again reachable
    and well-formed (the argument can be repeated for the next queued call). -/
theorem refund_step_admissible (s : State) (c : Addr) (nxt : Send) (h' : Hash)
    (hfresh : h' ∉ s.sends.map (·.hash)) : Admissible s (.crecv c nxt.hash 2 (refundDescs nxt h')) := by
  apply admissible_of_single hfresh
  · unfold refundDescs; split <;> simp
  · unfold refundDescs; split <;> simp

/-- The token contract (whose methods are modelled): whatever send is next in line, some outcome is accepted — the call
    is applied (issue with an unused token standard, mint, burn, update) or, when the method fails, refunded — by an
    admissible event, provided the zero token standard has no storage entry. -/
theorem token_inbox_not_wedged (s : State) (nxt : Send) (h' : Hash) (hw : WF s)
    (hz : getTok s.toks zeroTok = none) (hfresh : h' ∉ s.sends.map (·.hash))
    (hnext : nextInLine s tokenContract = some nxt) :
    ∃ st ds s', Admissible s (.crecv tokenContract nxt.hash st ds) ∧
      crecv s tokenContract nxt.hash st ds = .ok s' := by
  obtain ⟨st, ds, s', hok, hlen, hall⟩ := token_receive_possible hw hz hnext h'
  exact ⟨st, ds, s', admissible_of_single hfresh hlen hall, hok⟩

/-- Negative witness for the hypothesis `getTok s.toks zeroTok = none`: the model takes the new token standard of an
    issue from the observed descendant and so accepts an issue of the zero token standard with total supply 0; in the
    reachable state after it, a queued mint of that "token" has no accepted outcome at all (applying needs a non-empty
    zero-token send, refunding needs the method to fail). Go derives the token standard from the send hash, so this is a
    permissiveness of the model, not a behaviour of the code. -/
theorem zero_token_issue_wedges_model :
    Reach (State.init true) wedgeState ∧ (nextInLine wedgeState tokenContract).map (·.hash) = some 102 ∧
    ∀ st ds s', crecv wedgeState tokenContract 102 st ds ≠ .ok s' :=
  ⟨wedge_reachable, rfl, wedge_no_outcome⟩

/-! ## non-vacuity -/

example : Reach (State.init true) demoFinal := reach_of_runAdm demoEvents _ _ (by rfl)

example : WF demoFinal := by decide

/-- in the demo state contract 3 has two queued calls (108 then 109) -/
example : (pendingFor demoFinal 3).map (·.hash) = [108, 109] := by decide

/-- the refund of 108 is accepted, is admissible, and 109 is next afterwards -/
example : (do let s' ← crecv demoFinal 3 108 2 (refundDescs ⟨108, 16, 3, 5, 1, .none⟩ 200)
              pure ((nextInLine s' 3).map (·.hash), getBal s'.bal 3 5)) = Except.ok (some 109, 0) := by rfl

example : Admissible demoFinal (.crecv 3 108 2 (refundDescs ⟨108, 16, 3, 5, 1, .none⟩ 200)) := by decide

/-- the demo history contains an applied token call (issue: mint 50, one descendant of 50) and a refunded call -/
example : (do let s1 ← usend (State.init true) 16 tokenContract zeroTok 0 100 (.issue 50 80 true true)
              let s2 ← crecv s1 tokenContract 100 1 [⟨16, 5, 50, 101, .none⟩]
              pure (getBal s2.bal tokenContract 5, supplyOf s2 5, inflightSum s2 5)) = Except.ok (0, 50, 50) := by rfl

/-- the hypotheses of `token_inbox_not_wedged` hold in the demo state with a queued burn -/
example : (do let s1 ← usend demoFinal 16 tokenContract 5 3 110 .burn
              pure (decide (WF s1), getTok s1.toks zeroTok, (nextInLine s1 tokenContract).map (·.hash)))
          = Except.ok (true, none, some 110) := by rfl

/-- a wrong refund (amount 1 instead of 2) is not an accepted outcome -/
example : (do let s1 ← usend { State.init true with bal := [((16, 5), 9)] } 16 3 5 2 105 .none
              crecv s1 3 105 2 [⟨16, 5, 1, 106, .none⟩]) = Except.error Err.badRefund := by rfl

end ZV.C09
