import ZenonVerif.Model.EpochCursor
/-
C11 — assertions about the regenerated facts Gen/RewardsNode.lean (AST of vm/embedded/implementation, live constants):
the epoch-cursor model names every function that moves the cursor or touches a reward deposit, and its three loop
variants have the shape of the source. A new cursor mover, a new deposit writer or a re-shaped loop changes the generated
value and breaks the theorem here: the model (and T4/T5) must then be revisited.
-/
namespace ZV.C11NodeGen
open ZV

/-- `LastEpochUpdate.LastEpoch` is assigned in exactly one function: the cursor moves only by the `+= 1` of
    `checkAndPerformUpdateEpoch` (Model: `EpochCursor.checkAndPerformUpdateEpoch`). -/
theorem cursor_single_writer : Gen.CursorAssigners = ["checkAndPerformUpdateEpoch"] := by decide

/-- the cursor is read and advanced by exactly the five `update*Rewards` functions the model's variants stand for -/
theorem cursor_movers :
    Gen.CallersOf_checkAndPerformUpdateEpoch =
      ["updateLiquidityRewards", "updateLiquidityStakeRewards", "updatePillarRewards", "updateSentinelRewards", "updateStakeRewards"] ∧
    Gen.CallersOf_GetLastEpochUpdate = Gen.CallersOf_checkAndPerformUpdateEpoch := by decide

/-- each of them issues the rewards of an epoch through its own `compute…` function, which nobody else calls: an epoch is
    rewarded only from inside a cursor loop -/
theorem reward_computations_only_in_cursor_loops :
    Gen.CallersOf_computeDetailedPillarReward = ["updatePillarRewards"] ∧
    Gen.CallersOf_computeStakeRewardsForEpoch = ["updateStakeRewards"] ∧
    Gen.CallersOf_computeSentinelRewardsForEpoch = ["updateSentinelRewards"] ∧
    Gen.CallersOf_computeLiquidityRewardsForEpoch = ["updateLiquidityRewards"] ∧
    Gen.CallersOf_computeLiquidityStakeRewardsForEpoch = ["updateLiquidityStakeRewards"] := by decide

/-- rewards are credited only by those computations (Model: `credit`), and RewardDeposit entries are touched only by
    `addReward` and `CollectRewardMethod.ReceiveBlock` (Model: `credit`, `collect`) -/
theorem deposit_writers :
    Gen.CallersOf_addReward =
      ["computeDetailedPillarReward", "computeLiquidityStakeRewardsForEpoch", "computeSentinelRewardsForEpoch", "computeStakeRewardsForEpoch"] ∧
    Gen.CallersOf_GetRewardDeposit = ["CollectRewardMethod.ReceiveBlock", "addReward"] ∧
    Gen.CallersOf_GetRewardDepositHistory = ["addReward"] := by decide

/-- shape of the five functions: three bare `for {}` loops leaving only on ErrEpochUpdateTooRecent (Model: `catchUp`), the
    single step of the post-spork liquidity method (`liqOne`), and the origin liquidity loop whose exit condition
    `err == ErrEpochUpdateTooRecent || len(result) >= MaxEpochsPerUpdate` belongs to the `if` whose init statement
    `err := checkAndPerformUpdateEpoch(context, lastEpoch)` has already advanced the cursor (`liqOrigin`, finding F14) -/
theorem loop_shapes :
    Gen.UpdateRewardsShapes =
      ["updateLiquidityRewards:loop:err == constants.ErrEpochUpdateTooRecent || len(result) >= constants.MaxEpochsPerUpdate",
       "updateLiquidityStakeRewards:once:err == constants.ErrEpochUpdateTooRecent",
       "updatePillarRewards:loop:err == constants.ErrEpochUpdateTooRecent",
       "updateSentinelRewards:loop:err == constants.ErrEpochUpdateTooRecent",
       "updateStakeRewards:loop:err == constants.ErrEpochUpdateTooRecent"] ∧
    Gen.LiqOriginIfInit = "err := checkAndPerformUpdateEpoch(context, lastEpoch)" ∧
    Gen.LiqOriginIfCond = "err == constants.ErrEpochUpdateTooRecent || len(result) >= constants.MaxEpochsPerUpdate" := by decide

/-- the live epoch is a whole number of election ticks and spans at least two of them (with exactly one tick per epoch
    `consensus.points` starts at `lastCompletedEpoch = -2` and asks for epoch 2^64-1: the node panics on its first momentum),
    and an Update is possible more often than once per epoch -/
theorem live_epoch_configuration :
    Gen.EpochDurationSec % Gen.ElectionTickSec = 0 ∧ 2 ≤ Gen.EpochDurationSec / Gen.ElectionTickSec ∧
    (Gen.UpdateMinNumMomentums : Int) < Gen.MomentumsPerEpoch ∧ 0 ≤ Gen.RewardTimeLimit ∧
    (EpochCursor.Cfg.live 0).maxBlocks = Gen.MaxEpochsPerUpdate := by decide

end ZV.C11NodeGen
