import ZenonVerif.Lemmas.ContractsJoint
import ZenonVerif.Gen.ContractsFrame
import ZenonVerif.Props.C09
/-
C10, joint theorem — every modelled contract holds what it owes after EVERY sequence of contract receives over all
contracts, methods that are modelled and methods that are not interleaved arbitrarily. Property theorems only
(machine: Model/ContractsJoint.lean, lemmas: Lemmas/ContractsJoint.lean).

  `step s (call, c)`       one contract receive (generateEmbeddedReceive) of the contract `call` names, on the joint state
  `Call.Modelled P H`      the method has a definition in Model/Contracts.lean / Model/ContractsJoint.lean
  `Call.KeepsBacking P`    the frame condition asked of a method that is not modelled
  `JBacked P s`            for plasma, stake, htlc, pillar, sentinel, liquidity: ∀ real token, owed ≤ balance
                           (and the pillar storage invariant "active ⇒ recorded collateral = PillarStakeAmount")
-/
namespace ZV.C10Joint
open ZV.Contracts ZV.ContractsJoint

/-! ## the frame of a receive -/

/-- F0 (regenerated AST facts of vm/embedded/implementation, every run): the vm context is always the parameter
    `context`; the only selectors ever called on it are the read-only ones, `Storage` (the account store of the
    receiving address: `AccountVmContext` embeds `store.Account`) and the balance mutators; the balance mutators are
    called in token.go only; the momentum store (the only way to another account's store) is used for
    `GetActivePillars` only and never handed on. Hence a method writes no storage but its own contract's and moves
    no balance directly — what `step` assumes for every method, modelled or not. -/
theorem methods_write_own_storage_only :
    ZV.Gen.implCtxParamNames = ["context"] ∧
    (∀ x ∈ ZV.Gen.implCtxCalls, x.2 ∈ ["Storage", "GetBalance", "GetFrontierMomentum", "GetGenesisMomentum", "MomentumStore",
        "Address", "EpochTicker", "EpochStats", "GetPillarDelegationsByEpoch", "IsAcceleratorSporkEnforced",
        "IsHtlcSporkEnforced", "IsBridgeAndLiquiditySporkEnforced", "AddBalance", "SubBalance"]) ∧
    (∀ x ∈ ZV.Gen.implCtxCalls, x.2 ∈ ["AddBalance", "SubBalance", "SetBalance"] → x.1 = "token.go") ∧
    (∀ y ∈ ZV.Gen.implMomentumStoreCalls, y ∈ ["GetActivePillars"]) ∧
    ZV.Gen.implMomentumStoreEscapes = 0 := by
  decide

/-- F1: a receive of one contract leaves the storage and the balances of every other contract as they were -/
theorem receive_touches_own_contract_only (s : JState) (call : Call) (c : Ctx) :
    (∀ i, call.cid ≠ some i → (step s (call, c)).bal i = s.bal i) ∧
    (call.cid ≠ some .plasma → (step s (call, c)).plasma = s.plasma) ∧
    (call.cid ≠ some .stake → (step s (call, c)).stake = s.stake) ∧
    (call.cid ≠ some .htlc → (step s (call, c)).htlc = s.htlc) ∧
    (call.cid ≠ some .pillar → (step s (call, c)).pillar = s.pillar) ∧
    (call.cid ≠ some .sentinel → (step s (call, c)).sentinel = s.sentinel) ∧
    (call.cid ≠ some .liquidity → (step s (call, c)).liquidity = s.liquidity) ∧
    (call.cid ≠ some .bridge → (step s (call, c)).bridge = s.bridge) := by
  cases call <;> simp [step, Call.cid, setB] <;> intro i hi <;> simp [Ne.symm hi]

/-- F2: what the VM skeleton guarantees for ANY method `m`, modelled or not: the receive is applied or refused; the
    contract's balance of every real token moves by exactly + amount − Σ descendant sends (no subtraction truncates:
    every descendant is funded); a refused call leaves the storage as it was and emits exactly the refund. -/
theorem any_method_skeleton {σ : Type} (m : Method σ) (st : σ) (bal : Bal) (c : Ctx) :
    ((vmStep m st bal c).status = 1 ∨ (vmStep m st bal c).status = 2) ∧
    (∀ tok, tok ≠ zeroTok → (vmStep m st bal c).bal.get tok + payTotal tok (vmStep m st bal c).descs
        = bal.get tok + (if tok = c.token then c.amount else 0)) ∧
    ((vmStep m st bal c).status = 2 → (vmStep m st bal c).st = st ∧ (vmStep m st bal c).descs = refundOf c) :=
  ⟨vmStep_status m st bal c, fun _ ht => vmStep_balance_law m st bal c ht, vmStep_refused m st bal c⟩

/-- F2 on the abstract ledger (Model/Ledger.lean, where the method's outcome is an observed input): the same law —
    an accepted receive of a contract other than the token contract moves nobody's balance but the contract's, and
    that by + amount − Σ descendants. The joint machine's per-contract balances are this ledger's balances. -/
theorem ledger_receive_same_law (L L' : ZV.Ledger.State) (a : ZV.Ledger.Addr) (h : ZV.Ledger.Hash) (st : Nat)
    (ds : List ZV.Ledger.Desc) (ha : a ≠ ZV.Ledger.tokenContract) (hok : ZV.Ledger.crecv L a h st ds = .ok L') :
    ∃ snd, ZV.Ledger.checkFrom L a h = .ok snd ∧
      (∀ b, b ≠ a → ∀ t, ledgerBal L' b t = ledgerBal L b t) ∧
      (∀ t, ledgerBal L' a t + ZV.Ledger.descSum ds t = ledgerBal L a t + (if snd.tok = t then snd.amt else 0)) := by
  obtain ⟨snd, h1, h2, h3⟩ := ZV.C09.contract_balance_delta L L' a h st ds hok
  refine ⟨snd, h1, h2, ?_⟩
  rcases h3 with ⟨_, h4⟩ | ⟨hc, _⟩
  · exact h4
  · exact absurd hc ha

/-! ## the joint invariant -/

/-- T1-joint, one receive: whatever contract receives whatever call, every modelled contract stays backed — if the
    method is modelled, or obeys the frame condition `KeepsBacking`. -/
theorem backed_joint_step (P : Params) (H : HashFn) (s : JState) (call : Call) (c : Ctx)
    (hcall : call.Modelled P H ∨ call.KeepsBacking P) (hnow : c.now ≠ 0) (h : JBacked P s) :
    JBacked P (step s (call, c)) :=
  step_backed P s (call, c) (hcall.elim (modelled_keepsBacking P H) id) hnow h

/-- T1-joint `backed_joint`: for EVERY sequence of contract receives over all contracts — modelled and unmodelled
    methods interleaved arbitrarily, each through the VM skeleton (applied, or refused and refunded) — for every
    modelled contract (plasma, stake, htlc, pillar, sentinel, liquidity) and every real token, liabilities ≤ balance,
    at every point of the history.

    Modelled (no hypothesis): plasma Fuse / CancelFuse; stake Stake / Cancel / Update (with the deletion of cancelled
    entries by the reward epochs) / CollectReward; htlc Create / Reclaim / Unlock / Deny / AllowProxyUnlock; pillar
    Register / RegisterLegacy / Revoke / UpdatePillar / Delegate / Undelegate / DepositQsr / WithdrawQsr / Update /
    CollectReward; sentinel Register / Revoke / DepositQsr / WithdrawQsr / Update / CollectReward; liquidity
    LiquidityStake / CancelLiquidityStake / Update / CollectReward; Donate of each of them; every method of the bridge
    and of the contracts without modelled storage (the property asks no backing of them, and they cannot touch the others: F0, F1).

    HYPOTHESES that remain, by name: `Call.KeepsBacking` for every receive dispatched to a method that is NOT modelled —
    plasma: none in the tree today; htlc: none; stake: none; pillar: none (the accelerator votes VoteByName /
    VoteByProjectId live in the accelerator contract); sentinel: none; liquidity: the administration and
    spork methods (Fund, BurnZnn, SetTokenTuple, SetIsHalted, NominateGuardians, ProposeAdministrator, Emergency,
    ChangeAdministrator, SetAdditionalReward, UnlockLiquidityStakeEntries, …) — of which BurnZnn and Fund are known NOT
    to satisfy it (finding F14 / F21, `burnZnn_violates_frame`). `hnow`: the frontier momentum of a receive has a
    non-zero timestamp (the pillar contract uses "revoke time = 0" for "active"; `C10.revokePillar_at_time_zero_pays_twice`). -/
theorem backed_joint (P : Params) (H : HashFn) (tr : List (Call × Ctx))
    (hcalls : ∀ x ∈ tr, x.1.Modelled P H ∨ x.1.KeepsBacking P) (hnow : ∀ x ∈ tr, x.2.now ≠ 0)
    (s : JState) (h : JBacked P s) :
    JBacked P (runJ s tr) :=
  runJ_backed P tr (fun x hx => (hcalls x hx).elim (modelled_keepsBacking P H) id) hnow s h

/-- T1-joint at every point of the history, read out per contract and token (what `JBacked` says) -/
theorem backed_joint_every_prefix (P : Params) (H : HashFn) (tr rest : List (Call × Ctx))
    (hcalls : ∀ x ∈ tr ++ rest, x.1.Modelled P H ∨ x.1.KeepsBacking P) (hnow : ∀ x ∈ tr ++ rest, x.2.now ≠ 0)
    (s : JState) (h : JBacked P s) (tok : Tok) (ht : tok ≠ zeroTok) :
    let s' := runJ s tr
    plasmaOwed s'.plasma tok ≤ (s'.bal .plasma).get tok ∧ stakeOwed s'.stake tok ≤ (s'.bal .stake).get tok ∧
    htlcOwed s'.htlc tok ≤ (s'.bal .htlc).get tok ∧ pillarOwed s'.pillar tok ≤ (s'.bal .pillar).get tok ∧
    sentinelOwed s'.sentinel tok ≤ (s'.bal .sentinel).get tok ∧ liquidityOwed s'.liquidity tok ≤ (s'.bal .liquidity).get tok := by
  have hb := backed_joint P H tr (fun x hx => hcalls x (by simp [hx])) (fun x hx => hnow x (by simp [hx])) s h
  exact ⟨hb.plasma tok ht, hb.stake tok ht, hb.htlc tok ht, hb.pillar tok ht, hb.sentinel tok ht, hb.liquidity tok ht⟩

/-- the hypotheses of `backed_joint` are satisfiable by a history that mixes contracts, modelled calls, a reward
    update that deletes a cancelled entry, a refused call and an unmodelled method obeying the frame condition -/
example :
    let P : Params := { Params.production with stakeTimeUnit := 100, stakeTimeMin := 100, stakeTimeMax := 1200 }
    let H : HashFn := fun _ _ => []
    let tr : List (Call × Ctx) :=
      [ (.stake ((StakeOp.stake 100).method P), ⟨1000, 1, 16, P.stakeMinAmount, znnTok, 7⟩),
        (.plasma ((PlasmaOp.fuse 17).method P), ⟨1010, 2, 16, P.fuseMinAmount, qsrTok, 8⟩),
        (.stake ((StakeOp.cancel 7).method P), ⟨1100, 3, 16, 0, zeroTok, 9⟩),
        (.liquidity (fun s _ => some (s, [])), ⟨1110, 4, 20, 5, znnTok, 10⟩),       -- not modelled, keeps the frame
        (.stake (stakeUpdate [1200]), ⟨1300, 5, 18, 0, zeroTok, 11⟩),
        (.htlc ((HtlcOp.reclaim 99).method H), ⟨1310, 6, 16, 0, zeroTok, 12⟩),       -- refused: unknown id
        (.other, ⟨1320, 7, 16, 3, znnTok, 13⟩) ]
    (∀ x ∈ tr, x.1.Modelled P H ∨ x.1.KeepsBacking P) ∧ (∀ x ∈ tr, x.2.now ≠ 0) ∧ JBacked P {} ∧
    (runJ {} tr).stake.entries = [] ∧ ((runJ {} tr).bal .plasma).get qsrTok = P.fuseMinAmount := by
  refine ⟨?_, by decide, ?_, by decide, by decide⟩
  · intro x hx
    simp only [List.mem_cons, List.mem_nil_iff, or_false] at hx
    rcases hx with rfl | rfl | rfl | rfl | rfl | rfl | rfl
    · exact Or.inl (.stake _)
    · exact Or.inl (.plasma _)
    · exact Or.inl (.stake _)
    · refine Or.inr (keepsBacking_frame fun st c st' ps h => ?_)
      simp only [Option.some.injEq, Prod.mk.injEq] at h
      exact ⟨h.1.symm, fun tok => by rw [← h.2]; rfl⟩
    · exact Or.inl (.stakeUpdate _)
    · exact Or.inl (.htlc _)
    · exact Or.inl .other
  · refine ⟨?_, ?_, ?_, fun x hx => by simp at hx, ?_, ?_, ?_⟩ <;>
      (intro tok _; simp [plasmaOwed, stakeOwed, htlcOwed, pillarOwed, sentinelOwed, liquidityOwed, Plasma.owed, Stake.owed, total, depositsTotal])

/-- history-free corollary: a history of modelled calls only needs no frame hypothesis -/
theorem backed_joint_modelled (P : Params) (H : HashFn) (tr : List (Call × Ctx))
    (hcalls : ∀ x ∈ tr, x.1.Modelled P H) (hnow : ∀ x ∈ tr, x.2.now ≠ 0) (s : JState) (h : JBacked P s) :
    JBacked P (runJ s tr) :=
  backed_joint P H tr (fun x hx => Or.inl (hcalls x hx)) hnow s h

/-- N1 (finding F14 / F21 restated as a frame violation): the liquidity contract's BurnZnn does NOT obey the frame
    condition — it pays out of the balance without lowering any liability -/
theorem burnZnn_violates_frame (a : Nat) (ha : a > 0) :
    ¬ ZV.ContractsJoint.KeepsBacking noInv anyCtx liquidityOwed (liquidityBurnZnn a true) := by
  intro h
  have := (h {} ⟨1, 1, 20, 0, zeroTok, 1⟩ {} [⟨tokenContract, znnTok, a, .burn⟩] trivial trivial (by simp [liquidityBurnZnn])).2 znnTok
  simp [liquidityOwed, total, payTotal, znnTok, zeroTok] at this
  omega

/-! ## reward epochs delete only what has been paid -/

/-- T6 "stake entries deleted by a reward epoch": the reward Update of the stake contract (one deletion pass per
    finished epoch) keeps every entry that has not been cancelled — same key, same content — and, when every entry
    with a revoke time is recorded with amount 0 (`StakeInv`: CancelStake paid it out in the step that set the revoke
    time, `C10.cancelStake_release_rule`), removes nothing that is owed: the liability sum is exactly what it was. -/
theorem stakeUpdate_deletes_only_paid (ends : List Int) (s s' : Stake) (c : Ctx) (ps : List Payout)
    (h : stakeUpdate ends s c = some (s', ps)) :
    ps = [] ∧
    (∀ k e, lookup k s.entries = some e → e.revoke = 0 → lookup k s'.entries = some e) ∧
    (∀ x ∈ s'.entries, x ∈ s.entries) ∧
    (StakeInv s → StakeInv s' ∧ s'.owed = s.owed) := by
  unfold stakeUpdate at h
  split at h
  · cases h
  · simp only [Option.some.injEq, Prod.mk.injEq] at h
    obtain ⟨hs, hp⟩ := h
    subst hs
    refine ⟨hp.symm, ?_, ?_, ?_⟩
    · intro k e hl ha
      simp only
      generalize s.entries = l at hl
      induction ends generalizing l with
      | nil => exact hl
      | cons t r ih => exact ih _ (lookup_sweepStake_active t l k e hl ha)
    · simp only
      generalize s.entries = l
      induction ends generalizing l with
      | nil => exact fun x hx => hx
      | cons t r ih => exact fun x hx => mem_sweepStake (ih _ x hx)
    · intro hI
      simp only [StakeInv, Stake.owed] at hI ⊢
      generalize s.entries = l at hI
      induction ends generalizing l with
      | nil => exact ⟨hI, rfl⟩
      | cons t r ih =>
        have h1 := ih (sweepStake t l) (fun x hx => hI x (mem_sweepStake hx))
        exact ⟨h1.1, h1.2.trans (total_sweepStake_eq t l hI)⟩

/-- T6, the invariant it needs is kept by every modelled call of the stake contract -/
theorem stakeInv_kept (P : Params) (op : StakeOp) (s s' : Stake) (c : Ctx) (ps : List Payout)
    (h : op.method P s c = some (s', ps)) (hI : StakeInv s) : StakeInv s' := by
  cases op with
  | stake d =>
    simp only [StakeOp.method, stake] at h
    split at h
    · cases h
    · split at h
      · cases h
      · simp only [Option.some.injEq, Prod.mk.injEq] at h
        obtain ⟨hs, _⟩ := h
        subst hs
        intro x hx hr
        rcases mem_put hx with e | e
        · subst e; simp at hr
        · exact hI x e hr
  | cancel id =>
    simp only [StakeOp.method, cancelStake] at h
    split at h
    · cases h
    · split at h
      · cases h
      · split at h
        · cases h
        · simp only [Option.some.injEq, Prod.mk.injEq] at h
          obtain ⟨hs, _⟩ := h
          subst hs
          intro x hx hr
          rcases mem_put hx with e | e
          · subst e; rfl
          · exact hI x e hr

/-- T6, negative side: a deletion pass that also took an entry that is still active would lose what is owed —
    the model's pass never does (an active entry has revoke time 0), so a real Update that deletes one is a
    disagreement on the `K-stake-gc` line and a failing "lock vanished without a payout" monitor -/
theorem active_entry_never_swept (endT : Int) (l : List ((Addr × Hash) × StakeE)) (k : Addr × Hash) (e : StakeE)
    (hl : lookup k l = some e) (ha : e.revoke = 0) : Stake.collect ⟨l⟩ k = none ∧ lookup k (sweepStake endT l) = some e := by
  refine ⟨?_, lookup_sweepStake_active endT l k e hl ha⟩
  simp [Stake.collect, hl, ha]

end ZV.C10Joint
