import ZenonVerif.Model.RewardEpoch
import ZenonVerif.Gen.RewardsEpoch
/-
C11 — "the credited amounts are a function of the chain alone": assertions about the regenerated facts
Gen/RewardsEpoch.lean (AST of the reward computations in vm/embedded/implementation).

`RewardEpoch.updateEpoch` is a Lean FUNCTION of (contract storage as of the Update's momentum, the epoch's consensus
statistics and delegation record, the constants): equal inputs give equal credits by construction. What ties that to
the Go code is that the Go functions read nothing else — pinned here — and that the model agrees with them on every
epoch of every real Update of the mock chains (RE-* lines of the rewards-node stream). The consensus inputs being the
same on every node is the part covered by C11Points / C05Store / C06Node and the follower comparison.
-/
namespace ZV.C11EpochGen
open ZV

/-- the model stands for exactly these top-level functions; all of them still exist -/
theorem reward_functions_found :
    Gen.RewardFuncs = ["addReward", "computeDetailedPillarReward", "computeLiquidityRewardsForEpoch",
      "computeLiquidityStakeRewardsForEpoch", "computePillarRewardForEpoch", "computePillarsRewardForEpoch",
      "computeSentinelRewardsForEpoch", "computeStakeRewardsForEpoch", "getWeightedLiquidityStake", "getWeightedSentinel",
      "getWeightedStake"] := by decide

/-- `credited_is_function_of_chain`, source side: through a package name or their `context` the reward computations
    reach ONLY the reward constants, the contract's own storage getters / record types (`definition.*` on
    `context.Storage()`), the contract's balance, the epoch ticker, and the two consensus inputs `EpochStats` and
    `GetPillarDelegationsByEpoch` — the arguments of `RewardEpoch.updateEpoch`. No `time.*` (clock), no `rand.*`, no
    `os.*`, no momentum height, no other account's state. A new read changes the generated list and breaks this theorem. -/
theorem credited_is_function_of_chain :
    Gen.RewardReads = ["constants.ErrInvalidRewards", "constants.LiquidityQsrTotalPercentages", "constants.LiquidityRewardForEpoch",
      "constants.LiquidityZnnTotalPercentages", "constants.PillarRewardPerMomentum", "constants.SentinelRewardForEpoch",
      "constants.StakeQsrRewardPerEpoch", "context.EpochStats", "context.EpochTicker", "context.GetBalance",
      "context.GetPillarDelegationsByEpoch", "context.Storage", "definition.ABIToken", "definition.AnyPillarType",
      "definition.BurnMethodName", "definition.GetAllLiquidityStakeEntries", "definition.GetLiquidityInfo",
      "definition.GetPillarsList", "definition.GetRewardDeposit", "definition.GetRewardDepositHistory",
      "definition.IterateSentinelEntries", "definition.IterateStakeEntries", "definition.MintMethodName",
      "definition.PillarEpochHistory", "definition.RewardDeposit", "definition.SentinelInfo", "definition.StakeInfo"] := by decide

/-- every `range` in the reward computations, reviewed one by one for iteration-order dependence:
      details (Go MAP name → record)            each iteration only calls addReward (additive): `deposit_effect_order_independent`
      pillarDetail.Backers (Go MAP, twice)      first: a big.Int sum; second: one addReward per key with a share computed from
                                                the key's own amount and that sum: `backer_credits_order_independent`
      distributed / distributedAddresses        debug output only (the map is never written)
      detail.Pillars (Go MAP)                   a uint64 sum of ExceptedBlockNum (commutative; `totalExpected`)
      detailList.Pillars (Go MAP) / pillarNames keys collected, SORTED, then one map write per key
      pillarInfos (three times), liquidityInfo.TokenTuples, liquidityStakeList (twice)
                                                slices in storage order (iterator over the contract's key space)
    Stake and sentinel entries are visited through the storage iterator (key order, same on every node); the credits do
    not depend on that order either (`credited_order_independent`). A new `range` breaks this theorem. -/
theorem reward_ranges_reviewed :
    Gen.RewardRanges = ["computeDetailedPillarReward: details", "computeDetailedPillarReward: distributed",
      "computeDetailedPillarReward: distributedAddresses", "computeDetailedPillarReward: pillarDetail.Backers",
      "computeDetailedPillarReward: pillarDetail.Backers", "computeDetailedPillarReward: pillarInfos",
      "computeDetailedPillarReward: pillarInfos", "computeDetailedPillarReward: pillarInfos",
      "computeLiquidityStakeRewardsForEpoch: liquidityInfo.TokenTuples", "computeLiquidityStakeRewardsForEpoch: liquidityStakeList",
      "computeLiquidityStakeRewardsForEpoch: liquidityStakeList", "computePillarRewardForEpoch: detail.Pillars",
      "computePillarsRewardForEpoch: detailList.Pillars", "computePillarsRewardForEpoch: pillarNames"] := by decide

/-- the model's live parameters are the regenerated constants -/
theorem live_parameters : (RewardEpoch.RCfg.live 0).mpe = Gen.MomentumsPerEpoch ∧ 0 < Gen.MomentumsPerEpoch ∧
    Gen.LiquidityZnnTotalPercentages = 10000 ∧ Gen.LiquidityQsrTotalPercentages = 10000 := by decide

end ZV.C11EpochGen
