import ZenonVerif.Lemmas.Contracts
/-
C10 — locked funds are fully backed and released only to the entitled party, on time. Property theorems only.
Model: ZenonVerif/Model/Contracts.lean (one state machine per contract, `vmStep` = generateEmbeddedReceive).
-/
namespace ZV.C10
open ZV.Contracts

/-! ## the constants found in the tree (regenerated on every run) -/

/-- the production constants keep the Go code inside the domain the model covers: no division / modulo by zero
    (fusion unit, stake time unit, pillar and sentinel revoke cycles), a non-empty range of stake durations, every
    admissible stake period has a liquidity weight (`LiquidityStakeWeights[period]` never indexes out of range), and
    exactly the two modelled hash types exist with 32-byte digests. A changed constant that leaves this true passes;
    one that breaks it fails the build. -/
theorem production_constants_in_domain :
    0 < ZV.Gen.CostPerFusionUnitC ∧ 0 < ZV.Gen.CtStakeTimeUnitSec ∧ ZV.Gen.StakeTimeMinSec ≤ ZV.Gen.StakeTimeMaxSec ∧
    ZV.Gen.StakeTimeMaxSec / ZV.Gen.CtStakeTimeUnitSec < ZV.Gen.CtLiquidityStakeWeights.length ∧
    0 < ZV.Gen.PillarEpochLockTime + ZV.Gen.PillarEpochRevokeTime ∧
    0 < ZV.Gen.SentinelLockTimeWindow + ZV.Gen.SentinelRevokeTimeWindow ∧
    ZV.Gen.NumHashTypes = 2 ∧ digestSize ZV.Gen.HashTypeSHA3 = some 32 ∧ digestSize ZV.Gen.HashTypeSHA256 = some 32 ∧
    ZV.Gen.FuseMinAmount % ZV.Gen.CostPerFusionUnitC = 0 := by
  decide

/-! ## plasma -/

/-- T1 (plasma, one receive): whatever the call, its arguments and its outcome (applied or refunded), the sum of the
    fusion entries stays covered by the contract's QSR balance. -/
theorem plasma_backed_step (P : Params) (op : PlasmaOp) (s : Plasma) (bal : Bal) (c : Ctx)
    (h : Backed plasmaOwed s bal) :
    Backed plasmaOwed (vmStep (op.method P) s bal c).st (vmStep (op.method P) s bal c).bal :=
  vmStep_backed (plasma_methodBacked P op) c h

/-- T1 (plasma, all histories): from any backed state, after any sequence of Fuse / CancelFuse receives with any
    senders, amounts, tokens, heights and ids, Σ fusion entries ≤ QSR balance. -/
theorem plasma_backed (P : Params) (ops : List (PlasmaOp × Ctx)) (s : Plasma) (bal : Bal)
    (h : Backed plasmaOwed s bal) :
    Backed plasmaOwed (run (PlasmaOp.method P) (s, bal) ops).1 (run (PlasmaOp.method P) (s, bal) ops).2 :=
  run_backed (plasma_methodBacked P) ops (s, bal) h

/-- T3 (plasma): CancelFuse pays out only if the caller sent no amount, an entry is recorded under (caller, id) — the
    caller is its owner — and its expiration height has been reached; it pays exactly the recorded amount in QSR to
    that owner, and the entry is deleted in the same step. -/
theorem cancelFuse_release_rule (id : Hash) (s s' : Plasma) (c : Ctx) (ps : List Payout)
    (h : cancelFuse id s c = some (s', ps)) :
    ∃ f, lookup (c.sender, id) s.fusions = some f ∧ c.amount = 0 ∧ f.expH ≤ c.height ∧
      ps = [⟨c.sender, qsrTok, f.amount, .none⟩] ∧ lookup (c.sender, id) s'.fusions = none := by
  unfold cancelFuse at h
  split at h
  · cases h
  · rename_i ha
    split at h
    · cases h
    · rename_i f hf
      split at h
      · cases h
      · rename_i he
        simp only [Option.some.injEq, Prod.mk.injEq] at h
        obtain ⟨hs, hp⟩ := h
        refine ⟨f, hf, by omega, by omega, hp.symm, ?_⟩
        subst hs
        exact lookup_erase_self _ _

/-- the lock recorded by Fuse: the entry is keyed by (sender, send-block hash), holds the sent amount and expires
    `fuseExpiration` momentums after the frontier height of the receive; Fuse pays nothing out -/
theorem fuse_records_lock (P : Params) (b : Addr) (s s' : Plasma) (c : Ctx) (ps : List Payout)
    (h : fuse P b s c = some (s', ps)) :
    lookup (c.sender, c.hash) s'.fusions = some ⟨c.amount, c.height + P.fuseExpiration, b⟩ ∧ ps = [] ∧
      c.token = qsrTok ∧ P.fuseMinAmount ≤ c.amount := by
  unfold fuse at h
  split at h
  · cases h
  · rename_i h1
    split at h
    · cases h
    · simp only [Option.some.injEq, Prod.mk.injEq] at h
      obtain ⟨hs, hp⟩ := h
      subst hs
      refine ⟨lookup_put_self _ _ _, hp.symm, ?_, ?_⟩
      · exact Decidable.byContradiction fun hn => h1 (Or.inl hn)
      · exact Nat.le_of_not_lt fun hn => h1 (Or.inr hn)

/-- T4 (plasma): after a successful CancelFuse the same cancel (same owner, same id, any later time) fails. -/
theorem cancelFuse_never_twice (id : Hash) (s s' : Plasma) (c c2 : Ctx) (ps : List Payout)
    (h : cancelFuse id s c = some (s', ps)) (hsame : c2.sender = c.sender) :
    cancelFuse id s' c2 = none := by
  obtain ⟨f, _, _, _, _, hgone⟩ := cancelFuse_release_rule id s s' c ps h
  unfold cancelFuse
  split
  · rfl
  · rw [hsame, hgone]

/-- T2 (plasma, one receive): with distinct storage keys and a fresh id for a new entry (the id is the hash of the
    send block), every beneficiary's recorded fused total stays equal to the sum of its fusion entries. -/
theorem fused_total_consistent_step (P : Params) (op : PlasmaOp) (s : Plasma) (bal : Bal) (c : Ctx)
    (hfresh : ∀ b, op = .fuse b → lookup (c.sender, c.hash) s.fusions = none)
    (h : PlasmaConsistent s) :
    PlasmaConsistent (vmStep (op.method P) s bal c).st :=
  plasma_consistent_vmStep P op s bal c hfresh h

/-- T2 (plasma, all histories): starting from a consistent state, along every history whose Fuse calls carry
    fresh send-block hashes, fused amount = Σ fusion entries for every beneficiary. -/
theorem fused_total_consistent (P : Params) (ops : List (PlasmaOp × Ctx)) (s : Plasma) (bal : Bal)
    (hfresh : FreshIds P (s, bal) ops) (h : PlasmaConsistent s) :
    PlasmaConsistent (run (PlasmaOp.method P) (s, bal) ops).1 :=
  plasma_consistent_run P ops s bal hfresh h

/-- in a consistent state the subtraction in CancelFuse never goes below zero: the stored fused amount is never a
    wrapped-around 256-bit number -/
theorem cancelFuse_no_wrap (id : Hash) (s : Plasma) (c : Ctx) (f : Fusion) (h : PlasmaConsistent s)
    (hf : lookup (c.sender, id) s.fusions = some f) : f.amount ≤ s.fusedOf f.beneficiary :=
  fused_covers_entry s h hf

/-! ## stake -/

/-- T1 (stake, one receive) -/
theorem stake_backed_step (P : Params) (op : StakeOp) (s : Stake) (bal : Bal) (c : Ctx)
    (h : Backed stakeOwed s bal) :
    Backed stakeOwed (vmStep (op.method P) s bal c).st (vmStep (op.method P) s bal c).bal :=
  vmStep_backed (stake_methodBacked P op) c h

/-- T1 (stake, all histories): Σ stake entries ≤ ZNN balance after any sequence of Stake / Cancel receives. -/
theorem stake_backed (P : Params) (ops : List (StakeOp × Ctx)) (s : Stake) (bal : Bal)
    (h : Backed stakeOwed s bal) :
    Backed stakeOwed (run (StakeOp.method P) (s, bal) ops).1 (run (StakeOp.method P) (s, bal) ops).2 :=
  run_backed (stake_methodBacked P) ops (s, bal) h

/-- T3 (stake): Cancel pays out only if the caller sent no amount, an entry is recorded under (caller, id) and its
    expiration time has passed (`expiration ≤ now`); it pays exactly the recorded amount in ZNN to that caller and
    the entry is left with amount 0 and the revoke time. -/
theorem cancelStake_release_rule (id : Hash) (s s' : Stake) (c : Ctx) (ps : List Payout)
    (h : cancelStake id s c = some (s', ps)) :
    ∃ e, lookup (c.sender, id) s.entries = some e ∧ c.amount = 0 ∧ e.expiration ≤ c.now ∧
      ps = [⟨c.sender, znnTok, e.amount, .none⟩] ∧
      lookup (c.sender, id) s'.entries = some { e with revoke := c.now, amount := 0 } := by
  unfold cancelStake at h
  split at h
  · cases h
  · rename_i ha
    split at h
    · cases h
    · rename_i e he
      split at h
      · cases h
      · rename_i hx
        simp only [Option.some.injEq, Prod.mk.injEq] at h
        obtain ⟨hs, hp⟩ := h
        refine ⟨e, he, by simpa using ha, by omega, hp.symm, ?_⟩
        subst hs
        exact lookup_put_self _ _ _

/-- the lock recorded by Stake: amount, start = now, expiration = now + duration with a valid duration -/
theorem stake_records_lock (P : Params) (d : Int) (s s' : Stake) (c : Ctx) (ps : List Payout)
    (h : stake P d s c = some (s', ps)) :
    (∃ w, lookup (c.sender, c.hash) s'.entries = some ⟨c.amount, w, c.now, 0, c.now + d⟩) ∧ ps = [] ∧
      c.token = znnTok ∧ P.stakeMinAmount ≤ c.amount ∧ P.stakeTimeMin ≤ d ∧ d ≤ P.stakeTimeMax := by
  unfold stake at h
  split at h
  · cases h
  · rename_i h1
    split at h
    · cases h
    · rename_i h2
      simp only [Option.some.injEq, Prod.mk.injEq] at h
      obtain ⟨hs, hp⟩ := h
      subst hs
      refine ⟨⟨_, lookup_put_self _ _ _⟩, hp.symm, ?_, ?_, ?_, ?_⟩
      · exact Decidable.byContradiction fun hn => h1 (Or.inr hn)
      · exact Nat.le_of_not_lt fun hn => h1 (Or.inl hn)
      · exact Int.not_lt.mp fun hn => h2 (Or.inl hn)
      · exact Int.not_lt.mp fun hn => h2 (Or.inr (Or.inl hn))

/-- T4 (stake): after a successful Cancel a repeated Cancel of the same entry — the entry stays in storage until the
    next reward update — pays exactly 0. -/
theorem cancelStake_never_twice (id : Hash) (s s' s'' : Stake) (c c2 : Ctx) (ps ps2 : List Payout)
    (h : cancelStake id s c = some (s', ps)) (hsame : c2.sender = c.sender)
    (h2 : cancelStake id s' c2 = some (s'', ps2)) :
    ps2 = [⟨c.sender, znnTok, 0, .none⟩] := by
  obtain ⟨e, _, _, _, _, hrec⟩ := cancelStake_release_rule id s s' c ps h
  obtain ⟨e2, he2, _, _, hp2, _⟩ := cancelStake_release_rule id s' s'' c2 ps2 h2
  rw [hsame, hrec] at he2
  cases he2
  rw [hp2, hsame]

/-- the deletion of cancelled stake entries by a reward update touches only entries that hold nothing: what the
    contract owes does not grow, and a later Cancel of the deleted entry fails -/
theorem stake_collect_keeps_backing (s s' : Stake) (k : Addr × Hash) (bal : Bal) (h : s.collect k = some s')
    (hb : Backed stakeOwed s bal) :
    Backed stakeOwed s' bal ∧ ∀ c : Ctx, c.sender = k.1 → cancelStake k.2 s' c = none := by
  unfold Stake.collect at h
  split at h
  · cases h
  · rename_i e he
    split at h
    · simp only [Option.some.injEq] at h
      subst h
      constructor
      · intro tok ht
        have := hb tok ht
        have hle := total_erase_le (fun e : StakeE => e.amount) k s.entries
        simp only [stakeOwed, Stake.owed] at this ⊢
        by_cases hz : tok = znnTok
        · subst hz; simp only [if_true] at this ⊢; omega
        · simp [hz]
      · intro c hc
        unfold cancelStake
        split
        · rfl
        · have : (c.sender, k.2) = k := by rw [hc]
          rw [this, lookup_erase_self]
    · cases h

/-! ## htlc (the hash functions are a parameter `H`) -/

/-- T1 (htlc, one receive): for every token, Σ of the entries in that token stays covered by the balance -/
theorem htlc_backed_step (H : HashFn) (op : HtlcOp) (s : Htlc) (bal : Bal) (c : Ctx)
    (h : Backed htlcOwed s bal) :
    Backed htlcOwed (vmStep (op.method H) s bal c).st (vmStep (op.method H) s bal c).bal :=
  vmStep_backed (htlc_methodBacked H op) c h

/-- T1 (htlc, all histories of Create / Reclaim / Unlock / Deny / AllowProxyUnlock) -/
theorem htlc_backed (H : HashFn) (ops : List (HtlcOp × Ctx)) (s : Htlc) (bal : Bal)
    (h : Backed htlcOwed s bal) :
    Backed htlcOwed (run (HtlcOp.method H) (s, bal) ops).1 (run (HtlcOp.method H) (s, bal) ops).2 :=
  run_backed (htlc_methodBacked H) ops (s, bal) h

/-- the lock recorded by Create: keyed by the send-block hash; time-locked party = sender; the sent token and amount
    (non-zero); not yet expired at the receive; a known hash type with a digest of its size -/
theorem createHtlc_records_lock (a : Addr) (ex : Int) (ty km : Nat) (hl : Bytes) (s s' : Htlc) (c : Ctx) (ps : List Payout)
    (h : createHtlc a ex ty km hl s c = some (s', ps)) :
    lookup c.hash s'.entries = some ⟨c.sender, a, c.token, c.amount, ex, ty, km, hl⟩ ∧ ps = [] ∧
      0 < c.amount ∧ c.now < ex ∧ digestSize ty = some hl.length := by
  unfold createHtlc at h
  split at h
  · cases h
  · rename_i n hn
    split at h
    · cases h
    · rename_i hlen
      split at h
      · cases h
      · rename_i ha
        split at h
        · cases h
        · rename_i hx
          simp only [Option.some.injEq, Prod.mk.injEq] at h
          obtain ⟨hs, hp⟩ := h
          subst hs
          refine ⟨lookup_put_self _ _ _, hp.symm, by omega, by omega, ?_⟩
          rw [hn]; simp at hlen; rw [hlen]

/-- T3 (htlc, Reclaim): pays out only if the caller sent no amount, the entry exists, the caller is its time-locked
    party (the depositor) and the expiration time has been reached; it pays exactly the recorded amount of the recorded
    token to that party and deletes the entry. -/
theorem reclaimHtlc_release_rule (id : Hash) (s s' : Htlc) (c : Ctx) (ps : List Payout)
    (h : reclaimHtlc id s c = some (s', ps)) :
    ∃ e, lookup id s.entries = some e ∧ c.amount = 0 ∧ c.sender = e.timeLocked ∧ e.expiration ≤ c.now ∧
      ps = [⟨e.timeLocked, e.tok, e.amount, .none⟩] ∧ lookup id s'.entries = none := by
  unfold reclaimHtlc at h
  split at h
  · cases h
  · rename_i ha
    split at h
    · cases h
    · rename_i e he
      split at h
      · cases h
      · rename_i ho
        split at h
        · cases h
        · rename_i hx
          simp only [Option.some.injEq, Prod.mk.injEq] at h
          obtain ⟨hs, hp⟩ := h
          refine ⟨e, he, by omega, ?_, by omega, hp.symm, ?_⟩
          · exact (Decidable.byContradiction fun hn => ho (fun e' => hn e'.symm))
          · subst hs; exact lookup_erase_self _ _

/-- T3 (htlc, Unlock): pays out only if the caller sent no amount, the entry exists, the caller is the hash-locked
    party or that party has not denied proxy unlocks, the entry has not expired (`now < expiration`), the preimage is
    no longer than the entry allows and hashes (with the entry's hash type) to the recorded lock; it pays exactly the
    recorded amount of the recorded token to the hash-locked party — whoever called — and deletes the entry. -/
theorem unlockHtlc_release_rule (H : HashFn) (id : Hash) (pre : Bytes) (s s' : Htlc) (c : Ctx) (ps : List Payout)
    (h : unlockHtlc H id pre s c = some (s', ps)) :
    ∃ e, lookup id s.entries = some e ∧ c.amount = 0 ∧
      (c.sender = e.hashLocked ∨ s.proxyAllowed e.hashLocked = true) ∧ c.now < e.expiration ∧
      pre.length ≤ e.keyMax ∧ H e.hashType pre = e.hashLock ∧
      ps = [⟨e.hashLocked, e.tok, e.amount, .none⟩] ∧ lookup id s'.entries = none := by
  unfold unlockHtlc at h
  split at h
  · cases h
  · rename_i ha
    split at h
    · cases h
    · rename_i e he
      split at h
      · cases h
      · rename_i hperm
        split at h
        · cases h
        · rename_i hx
          split at h
          · cases h
          · rename_i hk
            split at h
            · cases h
            · rename_i hh
              simp only [Option.some.injEq, Prod.mk.injEq] at h
              obtain ⟨hs, hp⟩ := h
              refine ⟨e, he, by omega, ?_, by omega, by omega, ?_, hp.symm, ?_⟩
              · by_cases hsnd : c.sender = e.hashLocked
                · exact Or.inl hsnd
                · refine Or.inr ?_
                  cases hpa : s.proxyAllowed e.hashLocked with
                  | true => rfl
                  | false => simp [hpa, hsnd] at hperm
              · exact Decidable.byContradiction fun hn => hh hn
              · subst hs; exact lookup_erase_self _ _

/-- T4 (htlc): once an entry has been reclaimed or unlocked, no later Reclaim or Unlock of that id — by anybody, with
    any preimage, at any time — pays anything. -/
theorem htlc_never_twice (H : HashFn) (id : Hash) (pre : Bytes) (s s' : Htlc) (c : Ctx) (ps : List Payout)
    (h : reclaimHtlc id s c = some (s', ps) ∨ unlockHtlc H id pre s c = some (s', ps))
    (c2 : Ctx) (pre2 : Bytes) :
    reclaimHtlc id s' c2 = none ∧ unlockHtlc H id pre2 s' c2 = none := by
  have hgone : lookup id s'.entries = none := by
    rcases h with h | h
    · obtain ⟨_, _, _, _, _, _, hg⟩ := reclaimHtlc_release_rule id s s' c ps h; exact hg
    · obtain ⟨_, _, _, _, _, _, _, _, hg⟩ := unlockHtlc_release_rule H id pre s s' c ps h; exact hg
  constructor
  · unfold reclaimHtlc; split
    · rfl
    · rw [hgone]
  · unfold unlockHtlc; split
    · rfl
    · rw [hgone]

/-- the expiration time separates the two releases: at any instant at most one of Unlock and Reclaim can pay -/
theorem htlc_unlock_reclaim_exclusive (H : HashFn) (id : Hash) (pre : Bytes) (s s1 s2 : Htlc) (c1 c2 : Ctx)
    (p1 p2 : List Payout) (hnow : c1.now = c2.now)
    (h1 : unlockHtlc H id pre s c1 = some (s1, p1)) (h2 : reclaimHtlc id s c2 = some (s2, p2)) : False := by
  obtain ⟨e1, he1, _, _, hlt, _⟩ := unlockHtlc_release_rule H id pre s s1 c1 p1 h1
  obtain ⟨e2, he2, _, _, hge, _⟩ := reclaimHtlc_release_rule id s s2 c2 p2 h2
  rw [he1] at he2; cases he2
  omega

/-- after DenyProxyUnlock by `a`, an Unlock of an entry hash-locked to `a` called by anybody else fails -/
theorem denied_proxy_blocks_third_party (H : HashFn) (s s' : Htlc) (c : Ctx) (ps : List Payout)
    (h : setProxyUnlock false s c = some (s', ps)) (id : Hash) (pre : Bytes) (e : HtlcE) (c2 : Ctx)
    (he : lookup id s'.entries = some e) (hl : e.hashLocked = c.sender) (hother : c2.sender ≠ c.sender) :
    unlockHtlc H id pre s' c2 = none := by
  unfold setProxyUnlock at h
  split at h
  · cases h
  · simp only [Option.some.injEq, Prod.mk.injEq] at h
    obtain ⟨hs, _⟩ := h
    subst hs
    unfold unlockHtlc
    split
    · rfl
    · simp only at he
      rw [he]
      simp [Htlc.proxyAllowed, hl, lookup_put_self, hother]

/-- the proxy flag is what the LAST Allow / Deny call of an address said, whatever was stored before (an earlier Allow
    does not survive a Deny and vice versa); nobody else's flag, no entry and no funds are touched -/
theorem proxy_flag_last_call_wins (b : Bool) (s s' : Htlc) (c : Ctx) (ps : List Payout)
    (h : setProxyUnlock b s c = some (s', ps)) :
    s'.proxyAllowed c.sender = b ∧ (∀ a, a ≠ c.sender → s'.proxyAllowed a = s.proxyAllowed a) ∧
      s'.entries = s.entries ∧ ps = [] := by
  unfold setProxyUnlock at h
  split at h
  · cases h
  · simp only [Option.some.injEq, Prod.mk.injEq] at h
    obtain ⟨hs, hp⟩ := h
    subst hs
    refine ⟨?_, ?_, rfl, hp.symm⟩
    · simp [Htlc.proxyAllowed, lookup_put_self]
    · intro a ha
      simp [Htlc.proxyAllowed, lookup_put_ne ha]

/-- Allow followed by Deny (any calls of other addresses in between left aside): the third party's Unlock fails -
    the sequence the two-call histories Default→Deny and Deny→Allow do not reach -/
theorem deny_after_allow_blocks_third_party (H : HashFn) (s s1 s2 : Htlc) (c1 c2 : Ctx) (p1 p2 : List Payout)
    (_h1 : setProxyUnlock true s c1 = some (s1, p1)) (h2 : setProxyUnlock false s1 c2 = some (s2, p2))
    (_hsame : c2.sender = c1.sender) (id : Hash) (pre : Bytes) (e : HtlcE) (c3 : Ctx)
    (he : lookup id s2.entries = some e) (hl : e.hashLocked = c2.sender) (hother : c3.sender ≠ c2.sender) :
    unlockHtlc H id pre s2 c3 = none :=
  denied_proxy_blocks_third_party H s1 s2 c2 p2 h2 id pre e c3 he hl hother

/-- after AllowProxyUnlock by `a` (whatever was stored before, a Deny included) the flag does not stand in the way of
    anybody's Unlock of an entry hash-locked to `a`: the outcome is the one of the hash-locked party's own call -/
theorem allowed_proxy_admits_third_party (H : HashFn) (s s' : Htlc) (c : Ctx) (ps : List Payout)
    (h : setProxyUnlock true s c = some (s', ps)) (id : Hash) (pre : Bytes) (e : HtlcE) (c2 : Ctx)
    (he : lookup id s'.entries = some e) (hl : e.hashLocked = c.sender) :
    unlockHtlc H id pre s' c2 = unlockHtlc H id pre s' { c2 with sender := c.sender } := by
  have hflag := (proxy_flag_last_call_wins true s s' c ps h).1
  unfold unlockHtlc
  simp only
  split
  · rfl
  · rw [he]
    simp [hl, hflag]

/-! ## QSR deposits (pillar and sentinel contracts) -/

/-- DepositQsr adds the sent QSR to the sender's deposit and touches nobody else's -/
theorem depositQsr_accumulates (d d' : Deposits) (c : Ctx) (h : depositQsr d c = some d') :
    c.token = qsrTok ∧ 0 < c.amount ∧ depositOf d' c.sender = depositOf d c.sender + c.amount ∧
      ∀ a, a ≠ c.sender → depositOf d' a = depositOf d a := by
  unfold depositQsr at h
  split at h
  · cases h
  · rename_i h1
    simp only [Option.some.injEq] at h
    subst h
    refine ⟨Decidable.byContradiction fun hn => h1 (Or.inl hn), Nat.pos_of_ne_zero fun hn => h1 (Or.inr hn), ?_, ?_⟩
    · simp [depositOf, lookup_put_self]
    · intro a ha
      simp [depositOf, lookup_put_ne ha]

/-- T3 (QSR deposit): WithdrawQsr pays out only if the caller sent no amount and has a non-zero deposit; it pays exactly
    that deposit, in QSR, to the depositor, and the deposit is deleted in the same step. -/
theorem withdrawQsr_release_rule (d d' : Deposits) (c : Ctx) (ps : List Payout) (h : withdrawQsr d c = some (d', ps)) :
    c.amount = 0 ∧ 0 < depositOf d c.sender ∧ ps = [⟨c.sender, qsrTok, depositOf d c.sender, .none⟩] ∧
      depositOf d' c.sender = 0 := by
  obtain ⟨h1, h2, h3, h4, _⟩ := withdrawQsr_law h
  refine ⟨h1, h2, h3, ?_⟩
  subst h4
  simp [depositOf, lookup_erase_self]

/-- T4 (QSR deposit): after a successful WithdrawQsr the same account's next WithdrawQsr fails (until it deposits again). -/
theorem withdrawQsr_never_twice (d d' : Deposits) (c c2 : Ctx) (ps : List Payout) (h : withdrawQsr d c = some (d', ps))
    (hsame : c2.sender = c.sender) : withdrawQsr d' c2 = none := by
  obtain ⟨_, _, _, hz⟩ := withdrawQsr_release_rule d d' c ps h
  unfold withdrawQsr
  split
  · rfl
  · rw [hsame, hz]; simp

/-- a registration consumes no more than what the account has deposited -/
theorem consumeQsr_within_deposit (d d' : Deposits) (owner : Addr) (required : Nat) (h : consumeQsr d owner required = some d') :
    required ≤ depositOf d owner ∧ depositsTotal d' + required ≤ depositsTotal d :=
  consumeQsr_law h

/-! ## pillar -/

/-- T1 (pillar, one receive), for call contexts with a non-zero frontier time: "every active pillar is recorded with
    the collateral that Revoke pays" is preserved, and Σ pillar collateral ≤ ZNN balance, Σ QSR deposits ≤ QSR balance. -/
theorem pillar_backed_step (P : Params) (op : PillarOp) (s : Pillar) (bal : Bal) (c : Ctx) (hnow : c.now ≠ 0)
    (hI : PillarInv P s) (h : Backed pillarOwed s bal) :
    PillarInv P (vmStep (op.method P) s bal c).st ∧
    Backed pillarOwed (vmStep (op.method P) s bal c).st (vmStep (op.method P) s bal c).bal :=
  vmStep_backedI (pillar_methodBackedI P op) c hnow hI h

/-- T1 (pillar, all histories of Register / Revoke / UpdatePillar / Delegate / Undelegate / DepositQsr / WithdrawQsr) -/
theorem pillar_backed (P : Params) (ops : List (PillarOp × Ctx)) (hnow : ∀ oc ∈ ops, oc.2.now ≠ 0) (s : Pillar) (bal : Bal)
    (hI : PillarInv P s) (h : Backed pillarOwed s bal) :
    PillarInv P (run (PillarOp.method P) (s, bal) ops).1 ∧
    Backed pillarOwed (run (PillarOp.method P) (s, bal) ops).1 (run (PillarOp.method P) (s, bal) ops).2 :=
  run_backedI (pillar_methodBackedI P) ops hnow (s, bal) hI h

/-- the lock recorded by Register: exactly PillarStakeAmount of ZNN was sent, the name was free, the QSR cost of the
    next pillar was taken from the sender's own deposit and is burned; the pillar is recorded active with the sender as
    stake address and the frontier time as registration time. -/
theorem registerPillar_records_lock (P : Params) (name : Hash) (producer reward : Addr) (pb pd : Nat) (ok : Bool)
    (s s' : Pillar) (c : Ctx) (ps : List Payout)
    (h : registerPillar P name producer reward pb pd ok s c = some (s', ps)) :
    c.token = znnTok ∧ c.amount = P.pillarStakeAmount ∧ lookup name s.pillars = none ∧
      pillarQsrCost P s ≤ depositOf s.deposits c.sender ∧
      lookup name s'.pillars = some ⟨c.sender, P.pillarStakeAmount, c.now, 0, producer, reward, ZV.Gen.NormalPillarType, pb, pd⟩ ∧
      ps = [⟨tokenContract, qsrTok, pillarQsrCost P s, .burn⟩] := by
  obtain ⟨ht, ha, hn, d', hd, hs, hp⟩ := registerPillar_spec h
  refine ⟨ht, ha, hn, (consumeQsr_law hd).1, ?_, hp⟩
  subst hs
  exact lookup_put_self _ _ _

/-- T3 (pillar): Revoke pays out only if the caller sent no amount, the pillar exists and is active, the caller is its
    stake address and the frontier time lies in the revoke window; it pays PillarStakeAmount in ZNN to the stake address
    and records the pillar as revoked with amount 0. -/
theorem revokePillar_release_rule (P : Params) (name : Hash) (ok : Bool) (s s' : Pillar) (c : Ctx) (ps : List Payout)
    (h : revokePillar P name ok s c = some (s', ps)) :
    ∃ p, lookup name s.pillars = some p ∧ c.amount = 0 ∧ p.revokeTime = 0 ∧ c.sender = p.stakeAddr ∧
      revocable P.pillarLock P.pillarRevoke p.regTime c.now = true ∧
      ps = [⟨p.stakeAddr, znnTok, P.pillarStakeAmount, .none⟩] ∧
      lookup name s'.pillars = some { p with revokeTime := c.now, amount := 0 } := by
  obtain ⟨ha, p, hp, hr, ho, hw, hs, hps⟩ := revokePillar_spec h
  refine ⟨p, hp, ha, hr, ho.symm, hw, hps, ?_⟩
  subst hs
  exact lookup_put_self _ _ _

/-- under the invariant, the amount Revoke pays is the amount recorded for the pillar -/
theorem revokePillar_pays_recorded (P : Params) (name : Hash) (ok : Bool) (s s' : Pillar) (c : Ctx) (ps : List Payout)
    (hI : PillarInv P s) (h : revokePillar P name ok s c = some (s', ps)) :
    ∃ p, lookup name s.pillars = some p ∧ ps = [⟨p.stakeAddr, znnTok, p.amount, .none⟩] := by
  obtain ⟨_, p, hp, hr, _, _, _, hps⟩ := revokePillar_spec h
  exact ⟨p, hp, by rw [hps, hI (name, p) (mem_of_lookup hp) hr]⟩

/-- the revoke window: with registration not in the future, a pillar or sentinel is revocable exactly when the time
    since registration, modulo lock + window, has reached the lock time -/
theorem revocable_iff_in_window (lock window reg now : Int) (h0 : reg ≤ now) :
    revocable lock window reg now = true ↔ lock ≤ (now - reg) % (lock + window) := by
  have : (now - reg).tmod (lock + window) = (now - reg) % (lock + window) :=
    Int.tmod_eq_emod_of_nonneg (by omega)
  simp [revocable, this]

/-- T4 (pillar): after a successful Revoke at a non-zero frontier time, every later Revoke of that pillar fails. -/
theorem revokePillar_never_twice (P : Params) (name : Hash) (ok ok2 : Bool) (s s' : Pillar) (c c2 : Ctx) (ps : List Payout)
    (hnow : c.now ≠ 0) (h : revokePillar P name ok s c = some (s', ps)) :
    revokePillar P name ok2 s' c2 = none := by
  obtain ⟨p, _, _, _, _, _, _, hrec⟩ := revokePillar_release_rule P name ok s s' c ps h
  unfold revokePillar
  split
  · rfl
  · split
    · rfl
    · rw [hrec]; simp [hnow]

/-- why the frontier time must be non-zero (it is: genesis is in 2001): a revocation stamped with time 0 leaves the
    pillar "active" (`RevokeTime == 0`) and a second Revoke pays the collateral again -/
theorem revokePillar_at_time_zero_pays_twice :
    let P : Params := { Params.production with pillarLock := 0, pillarRevoke := 10 }
    let s : Pillar := { pillars := [(1, ⟨16, P.pillarStakeAmount, 0, 0, 16, 16, 2, 0, 0⟩)] }
    let c : Ctx := ⟨0, 1, 16, 0, zeroTok, 9⟩
    ((revokePillar P 1 true s c).bind fun r => (revokePillar P 1 true r.1 c).map (·.2)) =
      some [⟨16, znnTok, P.pillarStakeAmount, .none⟩] := by
  decide

/-! ## sentinel -/

/-- T1 (sentinel, one receive): Σ ZNN collateral ≤ ZNN balance and Σ QSR collateral + Σ QSR deposits ≤ QSR balance -/
theorem sentinel_backed_step (P : Params) (op : SentinelOp) (s : Sentinel) (bal : Bal) (c : Ctx)
    (h : Backed sentinelOwed s bal) :
    Backed sentinelOwed (vmStep (op.method P) s bal c).st (vmStep (op.method P) s bal c).bal :=
  vmStep_backed (sentinel_methodBacked P op) c h

/-- T1 (sentinel, all histories of Register / Revoke / DepositQsr / WithdrawQsr) -/
theorem sentinel_backed (P : Params) (ops : List (SentinelOp × Ctx)) (s : Sentinel) (bal : Bal)
    (h : Backed sentinelOwed s bal) :
    Backed sentinelOwed (run (SentinelOp.method P) (s, bal) ops).1 (run (SentinelOp.method P) (s, bal) ops).2 :=
  run_backed (sentinel_methodBacked P) ops (s, bal) h

/-- the lock recorded by sentinel Register: exactly SentinelZnnRegisterAmount ZNN sent, SentinelQsrDepositAmount taken
    from the sender's own QSR deposit, no sentinel recorded for the sender before, nothing paid out -/
theorem registerSentinel_records_lock (P : Params) (s s' : Sentinel) (c : Ctx) (ps : List Payout)
    (h : registerSentinel P s c = some (s', ps)) :
    c.token = znnTok ∧ c.amount = P.sentinelZnn ∧ lookup c.sender s.entries = none ∧
      P.sentinelQsr ≤ depositOf s.deposits c.sender ∧
      lookup c.sender s'.entries = some ⟨c.now, 0, P.sentinelZnn, P.sentinelQsr⟩ ∧ ps = [] := by
  obtain ⟨ht, ha, hn, d', hd, hs, hp⟩ := registerSentinel_spec h
  refine ⟨ht, ha, hn, (consumeQsr_law hd).1, ?_, hp⟩
  subst hs
  exact lookup_put_self _ _ _

/-- T3 (sentinel): Revoke pays out only if the caller sent no amount, a sentinel is recorded for the caller, it has not
    been revoked and the frontier time lies in the revoke window; it pays exactly the recorded ZNN and QSR amounts to
    the owner and records both as 0 with the revoke time. -/
theorem revokeSentinel_release_rule (P : Params) (s s' : Sentinel) (c : Ctx) (ps : List Payout)
    (h : revokeSentinel P s c = some (s', ps)) :
    ∃ e, lookup c.sender s.entries = some e ∧ c.amount = 0 ∧ e.revokeTime = 0 ∧
      revocable P.sentinelLock P.sentinelRevoke e.regTime c.now = true ∧
      ps = [⟨c.sender, znnTok, e.znn, .none⟩, ⟨c.sender, qsrTok, e.qsr, .none⟩] ∧
      lookup c.sender s'.entries = some { e with revokeTime := c.now, znn := 0, qsr := 0 } := by
  obtain ⟨ha, e, he, hr, hw, hs, hps⟩ := revokeSentinel_spec h
  refine ⟨e, he, ha, hr, hw, hps, ?_⟩
  subst hs
  exact lookup_put_self _ _ _

/-- T4 (sentinel): after a successful Revoke a later Revoke by the same owner pays nothing: it fails, or (only if the
    first was stamped with time 0) pays 0 ZNN and 0 QSR. -/
theorem revokeSentinel_never_twice (P : Params) (s s' s'' : Sentinel) (c c2 : Ctx) (ps ps2 : List Payout)
    (h : revokeSentinel P s c = some (s', ps)) (hsame : c2.sender = c.sender)
    (h2 : revokeSentinel P s' c2 = some (s'', ps2)) :
    c.now = 0 ∧ ps2 = [⟨c.sender, znnTok, 0, .none⟩, ⟨c.sender, qsrTok, 0, .none⟩] := by
  obtain ⟨e, _, _, _, _, _, hrec⟩ := revokeSentinel_release_rule P s s' c ps h
  obtain ⟨e2, he2, _, hr2, _, hp2, _⟩ := revokeSentinel_release_rule P s' s'' c2 ps2 h2
  rw [hsame, hrec] at he2
  cases he2
  exact ⟨hr2, by rw [hp2, hsame]⟩

/-! ## liquidity (stake entries only) -/

/-- T1 (liquidity stakes, one receive): per token, Σ stake entries ≤ balance — as long as only LiquidityStake and
    CancelLiquidityStake move the balance (see `liquidity_burn_breaks_backing` for what the model leaves out) -/
theorem liquidity_backed_step (P : Params) (op : LiquidityOp) (s : Liquidity) (bal : Bal) (c : Ctx)
    (h : Backed liquidityOwed s bal) :
    Backed liquidityOwed (vmStep (op.method P) s bal c).st (vmStep (op.method P) s bal c).bal :=
  vmStep_backed (liquidity_methodBacked P op) c h

/-- T1 (liquidity stakes, all histories of LiquidityStake / CancelLiquidityStake) -/
theorem liquidity_backed_partial (P : Params) (ops : List (LiquidityOp × Ctx)) (s : Liquidity) (bal : Bal)
    (h : Backed liquidityOwed s bal) :
    Backed liquidityOwed (run (LiquidityOp.method P) (s, bal) ops).1 (run (LiquidityOp.method P) (s, bal) ops).2 :=
  run_backed (liquidity_methodBacked P) ops (s, bal) h

/-- N1 (negative witness, finding F14): the liquidity contract keeps staked principal and reward funds in one balance.
    With ZNN configured as a stakeable token, a BurnZnn by the spork address (Fund behaves alike) removes staked ZNN:
    the contract then owes more than it holds and the matured cancel of the staker is refused for lack of funds. -/
theorem liquidity_burn_breaks_backing :
    let P : Params := { Params.production with stakeTimeUnit := 100, stakeTimeMin := 100, stakeTimeMax := 1200 }
    let s0 : Liquidity := { tuples := [(znnTok, 1)] }
    let r1 := vmStep (liquidityStake P 100) s0 [] ⟨1000, 1, 16, 5, znnTok, 7⟩
    let r2 := vmStep (liquidityBurnZnn 5 true) r1.st r1.bal ⟨1010, 2, 20, 0, zeroTok, 8⟩
    let r3 := vmStep (cancelLiquidityStake 7) r2.st r2.bal ⟨1100, 3, 16, 0, zeroTok, 9⟩
    r1.status = 1 ∧ r2.status = 1 ∧ liquidityOwed r2.st znnTok = 5 ∧ r2.bal.get znnTok = 0 ∧ r3.status = 2 := by
  decide

/-- T3 (liquidity stake): CancelLiquidityStake pays out only to the caller under whose address the entry is recorded,
    only when the expiration time has passed, exactly the recorded amount of the recorded token; the entry is left
    with amount 0. -/
theorem cancelLiquidityStake_release_rule (id : Hash) (s s' : Liquidity) (c : Ctx) (ps : List Payout)
    (h : cancelLiquidityStake id s c = some (s', ps)) :
    ∃ e, lookup (c.sender, id) s.entries = some e ∧ c.amount = 0 ∧ e.expiration ≤ c.now ∧
      ps = [⟨c.sender, e.tok, e.amount, .none⟩] ∧
      lookup (c.sender, id) s'.entries = some { e with revoke := c.now, amount := 0 } := by
  unfold cancelLiquidityStake at h
  split at h
  · cases h
  · rename_i ha
    split at h
    · cases h
    · rename_i e he
      split at h
      · cases h
      · rename_i hx
        simp only [Option.some.injEq, Prod.mk.injEq] at h
        obtain ⟨hs, hp⟩ := h
        refine ⟨e, he, by simpa using ha, by omega, hp.symm, ?_⟩
        subst hs
        exact lookup_put_self _ _ _

/-- T4 (liquidity stake): a repeated cancel of a cancelled entry pays exactly 0 -/
theorem cancelLiquidityStake_never_twice (id : Hash) (s s' s'' : Liquidity) (c c2 : Ctx) (ps ps2 : List Payout)
    (h : cancelLiquidityStake id s c = some (s', ps)) (hsame : c2.sender = c.sender)
    (h2 : cancelLiquidityStake id s' c2 = some (s'', ps2)) :
    ∃ tok, ps2 = [⟨c.sender, tok, 0, .none⟩] := by
  obtain ⟨e, _, _, _, _, hrec⟩ := cancelLiquidityStake_release_rule id s s' c ps h
  obtain ⟨e2, he2, _, _, hp2, _⟩ := cancelLiquidityStake_release_rule id s' s'' c2 ps2 h2
  rw [hsame, hrec] at he2
  cases he2
  exact ⟨e.tok, by rw [hp2, hsame]⟩

/-! ## bridge: unwrap requests (T5) — configuration reads and the TSS signature check are oracle inputs -/

/-- an unwrap request is registered only if the bridge may act, no request exists yet for (transaction hash, log index),
    a redeemable token pair is configured for the token address and the TSS signature over the request verifies; the
    recorded request carries the recipient and amount named in the signed call, the frontier height, and is neither
    redeemed nor revoked; nothing is paid. -/
theorem unwrapToken_records_request (canAct sigOk : Bool) (pair : Option PairInfo) (tx : Hash) (log : Nat) (to : Addr)
    (ta amount : Nat) (s s' : Bridge) (c : Ctx) (ps : List Payout)
    (h : unwrapToken canAct sigOk pair tx log to ta amount s c = some (s', ps)) :
    canAct = true ∧ sigOk = true ∧ 0 < amount ∧ c.amount = 0 ∧ lookup (tx, log) s.requests = none ∧
      ∃ p, pair = some p ∧ p.redeemable = true ∧
        lookup (tx, log) s'.requests = some ⟨c.height, to, ta, p.tok, amount, 0, 0⟩ ∧ ps = [] := by
  unfold unwrapToken at h
  split at h
  · cases h
  · rename_i h1
    split at h
    · cases h
    · rename_i h2
      split at h
      · cases h
      · rename_i h3
        split at h
        · cases h
        · rename_i h4
          split at h
          · cases h
          · rename_i p
            split at h
            · cases h
            · rename_i h5
              split at h
              · cases h
              · rename_i h6
                simp only [Option.some.injEq, Prod.mk.injEq] at h
                obtain ⟨hs, hp⟩ := h
                subst hs
                refine ⟨by simpa using h3, by simpa using h6, by omega, by omega, ?_, p, rfl, by simpa using h5,
                  lookup_put_self _ _ _, hp.symm⟩
                cases hl : lookup (tx, log) s.requests with
                | none => rfl
                | some v => simp [hl] at h4

/-- a registered request — open, redeemed or revoked — can never be registered again (so its flags are never reset) -/
theorem unwrapToken_keeps_existing (canAct sigOk : Bool) (pair : Option PairInfo) (tx : Hash) (log : Nat) (to : Addr)
    (ta amount : Nat) (s : Bridge) (c : Ctx) (r : UnwrapReq) (hr : lookup (tx, log) s.requests = some r) :
    unwrapToken canAct sigOk pair tx log to ta amount s c = none := by
  unfold unwrapToken
  split
  · rfl
  · split
    · rfl
    · split
      · rfl
      · simp [hr]

/-- T5 (bridge redeem rule): Redeem pays out only if the caller sent no amount, the bridge may act, the request exists
    and is neither redeemed nor revoked, a token pair is still configured for it and at least `redeemDelay` momentums
    have passed since its registration; it pays — or, for a token owned by the bridge, has the token contract mint —
    exactly the request's amount of the pair's token to the recipient named in the signed request, whoever the caller
    is, and flags the request as redeemed in the same step. -/
theorem redeem_release_rule (canAct : Bool) (pair : Option PairInfo) (tx : Hash) (log : Nat) (s s' : Bridge) (c : Ctx)
    (ps : List Payout) (h : redeemUnwrap canAct pair tx log s c = some (s', ps)) :
    ∃ r p, lookup (tx, log) s.requests = some r ∧ pair = some p ∧ canAct = true ∧ c.amount = 0 ∧
      r.redeemed = 0 ∧ r.revoked = 0 ∧ p.redeemDelay ≤ c.height - r.regHeight ∧
      ps = [if p.owned then ⟨tokenContract, p.tok, 0, .mint p.tok r.amount r.toAddr⟩ else ⟨r.toAddr, p.tok, r.amount, .none⟩] ∧
      lookup (tx, log) s'.requests = some { r with redeemed := 1 } := by
  unfold redeemUnwrap at h
  split at h
  · cases h
  · rename_i h1
    split at h
    · cases h
    · rename_i h2
      split at h
      · cases h
      · rename_i r hr
        split at h
        · cases h
        · rename_i h3
          split at h
          · cases h
          · rename_i p
            split at h
            · cases h
            · rename_i h4
              simp only at h
              refine ⟨r, p, hr, rfl, by simpa using h2, by omega, by omega, by omega, by omega, ?_, ?_⟩
              · split at h
                · rename_i ho
                  simp only [Option.some.injEq, Prod.mk.injEq] at h
                  simp [ho, h.2.symm]
                · rename_i ho
                  simp only [Option.some.injEq, Prod.mk.injEq] at h
                  simp [ho, h.2.symm]
              · split at h <;>
                · simp only [Option.some.injEq, Prod.mk.injEq] at h
                  rw [← h.1]
                  exact lookup_put_self _ _ _

/-- T5 (never twice): once redeemed, no later Redeem of that request — by anybody, under any configuration — pays. -/
theorem redeem_never_twice (canAct canAct2 : Bool) (pair pair2 : Option PairInfo) (tx : Hash) (log : Nat)
    (s s' : Bridge) (c c2 : Ctx) (ps : List Payout) (h : redeemUnwrap canAct pair tx log s c = some (s', ps)) :
    redeemUnwrap canAct2 pair2 tx log s' c2 = none := by
  obtain ⟨r, p, _, _, _, _, _, _, _, _, hrec⟩ := redeem_release_rule canAct pair tx log s s' c ps h
  unfold redeemUnwrap
  split
  · rfl
  · split
    · rfl
    · rw [hrec]; simp

/-- a request revoked by the administrator is never redeemed -/
theorem revoked_never_redeemed (isAdmin canAct2 : Bool) (pair2 : Option PairInfo) (tx : Hash) (log : Nat)
    (s s' : Bridge) (c c2 : Ctx) (ps : List Payout) (h : revokeUnwrap isAdmin tx log s c = some (s', ps)) :
    isAdmin = true ∧ ps = [] ∧ redeemUnwrap canAct2 pair2 tx log s' c2 = none := by
  unfold revokeUnwrap at h
  split at h
  · cases h
  · split at h
    · cases h
    · rename_i r hr
      split at h
      · cases h
      · rename_i ha
        simp only [Option.some.injEq, Prod.mk.injEq] at h
        obtain ⟨hs, hp⟩ := h
        subst hs
        refine ⟨by simpa using ha, hp.symm, ?_⟩
        unfold redeemUnwrap
        split
        · rfl
        · split
          · rfl
          · simp [lookup_put_self]

/-! ## the hypotheses are satisfiable -/

/-- a backed plasma state in which U(=16) owns a matured fusion: the cancel pays, a second cancel fails -/
example :
    let s : Plasma := { fusions := [((16, 7), ⟨50, 10, 17⟩)], fused := [(17, 50)] }
    let c : Ctx := ⟨1000, 10, 16, 0, zeroTok, 99⟩
    Backed plasmaOwed s [(qsrTok, 50)] ∧ PlasmaConsistent s ∧
    (cancelFuse 7 s c).map (·.2) = some [⟨16, qsrTok, 50, .none⟩] ∧
    (vmStep (cancelFuse 7) s [(qsrTok, 50)] c).status = 1 ∧
    (vmStep (cancelFuse 7) s [(qsrTok, 50)] { c with height := 9 }).status = 2 := by
  refine ⟨?_, ⟨by simp [NodupKeys], ?_⟩, by decide, by decide, by decide⟩
  · intro tok _
    by_cases h : tok = qsrTok
    · subst h; decide
    · simp [plasmaOwed, h]
  · intro b
    by_cases h : 17 = b
    · subst h; decide
    · simp [Plasma.fusedOf, Plasma.entriesFor, lookup, total, h]

/-- an htlc of 5 ZNN from 16 to 17, expiring at 1000, lock = H(preimage [1,2]); 18 unlocks it by proxy before expiry and the
    amount goes to 17; at time 1000 only the reclaim by 16 pays -/
example :
    let H : HashFn := fun _ p => p ++ [0]
    let s : Htlc := { entries := [(5, ⟨16, 17, znnTok, 5, 1000, 0, 32, [1, 2, 0]⟩)] }
    (unlockHtlc H 5 [1, 2] s ⟨990, 9, 18, 0, zeroTok, 77⟩).map (·.2) = some [⟨17, znnTok, 5, .none⟩] ∧
    unlockHtlc H 5 [1, 2] s ⟨1000, 9, 17, 0, zeroTok, 77⟩ = none ∧
    unlockHtlc H 5 [1, 3] s ⟨990, 9, 17, 0, zeroTok, 77⟩ = none ∧
    reclaimHtlc 5 s ⟨990, 9, 16, 0, zeroTok, 77⟩ = none ∧
    (reclaimHtlc 5 s ⟨1000, 9, 16, 0, zeroTok, 77⟩).map (·.2) = some [⟨16, znnTok, 5, .none⟩] ∧
    reclaimHtlc 5 s ⟨1000, 9, 17, 0, zeroTok, 77⟩ = none := by
  decide

/-- pillar: 16 deposits the cost, registers, and can revoke only inside the window (lock 100, window 50) -/
example :
    let P : Params := { Params.production with pillarStakeAmount := 15, pillarQsrBase := 150, pillarQsrIncrease := 10,
                                               pillarLock := 100, pillarRevoke := 50 }
    let s0 : Pillar := {}
    let r1 := vmStep pillarDeposit s0 [] ⟨1000, 1, 16, 150, qsrTok, 1⟩
    let r2 := vmStep (registerPillar P 7 20 16 0 100 true) r1.st r1.bal ⟨1010, 2, 16, 15, znnTok, 2⟩
    let early := vmStep (revokePillar P 7 true) r2.st r2.bal ⟨1100, 3, 16, 0, zeroTok, 3⟩
    let r3 := vmStep (revokePillar P 7 true) r2.st r2.bal ⟨1110, 4, 16, 0, zeroTok, 4⟩
    let again := vmStep (revokePillar P 7 true) r3.st r3.bal ⟨1120, 5, 16, 0, zeroTok, 5⟩
    PillarInv P s0 ∧ Backed pillarOwed s0 [] ∧
    r1.status = 1 ∧ r2.status = 1 ∧ r2.descs = [⟨tokenContract, qsrTok, 150, .burn⟩] ∧
    early.status = 2 ∧ r3.status = 1 ∧ r3.descs = [⟨16, znnTok, 15, .none⟩] ∧ again.status = 2 := by
  refine ⟨?_, ?_, by decide, by decide, by decide, by decide, by decide, by decide, by decide⟩
  · intro x hx; simp at hx
  · intro tok _; simp [pillarOwed, total, depositsTotal]

/-- sentinel: deposit, register, revoke inside the window pays both collaterals back -/
example :
    let P : Params := { Params.production with sentinelZnn := 5, sentinelQsr := 50, sentinelLock := 100, sentinelRevoke := 50 }
    let r1 := vmStep sentinelDeposit ({} : Sentinel) [] ⟨1000, 1, 16, 60, qsrTok, 1⟩
    let r2 := vmStep (registerSentinel P) r1.st r1.bal ⟨1010, 2, 16, 5, znnTok, 2⟩
    let r3 := vmStep (revokeSentinel P) r2.st r2.bal ⟨1110, 3, 16, 0, zeroTok, 3⟩
    let r4 := vmStep sentinelWithdraw r3.st r3.bal ⟨1120, 4, 16, 0, zeroTok, 4⟩
    r2.status = 1 ∧ r3.descs = [⟨16, znnTok, 5, .none⟩, ⟨16, qsrTok, 50, .none⟩] ∧
    r4.descs = [⟨16, qsrTok, 10, .none⟩] ∧ r4.bal.get qsrTok = 0 ∧ r4.bal.get znnTok = 0 := by
  decide

/-- bridge: a signed unwrap of 7 ZNN for 17, redeem delay 3: too early at +2, paid to 17 at +3 when 18 calls, refused afterwards;
    for a bridge-owned token the token contract is asked to mint instead -/
example :
    let pair : PairInfo := ⟨znnTok, true, false, 3⟩
    let r1 := vmStep (unwrapToken true true (some pair) 5 0 17 99 7) ({} : Bridge) [(znnTok, 10)] ⟨1000, 10, 16, 0, zeroTok, 1⟩
    let early := vmStep (redeemUnwrap true (some pair) 5 0) r1.st r1.bal ⟨1020, 12, 18, 0, zeroTok, 2⟩
    let r2 := vmStep (redeemUnwrap true (some pair) 5 0) r1.st r1.bal ⟨1030, 13, 18, 0, zeroTok, 3⟩
    let again := vmStep (redeemUnwrap true (some pair) 5 0) r2.st r2.bal ⟨1040, 14, 17, 0, zeroTok, 4⟩
    let owned := vmStep (redeemUnwrap true (some ⟨9, true, true, 3⟩) 5 0) r1.st r1.bal ⟨1030, 13, 18, 0, zeroTok, 3⟩
    r1.status = 1 ∧ early.status = 2 ∧ r2.status = 1 ∧ r2.descs = [⟨17, znnTok, 7, .none⟩] ∧ r2.bal.get znnTok = 3 ∧
    again.status = 2 ∧ owned.descs = [⟨tokenContract, 9, 0, .mint 9 7 17⟩] ∧
    (vmStep (unwrapToken true false (some pair) 6 0 17 99 7) ({} : Bridge) [] ⟨1000, 10, 16, 0, zeroTok, 1⟩).status = 2 := by
  decide

end ZV.C10
