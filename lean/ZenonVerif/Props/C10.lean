import ZenonVerif.Lemmas.Contracts
/-
C10 — locked funds are fully backed and released only to the entitled party, on time. Property theorems only.
Model: ZenonVerif/Model/Contracts.lean (one state machine per contract, `vmStep` = generateEmbeddedReceive).
-/
namespace ZV.C10
open ZV.Contracts

/-! ## plasma -/

/-- T1 (plasma, one receive): whatever the call, its arguments and its outcome (applied or refunded), the sum of the
    fusion entries stays covered by the contract's QSR balance. -/
theorem plasma_backed_step (P : Params) (op : PlasmaOp) (s : Plasma) (bal : Bal) (c : Ctx)
    (h : Backed plasmaOwed s bal) :
    Backed plasmaOwed (vmStep (op.method P) s bal c).st (vmStep (op.method P) s bal c).bal :=
  vmStep_backed (plasma_methodBacked P op) c h

/-- T1 (plasma, all histories): from any backed state, after any sequence of Fuse / CancelFuse receives with any
    senders, amounts, tokens, heights and ids, Σ fusion entries ≤ QSR balance. -/
theorem plasma_backed (P : Params) (ops : List (PlasmaOp × Ctx)) (s : Plasma) (bal : Bal)
    (h : Backed plasmaOwed s bal) :
    Backed plasmaOwed (run (PlasmaOp.method P) (s, bal) ops).1 (run (PlasmaOp.method P) (s, bal) ops).2 :=
  run_backed (plasma_methodBacked P) ops (s, bal) h

/-- T3 (plasma): CancelFuse pays out only if the caller sent no amount, an entry is recorded under (caller, id) — the
    caller is its owner — and its expiration height has been reached; it pays exactly the recorded amount in QSR to
    that owner, and the entry is deleted in the same step. -/
theorem cancelFuse_release_rule (id : Hash) (s s' : Plasma) (c : Ctx) (ps : List Payout)
    (h : cancelFuse id s c = some (s', ps)) :
    ∃ f, lookup (c.sender, id) s.fusions = some f ∧ c.amount = 0 ∧ f.expH ≤ c.height ∧
      ps = [⟨c.sender, qsrTok, f.amount, false⟩] ∧ lookup (c.sender, id) s'.fusions = none := by
  unfold cancelFuse at h
  split at h
  · cases h
  · rename_i ha
    split at h
    · cases h
    · rename_i f hf
      split at h
      · cases h
      · rename_i he
        simp only [Option.some.injEq, Prod.mk.injEq] at h
        obtain ⟨hs, hp⟩ := h
        refine ⟨f, hf, by omega, by omega, hp.symm, ?_⟩
        subst hs
        exact lookup_erase_self _ _

/-- the lock recorded by Fuse: the entry is keyed by (sender, send-block hash), holds the sent amount and expires
    `fuseExpiration` momentums after the frontier height of the receive; Fuse pays nothing out -/
theorem fuse_records_lock (P : Params) (b : Addr) (s s' : Plasma) (c : Ctx) (ps : List Payout)
    (h : fuse P b s c = some (s', ps)) :
    lookup (c.sender, c.hash) s'.fusions = some ⟨c.amount, c.height + P.fuseExpiration, b⟩ ∧ ps = [] ∧
      c.token = qsrTok ∧ P.fuseMinAmount ≤ c.amount := by
  unfold fuse at h
  split at h
  · cases h
  · rename_i h1
    split at h
    · cases h
    · simp only [Option.some.injEq, Prod.mk.injEq] at h
      obtain ⟨hs, hp⟩ := h
      subst hs
      refine ⟨lookup_put_self _ _ _, hp.symm, ?_, ?_⟩
      · exact Decidable.byContradiction fun hn => h1 (Or.inl hn)
      · exact Nat.le_of_not_lt fun hn => h1 (Or.inr hn)

/-- T4 (plasma): after a successful CancelFuse the same cancel (same owner, same id, any later time) fails. -/
theorem cancelFuse_never_twice (id : Hash) (s s' : Plasma) (c c2 : Ctx) (ps : List Payout)
    (h : cancelFuse id s c = some (s', ps)) (hsame : c2.sender = c.sender) :
    cancelFuse id s' c2 = none := by
  obtain ⟨f, _, _, _, _, hgone⟩ := cancelFuse_release_rule id s s' c ps h
  unfold cancelFuse
  split
  · rfl
  · rw [hsame, hgone]

/-- T2 (plasma, one receive): with distinct storage keys and a fresh id for a new entry (the id is the hash of the
    send block), every beneficiary's recorded fused total stays equal to the sum of its fusion entries. -/
theorem fused_total_consistent_step (P : Params) (op : PlasmaOp) (s : Plasma) (bal : Bal) (c : Ctx)
    (hfresh : ∀ b, op = .fuse b → lookup (c.sender, c.hash) s.fusions = none)
    (h : PlasmaConsistent s) :
    PlasmaConsistent (vmStep (op.method P) s bal c).st :=
  plasma_consistent_vmStep P op s bal c hfresh h

/-- T2 (plasma, all histories): starting from a consistent state, along every history whose Fuse calls carry
    fresh send-block hashes, fused amount = Σ fusion entries for every beneficiary. -/
theorem fused_total_consistent (P : Params) (ops : List (PlasmaOp × Ctx)) (s : Plasma) (bal : Bal)
    (hfresh : FreshIds P (s, bal) ops) (h : PlasmaConsistent s) :
    PlasmaConsistent (run (PlasmaOp.method P) (s, bal) ops).1 :=
  plasma_consistent_run P ops s bal hfresh h

/-- in a consistent state the subtraction in CancelFuse never goes below zero: the stored fused amount is never a
    wrapped-around 256-bit number -/
theorem cancelFuse_no_wrap (id : Hash) (s : Plasma) (c : Ctx) (f : Fusion) (h : PlasmaConsistent s)
    (hf : lookup (c.sender, id) s.fusions = some f) : f.amount ≤ s.fusedOf f.beneficiary :=
  fused_covers_entry s h hf

/-! ## stake -/

/-- T1 (stake, one receive) -/
theorem stake_backed_step (P : Params) (op : StakeOp) (s : Stake) (bal : Bal) (c : Ctx)
    (h : Backed stakeOwed s bal) :
    Backed stakeOwed (vmStep (op.method P) s bal c).st (vmStep (op.method P) s bal c).bal :=
  vmStep_backed (stake_methodBacked P op) c h

/-- T1 (stake, all histories): Σ stake entries ≤ ZNN balance after any sequence of Stake / Cancel receives. -/
theorem stake_backed (P : Params) (ops : List (StakeOp × Ctx)) (s : Stake) (bal : Bal)
    (h : Backed stakeOwed s bal) :
    Backed stakeOwed (run (StakeOp.method P) (s, bal) ops).1 (run (StakeOp.method P) (s, bal) ops).2 :=
  run_backed (stake_methodBacked P) ops (s, bal) h

/-- T3 (stake): Cancel pays out only if the caller sent no amount, an entry is recorded under (caller, id) and its
    expiration time has passed (`expiration ≤ now`); it pays exactly the recorded amount in ZNN to that caller and
    the entry is left with amount 0 and the revoke time. -/
theorem cancelStake_release_rule (id : Hash) (s s' : Stake) (c : Ctx) (ps : List Payout)
    (h : cancelStake id s c = some (s', ps)) :
    ∃ e, lookup (c.sender, id) s.entries = some e ∧ c.amount = 0 ∧ e.expiration ≤ c.now ∧
      ps = [⟨c.sender, znnTok, e.amount, false⟩] ∧
      lookup (c.sender, id) s'.entries = some { e with revoke := c.now, amount := 0 } := by
  unfold cancelStake at h
  split at h
  · cases h
  · rename_i ha
    split at h
    · cases h
    · rename_i e he
      split at h
      · cases h
      · rename_i hx
        simp only [Option.some.injEq, Prod.mk.injEq] at h
        obtain ⟨hs, hp⟩ := h
        refine ⟨e, he, by simpa using ha, by omega, hp.symm, ?_⟩
        subst hs
        exact lookup_put_self _ _ _

/-- the lock recorded by Stake: amount, start = now, expiration = now + duration with a valid duration -/
theorem stake_records_lock (P : Params) (d : Int) (s s' : Stake) (c : Ctx) (ps : List Payout)
    (h : stake P d s c = some (s', ps)) :
    (∃ w, lookup (c.sender, c.hash) s'.entries = some ⟨c.amount, w, c.now, 0, c.now + d⟩) ∧ ps = [] ∧
      c.token = znnTok ∧ P.stakeMinAmount ≤ c.amount ∧ P.stakeTimeMin ≤ d ∧ d ≤ P.stakeTimeMax := by
  unfold stake at h
  split at h
  · cases h
  · rename_i h1
    split at h
    · cases h
    · rename_i h2
      simp only [Option.some.injEq, Prod.mk.injEq] at h
      obtain ⟨hs, hp⟩ := h
      subst hs
      refine ⟨⟨_, lookup_put_self _ _ _⟩, hp.symm, ?_, ?_, ?_, ?_⟩
      · exact Decidable.byContradiction fun hn => h1 (Or.inr hn)
      · exact Nat.le_of_not_lt fun hn => h1 (Or.inl hn)
      · exact Int.not_lt.mp fun hn => h2 (Or.inl hn)
      · exact Int.not_lt.mp fun hn => h2 (Or.inr (Or.inl hn))

/-- T4 (stake): after a successful Cancel a repeated Cancel of the same entry — the entry stays in storage until the
    next reward update — pays exactly 0. -/
theorem cancelStake_never_twice (id : Hash) (s s' s'' : Stake) (c c2 : Ctx) (ps ps2 : List Payout)
    (h : cancelStake id s c = some (s', ps)) (hsame : c2.sender = c.sender)
    (h2 : cancelStake id s' c2 = some (s'', ps2)) :
    ps2 = [⟨c.sender, znnTok, 0, false⟩] := by
  obtain ⟨e, _, _, _, _, hrec⟩ := cancelStake_release_rule id s s' c ps h
  obtain ⟨e2, he2, _, _, hp2, _⟩ := cancelStake_release_rule id s' s'' c2 ps2 h2
  rw [hsame, hrec] at he2
  cases he2
  rw [hp2, hsame]

/-! ## the hypotheses are satisfiable -/

/-- a backed plasma state in which U(=16) owns a matured fusion: the cancel pays, a second cancel fails -/
example :
    let s : Plasma := { fusions := [((16, 7), ⟨50, 10, 17⟩)], fused := [(17, 50)] }
    let c : Ctx := ⟨1000, 10, 16, 0, zeroTok, 99⟩
    Backed plasmaOwed s [(qsrTok, 50)] ∧ PlasmaConsistent s ∧
    (cancelFuse 7 s c).map (·.2) = some [⟨16, qsrTok, 50, false⟩] ∧
    (vmStep (cancelFuse 7) s [(qsrTok, 50)] c).status = 1 ∧
    (vmStep (cancelFuse 7) s [(qsrTok, 50)] { c with height := 9 }).status = 2 := by
  refine ⟨?_, ⟨by simp [NodupKeys], ?_⟩, by decide, by decide, by decide⟩
  · intro tok _
    by_cases h : tok = qsrTok
    · subst h; decide
    · simp [plasmaOwed, h]
  · intro b
    by_cases h : 17 = b
    · subst h; decide
    · simp [Plasma.fusedOf, Plasma.entriesFor, lookup, total, h]

end ZV.C10
