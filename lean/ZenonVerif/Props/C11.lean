import ZenonVerif.Lemmas.Rewards
/-
C11 — rewards bounded by emission: property theorems only (arithmetic part).
-/
namespace ZV.C11
open ZV ZV.Rewards

/-! ### T1 — rounded-down pro-rata shares never exceed the amount that is split -/

/-- T1 `share_sum_le`: for non-negative weights with 0 < W = Σ wᵢ: Σᵢ ⌊T·wᵢ / W⌋ ≤ T. -/
theorem share_sum_le (T : Int) (ws : List Int) (hT : 0 ≤ T) (hw : ∀ w ∈ ws, 0 ≤ w) (hW : 0 < ws.sum) :
    (ws.map (fun w => share T w ws.sum)).sum ≤ T :=
  sum_share_le T ws.sum hT hW ws hw (Int.le_refl _)

/-- stake contract: the QSR deposits of one epoch (`computeStakeRewardsForEpoch`) sum to at most the amount `T`
    passed in (= `StakeQsrRewardPerEpoch epoch`), and no deposit is negative. -/
theorem stake_rewards_le (T : Int) (ws : List Int) (hT : 0 ≤ T) (hw : ∀ w ∈ ws, 0 ≤ w) :
    (stakeRewardsForEpoch T ws).sum ≤ T ∧ ∀ r ∈ stakeRewardsForEpoch T ws, 0 ≤ r := by
  unfold stakeRewardsForEpoch
  have hs := sum_nonneg ws hw
  by_cases h0 : ws.sum = 0
  · simp [h0, hT]
  · simp only [h0, if_false]
    refine ⟨share_sum_le T ws hT hw (by omega), ?_⟩
    intro r hr
    obtain ⟨w, hwm, rfl⟩ := List.mem_map.mp hr
    exact share_nonneg T w _ hT (hw w hwm) hs

/-- the weight `getWeightedStake` gives an entry is non-negative when the epoch window fits the int64 subtraction
    (|t| ≤ 2^62 — unix seconds are below 2^34) -/
theorem weighted_stake_nonneg (infoStart infoRevoke amount startTime endTime : Int) (ha : 0 ≤ amount)
    (h1 : -(two63 : Int) ≤ 2 * startTime) (h2 : 2 * endTime < (two63 : Int)) :
    0 ≤ weightedStake infoStart infoRevoke amount startTime endTime := by
  unfold weightedStake
  simp only
  have hs : startTime ≤ max startTime infoStart := by omega
  have he : (if infoRevoke ≠ 0 then min endTime infoRevoke else endTime) ≤ endTime := by split <;> omega
  generalize max startTime infoStart = s at *
  generalize (if infoRevoke ≠ 0 then min endTime infoRevoke else endTime) = e at *
  by_cases hse : s ≥ e
  · simp [hse]
  · simp only [hse, if_false]
    apply Int.mul_nonneg _ ha
    unfold wrap64
    simp only [two63, two64] at *
    omega

/-- sentinel contract: the ZNN and the QSR deposits of one epoch sum to at most the amounts passed in
    (= `SentinelRewardForEpoch epoch`). -/
theorem sentinel_rewards_le (Tz Tq : Int) (ws : List Int) (hz : 0 ≤ Tz) (hq : 0 ≤ Tq) (hw : ∀ w ∈ ws, 0 ≤ w) :
    ((sentinelRewardsForEpoch Tz Tq ws).map (·.1)).sum ≤ Tz ∧
    ((sentinelRewardsForEpoch Tz Tq ws).map (·.2)).sum ≤ Tq := by
  unfold sentinelRewardsForEpoch
  have hs := sum_nonneg ws hw
  by_cases h0 : ws.sum = 0
  · simp [h0, hz, hq]
  · simp only [h0, if_false, List.map_map]
    have e1 : ((fun x : Int × Int => x.1) ∘ fun w => if w = 0 then ((0 : Int), (0 : Int)) else (share Tz w ws.sum, share Tq w ws.sum))
        = fun w => share Tz w ws.sum := by
      funext w; simp only [Function.comp]; split
      · subst_vars; simp [share]
      · rfl
    have e2 : ((fun x : Int × Int => x.2) ∘ fun w => if w = 0 then ((0 : Int), (0 : Int)) else (share Tz w ws.sum, share Tq w ws.sum))
        = fun w => share Tq w ws.sum := by
      funext w; simp only [Function.comp]; split
      · subst_vars; simp [share]
      · rfl
    rw [e1, e2]
    exact ⟨share_sum_le Tz ws hz hw (by omega), share_sum_le Tq ws hq hw (by omega)⟩

/-- `getWeightedSentinel` is 0 or 1 -/
theorem weighted_sentinel_01 (reg revoke startTime endTime : Int) :
    weightedSentinel reg revoke startTime endTime = 0 ∨ weightedSentinel reg revoke startTime endTime = 1 := by
  unfold weightedSentinel
  simp only
  generalize max startTime reg = s
  generalize (if revoke ≠ 0 then min endTime revoke else endTime) = e
  by_cases h : s ≥ e
  · left; simp [h]
  · by_cases h2 : mul64 (wrap64 (endTime - startTime)) 90 < mul64 (wrap64 (e - s)) 100
    · right; simp [h, h2]
    · left; simp [h, h2]

/-- pillar contract, split between a pillar and its backers (`computeDetailedPillarReward`): with give-percentages
    ≤ 100 what is credited to the pillar's reward address plus what is credited to all backers is at most the
    pillar's TotalReward, and the pillar's own part is not negative. -/
theorem pillar_split_le (r : PillarReward) (gb gd : Int) (backers : List Int)
    (hb : 0 ≤ r.block) (hd : 0 ≤ r.delegation) (ht : r.total = r.block + r.delegation)
    (hgb : 0 ≤ gb ∧ gb ≤ 100) (hgd : 0 ≤ gd ∧ gd ≤ 100) (hbk : ∀ a ∈ backers, 0 ≤ a) :
    (pillarSplit r gb gd backers).1 + (pillarSplit r gb gd backers).2.sum ≤ r.total ∧
    0 ≤ (pillarSplit r gb gd backers).1 := by
  unfold pillarSplit
  simp only
  generalize hg : Int.tdiv (gb * r.block + gd * r.delegation) 100 = toGive
  have hnum : 0 ≤ gb * r.block + gd * r.delegation :=
    Int.add_nonneg (Int.mul_nonneg hgb.1 hb) (Int.mul_nonneg hgd.1 hd)
  have hg0 : 0 ≤ toGive := by rw [← hg]; exact Int.tdiv_nonneg hnum (by omega)
  have hgle : toGive ≤ r.total := by
    rw [← hg]
    apply tdiv_le_of_le_mul _ _ _ hnum (by omega)
    have h1 : gb * r.block ≤ 100 * r.block := Int.mul_le_mul_of_nonneg_right hgb.2 hb
    have h2 : gd * r.delegation ≤ 100 * r.delegation := Int.mul_le_mul_of_nonneg_right hgd.2 hd
    rw [ht]; omega
  have hs := sum_nonneg backers hbk
  by_cases h0 : backers.sum = 0
  · simp only [h0, if_true, List.sum_nil]; omega
  · simp only [h0, if_false]
    have := share_sum_le toGive backers hg0 hbk (by omega)
    omega

/-- liquidity contract, staking rewards of one coin (`computeLiquidityStakeRewardsForEpoch`): when the token
    percentages sum to at most `LiquidityTotalPercentages`, everything credited to stakers of all tokens is at most
    the epoch amount `T` (the code itself re-checks this and fails with ErrInvalidRewards otherwise). -/
theorem liquidity_stake_rewards_le (T totalPct : Int) (tokens : List (Int × List Int)) (hT : 0 ≤ T)
    (hp : 0 < totalPct) (hpct : ∀ t ∈ tokens, 0 ≤ t.1) (hw : ∀ t ∈ tokens, ∀ w ∈ t.2, 0 ≤ w)
    (hsum : (tokens.map (·.1)).sum ≤ totalPct) :
    ((liquidityStakeRewards T totalPct tokens).map List.sum).sum ≤ T := by
  -- each token's stakers get at most R_k = ⌊T·pct_k/total⌋, and Σ R_k · total ≤ T · Σ pct_k
  have key : ∀ tokens : List (Int × List Int), (∀ t ∈ tokens, 0 ≤ t.1) → (∀ t ∈ tokens, ∀ w ∈ t.2, 0 ≤ w) →
      ((liquidityStakeRewards T totalPct tokens).map List.sum).sum * totalPct ≤ T * (tokens.map (·.1)).sum := by
    intro tokens
    induction tokens with
    | nil => intro _ _; simp [liquidityStakeRewards]
    | cons t ts ih =>
      intro hpct hw
      have ih' := ih (fun x hx => hpct x (by simp [hx])) (fun x hx => hw x (by simp [hx]))
      obtain ⟨pct, ws⟩ := t
      have hpc : 0 ≤ pct := hpct (pct, ws) (by simp)
      have hws : ∀ w ∈ ws, 0 ≤ w := hw (pct, ws) (by simp)
      have hR0 : 0 ≤ T * pct / totalPct := Int.ediv_nonneg (Int.mul_nonneg hT hpc) (by omega)
      have hR : T * pct / totalPct * totalPct ≤ T * pct := Int.ediv_mul_le _ (by omega)
      have hs := sum_nonneg ws hws
      have hpart : (if ws.sum = 0 then [] else ws.map (fun w => share (T * pct / totalPct) w ws.sum)).sum
          ≤ T * pct / totalPct := by
        by_cases h0 : ws.sum = 0
        · simp [h0, hR0]
        · simp only [h0, if_false]
          exact share_sum_le _ ws hR0 hws (by omega)
      have hpart' := Int.mul_le_mul_of_nonneg_right hpart (Int.le_of_lt hp)
      unfold liquidityStakeRewards at ih' ⊢
      simp only [List.map_cons, List.sum_cons, Int.add_mul, Int.mul_add] at ih' ⊢
      omega
  have h1 := key tokens hpct hw
  have h2 : T * (tokens.map (·.1)).sum ≤ T * totalPct := Int.mul_le_mul_of_nonneg_left hsum hT
  exact Int.le_of_mul_le_mul_right (Int.le_trans h1 h2) hp

/-! ### T2 — the pillar formula -/

/-- T2 `pillar_epoch_bound`: for epoch statistics in which every pillar produced at most the momentums expected of it,
    the pillar weights sum to at most the total weight, and the uint64 sum of expected momentums does not wrap, the
    TotalRewards of all pillars (`computePillarRewardForEpoch`) sum to at most
    (delegation per momentum + producing per momentum) · (total expected momentums). -/
theorem pillar_epoch_bound (d p W : Int) (ps : List PillarStat) (hd : 0 ≤ d) (hp : 0 ≤ p) (hW : 0 ≤ W)
    (hprod : ∀ s ∈ ps, s.produced ≤ s.expected) (hw : ∀ s ∈ ps, 0 ≤ s.weight)
    (hsum : (ps.map (·.weight)).sum ≤ W) (hE : (ps.map (·.expected)).sum < two64) :
    (ps.map (fun s => (pillarRewardForEpoch d p W ps s).total)).sum ≤
      (d + p) * ((ps.map (·.expected)).sum : Nat) := by
  have hEq : totalExpected ps = (ps.map (·.expected)).sum := Nat.mod_eq_of_lt hE
  unfold pillarRewardForEpoch
  rw [hEq]
  generalize hEdef : (((ps.map (·.expected)).sum : Nat) : Int) = E
  have hE0 : 0 ≤ E := by rw [← hEdef]; exact Int.natCast_nonneg _
  obtain ⟨h1, h2, h3⟩ := pillar_sums d p W E hd hp hW hE0 ps hprod hw
  rw [hEdef] at h2
  -- total = block + delegation, pointwise
  have htot : ∀ qs : List PillarStat,
      (qs.map (fun s => (pillarRewardWith d p W E s).total)).sum =
      (qs.map (fun s => (pillarRewardWith d p W E s).block)).sum +
      (qs.map (fun s => (pillarRewardWith d p W E s).delegation)).sum := by
    intro qs
    induction qs with
    | nil => simp
    | cons s qs ih =>
      simp only [List.map_cons, List.sum_cons, ih]
      have : (pillarRewardWith d p W E s).total =
          (pillarRewardWith d p W E s).block + (pillarRewardWith d p W E s).delegation := by
        unfold pillarRewardWith; split <;> simp
      omega
  rw [htot ps]
  have hdel : (ps.map (fun s => (pillarRewardWith d p W E s).delegation)).sum ≤ d * E := by
    by_cases hW0 : W = 0
    · -- no delegation reward at all when the total weight is zero
      have : ∀ qs : List PillarStat, (qs.map (fun s => (pillarRewardWith d p W E s).delegation)).sum = 0 := by
        intro qs
        induction qs with
        | nil => simp
        | cons s qs ih =>
          simp only [List.map_cons, List.sum_cons, ih]
          unfold pillarRewardWith; split <;> simp [hW0]
      rw [this]; exact Int.mul_nonneg hd hE0
    · have hWpos : 0 < W := by omega
      have h4 : d * E * (ps.map (·.weight)).sum ≤ d * E * W :=
        Int.mul_le_mul_of_nonneg_left hsum (Int.mul_nonneg hd hE0)
      exact Int.le_of_mul_le_mul_right (Int.le_trans h1 h4) hWpos
  rw [Int.add_mul]
  omega

/-- with at most `MomentumsPerEpoch` expected momentums in the epoch (24 h of 10 s slots) and the per-momentum rewards
    of `emission_tables`, all pillars together stay within the pillar part d·MPE + p·MPE of the epoch's emission -/
theorem pillar_epoch_within_emission (d p W : Int) (ps : List PillarStat) (hd : 0 ≤ d) (hp : 0 ≤ p) (hW : 0 ≤ W)
    (hprod : ∀ s ∈ ps, s.produced ≤ s.expected) (hw : ∀ s ∈ ps, 0 ≤ s.weight)
    (hsum : (ps.map (·.weight)).sum ≤ W)
    (hslots : (((ps.map (·.expected)).sum : Nat) : Int) ≤ Gen.MomentumsPerEpoch) :
    (ps.map (fun s => (pillarRewardForEpoch d p W ps s).total)).sum ≤
      d * Gen.MomentumsPerEpoch + p * Gen.MomentumsPerEpoch := by
  have hE : (ps.map (·.expected)).sum < two64 := by
    simp only [Gen.MomentumsPerEpoch, two64] at *; omega
  have h := pillar_epoch_bound d p W ps hd hp hW hprod hw hsum hE
  have h2 : (d + p) * (((ps.map (·.expected)).sum : Nat) : Int) ≤ (d + p) * Gen.MomentumsPerEpoch :=
    Int.mul_le_mul_of_nonneg_left hslots (by omega)
  have e1 := Int.add_mul d p Gen.MomentumsPerEpoch
  omega

/-- negative witness: the premise produced ≤ expected is necessary — a pillar credited with 2 produced momentums where
    1 was expected receives more than (d+p)·E -/
theorem pillar_bound_needs_produced_le_expected :
    ∃ (ps : List PillarStat), (ps.map (·.weight)).sum ≤ 1 ∧
      ¬ (ps.map (fun s => (pillarRewardForEpoch 10 10 1 ps s).total)).sum ≤ (10 + 10) * ((ps.map (·.expected)).sum : Nat) :=
  ⟨[⟨2, 1, 1⟩], by decide⟩

/-- negative witness: the premise Σ weightᵢ ≤ TotalWeight is necessary -/
theorem pillar_bound_needs_weight_sum :
    ∃ (ps : List PillarStat), (∀ s ∈ ps, s.produced ≤ s.expected) ∧
      ¬ (ps.map (fun s => (pillarRewardForEpoch 10 10 1 ps s).total)).sum ≤ (10 + 10) * ((ps.map (·.expected)).sum : Nat) :=
  ⟨[⟨1, 1, 2⟩], by decide⟩

example : ∃ ps : List PillarStat, ps.length = 2 ∧ (∀ s ∈ ps, s.produced ≤ s.expected) ∧ (ps.map (·.weight)).sum ≤ 10 ∧
    (ps.map (fun s => (pillarRewardForEpoch 7 5 10 ps s).total)).sum = 93 :=
  ⟨[⟨3, 4, 6⟩, ⟨5, 5, 4⟩], by decide⟩

/-! ### T3 — emission tables -/

/-- the percentage split of each coin does not exceed 100 -/
theorem percentages_le_100 :
    Gen.DelegationZnnRewardPercentage + Gen.MomentumProducingZnnRewardPercentage + Gen.SentinelZnnRewardPercentage +
      Gen.LiquidityZnnRewardPercentage ≤ 100 ∧
    Gen.StakingQsrRewardPercentage + Gen.SentinelQsrRewardPercentage + Gen.LiquidityQsrRewardPercentage ≤ 100 := by
  decide

/-- every entry of the regenerated ZNN and QSR tables passes (finite check over the whole table) -/
theorem tables_ok :
    (∀ n ∈ Gen.NetworkZnnRewardConfig, znnOK n = true) ∧ (∀ n ∈ Gen.NetworkQsrRewardConfig, qsrOK n = true) ∧
    Gen.NetworkZnnRewardConfig ≠ [] ∧ Gen.NetworkQsrRewardConfig ≠ [] ∧ 2 ≤ Gen.RewardTickDurationInEpochs := by
  decide

/-- T3 `emission_tables`: for EVERY epoch (uint64; the finite tables plus "last entry forever") the lookups of
    vm/constants succeed (no panic), every piece is non-negative, and per coin the contracts' pieces sum to at most the
    network emission of that epoch:
      ZNN: (delegation + producing per momentum) · MomentumsPerEpoch + sentinel + liquidity ≤ NetworkZnnRewardPerEpoch
      QSR: stake + sentinel + liquidity ≤ NetworkQsrRewardPerEpoch -/
theorem emission_tables (epoch : Nat) :
    ∃ zn qn d p sz sq lz lq st,
      networkZnnRewardPerEpoch epoch = some zn ∧ networkQsrRewardPerEpoch epoch = some qn ∧
      pillarRewardPerMomentum epoch = some (d, p) ∧ sentinelRewardForEpoch epoch = some (sz, sq) ∧
      liquidityRewardForEpoch epoch = some (lz, lq) ∧ stakeQsrRewardPerEpoch epoch = some st ∧
      0 ≤ d ∧ 0 ≤ p ∧ 0 ≤ sz ∧ 0 ≤ sq ∧ 0 ≤ lz ∧ 0 ≤ lq ∧ 0 ≤ st ∧
      d * Gen.MomentumsPerEpoch + p * Gen.MomentumsPerEpoch + sz + lz ≤ zn ∧
      st + sq + lq ≤ qn := by
  obtain ⟨hz, hq, hzne, hqne, hR⟩ := tables_ok
  obtain ⟨zn, hzm, hzl⟩ := network_mem Gen.NetworkZnnRewardConfig epoch hzne hR
  obtain ⟨qn, hqm, hql⟩ := network_mem Gen.NetworkQsrRewardConfig epoch hqne hR
  have h1 := hz zn hzm
  have h2 := hq qn hqm
  unfold znnOK at h1
  unfold qsrOK at h2
  cases hzp : znnPieces zn with
  | none => rw [hzp] at h1; cases h1
  | some zp =>
    obtain ⟨d, p, s, l⟩ := zp
    cases hqp : qsrPieces qn with
    | none => rw [hqp] at h2; cases h2
    | some qp =>
      obtain ⟨st, sq, lq⟩ := qp
      rw [hzp] at h1; rw [hqp] at h2
      simp only [decide_eq_true_eq] at h1 h2
      refine ⟨zn, qn, d, p, s, sq, l, lq, st, hzl, hql, ?_, ?_, ?_, ?_, ?_⟩
      · simp [pillarRewardPerMomentum, networkZnnRewardPerEpoch, hzl, hzp]
      · simp [sentinelRewardForEpoch, networkZnnRewardPerEpoch, networkQsrRewardPerEpoch, hzl, hql, hzp, hqp]
      · simp [liquidityRewardForEpoch, networkZnnRewardPerEpoch, networkQsrRewardPerEpoch, hzl, hql, hzp, hqp]
      · simp [stakeQsrRewardPerEpoch, networkQsrRewardPerEpoch, hql, hqp]
      · omega

example : stakeRewardsForEpoch 100 [1, 1, 1] = [33, 33, 33] := by decide
example : (pillarSplit ⟨70, 30, 100⟩ 50 10 [1, 2]) = (78, [7, 14]) := by decide

end ZV.C11
