import ZenonVerif.Model.Verify
import ZenonVerif.Lemmas.Verify
/-
C03 — only valid account blocks are ever accepted: property theorems only.

`verifyBlock` (Model/Verify.lean) is `Supervisor.ApplyBlock` as a pure decision over the block's fields and the
context facts; `ValidBlock` below is the property's sentence, clause by clause, over the same fields and facts.
-/
namespace ZV.C03
open ZV ZV.Verify

/-- The property's sentence. Nothing here mentions `verifyBlock`. -/
structure ValidBlock (c : Cand) (f : Facts) : Prop where
  /-- an acceptable kind: a send or receive of a user account, or the receive of a contract account -/
  kind : (c.b.emb = false ∧ (c.b.bt = Gen.BlockTypeUserSend ∨ c.b.bt = Gen.BlockTypeUserReceive)) ∨
         (c.b.emb = true ∧ c.b.bt = Gen.BlockTypeContractReceive)
  /-- its hash matches its content (the content the node keeps: canonical call data, regenerated descendants) -/
  hash_matches : c.b.hz = false ∧ f.hok = true
  /-- a user block is signed by the key that owns the account and carries no descendant blocks -/
  user_signed : c.b.emb = false →
    c.b.nsig ≠ 0 ∧ c.b.npk ≠ 0 ∧ f.sok = true ∧ f.pka = true ∧ c.descs = []
  /-- contract blocks carry no key and are reproduced by the receiver: the regenerated block has the same hash and
      the same changes-hash, and its descendant blocks are the ones that are kept (`regenerated_descendants_adopted`) -/
  contract_reproduced : c.b.emb = true → c.b.npk = 0 ∧ c.b.nsig = 0 ∧ f.regen = some (true, true)
  /-- it extends the account's chain by exactly one height from its stated predecessor, which is a tip the node
      holds for this account (the confirmed frontier or a pooled block) -/
  extends_chain : f.store = true ∧ c.b.h ≠ 0 ∧
    (c.b.emb = false → c.b.h = c.prevHeight + 1 ∧ (c.b.h = 1 ↔ c.b.phz = true) ∧ (c.b.h ≠ 1 → f.sfp = 1))
  /-- it acknowledges a momentum on the node's chain: for a user block not older than the one its predecessor
      acknowledged, for a contract receive exactly the one that confirmed the send (and its descendants the same) -/
  acknowledges : c.b.maz = false ∧ f.maOn = true ∧
    (c.b.emb = false → c.prevIsZeroHH = false → ∃ p, f.pmah = some p ∧ p ≤ c.b.mah) ∧
    (c.b.emb = true → f.fconf = c.b.mah ∧ ∀ d ∈ c.descs, d.maSame = true)
  /-- it spends no more than the account holds, with a non-negative amount below 2^255 -/
  amount_ok : isSend c.b = true → ∃ a, c.b.amt = some a ∧ 0 ≤ a ∧ a < 2 ^ 255 ∧ a ≤ (f.bal : Int)
  /-- a receive references a confirmed, not yet received send that is addressed to the receiving account
      (the last from the protocol's enforcement height on) -/
  receive_ok : isReceive c.b = true → f.fex = true ∧ f.recvd = false ∧ (f.gate = true → f.ftome = true)

/-- T1 `verify_sound`: whatever block and whatever context — if `ApplyBlock` accepts, the block is valid in the
    sense of the property. -/
theorem verify_sound (c : Cand) (f : Facts) (h : verifyBlock c f = .ok ()) : ValidBlock c f := by
  simp only [verifyBlock, supervisorStages, List.map, firstErr_cons, firstErr_nil, chk_ok, and_true] at h
  obtain ⟨hcs, hab, -, hvm, htx⟩ := h
  have hcs : c.b.bt ≠ Gen.BlockTypeContractSend := by simpa using hcs
  -- verifier.AccountBlock
  simp only [verifyAccountBlock, firstErr_cons, firstErr_nil, chk_ok, and_true] at hab
  obtain ⟨-, hctx, hall⟩ := hab
  obtain ⟨hh0, hh1, hhn1, hmaz, hmaon, hstore⟩ := getContext_ok hctx
  obtain ⟨-, -, hbt, hamt, -, hprev, hma, hfrom, hseq⟩ := abAll_ok hall
  obtain ⟨hbtE, hbtU⟩ := blockType_ok hbt
  have hsb : (c.subj f).b = c.b := rfl
  rw [hsb] at hbtE hbtU
  obtain ⟨tUS, tUR, tCR, -⟩ := @isSend_isReceive_of_type c.b
  -- verifier.AccountBlockTransaction
  simp only [verifyTransaction, txChecks, List.map, firstErr_cons, firstErr_nil, chk_ok, and_true] at htx
  obtain ⟨-, -, hhash, hsig, hprod, hdesc⟩ := htx
  obtain ⟨hhz, hhok⟩ := txHash_ok hhash
  -- kinds
  have hkind : (c.b.emb = false ∧ (c.b.bt = Gen.BlockTypeUserSend ∨ c.b.bt = Gen.BlockTypeUserReceive)) ∨
      (c.b.emb = true ∧ c.b.bt = Gen.BlockTypeContractReceive) := by
    cases he : c.b.emb with
    | false => exact Or.inl ⟨rfl, (hbtU he).symm⟩
    | true =>
      refine Or.inr ⟨rfl, ?_⟩
      rcases hbtE he with h | h
      · exact h
      · exact absurd h hcs
  refine ⟨hkind, ⟨hhz, hhok⟩, ?_, ?_, ⟨hstore, hh0, ?_⟩, ⟨hmaz, hmaon, ?_, ?_⟩, ?_, ?_⟩
  · -- user_signed
    intro he
    simp only [txSignature, he, Bool.false_eq_true, if_false, firstErr_cons, firstErr_nil, chk_ok, and_true] at hsig
    simp only [txProducer, he, Bool.false_eq_true, if_false, chk_ok] at hprod
    have hnd : c.descs = [] := txDescendantBlocks_user_ok hdesc he
    exact ⟨by simpa using hsig.1, by simpa using hsig.2.1, by simpa using hsig.2.2, by simpa using hprod, hnd⟩
  · -- contract_reproduced
    intro he
    simp only [txSignature, he, if_true, firstErr_cons, firstErr_nil, chk_ok, and_true] at hsig
    have hcr : c.b.bt = Gen.BlockTypeContractReceive := by
      rcases hkind with h | h
      · simp [he] at h
      · exact h.2
    simp only [vmApplyBlock, firstErr_cons, firstErr_nil, and_true] at hvm
    have hvm2 := hvm.2
    have e1 : (c.b.bt == Gen.BlockTypeUserSend || c.b.bt == Gen.BlockTypeContractSend) = false := by
      rw [hcr]; decide
    have e2 : (c.b.bt == Gen.BlockTypeUserReceive) = false := by rw [hcr]; decide
    have e3 : (c.b.bt == Gen.BlockTypeContractReceive) = true := by rw [hcr]; decide
    simp only [e1, e2, e3, Bool.false_eq_true, if_false, if_true] at hvm2
    refine ⟨by simpa using hsig.1, by simpa using hsig.2, ?_⟩
    cases hr : f.regen with
    | none => simp [hr] at hvm2
    | some p =>
      obtain ⟨a, b⟩ := p
      simp only [hr, firstErr_cons, firstErr_nil, chk_ok, and_true] at hvm2
      have ha : a = true := by simpa using hvm2.1
      have hb : b = true := by simpa using hvm2.2
      rw [ha, hb]
  · -- extends_chain, user part
    intro he
    have hnd : c.descs = [] := txDescendantBlocks_user_ok hdesc he
    refine ⟨?_, ⟨hh1, ?_⟩, ?_⟩
    · simp only [Cand.prevHeight, hnd, heightMinus1, hh0, if_false]; omega
    · intro hp
      cases Decidable.em (c.b.h = 1) with
      | inl h1 => exact h1
      | inr hn => have := hhn1 hn; simp [hp] at this
    · intro hn1
      exact previous_ok hprev (by rw [hsb]; exact hn1) (by rw [hsb]; exact he)
  · -- acknowledges, user part
    intro he hz
    exact momentumAcknowledged_user_ok hma (by rw [hsb]; exact he) hz
  · -- acknowledges, contract part
    intro he
    have hcr : c.b.bt = Gen.BlockTypeContractReceive := by
      rcases hkind with h | h
      · simp [he] at h
      · exact h.2
    obtain ⟨hs, hr⟩ := tCR hcr
    obtain ⟨-, hsame, hconf⟩ := momentumAcknowledged_contract_ok hma (by rw [hsb]; exact he) (by rw [hsb]; exact hr)
      (by rw [hsb]; exact hs)
    refine ⟨hconf, ?_⟩
    intro d hd
    exact hsame d.maSame (by simp only [Cand.subj, List.mem_map]; exact ⟨d, hd, rfl⟩)
  · -- amount_ok
    intro hs
    obtain ⟨a, ha, h0, hlt, hts, -⟩ := amounts_send_ok hamt (by rw [hsb]; exact hs)
    rw [hsb] at ha hts
    have hus : c.b.bt = Gen.BlockTypeUserSend := by
      simp only [isSend, Bool.or_eq_true, beq_iff_eq] at hs
      rcases hs with h | h
      · exact h
      · exact absurd h hcs
    refine ⟨a, ha, h0, ?_, ?_⟩
    · have : Gen.AmountMaxBitLen = 255 := rfl
      rw [this] at hlt
      omega
    · -- vm: enoughFunds
      simp only [vmApplyBlock, firstErr_cons, firstErr_nil, and_true] at hvm
      have hvm2 := hvm.2
      have e1 : (c.b.bt == Gen.BlockTypeUserSend || c.b.bt == Gen.BlockTypeContractSend) = true := by
        rw [hus]; decide
      simp only [e1, if_true, applySend, firstErr_cons, firstErr_nil, chk_ok, and_true] at hvm2
      have hfunds := hvm2.2
      simp only [insufficientFunds, ha] at hfunds
      cases ht : c.b.tsz with
      | true =>
        -- zero token: the amount must be 0
        have : ¬ 0 < a := by
          intro hp; have := hts hp; simp [ht] at this
        have : a = 0 := by omega
        omega
      | false =>
        simp only [ht, Bool.false_eq_true, if_false] at hfunds
        have : ¬ ((f.bal : Int) < a) := by simpa using hfunds
        omega
  · -- receive_ok
    intro hr
    have hns : isSend c.b = false := by
      rcases hkind with ⟨-, h | h⟩ | ⟨-, h⟩
      · have := (tUS h).2; simp [this] at hr
      · exact (tUR h).1
      · exact (tCR h).1
    obtain ⟨-, hfex, hgate, hrec⟩ := fromHash_ok hfrom (by rw [hsb]; exact hns)
    exact ⟨hfex, hrec, hgate⟩

/-- T2 `mutation_closed`: corrupting a block in any way (`μ` is any function on candidates, in particular every
    single- and double-field mutation), in whatever context the corrupted block is then judged, either makes it
    rejected or yields a block that is itself valid by the same rules. -/
theorem mutation_closed (μ : Cand → Cand) (c : Cand) (f' : Facts) :
    (∃ r, verifyBlock (μ c) f' = .error r) ∨ ValidBlock (μ c) f' := by
  cases h : verifyBlock (μ c) f' with
  | error r => exact Or.inl ⟨r, rfl⟩
  | ok u => exact Or.inr (verify_sound _ _ h)

/-- an accepted contract block also was the next in the contract's inbox (sequencer) -/
theorem accepted_contract_receive_is_next (c : Cand) (f : Facts) (h : verifyBlock c f = .ok ())
    (he : c.b.emb = true) : f.seq = 1 := by
  have hv := verify_sound c f h
  simp only [verifyBlock, supervisorStages, List.map, firstErr_cons, firstErr_nil, chk_ok, and_true] at h
  obtain ⟨-, hab, -, -, -⟩ := h
  simp only [verifyAccountBlock, firstErr_cons, firstErr_nil, chk_ok, and_true] at hab
  obtain ⟨-, -, -, -, -, -, -, -, hseq⟩ := abAll_ok hab.2.2
  have hcr : c.b.bt = Gen.BlockTypeContractReceive := by
    rcases hv.kind with h | h
    · simp [he] at h
    · exact h.2
  exact sequencer_ok hseq he ((@isSend_isReceive_of_type c.b).2.2.1 hcr).2

/-! ### T3 completeness: validity plus admissibility is accepted; together with T1 an exact characterisation -/

/-- what `ApplyBlock` requires beyond the property's sentence: format, resources and queue position -/
structure Admissible (c : Cand) (f : Facts) : Prop where
  version : c.b.ver = 1
  chain : c.b.cid ≠ 0 ∧ c.b.cid = f.ccid
  link_shape : c.b.h = 1 ↔ c.b.phz = true
  receive_shape : isSend c.b = false →
    (c.b.amt = none ∨ c.b.amt = some 0) ∧ c.b.tsz = true ∧ c.b.toz = true ∧ c.b.fbz = false
  send_shape : isSend c.b = true → c.b.fbz = true ∧ ∀ a, c.b.amt = some a → 0 < a → c.b.tsz = false
  pow : c.b.diff ≠ 0 → c.b.emb = false ∧ f.pow = true
  plasma : c.b.emb = false → ∃ avail base, f.avail = some avail ∧ basePlasma c.b f = some base ∧
    c.b.fp ≤ avail ∧ (Pow.difficultyToPlasma c.b.diff + c.b.fp) % two64 ≤ Gen.MaxPlasmaForAccountBlock ∧
    base ≤ (Pow.difficultyToPlasma c.b.diff + c.b.fp) % two64
  embedded_call : isSend c.b = true → c.b.toemb = true → f.vsend = true
  inbox : c.b.emb = true → f.seq = 1
  packed_link : f.store2 = true

/-- T3 `verify_complete`: a block that is valid in the sense of the property and admissible (well-formed, paid for,
    next in the inbox) is accepted — for all blocks and contexts. With T1: the verifier rejects nothing that the
    property and the admission rules allow. -/
theorem verify_complete (c : Cand) (f : Facts) (hv : ValidBlock c f) (ha : Admissible c f) :
    verifyBlock c f = .ok () := by
  obtain ⟨hkind, ⟨hhz, hhok⟩, husr, hctr, ⟨hstore, hh0, hext⟩, ⟨hmaz, hmaon, hackU, hackC⟩, hamt, hrecv⟩ := hv
  obtain ⟨a1, ⟨a2, a2'⟩, a3, a4, a5, a6, a7, a8, a9, a10⟩ := ha
  have hctx : ∀ st, st = true → getContextWith st c f = .ok () := by
    intro st hst
    simp only [getContextWith, heightChecks, firstErr_append, firstErr_cons, firstErr_nil, chk_ok, and_true, hst, if_true]
    refine ⟨⟨by simpa using hh0, ?_, ?_⟩, hmaz, by simp [hmaon]⟩
    · cases h1 : (c.b.h == 1) with
      | false => simp
      | true => have : c.b.h = 1 := by simpa using h1
                simp [a3.mp this]
    · cases hp : c.b.phz with
      | false => simp
      | true => have := a3.mpr hp; simp [this]
  have hsb : (c.subj f).b = c.b := rfl
  obtain ⟨tUS, tUR, tCR, -⟩ := @isSend_isReceive_of_type c.b
  simp only [verifyBlock, supervisorStages, List.map, firstErr_cons, firstErr_nil, chk_ok, and_true,
    verifyAccountBlock, verifyTransaction, txChecks, getContext, getContext2, hctx _ hstore, hctx _ a10, true_and]
  have hncs : (c.b.bt == Gen.BlockTypeContractSend) = false := by
    rcases hkind with ⟨-, hbt | hbt⟩ | ⟨-, hbt⟩ <;> rw [hbt] <;> decide
  have hver : version (c.subj f) f = .ok () := by
    simp [version, firstErr_cons, firstErr_nil, chk_ok, hsb, a1]
  have hcid : chainIdentifier (c.subj f) f = .ok () := by
    simp only [chainIdentifier, firstErr_cons, firstErr_nil, chk_ok, hsb, and_true]
    exact ⟨by simpa using a2, by simp [a2']⟩
  have htype : blockType (c.subj f) f = .ok () := by
    simp only [blockType, firstErr_cons, firstErr_nil, chk_ok, hsb, and_true]
    rcases hkind with ⟨he, hbt | hbt⟩ | ⟨he, hbt⟩ <;> simp [he, hbt, isSend, isReceive, chk_ok] <;> decide
  have hamounts : amounts (c.subj f) f = .ok () := by
    simp only [amounts, hsb]
    cases hs : isSend c.b with
    | true =>
      obtain ⟨am, ham, ham0, hamlt, -⟩ := hamt hs
      obtain ⟨hfbz, hts⟩ := a5 hs
      simp only [if_true, ham, firstErr_cons, firstErr_nil, chk_ok, and_true, amountTooBig]
      refine ⟨by simpa using ham0, ?_, ?_, by simp [hfbz]⟩
      · have : Gen.AmountMaxBitLen = 255 := rfl
        rw [this]; simp only [decide_eq_false_iff_not]; omega
      · cases hp : decide (am > 0) with
        | false => simp
        | true => have : 0 < am := by simpa using hp
                  simp [hts am ham this]
    | false =>
      obtain ⟨ha, htsz, htoz, hfbz⟩ := a4 hs
      simp only [Bool.false_eq_true, if_false, firstErr_cons, firstErr_nil, chk_ok, and_true]
      refine ⟨?_, by simp [htsz], by simp [htoz], hfbz⟩
      rcases ha with ha | ha <;> simp [ha]
  have hpow : powCheck (c.subj f) f = .ok () := by
    simp only [powCheck, hsb]
    cases hd : (c.b.diff != 0) with
    | false => simp
    | true =>
      have : c.b.diff ≠ 0 := by simpa using hd
      obtain ⟨he, hp⟩ := a6 this
      simp [firstErr_cons, firstErr_nil, chk_ok, he, Cand.subj, hp]
  have hprev : previous (c.subj f) f = .ok () := by
    simp only [previous, heightChecks, firstErr_append, firstErr_cons, firstErr_nil, chk_ok, and_true, hsb]
    refine ⟨⟨by simpa using hh0, ?_, ?_⟩, ?_⟩
    · cases h1 : (c.b.h == 1) with
      | false => simp
      | true => have : c.b.h = 1 := by simpa using h1
                simp [a3.mp this]
    · cases hp : c.b.phz with
      | false => simp
      | true => have := a3.mpr hp; simp [this]
    · cases h1 : (c.b.h == 1) with
      | true => simp
      | false =>
        cases he : c.b.emb with
        | true => simp
        | false =>
          have hn1 : c.b.h ≠ 1 := by simpa using h1
          have := (hext he).2.2 hn1
          simp [firstErr_cons, firstErr_nil, chk_ok, Cand.subj, this]
  have hma : momentumAcknowledged (c.subj f) f = .ok () := by
    simp only [momentumAcknowledged, isBatched, isContractReceive, hsb]
    rcases hkind with ⟨he, hbt⟩ | ⟨he, hbt⟩
    · simp only [he, Bool.and_false, Bool.false_eq_true, if_false]
      cases hz : (c.subj f).prevZeroHH with
      | true => simp
      | false =>
        obtain ⟨p, hp, hle⟩ := hackU he hz
        have : (c.subj f).pmah = some p := hp
        simp [this, chk_ok]; omega
    · obtain ⟨hs, hr⟩ := tCR hbt
      obtain ⟨hconf, hsame⟩ := hackC he
      simp only [he, hs, hr, Bool.and_true, Bool.false_eq_true, if_false, if_true, Cand.subj, Bool.not_true,
        firstErr_cons, firstErr_nil, chk_ok, and_true]
      refine ⟨?_, by simp [hconf]⟩
      simp only [List.any_eq_false, List.mem_map]
      rintro x ⟨d, hd, rfl⟩
      simp [hsame d hd]
  have hfrom : fromHash (c.subj f) f = .ok () := by
    simp only [fromHash, hsb]
    cases hs : isSend c.b with
    | true => simp
    | false =>
      have hr : isReceive c.b = true := by
        rcases hkind with ⟨-, hbt | hbt⟩ | ⟨-, hbt⟩
        · have := (tUS hbt).1; simp [this] at hs
        · exact (tUR hbt).2
        · exact (tCR hbt).2
      obtain ⟨hfex, hrec, hg⟩ := hrecv hr
      simp only [Bool.false_eq_true, if_false, Cand.subj, Bool.not_true, firstErr_cons, firstErr_nil, chk_ok, and_true]
      refine ⟨by simp [hfex], ?_, hrec⟩
      cases hgate : f.gate with
      | false => simp
      | true => simp [hg hgate]
  have hseq : sequencer (c.subj f) f = .ok () := by
    simp only [sequencer, hsb]
    cases he : c.b.emb with
    | false => simp
    | true =>
      cases hr : isReceive c.b with
      | false => simp
      | true => simp [Cand.subj, firstErr_cons, firstErr_nil, chk_ok, a9 he]
  have hall : abAll (c.subj f) f = .ok () := by
    simp only [abAll, allChecks, List.map, firstErr_cons, firstErr_nil, and_true]
    exact ⟨hver, hcid, htype, hamounts, hpow, hprev, hma, hfrom, hseq⟩
  have hplasma : enoughPlasma c.b f = .ok () := by
    simp only [enoughPlasma]
    cases he : c.b.emb with
    | true => simp
    | false =>
      obtain ⟨av, base, hav, hbase, hp1, hp2, hp3⟩ := a7 he
      simp only [Bool.false_eq_true, if_false, hav, hbase, firstErr_cons, firstErr_nil, chk_ok, and_true,
        decide_eq_false_iff_not]
      omega
  have hvm : vmApplyBlock c f = .ok () := by
    simp only [vmApplyBlock, firstErr_cons, firstErr_nil, and_true]
    refine ⟨hplasma, ?_⟩
    rcases hkind with ⟨he, hbt | hbt⟩ | ⟨he, hbt⟩
    · -- user send
      have e1 : (c.b.bt == Gen.BlockTypeUserSend || c.b.bt == Gen.BlockTypeContractSend) = true := by rw [hbt]; decide
      obtain ⟨hs, -⟩ := tUS hbt
      obtain ⟨am, ham, ham0, -, hambal⟩ := hamt hs
      simp only [e1, if_true, applySend, firstErr_cons, firstErr_nil, chk_ok, and_true, insufficientFunds, ham]
      constructor
      · cases hte : c.b.toemb with
        | false => simp
        | true =>
          obtain ⟨av, base, -, hbase, -⟩ := a7 he
          have hr : isReceive c.b = false := (tUS hbt).2
          simp only [basePlasma, hr, hte, Bool.false_eq_true, if_false, Bool.not_true] at hbase
          simp [hbase, chk_ok, a8 hs hte]
      · cases c.b.tsz with
        | true => simp
        | false => simp only [Bool.false_eq_true, if_false, decide_eq_false_iff_not]; omega
    · have e1 : (c.b.bt == Gen.BlockTypeUserSend || c.b.bt == Gen.BlockTypeContractSend) = false := by rw [hbt]; decide
      have e2 : (c.b.bt == Gen.BlockTypeUserReceive) = true := by rw [hbt]; decide
      simp [e1, e2]
    · have e1 : (c.b.bt == Gen.BlockTypeUserSend || c.b.bt == Gen.BlockTypeContractSend) = false := by rw [hbt]; decide
      have e2 : (c.b.bt == Gen.BlockTypeUserReceive) = false := by rw [hbt]; decide
      have e3 : (c.b.bt == Gen.BlockTypeContractReceive) = true := by rw [hbt]; decide
      simp [e1, e2, e3, (hctr he).2.2, firstErr_cons, firstErr_nil, chk_ok]
  have htxh : txHash c f = .ok () := by
    simp [txHash, firstErr_cons, firstErr_nil, chk_ok, hhz, hhok]
  have htxs : txSignature c f = .ok () := by
    simp only [txSignature]
    cases he : c.b.emb with
    | true => simp [firstErr_cons, firstErr_nil, chk_ok, (hctr he).1, (hctr he).2.1]
    | false =>
      obtain ⟨hsig, hpk, hsok, -, -⟩ := husr he
      simp [firstErr_cons, firstErr_nil, chk_ok, hsig, hpk, hsok]
  have htxp : txProducer c f = .ok () := by
    simp only [txProducer]
    cases he : c.b.emb with
    | true => simp
    | false => simp [chk_ok, (husr he).2.2.2.1]
  have htxd : txDescendantBlocks c f = .ok () := by
    simp only [txDescendantBlocks]
    rcases hkind with ⟨he, -⟩ | ⟨he, hbt⟩
    · have : isContractReceive c.b = false := by simp [isContractReceive, he]
      simp [this, (husr he).2.2.2.2, firstErr_cons, firstErr_nil, chk_ok]
    · have : isContractReceive c.b = true := by simp [isContractReceive, he, (tCR hbt).2]
      simp [this]
  exact ⟨hncs, ⟨hncs, hall⟩, hvm, hncs, htxh, htxs, htxp, htxd⟩

/-- everything accepted is admissible -/
theorem admissible_of_accepted (c : Cand) (f : Facts) (h : verifyBlock c f = .ok ()) : Admissible c f := by
  have hv := verify_sound c f h
  simp only [verifyBlock, supervisorStages, List.map, firstErr_cons, firstErr_nil, chk_ok, and_true] at h
  obtain ⟨-, hab, -, hvm, htx⟩ := h
  simp only [verifyAccountBlock, firstErr_cons, firstErr_nil, chk_ok, and_true] at hab
  obtain ⟨-, hctx, hall⟩ := hab
  obtain ⟨hh0, hh1, hhn1, -, -, -⟩ := getContext_ok hctx
  obtain ⟨hver, hcid, -, hamt, hpow, -, -, -, hseq⟩ := abAll_ok hall
  have hsb : (c.subj f).b = c.b := rfl
  obtain ⟨tUS, tUR, tCR, -⟩ := @isSend_isReceive_of_type c.b
  simp only [verifyTransaction, firstErr_cons, firstErr_nil, chk_ok, and_true] at htx
  obtain ⟨-, hctx2, -⟩ := htx
  simp only [vmApplyBlock, firstErr_cons, firstErr_nil, and_true] at hvm
  obtain ⟨hplasma, hvm2⟩ := hvm
  refine ⟨version_ok hver, chainIdentifier_ok hcid, ⟨hh1, ?_⟩, ?_, ?_, ?_, ?_, ?_, ?_, ?_⟩
  · intro hp
    cases Decidable.em (c.b.h = 1) with
    | inl h1 => exact h1
    | inr hn => have := hhn1 hn; simp [hp] at this
  · intro hs; exact amounts_receive_ok hamt (by rw [hsb]; exact hs)
  · intro hs
    obtain ⟨a, ha, -, -, hts, hfbz⟩ := amounts_send_ok hamt (by rw [hsb]; exact hs)
    rw [hsb] at ha hts hfbz
    refine ⟨hfbz, ?_⟩
    intro a' ha' hp
    rw [ha] at ha'; cases ha'; exact hts hp
  · intro hd
    simp only [powCheck, hsb] at hpow
    have : (c.b.diff != 0) = true := by simpa using hd
    simp only [this, if_true, firstErr_cons, firstErr_nil, chk_ok, and_true] at hpow
    exact ⟨hpow.1, by simpa [Cand.subj] using hpow.2⟩
  · intro he
    simp only [enoughPlasma, he, Bool.false_eq_true, if_false] at hplasma
    cases hav : f.avail with
    | none => simp [hav] at hplasma
    | some av =>
      simp only [hav, firstErr_cons, firstErr_nil, chk_ok, and_true, decide_eq_false_iff_not] at hplasma
      obtain ⟨h1, h2, h3⟩ := hplasma
      cases hb : basePlasma c.b f with
      | none => simp [hb] at h3
      | some base =>
        simp only [hb, chk_ok, decide_eq_false_iff_not] at h3
        exact ⟨av, base, rfl, rfl, by omega, by omega, by omega⟩
  · intro hs hte
    have hus : c.b.bt = Gen.BlockTypeUserSend := by
      rcases hv.kind with ⟨-, hbt | hbt⟩ | ⟨-, hbt⟩
      · exact hbt
      · have := (tUR hbt).1; simp [this] at hs
      · have := (tCR hbt).1; simp [this] at hs
    have e1 : (c.b.bt == Gen.BlockTypeUserSend || c.b.bt == Gen.BlockTypeContractSend) = true := by rw [hus]; decide
    simp only [e1, if_true, applySend, hte, firstErr_cons, firstErr_nil, and_true] at hvm2
    have h1 := hvm2.1
    cases hm : f.mplasma with
    | none => simp [hm] at h1
    | some p => simp only [hm, chk_ok] at h1; simpa using h1
  · intro he
    have hcr : c.b.bt = Gen.BlockTypeContractReceive := by
      rcases hv.kind with h | h
      · simp [he] at h
      · exact h.2
    exact sequencer_ok hseq he (tCR hcr).2
  · simp only [getContext2] at hctx2
    have := @getContext_ok c { f with store := f.store2 } (by simpa [getContext, getContextWith] using hctx2)
    exact this.2.2.2.2.2

/-- `verify_exact`: acceptance is exactly validity (the property's sentence) plus admissibility -/
theorem verify_exact (c : Cand) (f : Facts) :
    verifyBlock c f = .ok () ↔ ValidBlock c f ∧ Admissible c f :=
  ⟨fun h => ⟨verify_sound c f h, admissible_of_accepted c f h⟩, fun ⟨hv, ha⟩ => verify_complete c f hv ha⟩

/-! ### `verify_complete_on_honest`: honest blocks in honest contexts are accepted (T1 is not vacuous) -/

/-- the facts of a node at momentum 8 for user account blocks built by `GenerateFromTemplate` -/
def honestFacts : Facts :=
  { ccid := 100, maOn := true, store := true, store2 := true, confh := some 2, prevKnown := true, sfp := 1, pmah := some 5,
    fex := false, ftome := false, recvd := false, gate := true, fconf := 0, seq := 0, pow := true,
    avail := some 10500000, mplasma := none, vsend := false, bal := 1200000000000, hok := true, sok := true,
    pka := true, regen := none }

def honestSend : Cand :=
  { b := { ver := 1, cid := 100, bt := Gen.BlockTypeUserSend, h := 3, phz := false, maz := false, mah := 8,
           emb := false, toz := false, toemb := false, amt := some 263134397, tsz := false, fbz := true,
           diff := 0, fp := 21000, dlen := 0, npk := 32, nsig := 64, hz := false },
    descs := [] }

theorem honest_user_send_accepted : verifyBlock honestSend honestFacts = .ok () := by decide

def honestReceive : Cand :=
  { b := { ver := 1, cid := 100, bt := Gen.BlockTypeUserReceive, h := 3, phz := false, maz := false, mah := 8,
           emb := false, toz := true, toemb := false, amt := some 0, tsz := true, fbz := false,
           diff := 0, fp := 21000, dlen := 0, npk := 32, nsig := 64, hz := false },
    descs := [] }

theorem honest_user_receive_accepted :
    verifyBlock honestReceive { honestFacts with fex := true, ftome := true, fconf := 6, bal := 0 } = .ok () := by decide

/-- a contract receive that refunds the sender by one descendant block, as generated by the node itself -/
def honestContractReceive : Cand :=
  { b := { ver := 1, cid := 100, bt := Gen.BlockTypeContractReceive, h := 4, phz := false, maz := false, mah := 8,
           emb := true, toz := true, toemb := false, amt := some 0, tsz := true, fbz := false,
           diff := 0, fp := 0, dlen := 8, npk := 0, nsig := 0, hz := false },
    descs := [ { blk := { ver := 1, cid := 100, bt := Gen.BlockTypeContractSend, h := 3, phz := false, maz := false,
                          mah := 8, emb := true, toz := false, toemb := false, amt := some 500000000000, tsz := false,
                          fbz := true, diff := 0, fp := 0, dlen := 0, npk := 0, nsig := 0, hz := false },
                 maSame := true, pow := true, sfp := 1, pmah := some 2 } ] }

def honestContractFacts : Facts :=
  { honestFacts with fex := true, ftome := true, fconf := 8, seq := 1, avail := some 0, bal := 0, sok := false,
                     pka := false, regen := some (true, true) }

theorem honest_contract_receive_accepted : verifyBlock honestContractReceive honestContractFacts = .ok () := by decide

/-- and the three honest blocks satisfy the sentence directly (so `ValidBlock` is satisfiable) -/
example : ValidBlock honestSend honestFacts := verify_sound _ _ honest_user_send_accepted
/-- … and the hypotheses of `verify_complete` are satisfiable -/
example : Admissible honestContractReceive honestContractFacts :=
  admissible_of_accepted _ _ honest_contract_receive_accepted

/-! ### boundary of the amount clause -/

/-- 2^255 − 1 is an acceptable amount for the static checks, 2^255 is not (the bound is `BitLen() ≤ 255` as coded) -/
theorem amount_bound_exact :
    amountTooBig (2 ^ 255 - 1) = false ∧ amountTooBig (2 ^ 255) = true ∧ amountTooBig (-(2 ^ 255)) = true := by decide

/-! ### descendant blocks of a delivered contract receive

The parent's hash covers descendant blocks only through their *recorded* hashes, which nobody recomputes. Until fix
48b97c9 a contract receive with altered descendant content (same recorded hashes) was accepted AND stored (finding
F20b, found by this stream's monitor). Now `VM.applyBlock` keeps the regenerated descendant blocks
(`regenerated_descendants_adopted`), and in the decision the delivered descendants matter only through the link they
state (the first one's previous) and through acknowledging the parent's momentum: -/

/-- replacing the delivered descendant blocks of a contract receive by anything that states the same predecessor and
    is equally uniform about the acknowledged momentum does not change verdict or reason -/
theorem delivered_descendant_content_irrelevant (c : Cand) (descs' : List Desc) (f : Facts)
    (hcr : isContractReceive c.b = true)
    (hph : ({ c with descs := descs' } : Cand).prevHeight = c.prevHeight)
    (hpz : ({ c with descs := descs' } : Cand).prevHashZero = c.prevHashZero)
    (hma : (descs'.map (·.maSame)).any (fun same => !same) = (c.descs.map (·.maSame)).any (fun same => !same)) :
    verifyBlock { c with descs := descs' } f = verifyBlock c f := by
  have hsubj : ({ c with descs := descs' } : Cand).subj f =
      { c.subj f with descMaSame := descs'.map (·.maSame) } := by
    simp only [Cand.subj, Cand.prevIsZeroHH, hph, hpz]
  have hall : abAll (({ c with descs := descs' } : Cand).subj f) f = abAll (c.subj f) f := by
    rw [hsubj]
    simp only [abAll, allChecks, List.map, version, chainIdentifier, blockType, amounts, powCheck, previous,
      momentumAcknowledged, fromHash, sequencer, hma, Cand.subj]
  simp only [verifyBlock, supervisorStages, List.map, verifyAccountBlock, verifyTransaction, txChecks, getContext, getContext2, getContextWith,
    vmApplyBlock, txHash, txSignature, txProducer, txDescendantBlocks, hcr, hall, if_true]

/-- both the honest delivery and one with an altered descendant amount are accepted … -/
def alteredContractReceive : Cand :=
  { b := honestContractReceive.b,
    descs := honestContractReceive.descs.map (fun d => { d with blk := { d.blk with amt := some 1 } }) }

theorem altered_descendant_delivery_accepted :
    alteredContractReceive ≠ honestContractReceive ∧
    verifyBlock alteredContractReceive honestContractFacts = .ok () := by
  refine ⟨by decide, by decide⟩

/-- … and what is stored are the regenerated descendants: the tree's `VM.applyBlock` assigns
    `block.DescendantBlocks = generated.DescendantBlocks` in the contract-receive case (AST fact) -/
theorem regenerated_descendants_adopted : Gen.vmAdoptsRegeneratedDescendants = true := by decide

/-! ### ties to the working tree (regenerated facts) -/

/-- the model runs the nine checks in the order of `accountBlockVerifier.all` in the tree -/
theorem check_order_matches : allChecks.map (·.1) = Gen.abVerifierOrder := by decide
/-- … and the four of `accountBlockTransactionVerifier.all` -/
theorem tx_check_order_matches : txChecks.map (·.1) = Gen.abTxVerifierOrder := by decide
/-- `AccountBlock` / `AccountBlockTransaction` first build the context, then run the checks -/
theorem verifier_stages_match :
    Gen.accountBlockStages = ["getContext", "all"] ∧ Gen.accountBlockTransactionStages = ["getContext", "all"] := by decide
/-- `Supervisor.applyBlock`: verify, context, VM, pack (which verifies the transaction) -/
theorem supervisor_stages_match :
    supervisorStages.map (·.1) = Gen.supervisorApplyStages ∧ Gen.supervisorPackStages = ["AccountBlockTransaction"] := by decide
/-- `VM.applyBlock` / `applySend`: plasma before the type switch; method lookup, validation, funds, debit -/
theorem vm_stages_match :
    vmStages = Gen.vmApplyStages ∧
    Gen.vmApplySendStages = ["GetEmbeddedMethod", "ValidateSendBlock", "enoughFunds", "SubBalance"] := by decide
/-- the coded bound is the statement's 2^255 -/
theorem amount_bitlen_is_255 : Gen.AmountMaxBitLen = 255 := by decide
/-- the five block types -/
theorem block_types :
    [Gen.BlockTypeGenesisReceive, Gen.BlockTypeUserSend, Gen.BlockTypeUserReceive, Gen.BlockTypeContractSend,
     Gen.BlockTypeContractReceive] = [1, 2, 3, 4, 5] := by decide

end ZV.C03
