import ZenonVerif.Lemmas.LedgerFifo
import ZenonVerif.Lemmas.LedgerDemo
import ZenonVerif.Props.C01
import ZenonVerif.Gen.DbErr
/-
C04 — each send is received at most once, only by its addressee; contract inboxes are strict FIFO.
Property theorems only (helpers: Lemmas/LedgerFifo.lean; vocabulary: see the header of Props/C01.lean).

  `s.recv`            receive markers (receiving account, hash of the send), newest first
  `receivedBy s c`    hashes received by c, oldest first      `inboxOf s c`  hashes of the confirmed sends addressed to c,
                                                                              in confirmation order
State-level theorems about the current chain; reorganisation / pool replacement / restart (T5) are not modelled here.
-/
namespace ZV.C04
open ZV.Ledger

/-! ## T1 — at most once per account (holds below the enforcement height too) -/

/-- T1: in every reachable state the receive markers are pairwise distinct: no account has received the same send twice. -/
theorem receive_once_per_account (s0 s : State) (hw : WF s0) (hr : Reach s0 s) : s.recv.Nodup :=
  (hr.wf hw).recvNodup

/-- T1, operationally: once a user account has received `h`, every later attempt of the same account to receive `h`
    is refused with `alreadyReceived` (exactly this error: the block exists, the addressee test gives the same answer
    as the first time, the marker is found). -/
theorem second_receive_refused (s s1 s2 : State) (a : Addr) (h : Hash) (hok : urecv s a h = .ok s1)
    (hr : Reach s1 s2) : urecv s2 a h = .error .alreadyReceived :=
  urecv_refused_later hok hr

/-- T1 for contracts: once `c` has received `h`, `h` is never again next in `c`'s inbox, whatever outcome is offered. -/
theorem contract_second_receive_refused (s s1 s2 : State) (c : Addr) (h : Hash) (st : Nat) (ds : List Desc)
    (hok : crecv s c h st ds = .ok s1) (hr : Reach s1 s2) (st' : Nat) (ds' : List Desc) :
    crecv s2 c h st' ds' = .error .notNext := by
  have hstep : step s (.crecv c h st ds) = .ok s1 := hok
  obtain ⟨_, _, ⟨mm, hm⟩⟩ := hr.mono
  apply crecv_refused_of_marker
  rw [hm, (step_frame hstep).2.2]
  exact List.mem_append_right _ (List.mem_cons_self ..)

/-! ## T2, T3 — only the addressee, hence at most once on the whole ledger (above the enforcement height) -/

/-- T2: above the receiver-enforcement height every marker `(a, h)` belongs to the addressee of the send `h`. -/
theorem receive_only_by_addressee (s0 s : State) (hg : s0.gate = true) (hw : WF s0) (hr : Reach s0 s)
    (a : Addr) (h : Hash) (hm : (a, h) ∈ s.recv) : ∃ x, findSend s.sends h = some x ∧ x.dst = a :=
  (hr.wf hw).marker_addressee (hr.gate.trans hg) hm

/-- T3: above the enforcement height every send hash occurs in at most one marker of the whole ledger. -/
theorem receive_once_globally (s0 s : State) (hg : s0.gate = true) (hw : WF s0) (hr : Reach s0 s) :
    (s.recv.map (·.2)).Nodup :=
  (hr.wf hw).recv_hashes_nodup (hr.gate.trans hg)

/-! ## T4 — FIFO -/

/-- T4: for every embedded contract `c` the hashes `c` has received, in order of acceptance, are a prefix of the hashes
    of the sends addressed to `c` in confirmation order — no skip, no repeat. Invariant of every accepted step
    (`crecv` requires `nextInLine`; `urecv` refuses embedded accounts); needs no gate. -/
theorem contract_fifo (s0 s : State) (hw : WF s0) (hf : Fifo s0) (hr : Reach s0 s)
    (c : Addr) (hc : isEmbedded c = true) : receivedBy s c <+: inboxOf s c :=
  (hr.fifo hw hf).2 c hc

/-- T4 in the `take` form of DESIGN §3: the received hashes are exactly the first `front` entries of the queue. -/
theorem contract_fifo_take (s0 s : State) (hw : WF s0) (hf : Fifo s0) (hr : Reach s0 s)
    (c : Addr) (hc : isEmbedded c = true) :
    receivedBy s c = (inboxOf s c).take (receivedBy s c).length :=
  List.prefix_iff_eq_take.1 ((hr.fifo hw hf).2 c hc)

/-- T4 from the empty ledger, in both gate regimes. -/
theorem contract_fifo_from_empty (g : Bool) (s : State) (hr : Reach (State.init g) s)
    (c : Addr) (hc : isEmbedded c = true) : receivedBy s c <+: inboxOf s c :=
  (hr.fifo (wf_init g) (fifo_init g)).2 c hc

/-- T4, one step (the inductive content). -/
theorem contract_fifo_step (s s' : State) (e : Ev) (hw : WF s) (hf : Fifo s) (hok : step s e = .ok s') : Fifo s' :=
  step_fifo hw hf hok

/-! ## N1 — the gate is necessary for T2 / T3 (finding F8) -/

/-- U1(=16) sends 7 ZNN to U2(=17); U3(=18) and then U2 receive it; result: the markers -/
def thirdPartyThenAddressee (gate : Bool) : Except Err (List (Addr × Hash)) := do
  let s0 : State := { State.init gate with bal := [((16, znnTok), 10)], toks := [(znnTok, ⟨10, 100, true, true, 1⟩)] }
  let s1 ← usend s0 16 17 znnTok 7 0 TokCall.none
  let s2 ← urecv s1 18 0
  let s3 ← urecv s2 17 0
  pure s3.recv

/-- N1: below the enforcement height the same send ends up with two markers, one of them of a non-addressee. -/
theorem pre_gate_two_receivers : thirdPartyThenAddressee false = .ok [(17, 0), (18, 0)] := by rfl

/-- N1 as in C01: the balances then sum to 17 against a recorded supply of 10. -/
theorem pre_gate_double_receive : C01.doubleReceive false = .ok 17 := C01.pre_gate_double_receive

/-- with the gate on, the third-party receive is refused -/
theorem post_gate_third_party_refused : thirdPartyThenAddressee true = .error Err.receiverMismatch := by rfl

/-! ## database read errors of the account store and the inbox (regenerated AST fact)

The at-most-once clause rests on two stored facts being READ correctly: the received mark of a send (account key 6|hash,
`IsReceived`) and the position counters of a contract's inbox (account key 7 `sequencerFrontIndex`, mailbox key 7
`SequencerSize`). A read that fails for another reason than "no such key" must not be answered like an absent key
("not received yet", "position 0"): the same send would be received again. `zvh facts` lists every database read of
chain/account and chain/account/mailbox with the shape of its error handling (harness/cmd/zvh/f_dberr.go explains the
tokens); the list below is the reviewed one. -/

/-- Reviewed: no read error in chain/account or chain/account/mailbox is discarded or answered like an absent key,
    except `leveldb.ErrNotFound` itself:
    * `GetBalance`, `GetChainPlasma`, `parseAccountBlock` (Frontier / ByHash / ByHeight): ErrNotFound is "zero / no
      block", every other error is returned to the caller; `MoreByHeight`, `AddChainPlasma` return the error of the
      getter they call; `Identifier` hands it to `common.DealWithErr` (panic);
    * `IsReceived`: ErrNotFound is "not received", every other error goes to `common.DealWithErr` (panic: the block
      under verification is refused by the supervisor);
    * `parseAccountHeader` (GetBlockWhichReceives, SequencerByHeight): ErrNotFound is "no header", every other error
      panics;
    * `sequencerFrontIndex` and `mailbox.SequencerSize` compare with ErrNotFound ONLY and otherwise decode the data
      with `common.BytesToUint64` without looking at the error: on a failed read the data is nil and the decoding
      panics (index out of range), so the answer is still not "0" - fail-closed, though by accident rather than by an
      explicit check (listed as it is);
    * the two iterators (`GetBalanceMap`, `GetUnreceivedAccountBlockHashes`) test `iterator.Error()` when `Next()`
      gives false and return it;
    * `db.GetFrontierIdentifier` has no error result (common/db panics inside), `db.DisableNotFound` (contract storage
      view: ErrNotFound becomes an empty value there by design) is returned as a view, not read here. -/
def reviewedAccountDbReadSites : List (String × String × String × List String) := [
  ("chain/account/account_block.go:parseAccountBlock:param", "data []byte, err error", "err", ["if(err == leveldb.ErrNotFound){", "return nil, nil", "}", "if(err != nil){", "return nil, err", "}", "use:nom.DeserializeAccountBlock"]),
  ("chain/account/account_block.go:accountStore.Frontier:db.GetEntryByHeight", "", "<arg:parseAccountBlock>", []),
  ("chain/account/account_block.go:accountStore.Frontier:db.GetFrontierIdentifier", "", "<expr>", []),
  ("chain/account/account_block.go:accountStore.ByHash:db.GetEntryByHash", "", "<arg:parseAccountBlock>", []),
  ("chain/account/account_block.go:accountStore.ByHeight:db.GetEntryByHeight", "", "<arg:parseAccountBlock>", []),
  ("chain/account/account_block.go:accountStore.MoreByHeight:as.ByHeight", "block, err :=", "err", ["if(err != nil){", "return nil, err", "}", "use:append"]),
  ("chain/account/balance.go:accountStore.GetBalance:as.DB.Get", "data, err :=", "err", ["if(err == leveldb.ErrNotFound){", "return big.NewInt(0), nil", "}", "if(err != nil){", "return nil, err", "}", "return big.NewInt(0).SetBytes(data), nil"]),
  ("chain/account/balance.go:accountStore.GetBalanceMap:as.DB.NewIterator", "iterator :=", "", ["use:iterator.Release", "if(!iterator.Next()){", "if(iterator.Error() != nil){", "return nil, iterator.Error()", "}", "break", "}", "if(iterator.Value() == nil){", "continue", "}", "use:iterator.Key", "use:iterator.Value"]),
  ("chain/account/plasma.go:accountStore.GetChainPlasma:as.DB.Get", "data, err :=", "err", ["if(err == leveldb.ErrNotFound){", "return big.NewInt(0), nil", "}", "if(err != nil){", "return nil, err", "}", "return big.NewInt(0).SetBytes(data), nil"]),
  ("chain/account/plasma.go:accountStore.AddChainPlasma:as.GetChainPlasma", "plasma, err :=", "err", ["if(err != nil){", "return err", "}", "use:plasma.Add", "use:common.BigIntToBytes"]),
  ("chain/account/received.go:accountStore.IsReceived:as.DB.Get", "_, err :=", "err", ["if(err == leveldb.ErrNotFound){", "return false", "}", "use:common.DealWithErr"]),
  ("chain/account/sequencer.go:accountStore.sequencerFrontIndex:as.DB.Get", "data, err :=", "err", ["if(err == leveldb.ErrNotFound){", "return 0", "}", "return common.BytesToUint64(data)"]),
  ("chain/account/store.go:accountStore.Storage:db.DisableNotFound", "", "<returned>", []),
  ("chain/account/store.go:accountStore.Identifier:as.Frontier", "frontier, err :=", "err", ["use:common.DealWithErr", "if(frontier == nil){", "return types.ZeroHashHeight", "}", "return frontier.Identifier()"]),
  ("chain/account/mailbox/mailbox.go:parseAccountHeader:param", "data []byte, err error", "err", ["if(err == leveldb.ErrNotFound){", "return nil", "}", "if(err != nil){", "use:panic", "return nil", "}", "use:types.DeserializeAccountHeader"]),
  ("chain/account/mailbox/mailbox.go:mailbox.GetBlockWhichReceives:m.DB.Get", "", "<arg:parseAccountHeader>", []),
  ("chain/account/mailbox/mailbox.go:mailbox.GetUnreceivedAccountBlockHashes:m.DB.NewIterator", "iterator :=", "", ["use:iterator.Release", "if(!iterator.Next()){", "if(iterator.Error() != nil){", "return nil, iterator.Error()", "}", "break", "}", "if(iterator.Value() == nil){", "continue", "}", "use:iterator.Key"]),
  ("chain/account/mailbox/mailbox.go:mailbox.SequencerSize:m.DB.Get", "data, err :=", "err", ["if(err == leveldb.ErrNotFound){", "return 0", "}", "return common.BytesToUint64(data)"]),
  ("chain/account/mailbox/mailbox.go:mailbox.SequencerByHeight:m.DB.Get", "", "<arg:parseAccountHeader>", [])
]

set_option maxRecDepth 100000 in
/-- generated fact: the database reads of chain/account and chain/account/mailbox and the handling of their errors are
    exactly the reviewed ones (regenerated from the AST on every run: a read added, removed, re-bound or handled in
    another shape changes the list) -/
theorem account_store_read_errors_reviewed : Gen.accountDbReadSites = reviewedAccountDbReadSites := by decide

set_option maxRecDepth 100000 in
/-- independent of the reviewed list: no read site binds its error result to the blank identifier, drops the results
    in a call statement, or binds them in a shape the scan cannot attribute ("?") -/
theorem account_store_no_read_error_discarded :
    ∀ x ∈ Gen.accountDbReadSites, x.2.2.1 ≠ "_" ∧ x.2.2.1 ≠ "<dropped>" ∧ x.2.2.1 ≠ "?" := by decide

set_option maxRecDepth 100000 in
/-- the fact list really contains the three reads the clause rests on -/
theorem account_store_read_sites_cover : ∀ n ∈ ["chain/account/received.go:accountStore.IsReceived:as.DB.Get",
    "chain/account/sequencer.go:accountStore.sequencerFrontIndex:as.DB.Get",
    "chain/account/mailbox/mailbox.go:mailbox.SequencerSize:m.DB.Get"],
    n ∈ Gen.accountDbReadSites.map (·.1) := by decide

/-! ## non-vacuity -/

example : Reach (State.init true) demoFinal := reach_of_runAdm demoEvents _ _ (by rfl)

/-- in the demo state the token contract has received its whole queue and contract 3 the first of its three entries -/
example : receivedBy demoFinal tokenContract = [100, 103, 107] ∧ inboxOf demoFinal tokenContract = [100, 103, 107] ∧
    receivedBy demoFinal 3 = [105] ∧ inboxOf demoFinal 3 = [105, 108, 109] := by decide

example : (demoFinal.recv.map (·.2)).Nodup := by decide

/-- the second receive attempt of the demo's user 17 is refused -/
example : urecv demoFinal 17 102 = .error .alreadyReceived := by rfl

/-- contract 3 cannot skip its queue: 109 is refused while 108 is next -/
example : crecv demoFinal 3 109 1 [] = .error .notNext ∧ (nextInLine demoFinal 3).map (·.hash) = some 108 := by
  constructor <;> rfl

end ZV.C04
