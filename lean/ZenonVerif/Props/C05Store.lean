import ZenonVerif.Lemmas.ConsensusStore
import ZenonVerif.Gen.Consensus
/-
C05 / C11 — the consensus store: what a node persists of its elections (C05 "… from its cache, after a restart …")
and of its period / epoch statistics (C11 "… a function of the chain alone, so every node computes the same ones")
is read back unchanged — by the storing instance from its LRU, after the entry was evicted, and by a restarted node.
Model: `Model/ConsensusStore.lean` (values, proto3 codec on top of the wire model of `Model/CodecPB.lean`, key-value
map under the real keys with the LRUs in front). Property theorems only; lemmas in `Lemmas/ConsensusStore.lean`.
The driver (`Driver/ConsensusStore.lean`) evaluates exactly these definitions on the real bytes, values and keys
(`cs-*` lines of the election and rewards-pure streams).

Canonical / not canonical: `marshalED` is a function of the value (slices, written in order) and the real bytes are
compared byte for byte. `marshalPoint` depends on the order in which Go iterates `Point.Pillars` (a map): the byte
string of a point is NOT canonical (`point_bytes_not_canonical`), the decoded value is (`point_value_canonical`);
nothing but `db.Put` receives those bytes (`marshal_bytes_only_stored`).
-/
namespace ZV.C05Store
open ZV ZV.Codec ZV.CStore

/-! ## (a), (b) codec round trips -/

/-- (a) `election_roundtrip`: `Unmarshal(Marshal(e)) = e` for every election result with 20-byte addresses, ASCII
    names and an encoding that fits a Go slice — any number of producers (equal or different), any number of
    delegations, weight 0 (EMPTY weight bytes, field omitted) included. -/
theorem election_roundtrip (e : ElectionData) (w : e.WF) : unmarshalED (marshalED e) = some e :=
  unmarshalED_marshalED e w

/-- (b) `point_roundtrip`: `Unmarshal(Marshal(p)) = p` for every point with 32-byte hashes, `uint32` counters and
    pairwise different ASCII names — empty maps, pillars with weight 0, counters 0 (omitted fields) included -/
theorem point_roundtrip (p : Point) (w : p.WF) : unmarshalPoint (marshalPoint p) = some p :=
  unmarshalPoint_marshalPoint p w

/-- the weight bytes are `big.Int.Bytes()`: EMPTY for 0, and read back as 0 -/
theorem zero_weight_is_empty_bytes : weightBytes 0 = [] ∧ weightOf [] = 0 ∧ ∀ w, weightOf (weightBytes w) = w :=
  ⟨by decide, by decide, weightOf_weightBytes⟩

/-- a schedule of three slots with two DIFFERENT producers, a delegation with weight 0 and an empty name -/
def exampleED : ElectionData :=
  { producers := [List.replicate 20 1, List.replicate 20 2, List.replicate 20 1],
    delegations := [⟨[80, 49], List.replicate 20 1, 300⟩, ⟨[80, 50], List.replicate 20 2, 0⟩, ⟨[], List.replicate 20 3, 1⟩] }

theorem exampleED_wf : exampleED.WF := by decide +kernel

theorem exampleED_roundtrip : unmarshalED (marshalED exampleED) = some exampleED :=
  election_roundtrip _ exampleED_wf

/-- a point with a zero-weight pillar, a pillar that produced nothing, counters at the `uint32` maximum -/
def examplePoint : Point :=
  { prevHash := List.replicate 32 0, endHash := List.replicate 32 7, totalWeight := 65536,
    pillars := [([80, 50], ⟨14, 14, 0⟩), ([80, 49], ⟨4294967295, 0, 65536⟩)] }

theorem examplePoint_wf : examplePoint.WF := by decide +kernel

/-- the empty point of `NewEmptyPoint` (no pillars, total weight 0: only the two hashes are written) -/
theorem empty_point_roundtrip (h : Bytes) (hh : h.length = Gen.HashSize) :
    unmarshalPoint (marshalPoint ⟨h, h, [], 0⟩) = some ⟨h, h, [], 0⟩ := by
  apply point_roundtrip
  refine ⟨hh, hh, by intro e he; simp at he, by simp [namesOf], ?_⟩
  have e : marshalPoint ⟨h, h, [], 0⟩ = encFields (fBytes 1 h ++ fBytes 2 h) := by
    simp [marshalPoint, pointFields, pillarRecs, weightBytes, natBytesBE, natBytesLEAux, fBytes]
  have hne : h.isEmpty = false := by
    cases h with
    | nil => exact absurd hh (by decide)
    | cons _ _ => rfl
  have h32 : Gen.HashSize = 32 := rfl
  rw [e]
  simp [fBytes, hne, encFields, encField, tag, hh, h32, varint, varintAux, two64]

/-! ## (f) the bytes of a point are not canonical, its value is -/

/-- `point_value_canonical`: two iteration orders of one map (permutations of one another) decode to the same value
    (entries sorted by name) — decode∘encode does not depend on the order in which Marshal ranged over the map -/
theorem point_value_canonical (p q : Point) (wp : p.WF) (wq : q.WF) (h1 : p.prevHash = q.prevHash)
    (h2 : p.endHash = q.endHash) (h3 : p.totalWeight = q.totalWeight) (hperm : p.pillars.Perm q.pillars) :
    (unmarshalPoint (marshalPoint p)).map Point.canon = (unmarshalPoint (marshalPoint q)).map Point.canon := by
  rw [point_roundtrip p wp, point_roundtrip q wq]
  simp only [Option.map_some, Option.some.injEq, Point.canon, h1, h2, h3]
  rw [sortPillars_eq_of_perm _ _ hperm wq.2.2.2.1]

/-- the canonical form is a permutation of the entries, sorted by name -/
theorem canon_sorted (p : Point) :
    p.canon.pillars.Perm p.pillars ∧ p.canon.pillars.Pairwise (fun a b => a.1 ≤ b.1) := by
  refine ⟨perm_sortPillars _, ?_⟩
  have := sorted_sortPillars p.pillars
  simpa [nameLe, Point.canon] using this

/-- `point_bytes_not_canonical`: one value, two byte strings (both decode to it) — which is why the stream compares
    VALUES for points, and why these bytes must never be hashed or compared -/
theorem point_bytes_not_canonical :
    ∃ p q : Point, p.WF ∧ q.WF ∧ p.canon = q.canon ∧ marshalPoint p ≠ marshalPoint q ∧
      (unmarshalPoint (marshalPoint p)).map Point.canon = (unmarshalPoint (marshalPoint q)).map Point.canon := by
  refine ⟨examplePoint, { examplePoint with pillars := examplePoint.pillars.reverse }, examplePoint_wf,
    by decide +kernel, by decide +kernel, by decide +kernel, by decide +kernel⟩

/-- the marshalled bytes of both types reach `db.Put` and nothing else: the only zero-argument `.Marshal()` calls of
    the tree are in the two Store functions of db.go, and the only use of their results is the `Put` -/
theorem marshal_bytes_only_stored :
    Gen.csMarshalCallers = reviewed_marshalCallers ∧ Gen.csMarshalResultUses = reviewed_marshalResultUses ∧
    Gen.csPointMarshalRangesOverMap = true ∧ Gen.csPointMarshalRanges = ["p.Pillars"] ∧
    Gen.csElectionMarshalRanges = ["d.Delegations", "d.Producers"] ∧
    Gen.csElectionDataFields = [("Producers", "[]types.Address"), ("Delegations", "[]*types.PillarDelegation")] := by
  decide

/-! ## (d) keys -/

/-- different heights / point tables give different keys (heights are `uint64`) -/
theorem point_key_injective (i1 i2 t1 t2 : Nat) (b1 : t1 < two64) (b2 : t2 < two64)
    (h : pointKey i1 t1 = pointKey i2 t2) : i1 = i2 ∧ t1 = t2 :=
  pointKey_inj b1 b2 h

theorem election_key_injective (h1 h2 : Bytes) (h : electionKey h1 = electionKey h2) : h1 = h2 :=
  electionKey_inj h

/-- `keys_disjoint`: a point key is never an election key — with the prefix bytes of the tree: 0 and 1 for the
    two point tables (the only ones: `NumPointTypes` = 2), 10 for election results; the key lengths differ too -/
theorem keys_disjoint (i t : Nat) (h : Bytes) (hi : i < Gen.csNumPointTypes) : pointKey i t ≠ electionKey h :=
  pointKey_ne_electionKey hi

theorem key_prefixes :
    Gen.csPrefixPeriodPoint = 0 ∧ Gen.csPrefixEpochPoint = 1 ∧ Gen.csNumPointTypes = 2 ∧
    Gen.csPrefixElectionResult = 10 ∧ Gen.csPrefixPeriodPoint < Gen.csNumPointTypes ∧
    Gen.csPrefixEpochPoint < Gen.csNumPointTypes ∧ ¬ Gen.csPrefixElectionResult < Gen.csNumPointTypes ∧
    Gen.csPrefixPeriodPoint ≠ Gen.csPrefixEpochPoint := by
  decide

theorem key_lengths (i t : Nat) (h : Bytes) (hh : h.length = Gen.HashSize) :
    (pointKey i t).length = Gen.csPointKeyLen ∧ (electionKey h).length = Gen.csElectionKeyLen := by
  refine ⟨by simp [pointKey, u64_length]; rfl, ?_⟩
  simp only [electionKey, List.length_cons, hh]; rfl

/-- the key constructors of the tree are the ones the model was written against -/
theorem key_sources_current :
    Gen.src_CreatePointKey = reviewed_CreatePointKey ∧
    Gen.src_CreateElectionResultKey = reviewed_CreateElectionResultKey :=
  ⟨rfl, rfl⟩

/-! ## (c) the database: LRU in front of the backing map -/

/-- hit: the storing instance answers the stored value from its cache (any value; the cache holds at least one
    entry — `lru.New` refuses size 0) -/
theorem store_get_hit (s : Store) (h : Bytes) (e : ElectionData) (hc : 0 < s.elect.cap) :
    ∃ s', getElection (storeElection s h e) h = some (s', some e) := by
  obtain ⟨c', hg⟩ := Lru.get?_add_self s.elect h e hc
  exact ⟨{ storeElection s h e with elect := c' }, by simp [getElection, storeElection, hg]⟩

/-- `cache_transparent`: in a coherent store a get answers what a node WITHOUT cache would decode from the backing
    bytes — a hit, a miss after eviction and a miss after a restart cannot be told apart -/
theorem cache_transparent (s : Store) (hs : s.Coherent) (h : Bytes) :
    (getElection s h).map (·.2) = answerED s.kv h :=
  (getElection_spec s hs h).1

theorem cache_transparent_point (s : Store) (hs : s.Coherent) (i t : Nat) (hi : i < Gen.csNumPointTypes)
    (ht : t < two64) : (getPoint s i t).map (·.2) = answerPoint s.kv i t :=
  (getPoint_spec s hs i t hi ht).1

/-- `restart_same_answer`: the running instance (whatever its cache holds) and a restarted one (caches empty) give
    the same answer to every election query, and to every point query -/
theorem restart_same_answer (s : Store) (hs : s.Coherent) (h : Bytes) :
    (getElection s h).map (·.2) = (getElection s.reopen h).map (·.2) := by
  rw [cache_transparent s hs h, cache_transparent s.reopen (coherent_reopen s hs) h]
  rfl

theorem restart_same_answer_point (s : Store) (hs : s.Coherent) (i t : Nat) (hi : i < Gen.csNumPointTypes)
    (ht : t < two64) : (getPoint s i t).map (·.2) = (getPoint s.reopen i t).map (·.2) := by
  rw [cache_transparent_point s hs i t hi ht, cache_transparent_point s.reopen (coherent_reopen s hs) i t hi ht]
  rfl

/-- the invariant holds in a freshly opened store, over ANY backing map, and after every sequence of operations
    with well-formed arguments (stores, gets, deletes, restarts) -/
theorem reachable_coherent (kv : KV) (ecap pcap : Nat) (ops : List Op) (w : ∀ op ∈ ops, op.WF) (s : Store)
    (h : run (Store.openOn kv ecap pcap) ops = some s) : s.Coherent :=
  coherent_run ops _ (coherent_openOn kv ecap pcap) w s h

/-- `store_get` (elections): after `StoreElectionResultByHash(h, e)` and ANY further well-formed operations that do
    not store under `h` again — other elections and points stored (evicting the entry), gets, deletes, restarts —
    `GetElectionResultByHash(h)` answers `e` -/
theorem store_get (s : Store) (hs : s.Coherent) (h : Bytes) (e : ElectionData) (we : e.WF) (ops : List Op)
    (w : ∀ op ∈ ops, op.WF) (hk : ∀ op ∈ ops, op.writes ≠ some (electionKey h)) (s' : Store)
    (hr : run (storeElection s h e) ops = some s') : (getElection s' h).map (·.2) = some (some e) := by
  have h0 := coherent_storeElection s hs h e we
  have h1 := coherent_run ops _ h0 w s' hr
  rw [cache_transparent s' h1 h]
  have := run_frame ops _ h0 w (electionKey h) hk s' hr
  simp [answerED, this, storeElection, kvGet_put, election_roundtrip e we]

/-- `store_get` (points): the same for `StorePointByHeight(prefix, height, p)` … `GetPointByHeight` -/
theorem store_get_point (s s0 : Store) (hs : s.Coherent) (i t : Nat) (p : Point) (hi : i < Gen.csNumPointTypes)
    (ht : t < two64) (wp : p.WF) (h0 : storePoint s i t p = some s0) (ops : List Op) (w : ∀ op ∈ ops, op.WF)
    (hk : ∀ op ∈ ops, op.writes ≠ some (pointKey i t)) (s' : Store) (hr : run s0 ops = some s') :
    (getPoint s' i t).map (·.2) = some (some p) := by
  have c0 := coherent_storePoint s hs i t p ht wp s0 h0
  have c1 := coherent_run ops _ c0 w s' hr
  rw [cache_transparent_point s' c1 i t hi ht]
  have hf := run_frame ops _ c0 w (pointKey i t) hk s' hr
  have hkv : kvGet s0.kv (pointKey i t) = some (marshalPoint p) := by
    unfold storePoint at h0
    cases hc : s.points[i]? with
    | none => simp [hc] at h0
    | some c =>
      simp only [hc, Option.some.injEq] at h0
      subst h0
      simp [kvGet_put]
  simp [answerPoint, hf, hkv, point_roundtrip p wp]

/-- a deleted point is gone for every instance -/
theorem delete_get_point (s s0 : Store) (hs : s.Coherent) (i t : Nat) (hi : i < Gen.csNumPointTypes)
    (ht : t < two64) (h0 : deletePoint s i t = some s0) : (getPoint s0 i t).map (·.2) = some none := by
  have c0 := coherent_deletePoint s hs i t ht s0 h0
  rw [cache_transparent_point s0 c0 i t hi ht]
  unfold deletePoint at h0
  cases hc : s.points[i]? with
  | none => simp [hc] at h0
  | some c =>
    simp only [hc, Option.some.injEq] at h0
    subst h0
    simp [answerPoint, kvGet_del_eq]

/-- the LRU sizes of a node: `NewConsensus` passes one expression for both caches; its value for the live
    constants (a week of ticks) -/
theorem cache_size :
    Gen.csCacheSizeExpr = reviewed_cacheSizeExpr ∧ Gen.csNewConsensusDBArgs = ["db", "int(cacheSize)", "int(cacheSize)"] ∧
    Gen.csCacheSize = 7 * 24 * 60 * 60 / (Gen.BlockTime * Gen.NodeCount) ∧ Gen.csCacheSize = 2016 ∧ 0 < Gen.csCacheSize := by
  decide

/-! ## schema -/

/-- `store_schema_match`: the records the model's encoders emit for messages with every field set carry exactly the
    field numbers and wire kinds of the protobuf descriptors of the generated Go types, in order (proto3) -/
theorem store_schema_match :
    usedWire3 (electionFields probeED) = Gen.csElectionDataSchema.map descWire ∧
    usedWire3 (delegationFields probeDelegation) = Gen.csPillarDelegationSchema.map descWire ∧
    usedWire3 (pointFields probePoint) = Gen.csConsensusPointSchema.map descWire ∧
    usedWire3 (detailFields [97] probeDetail) = Gen.csProducerDetailSchema.map descWire ∧
    Gen.csProtoSyntax = ["proto3", "proto3"] ∧
    (Gen.csElectionDataSchema.map (fun e => e.2.2.2)) = ["repeated", "repeated"] ∧
    (Gen.csConsensusPointSchema.map (fun e => e.2.2.2)) = ["singular", "singular", "singular", "repeated"] ∧
    (Gen.csPillarDelegationSchema.map (fun e => e.2.2.2)) = ["singular", "singular", "singular"] ∧
    (Gen.csProducerDetailSchema.map (fun e => e.2.2.2)) = ["singular", "singular", "singular", "singular"] := by
  decide

/-- the hand-written Marshal / Unmarshal methods assign the fields the model was written against, and the Go types
    behind the model's value types are the reviewed ones (counters `uint32`, weights `*big.Int`, pillars a map) -/
theorem store_assignments_current :
    Gen.csDelegationProtoAssign = reviewed_delegationProtoAssign ∧
    Gen.csDelegationAssign = reviewed_delegationAssign ∧
    Gen.csProducerDetailAssign = reviewed_producerDetailAssign ∧
    Gen.csProducerDetailFields = [("ExpectedNum", "uint32"), ("FactualNum", "uint32"), ("Weight", "*big.Int")] ∧
    Gen.csPointFields = [("PrevHash", "types.Hash"), ("EndHash", "types.Hash"),
      ("Pillars", "map[string]*ProducerDetail"), ("TotalWeight", "*big.Int")] := by
  decide

/-! ## (e) negative witnesses: the two seeded variants -/

/-- seeded/C05-r2-1 (every persisted producer record aliases one array = carries the LAST producer): such a Marshal
    is not injective on schedules with two different producers, and the real Unmarshal cannot give the schedule back -/
theorem aliased_marshal_loses_schedule :
    ∃ e1 e2 : ElectionData, e1.WF ∧ e2.WF ∧ e1 ≠ e2 ∧ marshalEDAliased e1 = marshalEDAliased e2 ∧
      unmarshalED (marshalEDAliased e1) ≠ some e1 ∧
      unmarshalED (marshalEDAliased e1) = some { e1 with producers := e1.producers.map (fun _ => List.replicate 20 2) } := by
  refine ⟨⟨[List.replicate 20 1, List.replicate 20 2], []⟩, ⟨[List.replicate 20 2, List.replicate 20 2], []⟩,
    by decide +kernel, by decide +kernel, by decide +kernel, by decide +kernel, by decide +kernel, by decide +kernel⟩

/-- … while it is the identity on schedules with a single producer (why every test with one pillar passes) -/
theorem aliased_marshal_agrees_on_one_producer (a : Bytes) (n : Nat) (ds : List Delegation) :
    marshalEDAliased ⟨List.replicate (n + 1) a, ds⟩ = marshalED ⟨List.replicate (n + 1) a, ds⟩ := by
  have : (List.replicate (n + 1) a).getLast?.getD [] = a := by
    rw [List.getLast?_replicate]; simp
  simp [marshalEDAliased, marshalED, electionFields, this]

/-- seeded/C11-r2-2 (Unmarshal skips content entries with an empty name or EMPTY weight bytes): a pillar with
    weight 0 — whose weight bytes are empty by `big.Int.Bytes()` — vanishes from the point a restarted node reads -/
theorem skipping_unmarshal_loses_zero_weight_pillar :
    examplePoint.WF ∧ unmarshalPointSkipping (marshalPoint examplePoint) ≠ some examplePoint ∧
    unmarshalPointSkipping (marshalPoint examplePoint) =
      some { examplePoint with pillars := [([80, 49], ⟨4294967295, 0, 65536⟩)] } ∧
    unmarshalPoint (marshalPoint examplePoint) = some examplePoint := by
  refine ⟨examplePoint_wf, by decide +kernel, by decide +kernel, point_roundtrip _ examplePoint_wf⟩

end ZV.C05Store
