import ZenonVerif.Model.Crash
/-
C08 — committing or rolling back a momentum is atomic across a crash. Property theorems only.
-/
namespace ZV.C08
open ZV ZV.Kv ZV.Versioned ZV.Crash

theorem foldl_front (p : Patch) (s : Ldb) :
    (frontWrites p).foldl applyW s = { s with frontier := edApply s.frontier p } := by
  induction p generalizing s with
  | nil => rfl
  | cons o t ih =>
    simp only [frontWrites, List.map_cons, List.foldl_cons, edApply] at ih ⊢
    rw [ih]
    cases o <;> rfl

/-- the single batch of a commit takes the disk exactly to the state the manager model reaches -/
theorem add_plan_effect (s s' : Ldb) (prev id : Id) (ops : Patch)
    (hp : prev = s.frontierId) (h : s.add prev id ops = some s') :
    ∃ b, planAdd s prev id ops = [b] ∧ applyBatch s b = s' := by
  subst hp
  unfold Ldb.add at h
  unfold planAdd
  cases hv : s.get s.frontierId with
  | none => simp [hv] at h
  | some view =>
    simp only [hv, if_true] at h ⊢
    refine ⟨_, rfl, ?_⟩
    simp only [applyBatch, List.foldl_cons, applyW, putH]
    rw [foldl_front]
    cases h
    rfl

/-- the single batch of a rollback takes the disk exactly to the state the manager model reaches -/
theorem pop_plan_effect (s s' : Ldb) (h : s.pop = some s') :
    ∃ b, planPop s = [b] ∧ applyBatch s b = s' := by
  unfold Ldb.pop at h
  unfold planPop
  cases hr : lookupH s.rollbacks s.frontierId.height with
  | none => simp [hr] at h
  | some rb =>
    simp only [hr] at h ⊢
    refine ⟨_, rfl, ?_⟩
    simp only [applyBatch, List.foldl_append, List.foldl_cons, List.foldl_nil, applyW, putH]
    rw [foldl_front]
    cases h
    rfl

/-- T1 `crash_atomic`: whatever number k of the operation's leveldb writes completed before the process died,
    the disk is exactly the state before or exactly the state after the commit. -/
theorem crash_atomic_add (s s' : Ldb) (prev id : Id) (ops : Patch)
    (hp : prev = s.frontierId) (h : s.add prev id ops = some s') (k : Nat) :
    afterWrites s (planAdd s prev id ops) k = s ∨ afterWrites s (planAdd s prev id ops) k = s' := by
  obtain ⟨b, hb, he⟩ := add_plan_effect s s' prev id ops hp h
  rw [hb]
  cases k with
  | zero => left; rfl
  | succ n => right; simp [afterWrites, he]

theorem crash_atomic_pop (s s' : Ldb) (h : s.pop = some s') (k : Nat) :
    afterWrites s (planPop s) k = s ∨ afterWrites s (planPop s) k = s' := by
  obtain ⟨b, hb, he⟩ := pop_plan_effect s s' h
  rw [hb]
  cases k with
  | zero => left; rfl
  | succ n => right; simp [afterWrites, he]

/-- a commit on a stale parent issues no write at all -/
theorem stale_add_writes_nothing (s : Ldb) (prev id : Id) (ops : Patch) (hp : prev ≠ s.frontierId) :
    planAdd s prev id ops = [] := by
  unfold planAdd
  cases s.get prev <;> simp [hp]

/-- T2 `redeliver_after_crash`: both admissible crash states are ordinary manager states, so continuing from them
    is continuing a crash-free run: from the before-state the same commit reaches the after-state. -/
theorem redeliver_after_crash (s s' : Ldb) (prev id : Id) (ops : Patch)
    (hp : prev = s.frontierId) (h : s.add prev id ops = some s') (k : Nat)
    (hk : afterWrites s (planAdd s prev id ops) k ≠ s') :
    (afterWrites s (planAdd s prev id ops) k).add prev id ops = some s' := by
  rcases crash_atomic_add s s' prev id ops hp h k with h1 | h1
  · rw [h1]; exact h
  · exact absurd h1 hk

/-- scenario for the negative witness: a commit touching two keys on the empty store -/
def twoKey : Ldb × Patch := (Ldb.empty, [Op.put [3] [1], Op.put [4] [2]])

/-- N1 (negative witness, finding F6): if every write of the plan is its own leveldb call — as the code did before
    the fix — a process death after the third write leaves a disk that is neither the state before nor after. -/
def twoKeyPlan : List Batch := splitPlan (planAdd twoKey.1 Id.zero ⟨1, [9]⟩ twoKey.2)

theorem split_plan_not_atomic :
    afterWrites twoKey.1 twoKeyPlan 3 ≠ twoKey.1 ∧
    some (afterWrites twoKey.1 twoKeyPlan 3) ≠ twoKey.1.add Id.zero ⟨1, [9]⟩ twoKey.2 ∧
    some (afterWrites twoKey.1 twoKeyPlan twoKeyPlan.length) = twoKey.1.add Id.zero ⟨1, [9]⟩ twoKey.2 := by
  decide

example : (Ldb.empty.add Id.zero ⟨1, [9]⟩ [Op.put [3] [1]]).isSome = true := by decide

end ZV.C08
