import ZenonVerif.Lemmas.Consensus
import ZenonVerif.Lemmas.BeforeTime
import ZenonVerif.Gen.Nondet
/-
C05 — momentums come only from the elected pillar; the schedule is deterministic: property theorems only.
`sort` is ANY function returning a sorted permutation (Go's `sort.Sort` is not stable), `perm` is ANY
function returning permutations (Go's `math/rand.Perm`); both are parameters, never axioms.
-/
namespace ZV.C05
open ZV ZV.Consensus

/-! ## a. election -/

/-- T1 `election_length`: with at least one active pillar (and RandCount ≤ NodeCount, as configured) the
    election returns — it neither panics nor spins — and fills exactly `nodeCount` slots, also when there
    are fewer pillars than slots (the code then repeats the shuffled list). -/
theorem election_length (sort : List PD → List PD) (perm : Int → Nat → List Nat)
    (hs : IsSort sort) (hp : IsPerm perm) (n r : Nat) (hr : r ≤ n)
    (delegs : List PD) (hne : delegs ≠ []) (height : Nat) :
    ∃ l, selectProducers sort perm n r delegs height = .ok l ∧ l.length = n := by
  unfold selectProducers filterRandom
  have hlenA := groupA_length hs n delegs
  by_cases hlt : delegs.length < n
  · -- repeat branch
    have hA : (sort (filterByWeight sort n delegs).1).length ≠ n := by omega
    have hne' : sort (filterByWeight sort n delegs).1 ≠ [] := by
      intro h
      have h0 : delegs.length ≠ 0 := fun h0 => hne (List.length_eq_zero_iff.mp h0)
      rw [h] at hlenA; simp at hlenA; omega
    obtain ⟨out, h1, h2, _⟩ := filterRandomSorted_repeat hp (r := r)
      (sort (filterByWeight sort n delegs).2) hA hne' (findSeed height)
    simp only [h1]
    obtain ⟨l, h4, h5⟩ := shuffle_perm hp (out.take n) (findSeed height)
    exact ⟨l, h4, by rw [h5.length_eq, List.length_take]; omega⟩
  · have hA : (sort (filterByWeight sort n delegs).1).length = n := by omega
    obtain ⟨f, f2, hf, hf2, h1⟩ := filterRandomSorted_split hp hr
      (sort (filterByWeight sort n delegs).2) hA (findSeed height)
    simp only [h1]
    obtain ⟨l, h4, h5⟩ := shuffle_perm hp (f.take (n - r) ++ f2.take r) (findSeed height)
    refine ⟨l, h4, ?_⟩
    have hfl : f.length = n := by rw [hf.length_eq, hA]
    have hf2l : r ≤ f2.length := by
      rw [hf2.length_eq, List.length_append, List.length_drop]; omega
    rw [h5.length_eq, List.length_append, List.length_take, List.length_take]; omega

/-- with no active pillar at all the real loop `for len(result) < total` never ends (negative witness for
    the hypothesis `delegs ≠ []` of T1) -/
theorem election_empty_hangs :
    selectProducers sortPD (fun _ n => List.range n) Gen.NodeCount Gen.RandCount [] 7 = .hang := by decide

/-- RandCount > NodeCount is a misconfiguration on which the real code panics (negative witness for `r ≤ n`) -/
theorem election_rand_gt_node_panics :
    selectProducers sortPD (fun _ n => List.range n) 1 2 [⟨[97], [1], 5⟩] 7 = .panic := by decide

/-- T2 `election_members`: every elected entry is one of the delegations handed in (registered and active
    at the proof momentum) — for any `perm` whatsoever. -/
theorem election_members (sort : List PD → List PD) (perm : Int → Nat → List Nat) (hs : IsSort sort)
    (n r : Nat) (delegs : List PD) (height : Nat) (l : List PD)
    (h : selectProducers sort perm n r delegs height = .ok l) : ∀ x ∈ l, x ∈ delegs := by
  rw [selectProducers_eq] at h
  split at h
  · rename_i producers hprod
    intro x hx
    have hx' := shuffle_mem h x hx
    have hg := groups_perm hs n delegs
    rcases filterRandomSorted_mem hprod x hx' with h' | h'
    · exact hg.subset (List.mem_append_left _ h')
    · exact hg.subset (List.mem_append_right _ h')
  · rename_i hno
    exact absurd h (hno l)

/-- T3 `election_input_order_irrelevant`: if the pillar names are distinct, permuting the input — and even
    exchanging the sorting algorithm — does not change the outcome. -/
theorem election_input_order_irrelevant (s1 s2 : List PD → List PD) (h1 : IsSort s1) (h2 : IsSort s2)
    (perm : Int → Nat → List Nat) (n r : Nat) (d1 d2 : List PD) (height : Nat)
    (hp : d1.Perm d2) (hn : (d1.map PD.name).Nodup) :
    selectProducers s1 perm n r d1 height = selectProducers s2 perm n r d2 height := by
  have key : s1 (filterByWeight s1 n d1).1 = s2 (filterByWeight s2 n d2).1 ∧
      s1 (filterByWeight s1 n d1).2 = s2 (filterByWeight s2 n d2).2 := by
    unfold filterByWeight
    rw [← hp.length_eq]
    split
    · exact ⟨sort_canonical h1 h2 hp hn, by rw [isSort_nil h1, isSort_nil h2]⟩
    · simp only
      have hs : s1 d1 = s2 d2 := sort_canonical h1 h2 hp hn
      rw [← hs]
      have hnn : ((s1 d1).map PD.name).Nodup := ((h1 d1).1.map PD.name).nodup_iff.mpr hn
      constructor
      · apply sort_canonical h1 h2 (List.Perm.refl _)
        exact List.Nodup.sublist ((List.take_sublist _ _).map PD.name) hnn
      · apply sort_canonical h1 h2 (List.Perm.refl _)
        exact List.Nodup.sublist ((List.drop_sublist _ _).map PD.name) hnn
  rw [selectProducers_eq, selectProducers_eq, key.1, key.2]

/-- negative witness for the `Nodup` hypothesis of T3: two registrations with the same name and weight (the
    pillar contract excludes this) make the schedule depend on the input order. -/
theorem election_duplicate_names_order_dependent :
    selectProducers sortPD (fun _ n => List.range n) 2 1 [⟨[97], [1], 5⟩, ⟨[97], [2], 5⟩] 7 ≠
    selectProducers sortPD (fun _ n => List.range n) 2 1 [⟨[97], [2], 5⟩, ⟨[97], [1], 5⟩] 7 := by decide

/-- T4 `election_no_duplicate_when_enough`: with at least as many pillars as slots the elected list is a
    sub-multiset of the delegations: together with the not-elected rest it is a permutation of the input. -/
theorem election_submultiset_when_enough (sort : List PD → List PD) (perm : Int → Nat → List Nat)
    (hs : IsSort sort) (hp : IsPerm perm) (n r : Nat) (hr : r ≤ n)
    (delegs : List PD) (hge : n ≤ delegs.length) (height : Nat) :
    ∃ l others, selectProducers sort perm n r delegs height = .ok l ∧ (l ++ others).Perm delegs := by
  unfold selectProducers filterRandom
  have hlenA := groupA_length hs n delegs
  have hA : (sort (filterByWeight sort n delegs).1).length = n := by omega
  obtain ⟨f, f2, hf, hf2, h1⟩ := filterRandomSorted_split hp hr
    (sort (filterByWeight sort n delegs).2) hA (findSeed height)
  simp only [h1]
  obtain ⟨l, h4, h5⟩ := shuffle_perm hp (f.take (n - r) ++ f2.take r) (findSeed height)
  refine ⟨l, f2.drop r, h4, ?_⟩
  have hg := groups_perm hs n delegs
  -- l ++ drop ~ take f ++ (take f2 ++ drop f2) = take f ++ f2 ~ take f ++ (gB ++ drop f) ~ f ++ gB ~ gA ++ gB
  have e1 : (l ++ f2.drop r).Perm (f.take (n - r) ++ f2) := by
    have := h5.append_right (f2.drop r)
    rwa [List.append_assoc, List.take_append_drop] at this
  have e2 : (f.take (n - r) ++ f2).Perm (f.take (n - r) ++ (f.drop (n - r) ++ sort (filterByWeight sort n delegs).2)) :=
    (hf2.trans List.perm_append_comm).append_left _
  rw [← List.append_assoc, List.take_append_drop] at e2
  exact e1.trans (e2.trans ((hf.append_right _).trans hg))

/-- T4 corollary: with enough pillars and distinct names nobody holds two slots. -/
theorem election_no_duplicate_when_enough (sort : List PD → List PD) (perm : Int → Nat → List Nat)
    (hs : IsSort sort) (hp : IsPerm perm) (n r : Nat) (hr : r ≤ n)
    (delegs : List PD) (hge : n ≤ delegs.length) (hn : (delegs.map PD.name).Nodup) (height : Nat) :
    ∃ l, selectProducers sort perm n r delegs height = .ok l ∧ (l.map PD.name).Nodup := by
  obtain ⟨l, others, h1, h2⟩ := election_submultiset_when_enough sort perm hs hp n r hr delegs hge height
  refine ⟨l, h1, ?_⟩
  have := ((h2.map PD.name).nodup_iff).mpr hn
  rw [List.map_append] at this
  exact (List.nodup_append.mp this).1

/-- with fewer pillars than slots somebody necessarily holds two slots (negative witness for `n ≤ length`) -/
theorem election_repeats_when_few :
    selectProducers sortPD (fun _ n => List.range n) 3 1 [⟨[97], [1], 5⟩, ⟨[98], [2], 5⟩] 7 =
      .ok [⟨[97], [1], 5⟩, ⟨[98], [2], 5⟩, ⟨[97], [1], 5⟩] := by decide

/-- hypotheses are satisfiable: the insertion sort is a sort, the identity permutation is a permutation -/
example : IsSort sortPD := sortPD_isSort
example : IsPerm (fun _ n => List.range n) := fun _ _ => List.Perm.refl _

/-! ## b. ticker (instants in nanoseconds; the interval is a whole number of seconds) -/

/-- `common.NewTicker(start, time.Second * ivs)` -/
def secTicker (start : Int) (ivs : Nat) : Ticker := ⟨start, nsPerSec * ivs⟩

/-- `ToTime k = [start + k·interval, start + (k+1)·interval)` as long as `(k+1)·interval` fits the int64
    nanosecond `Duration` (292 years after the start). -/
theorem ticker_toTime_spec (start : Int) (ivs k : Nat) (hiv : 0 < ivs)
    (h : nsPerSec * ivs * ((k : Int) + 1) ≤ maxDuration) :
    (secTicker start ivs).toTime k = (start + nsPerSec * ivs * k, start + nsPerSec * ivs * ((k : Int) + 1)) := by
  unfold Ticker.toTime secTicker
  simp only
  have hI : (1 : Int) ≤ nsPerSec * ivs := by unfold nsPerSec; omega
  generalize nsPerSec * (ivs : Int) = I at *
  have hk1 : ((k : Int) + 1) ≤ I * ((k : Int) + 1) := by
    have := Int.mul_le_mul_of_nonneg_right hI (show (0 : Int) ≤ (k : Int) + 1 by omega)
    rwa [Int.one_mul] at this
  have hk0 : 0 ≤ I * (k : Int) := Int.mul_nonneg (by omega) (by omega)
  have hk2 : I * (k : Int) ≤ I * ((k : Int) + 1) := by rw [Int.mul_add, Int.mul_one]; omega
  have e1 : toInt64 k = (k : Int) := toInt64_of_lt k (by simp only [two63, maxDuration] at *; omega)
  have e2 : toInt64 (k + 1) = ((k : Int) + 1) := by
    rw [toInt64_of_lt (k + 1) (by simp only [two63, maxDuration] at *; omega)]; omega
  rw [e1, e2, wrap64_of_range _ (by simp only [minDuration]; omega) (by omega),
    wrap64_of_range _ (by simp only [minDuration]; omega) h]

/-- `ToTick(start + x seconds) = ⌊x / interval⌋` for every instant at or after the start (x within the
    292-year range in which `time.Sub` does not saturate). -/
theorem ticker_toTick_spec (start : Int) (ivs x : Nat) (hiv : 0 < ivs)
    (hivr : nsPerSec * ivs ≤ maxDuration) (hx : nsPerSec * x ≤ maxDuration) :
    (secTicker start ivs).toTick (start + nsPerSec * x) = some (x / ivs) := by
  unfold Ticker.toTick secTicker
  simp only
  have hs : timeSub (start + nsPerSec * x) start = nsPerSec * x :=
    by rw [timeSub_of_range _ _ (by simp only [minDuration, nsPerSec] at *; omega) (by omega)]; omega
  rw [hs, durSeconds_mul, durSeconds_mul]
  rw [toUInt64_of_nonneg _ (by omega) (by simp only [two64i, maxDuration, nsPerSec] at *; omega),
    toUInt64_of_nonneg _ (by omega) (by simp only [two64i, maxDuration, nsPerSec] at *; omega)]
  simp only [Int.toNat_natCast]
  rw [if_neg (by omega)]

/-- `ToTime(ToTick t).start ≤ t < ToTime(ToTick t).end` for every whole-second instant t ≥ start. -/
theorem ticker_bracket (start : Int) (ivs x : Nat) (hiv : 0 < ivs)
    (hx : nsPerSec * ((x : Int) + ivs) ≤ maxDuration) :
    ∃ k, (secTicker start ivs).toTick (start + nsPerSec * x) = some k ∧
      ((secTicker start ivs).toTime k).1 ≤ start + nsPerSec * x ∧
      start + nsPerSec * x < ((secTicker start ivs).toTime k).2 := by
  have hx1 : nsPerSec * (x : Int) ≤ maxDuration := by simp only [nsPerSec] at *; omega
  have hx2 : nsPerSec * (ivs : Int) ≤ maxDuration := by simp only [nsPerSec] at *; omega
  refine ⟨x / ivs, ticker_toTick_spec start ivs x hiv hx2 hx1, ?_⟩
  have hdm := Nat.div_add_mod x ivs
  have hml := Nat.mod_lt x hiv
  have e : nsPerSec * (ivs : Int) * ((x / ivs : Nat) : Int) = nsPerSec * ((ivs * (x / ivs) : Nat) : Int) := by
    rw [Int.mul_assoc, Int.natCast_mul]
  have e' : nsPerSec * (ivs : Int) * (((x / ivs : Nat) : Int) + 1)
      = nsPerSec * ((ivs * (x / ivs) : Nat) : Int) + nsPerSec * ivs := by
    rw [Int.mul_add, Int.mul_one, e]
  rw [ticker_toTime_spec start ivs (x / ivs) hiv (by rw [e']; simp only [nsPerSec] at *; omega)]
  simp only
  rw [e, e']
  simp only [nsPerSec] at *
  omega

/-- `ToTick` is monotone (on whole-second instants at or after the start). -/
theorem ticker_mono (start : Int) (ivs x y : Nat) (hiv : 0 < ivs) (hivr : nsPerSec * ivs ≤ maxDuration)
    (hy : nsPerSec * y ≤ maxDuration) (hxy : x ≤ y) (a b : Nat)
    (ha : (secTicker start ivs).toTick (start + nsPerSec * x) = some a)
    (hb : (secTicker start ivs).toTick (start + nsPerSec * y) = some b) : a ≤ b := by
  rw [ticker_toTick_spec start ivs x hiv hivr (by simp only [nsPerSec] at *; omega)] at ha
  rw [ticker_toTick_spec start ivs y hiv hivr hy] at hb
  cases ha; cases hb
  exact Nat.div_le_div_right hxy

/-- the start of tick k maps back to k -/
theorem ticker_roundtrip (start : Int) (ivs k : Nat) (hiv : 0 < ivs)
    (h : nsPerSec * ivs * ((k : Int) + 1) ≤ maxDuration) :
    (secTicker start ivs).toTick ((secTicker start ivs).toTime k).1 = some k := by
  rw [ticker_toTime_spec start ivs k hiv h]
  simp only
  have hI : (1 : Int) ≤ nsPerSec * ivs := by unfold nsPerSec; omega
  have e : nsPerSec * (ivs : Int) * (k : Int) = nsPerSec * ((ivs * k : Nat) : Int) := by
    rw [Int.mul_assoc, Int.natCast_mul]
  have h1 : nsPerSec * (ivs : Int) * (k : Int) ≤ nsPerSec * ivs * ((k : Int) + 1) := by
    rw [Int.mul_add, Int.mul_one]; omega
  have h2 : nsPerSec * (ivs : Int) ≤ nsPerSec * ivs * ((k : Int) + 1) := by
    have := Int.mul_le_mul_of_nonneg_left (show (1 : Int) ≤ (k : Int) + 1 by omega) (show 0 ≤ nsPerSec * (ivs : Int) by omega)
    rwa [Int.mul_one] at this
  rw [e, ticker_toTick_spec start ivs (ivs * k) hiv (by omega) (by rw [← e]; omega)]
  rw [Nat.mul_div_cancel_left k hiv]

/-- negative witness (why `ElectionByTime` refuses instants before genesis): one second before the start is
    tick ⌊(2^64−1)/300⌋ = 61489146912365172. -/
theorem ticker_before_start_is_huge :
    (secTicker (1000 * nsPerSec) 300).toTick (999 * nsPerSec) = some 61489146912365172 := by decide

/-- negative witness for the range hypothesis: 292 years after the start `interval * Duration(tick)` wraps
    around and the tick "ends" before the Unix epoch. -/
theorem ticker_wraps_after_292_years : ((secTicker 0 300).toTime 30744573).2 < 0 := by decide

/-- an interval of zero seconds (NodeCount = 0) is an integer division by zero -/
theorem ticker_zero_interval_panics : (secTicker 0 0).toTick nsPerSec = none := by decide

/-! ## c. schedule of a tick -/

/-- exactly one producer per slot: with `NodeCount` elected addresses the schedule has `NodeCount` entries and
    slot i is `[tickStart + i·B, tickStart + (i+1)·B)` held by the i-th elected pillar (B = block time). -/
theorem schedule_slot (c : Ctx) (tick : Nat) (addrs : List Bytes) (h : addrs.length = c.nodeCount) (i : Nat) :
    (generateProducers c tick addrs).length = c.nodeCount ∧
    (generateProducers c tick addrs)[i]? = addrs[i]?.map (fun a =>
      ⟨(c.ticker.toTime tick).1 + wrap64 (c.blockTime * nsPerSec) * i,
       (c.ticker.toTime tick).1 + wrap64 (c.blockTime * nsPerSec) * (i + 1), a⟩) := by
  unfold generateProducers
  rw [if_neg (by omega)]
  exact ⟨by rw [genEvents_length, h], genEvents_getElem? _ _ _ _⟩

/-- slots tile without gap or overlap: slot i ends exactly where slot i+1 starts -/
theorem schedule_no_gap (c : Ctx) (tick : Nat) (addrs : List Bytes) (h : addrs.length = c.nodeCount)
    (i : Nat) (p q : ProducerEvent) (hp : (generateProducers c tick addrs)[i]? = some p)
    (hq : (generateProducers c tick addrs)[i + 1]? = some q) : p.endTime = q.startTime := by
  rw [(schedule_slot c tick addrs h i).2] at hp
  rw [(schedule_slot c tick addrs h (i + 1)).2] at hq
  cases ha : addrs[i]? with
  | none => rw [ha] at hp; cases hp
  | some a =>
    cases hb : addrs[i + 1]? with
    | none => rw [hb] at hq; cases hq
    | some b =>
      rw [ha] at hp; rw [hb] at hq
      simp only [Option.map_some, Option.some.injEq] at hp hq
      subst hp; subst hq
      simp only [Int.natCast_succ]

/-- with the wrong number of addresses no schedule is produced at all -/
theorem schedule_wrong_count (c : Ctx) (tick : Nat) (addrs : List Bytes) (h : addrs.length ≠ c.nodeCount) :
    generateProducers c tick addrs = [] := by
  unfold generateProducers; rw [if_pos h]

/-- the slots cover the tick exactly: the last slot ends at the end of the tick
    (positive block time and node count, tick within the 292-year range). -/
theorem schedule_covers_tick (genesis : Int) (bt n tick : Nat) (hbt : 0 < bt) (hn : 0 < n)
    (hr : nsPerSec * ((bt * n : Nat) : Int) * ((tick : Int) + 1) ≤ maxDuration) :
    ((Ctx.mk genesis bt n).ticker.toTime tick).2 =
      ((Ctx.mk genesis bt n).ticker.toTime tick).1 + wrap64 ((bt : Int) * nsPerSec) * n := by
  have hJ : 0 < bt * n := Nat.mul_pos hbt hn
  have hI : (0 : Int) ≤ nsPerSec * ((bt * n : Nat) : Int) := by unfold nsPerSec; omega
  have h1 : nsPerSec * ((bt * n : Nat) : Int) ≤ nsPerSec * ((bt * n : Nat) : Int) * ((tick : Int) + 1) := by
    have := Int.mul_le_mul_of_nonneg_left (show (1 : Int) ≤ (tick : Int) + 1 by omega) hI
    rwa [Int.mul_one] at this
  have hbn : bt ≤ bt * n := Nat.le_mul_of_pos_right bt hn
  have htk : (Ctx.mk genesis bt n).ticker = secTicker genesis (bt * n) := by
    unfold Ctx.ticker secTicker
    simp only
    rw [toUInt64_of_nonneg _ (by omega) (by simp only [two64i, maxDuration, nsPerSec] at *; omega)]
    simp only [Int.toNat_natCast]
    rw [toInt64_of_lt _ (by simp only [two63, maxDuration, nsPerSec] at *; omega)]
    rw [wrap64_of_range _ (by simp only [minDuration]; omega) (by omega)]
  rw [htk, ticker_toTime_spec genesis (bt * n) tick hJ hr]
  simp only
  rw [wrap64_of_range _ (by simp only [minDuration, nsPerSec]; omega)
    (by simp only [maxDuration, nsPerSec] at *; omega)]
  rw [Int.mul_add, Int.mul_one, Int.natCast_mul]
  have : (bt : Int) * nsPerSec * (n : Int) = nsPerSec * ((bt : Int) * (n : Int)) := by
    rw [Int.mul_comm (bt : Int) nsPerSec, Int.mul_assoc]
  omega

/-- the producer for an instant is a function of (election result, instant): whatever `GetMomentumProducer`
    returns is the i-th elected address of the instant's tick, and the instant is EXACTLY the start of slot i. -/
theorem producer_sound (c : Ctx) (elected : Nat → Option (List Bytes)) (t : Int) (p : Bytes)
    (h : getMomentumProducer c elected t = .ok p) :
    c.genesis ≤ t ∧ ∃ (tick : Nat) (addrs : List Bytes) (i : Nat), c.ticker.toTick t = some tick ∧ elected tick = some addrs ∧
      addrs.length = c.nodeCount ∧ addrs[i]? = some p ∧
      t = (c.ticker.toTime tick).1 + wrap64 (c.blockTime * nsPerSec) * (i : Int) := by
  unfold getMomentumProducer at h
  split at h
  · cases h
  · rename_i hg
    refine ⟨by omega, ?_⟩
    split at h
    · cases h
    · rename_i tick htick
      split at h
      · cases h
      · split at h
        · cases h
        · rename_i addrs hel
          split at h
          · rename_i ev hfind
            cases h
            unfold generateProducers at hfind
            split at hfind
            · simp at hfind
            · rename_i hlen
              obtain ⟨i, h1, h2⟩ := genEvents_find_sound _ _ _ _ _ hfind
              exact ⟨tick, addrs, i, htick, hel, by omega, h1, h2⟩
          · cases h

/-- conversely every slot start is answered with that slot's pillar (positive block time). -/
theorem producer_complete (c : Ctx) (elected : Nat → Option (List Bytes)) (tick : Nat) (addrs : List Bytes)
    (i : Nat) (a : Bytes) (hB : 0 < wrap64 (c.blockTime * nsPerSec))
    (hel : elected tick = some addrs) (hlen : addrs.length = c.nodeCount) (ha : addrs[i]? = some a)
    (hg : c.genesis ≤ (c.ticker.toTime tick).1 + wrap64 (c.blockTime * nsPerSec) * (i : Int))
    (htick : c.ticker.toTick ((c.ticker.toTime tick).1 + wrap64 (c.blockTime * nsPerSec) * (i : Int)) = some tick)
    (hpos : 0 ≤ toInt64 tick) :
    getMomentumProducer c elected ((c.ticker.toTime tick).1 + wrap64 (c.blockTime * nsPerSec) * (i : Int)) = .ok a := by
  unfold getMomentumProducer
  rw [if_neg (by omega), htick]
  simp only
  rw [if_neg (by omega), hel]
  simp only
  unfold generateProducers
  rw [if_neg (by omega), genEvents_find_complete _ hB _ _ _ _ ha]

/-- negative witness: an instant inside a slot that is not the slot start has no producer (a re-timed momentum
    is refused), while the slot start has one. -/
theorem producer_inside_slot_refused :
    getMomentumProducer ⟨0, 10, 3⟩ (fun _ => some [[1], [2], [3]]) (15 * nsPerSec) = .error .noSlotStartsHere ∧
    getMomentumProducer ⟨0, 10, 3⟩ (fun _ => some [[1], [2], [3]]) (10 * nsPerSec) = .ok [2] := by decide

/-! ## d. the proof momentum: `GetMomentumBeforeTime` = "last momentum with timestamp < t" -/

/-- partial correctness for EVERY instant (also sub-second ones) on a chain whose timestamps do not decrease:
    whenever the estimate-and-search code returns, it returns what the specification says. -/
theorem before_time_sound (ts : List Int) (tNs : Int) (hm : Mono ts) :
    (∀ h, getMomentumBeforeTime ts tNs = .found h → beforeSpec ts tNs = some h) ∧
    (getMomentumBeforeTime ts tNs = .none → beforeSpec ts tNs = none) := by
  unfold getMomentumBeforeTime
  cases hh : ts.head? with
  | none => simp
  | some g =>
    cases hl : ts.getLast? with
    | none => simp
    | some f =>
      obtain ⟨eg, hne⟩ := head?_eq_T hh
      have ef := getLast?_eq_T hl
      simp only
      by_cases c1 : g * nsPerSec ≥ tNs
      · rw [if_pos c1]
        exact ⟨fun h hc => (by cases hc), fun _ => beforeSpec_eq_none hm hne (by rw [← eg]; exact c1)⟩
      · rw [if_neg c1]
        by_cases c2 : f * nsPerSec < tNs
        · rw [if_pos c2]
          refine ⟨fun h hc => ?_, fun hc => (by cases hc)⟩
          cases hc
          exact beforeSpec_eq_some hm hne (Nat.le_refl _) (by rw [← ef]; exact c2) (Or.inl rfl)
        · rw [if_neg c2]
          have hw := btLoop_good (tSec := tNs / nsPerSec) hm (show T ts 1 * nsPerSec < tNs by rw [← eg]; omega)
            (show T ts ts.length * nsPerSec ≥ tNs by rw [← ef]; omega) hne
            (2 * ts.length + 4)
            (if ts.length > toUInt64 (f - tNs / nsPerSec) then ts.length - toUInt64 (f - tNs / nsPerSec) else 1)
            none none (fun _ h => by cases h) (fun _ h => by cases h)
          constructor
          · intro h hc
            rw [hc] at hw
            rcases hw with hw | hw | hw
            · cases hw
            · cases hw
            · exact beforeSpec_eq_some hm hw.1 hw.2.1 hw.2.2.1 hw.2.2.2
          · intro hc
            rw [hc] at hw
            rcases hw with hw | hw | hw
            · cases hw
            · cases hw
            · exact absurd hw (by simp [GoodBT])

/-- total correctness for whole-second instants (every instant the consensus code asks for: tick boundaries of a
    whole-second genesis) on chains with non-decreasing, non-negative timestamps below 2^62 and fewer than 2^62
    momentums: the code returns exactly the specification's answer — it neither fails nor spins. -/
theorem before_time_eq_spec (ts : List Int) (tSec : Int) (hm : Mono ts) (hne : ts ≠ [])
    (hr : ∀ h, 1 ≤ h → h ≤ ts.length → 0 ≤ T ts h) (ht : tSec < two62) (hH : (ts.length : Int) < two62) :
    getMomentumBeforeTime ts (tSec * nsPerSec) =
      (match beforeSpec ts (tSec * nsPerSec) with | some h => BT.found h | none => BT.none) := by
  have hs := before_time_sound ts (tSec * nsPerSec) hm
  have hnf : NoFail (getMomentumBeforeTime ts (tSec * nsPerSec)) := by
    unfold getMomentumBeforeTime
    cases hh : ts.head? with
    | none => cases ts with
      | nil => exact absurd rfl hne
      | cons x xs => simp at hh
    | some g =>
      cases hl : ts.getLast? with
      | none => cases ts with
        | nil => exact absurd rfl hne
        | cons x xs => simp at hl
      | some f =>
        obtain ⟨eg, hne'⟩ := head?_eq_T hh
        have ef := getLast?_eq_T hl
        simp only
        by_cases c1 : g * nsPerSec ≥ tSec * nsPerSec
        · rw [if_pos c1]; simp [NoFail]
        · rw [if_neg c1]
          by_cases c2 : f * nsPerSec < tSec * nsPerSec
          · rw [if_pos c2]; simp [NoFail]
          · rw [if_neg c2]
            have hdiv : tSec * nsPerSec / nsPerSec = tSec := Int.mul_ediv_cancel _ (by unfold nsPerSec; omega)
            rw [hdiv]
            apply btLoop_nofail hm (by rw [← eg]; omega) (by rw [← ef]; omega) hne' hr ht hH
            · intro _ h; cases h
            · intro _ h; cases h
            · intro _; split <;> omega
            · simp only [mu]; omega
  cases hres : getMomentumBeforeTime ts (tSec * nsPerSec) with
  | found h => rw [hs.1 h hres]
  | none => rw [hs.2 hres]
  | err => rw [hres] at hnf; exact absurd rfl hnf.2
  | hang => rw [hres] at hnf; exact absurd rfl hnf.1

/-- negative witness for "whole-second": for an instant half a second after a momentum the estimate can land on
    that momentum with `timeSec - block.ts = 0` and the real loop never advances (no caller passes such an instant:
    proof times are tick boundaries, the RPC takes whole seconds). -/
theorem before_time_subsecond_hangs :
    getMomentumBeforeTime [100, 101, 102, 103] (102 * nsPerSec + 500000000) = .hang := by decide

/-- the hypotheses are satisfiable and the answer is the expected one on a chain with gaps -/
example : getMomentumBeforeTime [100, 150, 160, 470, 480] (470 * nsPerSec) = .found 3 := by decide

/-- T5 `schedule_function_of_proof_state` (chain part): the proof momentum of a tick is determined by the chain
    prefix up to it. If a second chain (another node, the same node after a restart or a reorganisation) has the
    same first h timestamps and either ends there or continues with a momentum at or after the proof time, it
    selects the same proof height. -/
theorem proof_momentum_prefix_determined (ts1 ts2 : List Int) (tNs : Int) (hm2 : Mono ts2) (h : Nat)
    (hspec : beforeSpec ts1 tNs = some h) (hagree : ts2.take h = ts1.take h) (hlen : h ≤ ts2.length)
    (hnext : h = ts2.length ∨ T ts2 (h + 1) * nsPerSec ≥ tNs) : beforeSpec ts2 tNs = some h := by
  obtain ⟨a1, a2, a3, _⟩ := beforeSpec_some hspec
  apply beforeSpec_eq_some hm2 a1 hlen _ hnext
  have e : T ts2 h = T ts1 h := by
    unfold T
    have h1 : (ts2.take h).getD (h - 1) 0 = ts2.getD (h - 1) 0 := by
      simp only [List.getD_eq_getElem?_getD, List.getElem?_take]; rw [if_pos (by omega)]
    have h2 : (ts1.take h).getD (h - 1) 0 = ts1.getD (h - 1) 0 := by
      simp only [List.getD_eq_getElem?_getD, List.getElem?_take]; rw [if_pos (by omega)]
    rw [← h1, ← h2, hagree]
  rw [e]; exact a3

/-- T5 (cache part): the election result is cached under the proof momentum's hash. If every cached entry was
    produced by the computation for its key (the cache is only written by `generateProducers`), then the answer from
    the cache equals the answer computed cold, and the updated cache keeps that property — whatever was inserted,
    rolled back or restarted in between (`DeleteMomentum` never touches the cache). -/
theorem cached_election_eq_recomputed (cache : Bytes → Option (List Bytes)) (compute : Bytes → List Bytes)
    (hc : ∀ h r, cache h = some r → r = compute h) (proofHash : Bytes) :
    (generateProducersCached cache compute proofHash).1 = compute proofHash ∧
    ∀ h r, (generateProducersCached cache compute proofHash).2 h = some r → r = compute h := by
  unfold generateProducersCached
  cases hcp : cache proofHash with
  | some r => exact ⟨hc _ _ hcp, hc⟩
  | none =>
    refine ⟨rfl, ?_⟩
    intro h r hr
    simp only at hr
    split at hr
    · rename_i heq; cases hr; rw [heq]
    · exact hc h r hr

/-- generated fact (AST of vm, verifier, chain, consensus, common/db, common/types, regenerated on every run): no
    function of these packages refers to the PROCESS-WIDE random generators — the package-level functions of
    math/rand (`rand.Seed`, `rand.Perm`, `rand.Intn`, …), math/rand/v2 or crypto/rand, under whatever import name.
    The model's `perm` parameter is a function of (seed, n) alone; that is what `rand.New(rand.NewSource(seed)).Perm(n)`
    on a locally seeded generator is, and what a draw from the generator shared with every other goroutine of the
    node (p2p, fetcher, discovery, concurrent elections) is not. The election stream exercises the same claim
    dynamically: every election is repeated while other goroutines draw from and re-seed the process-wide generator. -/
theorem election_uses_no_process_wide_randomness : Gen.globalRandSites = [] := by decide

/-! ## e. momentum verifier -/

/-- the generated check order is the one the statement needs (a removed / reordered check breaks this) -/
theorem verifier_check_order :
    Gen.MV_Momentum_calls = ["getContext", "all"] ∧
    Gen.MV_raw_all = ["chainIdentifier", "version", "timestamp", "previous", "data", "content"] ∧
    Gen.MV_MomentumTransaction_calls = ["all"] ∧
    Gen.MV_tx_all = ["changesHash", "hash", "signature", "producer"] ∧
    Gen.SV_ApplyMomentum_calls = ["Momentum", "newMomentumContext", "NewMomentumVM", "applyMomentum", "packMomentum"] ∧
    "MomentumTransaction" ∈ Gen.SV_packMomentum_calls := by decide

/-- each check rejects with the errors, and under the conditions, the model assumes (AST of the check bodies) -/
theorem verifier_check_bodies :
    Gen.MV_if_getContext = ["momentum.Height == 1", "momentum.PreviousHash.IsZero()", "momentumStore == nil"] ∧
    Gen.MV_ret_getContext = ["ErrMNotGenesis", "ErrMPrevHashMissing", "ErrMPreviousMissing", "nil"] ∧
    Gen.MV_if_chainIdentifier = ["rmv.momentum.ChainIdentifier == 0",
      "rmv.momentum.ChainIdentifier != rmv.momentumStore.ChainIdentifier()"] ∧
    Gen.MV_ret_chainIdentifier = ["ErrABChainIdentifierMissing", "ErrABChainIdentifierMismatch", "nil"] ∧
    Gen.MV_if_version = ["rmv.momentum.Version == 0", "rmv.momentum.Version != 1"] ∧
    Gen.MV_ret_version = ["ErrMVersionMissing", "ErrMVersionInvalid", "nil"] ∧
    Gen.MV_if_timestamp = ["rmv.momentum.Timestamp.Unix() == 0",
      "rmv.momentum.Timestamp.After(time.Now().Add(time.Second * 10))", "err != nil",
      "previous.TimestampUnix >= rmv.momentum.TimestampUnix"] ∧
    Gen.MV_ret_timestamp = ["ErrMTimestampMissing", "ErrMTimestampInTheFuture", "InternalError",
      "ErrMTimestampNotIncreasing", "nil"] ∧
    Gen.MV_if_previous = ["rmv.momentum.Height == 1", "rmv.momentum.PreviousHash.IsZero()", "err != nil",
      "rmv.momentum.Previous() != previous.Identifier()"] ∧
    Gen.MV_ret_previous = ["ErrMNotGenesis", "ErrMPrevHashMissing", "InternalError", "ErrMPreviousMissing", "nil"] ∧
    Gen.MV_if_data = ["len(rmv.momentum.Data) != 0"] ∧
    Gen.MV_ret_data = ["ErrMDataMustBeZero", "nil"] ∧
    Gen.MV_if_content = ["len(rmv.momentum.Content) > chain.MaxAccountBlocksInMomentum",
      "len(blocksLookup) != len(rmv.momentum.Content)", "!ok", "err != nil", "pastFrontier == nil",
      "isBatched(block)", "!ok", "block.Previous() != previous"] ∧
    Gen.MV_ret_content = ["ErrMContentTooBig", "Errorf", "InternalError", "Errorf", "Errorf", "nil"] ∧
    Gen.MV_if_changesHash = ["computedHash != transaction.Momentum.ChangesHash"] ∧
    Gen.MV_ret_changesHash = ["ErrMChangesHashInvalid", "nil"] ∧
    Gen.MV_if_hash = ["computedHash != momentum.Hash"] ∧
    Gen.MV_ret_hash = ["ErrMHashInvalid", "nil"] ∧
    Gen.MV_if_signature = ["len(momentum.Signature) == 0", "len(momentum.PublicKey) == 0", "err != nil", "!isVerified"] ∧
    Gen.MV_ret_signature = ["ErrMSignatureMissing", "ErrMPublicKeyMissing", "InternalError", "ErrMSignatureInvalid", "nil"] ∧
    Gen.MV_if_producer = ["err != nil", "!result"] ∧
    Gen.MV_ret_producer = ["InternalError", "ErrMProducerInvalid", "nil"] := by decide

/-- the producer lookup compares the slot start with the timestamp for EQUALITY, guards instants before genesis,
    and the election code has the shape the model follows (AST) -/
theorem consensus_code_shape :
    Gen.CS_if_GetMomentumProducer = ["err != nil", "plan.StartTime == timestamp"] ∧
    Gen.CS_calls_GetMomentumProducer = ["ElectionByTime", "Errorf"] ∧
    Gen.CS_if_VerifyMomentumProducer = ["err != nil", "momentum.Producer() == *expected"] ∧
    Gen.EL_if_ElectionByTime = ["t.Before(em.GenesisTime)"] ∧
    Gen.EL_if_generateProducers = ["len(producerAddresses) != int(info.NodeCount)"] ∧
    Gen.EL_if_genProofTime = ["tick < 2"] ∧
    Gen.EA_ret_findSeed = ["int64(context.hashH.Height)"] ∧
    Gen.EA_calls_SelectProducers = ["filterByWeight", "filterRandom", "shuffleOrder"] ∧
    Gen.EA_if_filterByWeight = ["len(context.delegations) <= int(ea.group.NodeCount)"] ∧
    Gen.EA_if_filterRandom = ["total != len(groupA)"] ∧
    Gen.EA_ret_filterRandom = ["result[:total]", "result"] ∧
    Gen.PD_Less_if = ["r == 0"] ∧ Gen.PD_Less_ret = ["a[i].Name < a[j].Name", "r < 0"] ∧
    Gen.RandCount ≤ Gen.NodeCount ∧ 0 < Gen.NodeCount ∧ 0 < Gen.BlockTime ∧ Gen.MomentumFutureSeconds = 10 := by decide

/-- T6 `momentum_verify_sound`: a momentum accepted by `ApplyMomentum` (cache consistent with the hashed
    timestamp, as `EnsureCache` makes it) has a valid chain id and version, names as previous exactly the
    frontier of a store the node holds (hash and height), has a strictly later timestamp that is at most
    `MomentumFutureSeconds` ahead of the clock, carries no data, lists at most 100 blocks all of which were
    prefetched, its changes hash is the hash of the state changes, its hash is the hash of its content, the
    signature over the hash verifies, and the signer is the pillar `GetMomentumProducer` returns for the timestamp. -/
theorem momentum_verify_sound (s : VState) (now : Int) (m : Momentum) (blocks : List PBlock) (o : Oracle)
    (hcache : m.tsCache = nsPerSec * m.tsUnix)
    (h : verifyMomentum s now m blocks o = .ok ()) :
    ∃ v, s.storeAt m.prevHash (prevHeight m) = some v ∧ m.height ≠ 1 ∧
      m.chainId ≠ 0 ∧ m.chainId = v.chainId ∧ m.version = 1 ∧
      m.prevHash = v.fHash ∧ prevHeight m = v.fHeight ∧
      v.fTs < m.tsUnix ∧ nsPerSec * (m.tsUnix : Int) ≤ now + nsPerSec * Gen.MomentumFutureSeconds ∧
      m.dataLen = 0 ∧
      m.content.length ≤ Gen.MaxAccountBlocksInMomentum ∧
      (∀ hd ∈ m.content, ∃ b ∈ blocks, b.hash = hd.hash ∧ b.height = hd.height) ∧
      o.patchHash = m.changesHash ∧ o.computedHash = m.hash ∧ o.sigOk = true ∧
      s.expected (nsPerSec * m.tsUnix) = .ok o.producer := by
  unfold verifyMomentum at h
  split at h
  · cases h
  · rename_i v hctx
    obtain ⟨c1, _, c3⟩ := getContext_ok hctx
    split at h
    · cases h
    · rename_i hraw
      split at h
      · cases h
      · rw [(verifier_check_order).2.1] at hraw
        rw [(verifier_check_order).2.2.2.1] at h
        obtain ⟨r1, hraw⟩ := runAll_cons_ok hraw
        obtain ⟨r2, hraw⟩ := runAll_cons_ok hraw
        obtain ⟨r3, hraw⟩ := runAll_cons_ok hraw
        obtain ⟨r4, hraw⟩ := runAll_cons_ok hraw
        obtain ⟨r5, hraw⟩ := runAll_cons_ok hraw
        obtain ⟨r6, _⟩ := runAll_cons_ok hraw
        obtain ⟨t1, h⟩ := runAll_cons_ok h
        obtain ⟨t2, h⟩ := runAll_cons_ok h
        obtain ⟨t3, h⟩ := runAll_cons_ok h
        obtain ⟨t4, _⟩ := runAll_cons_ok h
        simp only [rawCheck] at r1 r2 r3 r4 r5 r6
        simp only [txCheck] at t1 t2 t3 t4
        have a1 := chkChainIdentifier_ok r1
        have a2 := chkVersion_ok r2
        have a3 := chkTimestamp_ok r3
        have a4 := chkPrevious_ok r4
        have a5 := chkData_ok r5
        have a6 := chkContent_ok r6
        have b1 := chkChangesHash_ok t1
        have b2 := chkHash_ok t2
        have b3 := chkSignature_ok t3
        have b4 := chkProducer_ok t4
        rw [hcache] at a3 b4
        exact ⟨v, c3, c1, a1.1, a1.2, a2, a4.1, a4.2, a3.2.2, a3.2.1, a5, a6.1, a6.2.2, b1, b2, b3.2.2, b4⟩

/-- T6 + c: with `GetMomentumProducer` as modelled, an accepted momentum is signed by the i-th elected pillar of
    its tick and its timestamp is exactly the start of slot i. -/
theorem accepted_momentum_from_elected_pillar (c : Ctx) (elected : Nat → Option (List Bytes))
    (storeAt : Bytes → Nat → Option StoreView) (now : Int) (m : Momentum) (blocks : List PBlock) (o : Oracle)
    (hcache : m.tsCache = nsPerSec * m.tsUnix)
    (h : verifyMomentum ⟨storeAt, getMomentumProducer c elected⟩ now m blocks o = .ok ()) :
    o.sigOk = true ∧ ∃ (tick : Nat) (addrs : List Bytes) (i : Nat),
      c.ticker.toTick (nsPerSec * m.tsUnix) = some tick ∧ elected tick = some addrs ∧
      addrs.length = c.nodeCount ∧ addrs[i]? = some o.producer ∧
      nsPerSec * (m.tsUnix : Int) = (c.ticker.toTime tick).1 + wrap64 (c.blockTime * nsPerSec) * (i : Int) := by
  obtain ⟨v, hv⟩ := momentum_verify_sound _ now m blocks o hcache h
  have hp := hv.2.2.2.2.2.2.2.2.2.2.2.2.2.2.2
  have hs := hv.2.2.2.2.2.2.2.2.2.2.2.2.2.2.1
  exact ⟨hs, (producer_sound c elected _ _ hp).2⟩

/-- "directly extends the node's frontier": the verifier alone accepts a momentum on top of ANY momentum whose store
    the node still holds (a sibling of the frontier passes `ApplyMomentum`); it is the insertion that requires the
    parent to be the node's frontier. A momentum that was accepted AND changed the ledger extends the frontier. -/
theorem inserted_momentum_extends_frontier (frontier : Bytes × Nat) (m : Momentum)
    (h : addMomentum frontier m ≠ frontier) :
    m.prevHash = frontier.1 ∧ prevHeight m = frontier.2 ∧ addMomentum frontier m = (m.hash, m.height) := by
  unfold addMomentum at *
  split
  · rename_i hc; exact ⟨hc.1, hc.2, rfl⟩
  · rename_i hc; rw [if_neg hc] at h; exact absurd rfl h

/-- negative witness for the cache hypothesis: a (locally built) momentum whose `Timestamp` cache differs from the
    hashed `TimestampUnix` is judged on the cache for clock and producer — deserialised momentums are always
    consistent (`EnsureCache`). -/
theorem verify_uses_timestamp_cache :
    chkTimestamp ⟨1, [1], 5, 100, fun _ => none⟩ (1000 * nsPerSec)
      ⟨1, 1, 6, 999999, 110 * nsPerSec, [], [1], [], 0, [], 32, 64⟩ = .ok () := by decide

/-- the verifier's decision is satisfiable: a well-formed momentum on a one-momentum store is accepted -/
example : verifyMomentum
    ⟨fun h n => if h = [1] ∧ n = 5 then some ⟨1, [1], 5, 100, fun _ => none⟩ else none, fun _ => .ok [7]⟩
    (1000 * nsPerSec) ⟨1, 1, 6, 110, 110 * nsPerSec, [2], [1], [3], 0, [], 32, 64⟩ []
    ⟨[2], true, [3], false, true, [7]⟩ = .ok () := by decide

end ZV.C05
