import ZenonVerif.Lemmas.Consensus
/-
C05 — momentums come only from the elected pillar; the schedule is deterministic: property theorems only.
`sort` is ANY function returning a sorted permutation (Go's `sort.Sort` is not stable), `perm` is ANY
function returning permutations (Go's `math/rand.Perm`); both are parameters, never axioms.
-/
namespace ZV.C05
open ZV ZV.Consensus

/-! ## a. election -/

/-- T1 `election_length`: with at least one active pillar (and RandCount ≤ NodeCount, as configured) the
    election returns — it neither panics nor spins — and fills exactly `nodeCount` slots, also when there
    are fewer pillars than slots (the code then repeats the shuffled list). -/
theorem election_length (sort : List PD → List PD) (perm : Int → Nat → List Nat)
    (hs : IsSort sort) (hp : IsPerm perm) (n r : Nat) (hr : r ≤ n)
    (delegs : List PD) (hne : delegs ≠ []) (height : Nat) :
    ∃ l, selectProducers sort perm n r delegs height = .ok l ∧ l.length = n := by
  unfold selectProducers filterRandom
  have hlenA := groupA_length hs n delegs
  by_cases hlt : delegs.length < n
  · -- repeat branch
    have hA : (sort (filterByWeight sort n delegs).1).length ≠ n := by omega
    have hne' : sort (filterByWeight sort n delegs).1 ≠ [] := by
      intro h
      have h0 : delegs.length ≠ 0 := fun h0 => hne (List.length_eq_zero_iff.mp h0)
      rw [h] at hlenA; simp at hlenA; omega
    obtain ⟨out, h1, h2, _⟩ := filterRandomSorted_repeat hp (r := r)
      (sort (filterByWeight sort n delegs).2) hA hne' (findSeed height)
    simp only [h1]
    obtain ⟨l, h4, h5⟩ := shuffle_perm hp (out.take n) (findSeed height)
    exact ⟨l, h4, by rw [h5.length_eq, List.length_take]; omega⟩
  · have hA : (sort (filterByWeight sort n delegs).1).length = n := by omega
    obtain ⟨f, f2, hf, hf2, h1⟩ := filterRandomSorted_split hp hr
      (sort (filterByWeight sort n delegs).2) hA (findSeed height)
    simp only [h1]
    obtain ⟨l, h4, h5⟩ := shuffle_perm hp (f.take (n - r) ++ f2.take r) (findSeed height)
    refine ⟨l, h4, ?_⟩
    have hfl : f.length = n := by rw [hf.length_eq, hA]
    have hf2l : r ≤ f2.length := by
      rw [hf2.length_eq, List.length_append, List.length_drop]; omega
    rw [h5.length_eq, List.length_append, List.length_take, List.length_take]; omega

/-- with no active pillar at all the real loop `for len(result) < total` never ends (negative witness for
    the hypothesis `delegs ≠ []` of T1) -/
theorem election_empty_hangs :
    selectProducers sortPD (fun _ n => List.range n) Gen.NodeCount Gen.RandCount [] 7 = .hang := by decide

/-- RandCount > NodeCount is a misconfiguration on which the real code panics (negative witness for `r ≤ n`) -/
theorem election_rand_gt_node_panics :
    selectProducers sortPD (fun _ n => List.range n) 1 2 [⟨[97], [1], 5⟩] 7 = .panic := by decide

/-- T2 `election_members`: every elected entry is one of the delegations handed in (registered and active
    at the proof momentum) — for any `perm` whatsoever. -/
theorem election_members (sort : List PD → List PD) (perm : Int → Nat → List Nat) (hs : IsSort sort)
    (n r : Nat) (delegs : List PD) (height : Nat) (l : List PD)
    (h : selectProducers sort perm n r delegs height = .ok l) : ∀ x ∈ l, x ∈ delegs := by
  rw [selectProducers_eq] at h
  split at h
  · rename_i producers hprod
    intro x hx
    have hx' := shuffle_mem h x hx
    have hg := groups_perm hs n delegs
    rcases filterRandomSorted_mem hprod x hx' with h' | h'
    · exact hg.subset (List.mem_append_left _ h')
    · exact hg.subset (List.mem_append_right _ h')
  · rename_i hno
    exact absurd h (hno l)

/-- T3 `election_input_order_irrelevant`: if the pillar names are distinct, permuting the input — and even
    exchanging the sorting algorithm — does not change the outcome. -/
theorem election_input_order_irrelevant (s1 s2 : List PD → List PD) (h1 : IsSort s1) (h2 : IsSort s2)
    (perm : Int → Nat → List Nat) (n r : Nat) (d1 d2 : List PD) (height : Nat)
    (hp : d1.Perm d2) (hn : (d1.map PD.name).Nodup) :
    selectProducers s1 perm n r d1 height = selectProducers s2 perm n r d2 height := by
  have key : s1 (filterByWeight s1 n d1).1 = s2 (filterByWeight s2 n d2).1 ∧
      s1 (filterByWeight s1 n d1).2 = s2 (filterByWeight s2 n d2).2 := by
    unfold filterByWeight
    rw [← hp.length_eq]
    split
    · exact ⟨sort_canonical h1 h2 hp hn, by rw [isSort_nil h1, isSort_nil h2]⟩
    · simp only
      have hs : s1 d1 = s2 d2 := sort_canonical h1 h2 hp hn
      rw [← hs]
      have hnn : ((s1 d1).map PD.name).Nodup := ((h1 d1).1.map PD.name).nodup_iff.mpr hn
      constructor
      · apply sort_canonical h1 h2 (List.Perm.refl _)
        exact List.Nodup.sublist ((List.take_sublist _ _).map PD.name) hnn
      · apply sort_canonical h1 h2 (List.Perm.refl _)
        exact List.Nodup.sublist ((List.drop_sublist _ _).map PD.name) hnn
  rw [selectProducers_eq, selectProducers_eq, key.1, key.2]

/-- negative witness for the `Nodup` hypothesis of T3: two registrations with the same name and weight (the
    pillar contract excludes this) make the schedule depend on the input order. -/
theorem election_duplicate_names_order_dependent :
    selectProducers sortPD (fun _ n => List.range n) 2 1 [⟨[97], [1], 5⟩, ⟨[97], [2], 5⟩] 7 ≠
    selectProducers sortPD (fun _ n => List.range n) 2 1 [⟨[97], [2], 5⟩, ⟨[97], [1], 5⟩] 7 := by decide

/-- T4 `election_no_duplicate_when_enough`: with at least as many pillars as slots the elected list is a
    sub-multiset of the delegations: together with the not-elected rest it is a permutation of the input. -/
theorem election_submultiset_when_enough (sort : List PD → List PD) (perm : Int → Nat → List Nat)
    (hs : IsSort sort) (hp : IsPerm perm) (n r : Nat) (hr : r ≤ n)
    (delegs : List PD) (hge : n ≤ delegs.length) (height : Nat) :
    ∃ l others, selectProducers sort perm n r delegs height = .ok l ∧ (l ++ others).Perm delegs := by
  unfold selectProducers filterRandom
  have hlenA := groupA_length hs n delegs
  have hA : (sort (filterByWeight sort n delegs).1).length = n := by omega
  obtain ⟨f, f2, hf, hf2, h1⟩ := filterRandomSorted_split hp hr
    (sort (filterByWeight sort n delegs).2) hA (findSeed height)
  simp only [h1]
  obtain ⟨l, h4, h5⟩ := shuffle_perm hp (f.take (n - r) ++ f2.take r) (findSeed height)
  refine ⟨l, f2.drop r, h4, ?_⟩
  have hg := groups_perm hs n delegs
  -- l ++ drop ~ take f ++ (take f2 ++ drop f2) = take f ++ f2 ~ take f ++ (gB ++ drop f) ~ f ++ gB ~ gA ++ gB
  have e1 : (l ++ f2.drop r).Perm (f.take (n - r) ++ f2) := by
    have := h5.append_right (f2.drop r)
    rwa [List.append_assoc, List.take_append_drop] at this
  have e2 : (f.take (n - r) ++ f2).Perm (f.take (n - r) ++ (f.drop (n - r) ++ sort (filterByWeight sort n delegs).2)) :=
    (hf2.trans List.perm_append_comm).append_left _
  rw [← List.append_assoc, List.take_append_drop] at e2
  exact e1.trans (e2.trans ((hf.append_right _).trans hg))

/-- T4 corollary: with enough pillars and distinct names nobody holds two slots. -/
theorem election_no_duplicate_when_enough (sort : List PD → List PD) (perm : Int → Nat → List Nat)
    (hs : IsSort sort) (hp : IsPerm perm) (n r : Nat) (hr : r ≤ n)
    (delegs : List PD) (hge : n ≤ delegs.length) (hn : (delegs.map PD.name).Nodup) (height : Nat) :
    ∃ l, selectProducers sort perm n r delegs height = .ok l ∧ (l.map PD.name).Nodup := by
  obtain ⟨l, others, h1, h2⟩ := election_submultiset_when_enough sort perm hs hp n r hr delegs hge height
  refine ⟨l, h1, ?_⟩
  have := ((h2.map PD.name).nodup_iff).mpr hn
  rw [List.map_append] at this
  exact (List.nodup_append.mp this).1

/-- with fewer pillars than slots somebody necessarily holds two slots (negative witness for `n ≤ length`) -/
theorem election_repeats_when_few :
    selectProducers sortPD (fun _ n => List.range n) 3 1 [⟨[97], [1], 5⟩, ⟨[98], [2], 5⟩] 7 =
      .ok [⟨[97], [1], 5⟩, ⟨[98], [2], 5⟩, ⟨[97], [1], 5⟩] := by decide

/-- hypotheses are satisfiable: the insertion sort is a sort, the identity permutation is a permutation -/
example : IsSort sortPD := sortPD_isSort
example : IsPerm (fun _ n => List.range n) := fun _ _ => List.Perm.refl _

end ZV.C05
