import ZenonVerif.Lemmas.Downloader
import ZenonVerif.Gen.Proto
/-
C15 — "no message from a remote peer can block the node indefinitely; only the offending peer is dropped": the
SYNCHRONISATION state machine of protocol/downloader (Model/Downloader.lean). Property theorems only.

  (a) `hash_timer_invariant`      while the hash fetcher waits for the peer it synchronises from, the time-out of that request is
                                  armed — in every reachable state, whatever other peers send in between; `hash_wait_times_out`:
                                  `hashTTL` ticks end the wait. Variant (seeded change C15-r2-1: `timeout.Stop()` before the sender
                                  test): `foreign_pack_disarms_timer_in_variant`.
  (b) `sync_terminates_under_silence`   from every reachable state, silence (ticks, each followed by the block fetcher's update)
                                  ends the synchronisation within `measure s` ticks, `measure s ≤ hashTTL + 3 + (requests in flight
                                  + peers)·(blockTTL + 2)` (`silence_bound`).
  (c) `fresh_sync_starts_clean`   a synchronisation that starts finds all three channels and the queue empty, whatever the
                                  previous one left (FU2); `block_fetcher_waits_for_hash_fetcher`, `never_stuck`. Variant
                                  (before 4fc5ee4): `undrained_variant_reaches_deadlock`, `deadlock_is_forever`.
  (d) `blame_deliverer`           whoever is dropped is the one at fault: forged block / failed import — the peer that DELIVERED
                                  it (`cache_records_deliverer`); the origin only for its own time-out, its own hash packs, an
                                  authentic block of its hash chain outside the window, or being unable to serve when nobody
                                  else can (FU1, C15-r2-3). Variant (before 7ec6f07): `forged_height_blames_origin_in_variant`.

The theorems are about `Dl.step Cfg.fixed`, the function the driver replays the p2p-net traces with; `code_is_fixed` and the
`…_in_code` theorems pin, by facts generated from the working tree, that the code is that variant.
-/
namespace ZV.C15Sync
open ZV ZV.Dl

/-! ### the code is the variant the theorems are about (generated facts) -/

/-- fetchHashes, `case hashPack := <-d.hashCh`: the sender test — leave the case when the pack is not from the peer we
    synchronise from — comes first, `timeout.Stop()` after it; an empty pack ends the download through processCh, hashes that are
    not all new end it with errBadPeer, and the case ends with the next request (`getHashes` re-arms the timer:
    `timeout.Reset(hashTTL)`). findAncestor's time-outs are `time.After` channels — nothing can stop them — and both its hashCh
    cases start with the sender test. -/
theorem hash_case_in_code :
    Gen.FetchHashesHashCase =
      ["if hashPack.peerId != p.id { … break }", "timeout.Stop()", "if len(hashPack.hashes) == 0 { … return nil }",
       "inserts := d.queue.Insert(hashPack.hashes, true)", "if len(inserts) != len(hashPack.hashes) { … return errBadPeer }",
       "cont := d.queue.Pending() < maxQueuedHashes", "select { d.processCh <- cont | default }", "if !cont { … return nil }",
       "from += uint64(len(hashPack.hashes))", "getHashes(from)"] ∧
    Gen.FetchHashesSenderTestBeforeStop = true ∧
    Gen.FetchHashesTimerOps = ["time.NewTimer(0)", "timeout.Stop()", "timeout.Reset(hashTTL)", "timeout.Stop()"] ∧
    Gen.FindAncestorTimeouts = ["timeout := time.After(hashTTL)", "timeout := time.After(hashTTL)"] ∧
    Gen.FindAncestorHashCaseFirst = ["if hashPack.peerId != p.id { … break }", "if hashPack.peerId != p.id { … break }"] := by
  decide

/-- synchronise: after the busy test and before `return d.syncWithPeer(…)` a loop receives from hashCh, blockCh and processCh
    until all three are empty (4fc5ee4). -/
theorem drain_in_code :
    Gen.SynchroniseDrainCases = ["<-d.hashCh", "<-d.blockCh", "<-d.processCh", "default"] ∧
    Gen.SynchroniseDrainBeforeSyncWithPeer = true := by decide

/-- queue.Deliver, the loop over the delivered blocks: requested? — `ComputeHash() != hash` ⇒ forged, next block — and only
    then the window test on `block.Height` (7ec6f07); after the loop the open hashes go back to the queue and a forged block
    yields errForgedBlock before anything else (5b338e6). -/
theorem deliver_order_in_code :
    Gen.DeliverLoopTests =
      ["if _, ok := request.Hashes[hash]; !ok { … continue }", "if block.ComputeHash() != hash { … continue }",
       "if index >= len(q.blockCache) || index < 0 { … return errInvalidChain }"] ∧
    Gen.DeliverHashTestBeforeHeight = true ∧
    Gen.DeliverAfterLoop =
      ["for range request.Hashes", "if forged { … return errForgedBlock }",
       "if len(errs) != 0 { … return fmt.Errorf(\"multiple failures: %v\", errs) }", "return nil"] := by decide

/-- what follows each outcome of queue.Deliver in fetchBlocks — errForgedBlock: `d.dropPeer(blockPack.peerId)`, the peer that
    delivered the pack; errInvalidChain: the block fetcher returns it; errStaleDelivery: the peer is not set idle — what follows a
    failed import in process() — `d.dropPeer(blocks[index].OriginPeer)`, then `d.cancel()` — which errors `Synchronise` answers by
    dropping the peer it synchronised from, and the guard under which the handler hands a BlocksMsg to the downloader. -/
theorem outcomes_in_code :
    Gen.FetchBlocksDeliverCases =
      ["nil: peer.SetIdle(); d.process()", "errInvalidChain: return err", "errForgedBlock: d.dropPeer(blockPack.peerId)",
       "errNoFetchesPending: peer.SetIdle()", "errStaleDelivery: ", "default: peer.SetIdle(); d.process()"] ∧
    Gen.ProcessImportFailure = ["d.dropPeer(blocks[index].OriginPeer)", "d.cancel()", "return"] ∧
    Gen.DownloaderProcessDropArgs = ["blocks[index].OriginPeer"] ∧
    Gen.SynchroniseDropErrors =
      ["errTimeout", "errBadPeer", "errStallingPeer", "errBannedHead", "errEmptyHashSet", "errPeersUnavailable",
       "errInvalidChain", "errCrossCheckFailed"] ∧
    Gen.SynchroniseDropArgs = ["id"] ∧
    Gen.HandlerDeliverBlocksGuard = "blocks := pm.fetcher.Filter(blocks); len(blocks) > 0" := by decide

/-- the time-outs: a hash request 5 s, a block request 9 s (`d.queue.Expire(blockHardTTL)`), checked every 100 ms; the forced
    synchronisation cycle 4 s; the three channels hold one value each. In ticks: 50 and 90. -/
theorem timeouts_in_code :
    Gen.DlHashTTLms = 5000 ∧ Gen.DlBlockSoftTTLms = 3000 ∧ Gen.DlBlockHardTTLms = 9000 ∧ Gen.DlCrossCheckCycleMs = 1000 ∧
    Gen.DlTickerMs = 100 ∧ Gen.DlExpireArg = "blockHardTTL" ∧ Gen.ForceSyncCycleMs = 4000 ∧
    Gen.DlHashChCap = 1 ∧ Gen.DlBlockChCap = 1 ∧ Gen.DlProcessChCap = 1 ∧
    Gen.DlMaxQueuedHashes = 262144 ∧ Gen.DlBlockCacheLimit = 4096 ∧ hashTTL = 50 ∧ blockTTL = 90 := by decide

/-- the working tree is the variant the theorems below are stated for -/
theorem code_is_fixed : Cfg.ofCode = Cfg.fixed := by decide

/-- the answers of `Synchronise`, as the model reads them off the generated switch: the faults of the origin peer are answered
    with a drop, "no peers" and a cancellation are not. -/
theorem origin_faults_answered_with_drop :
    (∀ w ∈ [Why.timeout, .emptyHashSet, .badPeer, .invalidChain, .unavailable], w.dropsOrigin = true) ∧
    Why.dropsOrigin .noPeers = false ∧ Why.dropsOrigin .cancelled = false := by decide

/-! ### (a) the time-out of the pending hash request is armed -/

/-- In every reachable state of a running synchronisation whose hash fetcher waits for an answer (head probe, binary search,
    hash download), the time-out of the pending request is armed and fires within `hashTTL` ticks — for all interleavings of
    hash packs, block packs, registrations, departures, imports and cancellations, from whichever peers. -/
theorem hash_timer_invariant {s : State} (h : Reach .fixed s) {r : Run} (hr : s.run = some r)
    (hw : r.hf.waiting = true) : ∃ t, r.timer = some t ∧ 1 ≤ t ∧ t ≤ hashTTL := by
  have ok := (inv_reach h).run r hr
  have := ok.armed hw
  cases ht : r.timer with
  | none => simp [ht] at this
  | some t => exact ⟨t, rfl, ok.range t ht⟩

/-- n ticks and nothing else -/
def ticks (s : State) : Nat → State
  | 0 => s
  | n + 1 => ticks (step .fixed s .tick).1 n

theorem ticks_none {s : State} (h : s.run = none) (n : Nat) : (ticks s n).run = none := by
  induction n generalizing s with
  | zero => exact h
  | succ n ih => exact ih (by simp [step, onTick, h])

theorem ticks_fire {s : State} {r : Run} {t : Nat} (hr : s.run = some r) (ht : r.timer = some t) (h1 : 1 ≤ t) (n : Nat)
    (hn : t ≤ n) : (ticks s n).run = none := by
  induction n generalizing s r t with
  | zero => omega
  | succ n ih =>
    simp only [ticks, step]
    by_cases hle : t ≤ 1
    · apply ticks_none
      simp [onTick, hr, ht, hle]
    · refine ih (r := { r with timer := some (t - 1) }) (t := t - 1) ?_ rfl (by omega) (by omega)
      simp [onTick, hr, ht, hle]

/-- …so ticks alone end the wait: `hashTTL` of them (5 s) after any reachable state in which the hash fetcher waits, the
    synchronisation is over (`Dl.abort` with errTimeout: the silent peer is dropped — `origin_faults_answered_with_drop`). -/
theorem hash_wait_times_out {s : State} (h : Reach .fixed s) {r : Run} (hr : s.run = some r) (hw : r.hf.waiting = true) :
    (ticks s hashTTL).run = none := by
  obtain ⟨t, ht, h1, h2⟩ := hash_timer_invariant h hr hw
  exact ticks_fire hr ht h1 _ h2

/-- the seeded variant: `timeout.Stop()` before the sender test -/
def stopFirst : Cfg := ⟨false, true, true⟩

/-- the run of seeded change C15-r2-1: the node synchronises from peer 1, which answers the head probe and the first hash
    request and then says nothing; peer 2 sends one unsolicited hash pack -/
def foreignPackRun : List Event :=
  [.register 1, .register 2, .sync 1 1, .hashes 1 ⟨[3, 2, 1], .known⟩, .hashes 1 ⟨[3, 2, 1], .unknown⟩, .hashes 2 ⟨[9], .unknown⟩]

/-- In the variant the foreign pack leaves the hash fetcher waiting for peer 1 with NO time-out armed: a reachable state the
    invariant excludes (`stuck`), which no number of ticks leaves; the same run in the code as it is keeps the time-out armed
    and ends after `hashTTL` ticks with peer 1 — and only peer 1 — dropped. -/
theorem foreign_pack_disarms_timer_in_variant :
    (exec stopFirst {} foreignPackRun).1.run = some ⟨1, 1, .fetch, none, .run false⟩ ∧
    stuck (exec stopFirst {} foreignPackRun).1 = true ∧
    (exec .fixed {} foreignPackRun).1.run = some ⟨1, 1, .fetch, some hashTTL, .run false⟩ ∧
    (exec .fixed {} (foreignPackRun ++ List.replicate hashTTL .tick)).2 = [(1, .timeout)] := by decide

/-- a disarmed time-out stays disarmed: with `timer = none` ticks change nothing about the run (any variant) -/
theorem disarmed_forever (cfg : Cfg) {s : State} {r : Run} (hr : s.run = some r) (ht : r.timer = none) :
    (step cfg s .tick).1.run = some r := by
  simp [step, onTick, hr, ht]

/-! ### (b) silence ends a synchronisation -/

/-- From every reachable state: a run of silence — every 100 ms the ticker fires and the block fetcher runs its update,
    handing out requests `cs[i]` such that no idle peer is left unasked while hashes are pending (`MaximalRun`: the loop over
    `IdlePeers()`; which peer gets which hashes is free) — ends the synchronisation after at most `measure s` ticks: the
    remaining ticks of the armed hash time-out, of every request in flight (+1), one block time-out (+2) per peer that can still
    be asked, and the hand-over of the last flag. No peer can prolong it by keeping quiet. -/
theorem sync_terminates_under_silence {s : State} (h : Reach .fixed s) (cs : List (List (Nat × List Nat)))
    (hm : MaximalRun s cs) (hn : measure s ≤ cs.length) : (silentRun s cs).run = none :=
  silent_terminates (inv_reach h) cs hm hn

/-- the bound in the real constants: `hashTTL + 3 + (requests in flight + registered peers) · (blockTTL + 2)` ticks, i.e.
    5.3 s + 9.2 s per request in flight and per peer. -/
theorem silence_bound {s : State} (h : Reach .fixed s) :
    measure s ≤ hashTTL + 3 + (s.inflight.length + s.peers.length) * (blockTTL + 2) :=
  measure_bound (inv_reach h)

/-- every step of silence strictly lowers the measure while a synchronisation runs (the core of (b)) -/
theorem silence_makes_progress {s : State} (h : Reach .fixed s) (rs : List (Nat × List Nat))
    (hm : MaximalAt (step .fixed s .tick).1 rs) (hrun : s.run ≠ none) : measure (quiet s rs) < measure s :=
  quiet_measure (inv_reach h) rs hm hrun

instance (u : State) (rs : List (Nat × List Nat)) : Decidable (MaximalAt u rs) := by
  unfold MaximalAt; exact inferInstance

instance decMaximalRun : (s : State) → (cs : List (List (Nat × List Nat))) → Decidable (MaximalRun s cs)
  | _, [] => isTrue trivial
  | s, c :: cs =>
    have := decMaximalRun (quiet s c) cs
    (inferInstance : Decidable (MaximalAt (step .fixed s .tick).1 c ∧ MaximalRun (quiet s c) cs))

/-! ### (c) a synchronisation starts with empty channels -/

/-- After ANY previous synchronisation — ended normally, by an error, by a cancellation, with whatever is left on hashCh,
    blockCh and processCh (`s` is arbitrary, not only reachable) — a synchronisation that starts finds the three channels
    empty and the queue empty, and is in its first state: head probe sent, time-out armed, block fetcher not started. -/
theorem fresh_sync_starts_clean (s : State) (p head : Nat) (hidle : s.run = none) (r : Run)
    (hstart : (step .fixed s (.sync p head)).1.run = some r) :
    (step .fixed s (.sync p head)).1.hashCh = none ∧ (step .fixed s (.sync p head)).1.blockCh = none ∧
    (step .fixed s (.sync p head)).1.processCh = none ∧ (step .fixed s (.sync p head)).1.pending = [] ∧
    (step .fixed s (.sync p head)).1.inflight = [] ∧ (step .fixed s (.sync p head)).1.cache = [] ∧
    r = ⟨p, head, .probe, some hashTTL, .off⟩ := by
  simp only [step] at hstart ⊢
  unfold onSync at hstart ⊢
  simp only [Cfg.fixed, if_true] at hstart ⊢
  split at hstart
  · simp [hidle] at hstart
  · rw [if_neg (by assumption)]
    split at hstart
    · simp [hidle] at hstart
    · rw [if_neg (by assumption)]
      split at hstart
      · simp [resetQueue, hidle] at hstart
      · rw [if_neg (by assumption)]
        simp [resetQueue] at hstart ⊢
        exact hstart.symm

/-- …hence, in every reachable state of a running synchronisation, the block fetcher has not returned (it returns only together
    with the end of the synchronisation), it has seen the "no more hashes" flag only if the hash fetcher of THIS synchronisation
    has sent it, a `false` on processCh comes from that hash fetcher, and a hash fetcher blocked on its last send has a running
    block fetcher to take it. -/
theorem block_fetcher_waits_for_hash_fetcher {s : State} (h : Reach .fixed s) {r : Run} (hr : s.run = some r) :
    r.bf ≠ .done ∧ (r.bf = .run true → r.hf = .done) ∧ (s.processCh = some false → r.hf = .done) ∧
    (r.hf = .blocked → ∃ fin, r.bf = .run fin) := by
  have ok := (inv_reach h).run r hr
  refine ⟨ok.notDone, ok.fin, ok.flag, ?_⟩
  intro hb
  cases hbf : r.bf with
  | off =>
    rcases ok.off.mp hbf with h1 | ⟨lo, hi, h1⟩ <;> simp [h1] at hb
  | run fin => exact ⟨fin, rfl⟩
  | done => exact absurd hbf ok.notDone

/-- no reachable state is `stuck` (a hash fetcher waiting without a time-out, or the dead end of FU2) -/
theorem never_stuck {s : State} (h : Reach .fixed s) : stuck s = false := by
  unfold stuck
  cases hr : s.run with
  | none => rfl
  | some r =>
    have ok := (inv_reach h).run r hr
    have h1 : (r.hf.waiting && r.timer.isNone) = false := by
      cases hw : r.hf.waiting with
      | false => rfl
      | true =>
        have := ok.armed hw
        cases ht : r.timer <;> simp_all
    have h2 : deadlocked s = false := by
      unfold deadlocked
      simp only [hr]
      cases hbf : r.bf with
      | done => exact absurd hbf ok.notDone
      | _ => simp
    simp [h1, h2]

/-- the variant before 4fc5ee4: the channels are not drained -/
def undrained : Cfg := ⟨true, false, true⟩

/-- the run of FU2. First synchronisation, from peer 1: all hashes delivered, the terminating empty pack puts `false` on
    processCh, and before the block fetcher takes it a block pack ends the synchronisation (here: an authentic block outside the
    window). Second synchronisation, from the honest peer 2: the block fetcher takes the stale `false`, finds nothing to do and
    returns; the hash fetcher downloads the hashes, fills processCh and blocks on its last send. -/
def staleFlagRun : List Event :=
  [.register 1, .register 2, .sync 1 1, .hashes 1 ⟨[3, 2, 1], .known⟩, .hashes 1 ⟨[3, 2, 1], .unknown⟩,
   .update [(1, [3])], .hashes 1 ⟨[], .unknown⟩, .blocks 1 [⟨3, true, false, true⟩],
   .sync 2 1, .hashes 2 ⟨[3, 2, 1], .known⟩, .update [], .hashes 2 ⟨[3, 2, 1], .unknown⟩, .hashes 2 ⟨[], .unknown⟩]

/-- In the variant the run ends in the dead end: hash fetcher blocked on `d.processCh <- false`, block fetcher gone, no time-out
    armed, nothing in flight, synchronising = 1. In the code as it is the same events leave the block fetcher running, and the
    next update takes the flag and lets the hash fetcher finish. -/
theorem undrained_variant_reaches_deadlock :
    (exec undrained {} staleFlagRun).1.run = some ⟨2, 1, .blocked, none, .done⟩ ∧
    deadlocked (exec undrained {} staleFlagRun).1 = true ∧ stuck (exec undrained {} staleFlagRun).1 = true ∧
    (exec undrained {} staleFlagRun).1.cache = [] ∧
    (exec .fixed {} staleFlagRun).1.run = some ⟨2, 1, .blocked, none, .run false⟩ ∧
    (exec .fixed {} (staleFlagRun ++ [.update []])).1.run = some ⟨2, 1, .done, none, .run false⟩ := by decide

/-- …and the dead end is for ever: no hash pack, block pack, tick, update, registration, departure, import or further
    `Synchronise` (it answers errBusy) changes the run — only `Terminate` does, when the node shuts down. Any variant. -/
theorem deadlock_is_forever (cfg : Cfg) {s : State} {r : Run} (hr : s.run = some r) (hb : r.hf = .blocked)
    (hd : r.bf = .done) (ht : r.timer = none) (hc : s.cache = []) (e : Event) (he : e ≠ .cancel) :
    (step cfg s e).1.run = some r ∧ (step cfg s e).1.cache = [] := by
  cases e with
  | register p => simp only [step]; split <;> exact ⟨hr, hc⟩
  | unregister p => exact ⟨hr, hc⟩
  | sync p hd' => simp [step, onSync, hr, hc]
  | hashes p pk => simp only [step, onHashes, hr, hb]; split <;> first | exact ⟨hr, hc⟩ | exact ⟨rfl, hc⟩
  | blocks p items => simp only [step, onBlocks, hr, hd]; split <;> first | exact ⟨hr, hc⟩ | exact ⟨rfl, hc⟩
  | tick => simp [step, onTick, hr, ht, hc]
  | update rs => simp [step, onUpdate, hr, hd, hc]
  | requeue p => exact ⟨hr, hc⟩
  | imp => simp [step, onImp, hc, takeBlocks, hr]
  | cancel => exact absurd rfl he

/-! ### (d) only the offender is dropped -/

/-- Whenever an event makes the node drop a peer, `Blame` holds — for EVERY state and event:
    * errForgedBlock — the event is a block pack of the dropped peer itself, and it holds a block filed under a hash requested
      from that peer that does not hash to it;
    * failed import — the block the import refused lies in the cache under the dropped peer's name (`cache_records_deliverer`:
      an entry carries the name of the peer whose pack put it there);
    * the peer the node synchronises from — only for the time-out of a hash request pending at it, for a hash pack of its
      own (empty head set; malformed or stale hashes), for an AUTHENTIC block (hash matches, so the height is the one the hash
      commits to) of its hash chain outside the download window, or when nothing is in flight, hashes are left and no peer —
      it included — is idle to be asked;
    * errNoPeers and a cancellation drop nobody. -/
theorem blame_deliverer (s : State) (e : Event) (p : Nat) (w : Why) (h : (p, w) ∈ (step .fixed s e).2) : Blame s e p w :=
  blame_step s e p w h

/-- an entry of the block cache is there since before, or the event is a block pack of the peer the entry names, holding that
    block under a hash requested from that peer, and the entry is importable only if the block is genuine -/
theorem cache_records_deliverer (s : State) (e : Event) :
    ∀ b ∈ (step .fixed s e).1.cache, b ∈ s.cache ∨
      ∃ items, e = .blocks b.src items ∧ ∃ it ∈ items, it.id = b.id ∧ b.ok = (it.valid && it.hashOk) ∧
        requestedFrom s b.src it.id :=
  cache_step s e

/-- the variant before 7ec6f07: the height of a delivered block is used before its hash is checked -/
def heightTrusted : Cfg := ⟨true, true, false⟩

/-- the run of FU1: the node synchronises from the honest peer 1; peer 2, asked for block 3, answers with the requested hash
    and a false height (so the block does not hash to it) -/
def forgedHeightRun : List Event :=
  [.register 1, .register 2, .sync 1 1, .hashes 1 ⟨[3, 2, 1], .known⟩, .hashes 1 ⟨[3, 2, 1], .unknown⟩,
   .update [(2, [3]), (1, [2])], .blocks 2 [⟨3, false, false, false⟩]]

/-- In the variant the forged height is "an invalid hash chain" and the ORIGIN, peer 1, is dropped for peer 2's delivery, the
    synchronisation is over and peer 2 stays. In the code as it is peer 2 — the deliverer — is dropped, peer 1 stays, the
    synchronisation goes on and the hash is back in the queue. -/
theorem forged_height_blames_origin_in_variant :
    (exec heightTrusted {} forgedHeightRun).2 = [(1, .invalidChain)] ∧
    (exec heightTrusted {} forgedHeightRun).1.run = none ∧
    (exec heightTrusted {} forgedHeightRun).1.peers = [⟨2, false⟩] ∧
    (exec .fixed {} forgedHeightRun).2 = [(2, .forged)] ∧
    (exec .fixed {} forgedHeightRun).1.peers = [⟨1, false⟩] ∧
    (exec .fixed {} forgedHeightRun).1.pending = [1, 3] ∧
    ((exec .fixed {} forgedHeightRun).1.run.map (·.origin)) = some 1 := by decide

/-- a batch assembled from two peers: blocks 1 and 2 genuine from peer 1, block 3 — genuine hash, refused by the import (a
    forged signature) — from peer 2: the import fails at index 2 and peer 2 is dropped, whoever the node synchronises from
    (C15-r2-3: the index must be the position in the batch as handed over — `C15.import_failure_blames_deliverer`). -/
theorem import_failure_drops_deliverer_example :
    (exec .fixed {}
      [.register 1, .register 2, .sync 1 1, .hashes 1 ⟨[3, 2, 1], .known⟩, .hashes 1 ⟨[3, 2, 1], .unknown⟩,
       .hashes 1 ⟨[], .unknown⟩, .update [(2, [3]), (1, [2, 1])], .blocks 2 [⟨3, true, true, false⟩], .imp,
       .blocks 1 [⟨2, true, true, true⟩, ⟨1, true, true, true⟩], .imp]).2 = [(2, .importFailed)] := by decide

/-! ### a peer that LEFT with a request in flight (seeded C15-r3-3)

`unregister` removes the peer from the peer set and nothing else: what the node had asked it for stays in flight — the hash
request until its time-out fires (`hash_wait_times_out`), the block request until `queue.Expire` hands it back. Both are then
dealt with by code that can no longer look the peer up. In the model that code does not look at the peer set at all; the
theorems say what it must therefore do for EVERY peer, registered or not: hand the hashes back, drop nobody who is not
registered. (The Go loop over `queue.Expire` has to skip the peers it cannot find: the `p2p-net` family `leaver-…` runs the
real node through it.) -/

/-- `queue.Expire`: the hashes of every request whose time is up go back to the queue and the request is forgotten, whoever it
    was handed to — a registered peer or one that has left since; the peer set is not touched -/
theorem expired_request_goes_back (q : Sched) (x : Req) (hx : x ∈ q.inflight) (h0 : x.left = 0) :
    (∀ id ∈ x.ids, id ∈ (expire q).pending) ∧ x ∉ (expire q).inflight ∧ (expire q).peers = q.peers := by
  refine ⟨?_, ?_, rfl⟩
  · intro id hid
    simp only [expire, List.mem_append, List.mem_flatMap, List.mem_filter]
    exact Or.inr ⟨x, ⟨hx, by simp [h0]⟩, hid⟩
  · simp [expire, h0]

theorem abort_drop_registered {s : State} {r : Run} {w0 : Why} {d : Drop} (h : d ∈ (abort s r w0).2) :
    registered s d.1 = true := by
  unfold abort at h
  simp only at h
  split at h
  · unfold dropPeer at h
    split at h
    · next hr =>
      simp at h
      subst h
      simpa [registered, resetQueue] using hr
    · simp at h
  · simp at h

/-- whoever an `update` of the block fetcher drops is registered at that moment. The expiry of a request drops nobody — the
    only drop of an update is the origin when nobody can be asked (`blame_deliverer`) —, and nothing at all is done to a peer
    that is no longer registered, whatever it still has in flight. -/
theorem update_drops_only_registered (s : State) (rs : List (Nat × List Nat)) (p : Nat) (w : Why)
    (h : (p, w) ∈ (step .fixed s (.update rs)).2) : registered s p = true := by
  change (p, w) ∈ (onUpdate s rs).2 at h
  unfold onUpdate at h
  split at h
  · simp at h
  · next r hr =>
    split at h
    · next fin hb =>
      simp only at h
      split at h
      · have := (abort_drops h).2
        rw [noPeers_no_drop] at this
        cases this
      · split at h
        · split at h <;> simp at h
        · split at h
          · next hc =>
            simp only [Bool.and_eq_true, List.isEmpty_iff, Bool.not_eq_true'] at hc
            have heq := reserve_of_inflight_nil _ _ hc.1
            rw [heq] at h
            have := abort_drop_registered h
            simpa [registered, State.withSched, State.sched, expire] using this
          · simp at h
    · simp at h

/-- the scenario of C15-r3-3 in the model: the node (height 1) synchronises from peer 1; peer 2, idle, is handed the request for
    hash 3 and LEAVES without answering; peer 1 delivers 2 and 1, which are imported… -/
def leaverRun : List Event :=
  [.register 1, .register 2, .sync 1 1, .hashes 1 ⟨[3, 2, 1], .known⟩, .hashes 1 ⟨[3, 2, 1], .unknown⟩,
   .hashes 1 ⟨[], .unknown⟩, .update [(2, [3]), (1, [2, 1])], .unregister 2,
   .blocks 1 [⟨2, true, true, true⟩, ⟨1, true, true, true⟩], .imp]

/-- …and `blockTTL` ticks of the block fetcher later -/
def leaverWait : List Event := (List.replicate blockTTL [Event.tick, Event.update []]).flatten

set_option maxRecDepth 100000 in
/-- until the request expires it stays in flight at the peer that left and the synchronisation waits for it; the expiry drops
    nobody, the hash is back in the queue, the synchronisation goes on… -/
theorem departed_peer_request_expires :
    (exec .fixed {} leaverRun).1.inflight = [⟨2, [3], blockTTL⟩] ∧
    registered (exec .fixed {} leaverRun).1 2 = false ∧
    (exec .fixed {} (leaverRun ++ leaverWait)).2 = [] ∧
    (exec .fixed {} (leaverRun ++ leaverWait)).1.pending = [3] ∧
    (exec .fixed {} (leaverRun ++ leaverWait)).1.inflight = [] ∧
    (exec .fixed {} (leaverRun ++ leaverWait)).1.run.isSome = true := by decide

set_option maxRecDepth 100000 in
/-- …the peer that stayed is asked, delivers, the import reaches height 3 and the synchronisation ends: nobody was dropped -/
theorem departed_peer_request_served_by_the_other :
    (exec .fixed {} (leaverRun ++ leaverWait ++
      [.update [(1, [3])], .blocks 1 [⟨3, true, true, true⟩], .imp, .update []])) =
    ({ peers := [⟨1, true⟩], offset := 4, head := 3 }, []) := by decide

/-! ### the hypotheses are satisfiable -/

/-- an honest synchronisation: probe, two search steps, three hashes, three blocks from two peers, import; nobody dropped, the
    node at height 5, no synchronisation left -/
example :
    (exec .fixed { head := 3 }
      [.register 1, .register 2, .sync 1 3, .hashes 1 ⟨[5, 4, 3, 2, 1], .known⟩, .hashes 1 ⟨[1], .known⟩,
       .hashes 1 ⟨[2], .known⟩, .hashes 1 ⟨[5, 4, 3], .unknown⟩, .update [(1, [5]), (2, [4])],
       .hashes 1 ⟨[], .unknown⟩, .blocks 2 [⟨4, true, true, true⟩], .blocks 1 [⟨5, true, true, true⟩],
       .update [(1, [3])], .blocks 1 [⟨3, true, true, true⟩], .imp, .update []]) =
    ({ peers := [⟨1, true⟩, ⟨2, true⟩], offset := 6, head := 5 }, []) := by decide

/-- (a): a state with a waiting hash fetcher is reachable (after the head probe was sent) -/
example : ∃ s r, Reach .fixed s ∧ s.run = some r ∧ r.hf.waiting = true :=
  ⟨_, _, .step (.sync 1 1) (.step (.register 1) (.init 0)), rfl, rfl⟩

/-- (b): a reachable state with a synchronisation running, two requests in flight at silent peers, measure 233; 233 steps of
    silence with no request handed out are a maximal run (nobody is idle) -/
def silentState : State :=
  (exec .fixed {}
    [.register 1, .register 2, .sync 1 1, .hashes 1 ⟨[3, 2, 1], .known⟩, .hashes 1 ⟨[3, 2, 1], .unknown⟩,
     .update [(1, [3]), (2, [2])]]).1

example : measure silentState = 233 ∧ silentState.run.isSome = true := by decide

set_option maxRecDepth 100000 in
example : MaximalRun silentState (List.replicate 233 []) := by decide

theorem reach_exec {cfg : Cfg} {s : State} (h : Reach cfg s) (es : List Event) : Reach cfg (exec cfg s es).1 := by
  induction es generalizing s with
  | nil => exact h
  | cons e es ih => exact ih (.step e h)

set_option maxRecDepth 100000 in
/-- …so the theorem applies: 23.3 s of silence end that synchronisation -/
example : (silentRun silentState (List.replicate 233 [])).run = none :=
  sync_terminates_under_silence (reach_exec (.init 0) _) _ (by decide) (by decide)

/-- (c): a state with no synchronisation and something left in every channel and in the queue… -/
def leftovers : State :=
  { peers := [⟨1, false⟩], hashCh := some (2, ⟨[], .unknown⟩), blockCh := some (2, []), processCh := some false,
    pending := [7] }

/-- …in which a synchronisation starts -/
example : (step .fixed leftovers (.sync 1 4)).1 =
    { peers := [⟨1, true⟩], run := some ⟨1, 4, .probe, some hashTTL, .off⟩, head := 4 } := by decide

end ZV.C15Sync
