import ZenonVerif.Lemmas.Contracts
/-
C10, clause "never earlier than its lock allows" against the ADMINISTRATION of the liquidity contract: the lock of a
liquidity stake entry does not depend on the administrator-managed configuration. Whatever history of receives happens
before the entry's expiration time — token tuples replaced (the staked token removed, re-added, re-weighted, minimum
raised; all tuples removed), unlocks of OTHER tokens, unlock calls by non-administrators, BurnZnn, other stakes and
cancels, the owner's own cancel attempts — the entry is still there, with its amount and its expiration time, and the
owner's cancel is refused. The ONE exception is the administrator's UnlockLiquidityStakeEntries carrying the entry's
token (`unlock_is_the_only_early_release`). Tie: the contract stream replays LiquidityStake / CancelLiquidityStake /
UnlockLiquidityStakeEntries receives and the K-liq-tuples configuration through these very methods (Driver/Contracts)
in the lock-vs-administration scenario of every liquidity history (harness/cmd/zvh/s_contract_admin.go).
-/
namespace ZV.C10LockConfig
open ZV.Contracts

/-- one receive of the liquidity contract, administration included -/
inductive LiqEv where
  | stake (duration : Int)
  | cancel (id : Hash)
  | setTuples (isAdmin : Bool) (ts : List (Tok × Nat))
  | unlock (isAdmin : Bool)
  | burn (amount : Nat) (isSpork : Bool)

def LiqEv.method (P : Params) : LiqEv → Method Liquidity
  | .stake d => liquidityStake P d
  | .cancel id => cancelLiquidityStake id
  | .setTuples a ts => setLiquidityTuples a ts
  | .unlock a => unlockLiquidityStakeEntries a
  | .burn x sp => liquidityBurnZnn x sp

/-- the receive is the administrator's unlock of token `tok` -/
def unlocks (tok : Tok) : LiqEv × Ctx → Prop
  | (.unlock true, c) => c.token = tok
  | _ => False

/-- the receive is a LiquidityStake stored under key `k` (an entry's id is the hash of its send block: it never is the
    id of an existing entry) -/
def restakes (k : Addr × Hash) : LiqEv × Ctx → Prop
  | (.stake _, c) => (c.sender, c.hash) = k
  | _ => False

theorem lookup_map_val {κ ν : Type} [DecidableEq κ] (g : ν → ν) (k : κ) (l : List (κ × ν)) :
    lookup k (l.map fun ke => (ke.1, g ke.2)) = (lookup k l).map g := by
  induction l with
  | nil => rfl
  | cons x r ih =>
    obtain ⟨k', v⟩ := x
    by_cases h : k' = k
    · simp [lookup, h]
    · simp [lookup, h, ih]

/-- one receive before the expiration time, other than the administrator's unlock of the entry's token: the method,
    if it applies at all, leaves the entry as it is -/
theorem method_keeps_lock (P : Params) (ev : LiqEv) (c : Ctx) (s s' : Liquidity) (ps : List Payout)
    (k : Addr × Hash) (e : LStakeE) (he : lookup k s.entries = some e)
    (hu : ¬ unlocks e.tok (ev, c)) (hr : ¬ restakes k (ev, c)) (hearly : c.now < e.expiration)
    (h : ev.method P s c = some (s', ps)) : lookup k s'.entries = some e := by
  cases ev with
  | stake d =>
    simp only [LiqEv.method, liquidityStake] at h
    split at h
    · cases h
    · split at h
      · cases h
      · split at h
        · cases h
        · simp only [Option.some.injEq, Prod.mk.injEq] at h
          obtain ⟨h, _⟩ := h
          subst h
          have hne : k ≠ (c.sender, c.hash) := fun x => hr (by simp [restakes, x])
          simp only
          rw [lookup_put_ne hne]; exact he
  | cancel id =>
    simp only [LiqEv.method, cancelLiquidityStake] at h
    split at h
    · cases h
    · split at h
      · cases h
      · rename_i e2 he2
        split at h
        · cases h
        · rename_i hexp
          simp only [Option.some.injEq, Prod.mk.injEq] at h
          obtain ⟨h, _⟩ := h
          subst h
          by_cases hk : k = (c.sender, id)
          · subst hk
            rw [he] at he2
            cases he2
            omega
          · simp only
            rw [lookup_put_ne hk]; exact he
  | setTuples a ts =>
    simp only [LiqEv.method, setLiquidityTuples] at h
    split at h
    · cases h
    · split at h
      · cases h
      · simp only [Option.some.injEq, Prod.mk.injEq] at h
        obtain ⟨h, _⟩ := h
        subst h
        exact he
  | unlock a =>
    simp only [LiqEv.method, unlockLiquidityStakeEntries] at h
    split at h
    · cases h
    · split at h
      · cases h
      · rename_i hadm
        simp only [Option.some.injEq, Prod.mk.injEq] at h
        obtain ⟨h, _⟩ := h
        subst h
        have ha : a = true := by cases a <;> simp_all
        subst ha
        have htok : ¬ e.tok = c.token := fun x => hu (by simp [unlocks, x])
        simp only
        rw [lookup_map_val, he]
        simp [unlockEntry, htok]
  | burn x sp =>
    simp only [LiqEv.method, liquidityBurnZnn] at h
    split at h
    · cases h
    · simp only [Option.some.injEq, Prod.mk.injEq] at h
      obtain ⟨h, _⟩ := h
      subst h
      exact he

/-- the same through the VM skeleton (applied, refused, or refunded for lack of funds) -/
theorem vmStep_keeps_lock (P : Params) (ev : LiqEv) (c : Ctx) (s : Liquidity) (bal : Bal)
    (k : Addr × Hash) (e : LStakeE) (he : lookup k s.entries = some e)
    (hu : ¬ unlocks e.tok (ev, c)) (hr : ¬ restakes k (ev, c)) (hearly : c.now < e.expiration) :
    lookup k (vmStep (ev.method P) s bal c).st.entries = some e := by
  unfold vmStep
  cases hm : ev.method P s c with
  | none => simpa using he
  | some r =>
    obtain ⟨s', ps⟩ := r
    have h' := method_keeps_lock P ev c s s' ps k e he hu hr hearly hm
    simp only
    split
    · exact he
    · exact h'

/-- C10 (liquidity, lock vs administration): for EVERY history of receives before the expiration time of an entry that
    does not contain the administrator's unlock of the entry's token — every token-tuple configuration history
    included — the entry is untouched: same amount, same expiration time, still stored. -/
theorem liquidity_lock_independent_of_configuration (P : Params) (evs : List (LiqEv × Ctx)) (s : Liquidity) (bal : Bal)
    (k : Addr × Hash) (e : LStakeE) (he : lookup k s.entries = some e)
    (hcfg : ∀ ev ∈ evs, ¬ unlocks e.tok ev ∧ ¬ restakes k ev)
    (hearly : ∀ ev ∈ evs, ev.2.now < e.expiration) :
    lookup k (run (LiqEv.method P) (s, bal) evs).1.entries = some e := by
  induction evs generalizing s bal with
  | nil => exact he
  | cons ev r ih =>
    obtain ⟨o, c⟩ := ev
    simp only [run]
    apply ih
    · exact vmStep_keeps_lock P o c s bal k e he (hcfg (o, c) (by simp)).1 (hcfg (o, c) (by simp)).2 (hearly (o, c) (by simp))
    · intro ev hev; exact hcfg ev (by simp [hev])
    · intro ev hev; exact hearly ev (by simp [hev])

/-- … hence the owner's cancel before the expiration time is refused after every such history: nothing is paid, the
    state is unchanged -/
theorem early_cancel_refused_whatever_the_configuration (P : Params) (evs : List (LiqEv × Ctx)) (s : Liquidity) (bal : Bal)
    (k : Addr × Hash) (e : LStakeE) (he : lookup k s.entries = some e)
    (hcfg : ∀ ev ∈ evs, ¬ unlocks e.tok ev ∧ ¬ restakes k ev)
    (hearly : ∀ ev ∈ evs, ev.2.now < e.expiration)
    (c : Ctx) (hc : c.now < e.expiration) (hs : c.sender = k.1) :
    cancelLiquidityStake k.2 (run (LiqEv.method P) (s, bal) evs).1 c = none := by
  have h := liquidity_lock_independent_of_configuration P evs s bal k e he hcfg hearly
  unfold cancelLiquidityStake
  split
  · rfl
  · have hk : (c.sender, k.2) = k := by rw [hs]
    rw [hk, h]
    simp only
    split
    · rfl
    · omega

/-- the one legitimate early release: after the administrator's unlock of the entry's token at time t the entry's
    expiration time is t (if it was later), and the owner's cancel from t on pays the locked amount to the owner -/
theorem unlock_is_the_only_early_release (s s' : Liquidity) (c : Ctx) (ps : List Payout)
    (k : Addr × Hash) (e : LStakeE) (he : lookup k s.entries = some e) (htok : c.token = e.tok) (hlocked : c.now < e.expiration)
    (h : unlockLiquidityStakeEntries true s c = some (s', ps)) :
    ps = [] ∧ lookup k s'.entries = some { e with expiration := c.now } ∧
    ∀ c2 : Ctx, c2.sender = k.1 → c2.amount = 0 → c.now ≤ c2.now →
      ∃ s'', cancelLiquidityStake k.2 s' c2 = some (s'', [⟨k.1, e.tok, e.amount, .none⟩]) := by
  simp only [unlockLiquidityStakeEntries] at h
  split at h
  · cases h
  · simp only [Bool.not_true, Bool.false_eq_true, ↓reduceIte, Option.some.injEq, Prod.mk.injEq] at h
    obtain ⟨h, hps⟩ := h
    subst h
    have hl : lookup k (s.entries.map fun ke => (ke.1, unlockEntry c ke.2)) = some { e with expiration := c.now } := by
      rw [lookup_map_val, he]
      simp [unlockEntry, htok, hlocked]
    refine ⟨hps.symm, hl, ?_⟩
    intro c2 hs ha hn
    unfold cancelLiquidityStake
    have hk : (c2.sender, k.2) = k := by rw [hs]
    simp only [ha, ne_eq, not_true_eq_false, ↓reduceIte, hk, hl]
    split
    · omega
    · exact ⟨_, by rw [hs]⟩

/-- non-vacuity: stake, the administrator removes every tuple, a non-administrator's unlock, the administrator's unlock
    of another token — the early cancel is refused; after the administrator's unlock of the token it is paid -/
example :
    let P : Params := { Params.production with stakeTimeUnit := 100, stakeTimeMin := 100, stakeTimeMax := 1200 }
    let s0 : Liquidity := { tuples := [(znnTok, 1)] }
    let r1 := vmStep (liquidityStake P 300) s0 [] ⟨1000, 1, 16, 5, znnTok, 7⟩
    let evs : List (LiqEv × Ctx) := [(.setTuples true [], ⟨1010, 2, 99, 0, znnTok, 8⟩), (.unlock false, ⟨1020, 3, 16, 0, znnTok, 9⟩),
      (.unlock true, ⟨1030, 4, 99, 0, qsrTok, 10⟩), (.cancel 7, ⟨1040, 5, 16, 0, znnTok, 11⟩)]
    let r2 := run (LiqEv.method P) (r1.st, r1.bal) evs
    r1.status = 1 ∧ (lookup (16, 7) r2.1.entries).map (·.expiration) = some 1300 ∧ r2.1.tuples = [] ∧
    (vmStep (cancelLiquidityStake 7) r2.1 r2.2 ⟨1050, 6, 16, 0, znnTok, 12⟩).status = 2 ∧
    (let r3 := vmStep (unlockLiquidityStakeEntries true) r2.1 r2.2 ⟨1060, 7, 99, 0, znnTok, 13⟩
     (vmStep (cancelLiquidityStake 7) r3.st r3.bal ⟨1070, 8, 16, 0, znnTok, 14⟩).descs.map (fun p => (p.dst, p.amt)) = [(16, 5)]) := by
  decide

end ZV.C10LockConfig
