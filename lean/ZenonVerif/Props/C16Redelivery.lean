import ZenonVerif.Props.C16
/-
C16 — "verification verdicts are not remembered across deliveries".

The statement of C16 is about what is DELIVERED: "whose every momentum and account block passes full verification in order.
The node never ends up holding a momentum or account block that failed verification". Two deliveries may carry the same
identifier (hash, height) with different content in the fields the hash does not cover (signature, public key): in
Model/Sync.lean these are two different `DM`s with the same `hash`/`height` (the `body` differs) and the oracle `valid` may
answer differently for them. `insertChain` has no state besides the node's chain, so over ANY history of deliveries
(`deliverAll`) the node only ever holds elements of its initial chain and delivered elements for which `valid` answered true
on the delivered copy — in particular a variant that fails verification is never held, whatever the node verified, held,
lost in a reorganisation or refused before under the same identifier. The stream ties this to the code with the flip-flop
histories of harness/cmd/zvh/s_syncbatches_again.go (a verdict remembered by hash in the real verifier shows up as a DIFF on
the sync-insert / nr-deliver line of the re-delivery and as a failure of the model-free monitors M1/M3/M7).
-/
namespace ZV.C16Redelivery
open ZV ZV.Proto ZV.Sync ZV.C16

/-- a node's life: one delivery after the other, each on the node the previous one left -/
def deliverAll (valid : DM → Bool) (n : Node) : List (List DM) → Node
  | [] => n
  | ms :: rest => deliverAll valid (insertChain valid n ms).1 rest

/-- one delivery: every element of the node's chain afterwards was on its chain before, or is an element of THIS batch (the
    delivered copy itself) on which the oracle answered true. -/
theorem delivery_holds_only_verified (valid : DM → Bool) (n : Node) (ms : List DM) :
    ∀ d ∈ (insertChain valid n ms).1.chain, d ∈ n.chain ∨ (d ∈ ms ∧ valid d = true) := by
  intro d hd
  obtain ⟨⟨k, new, _, hchain, hpre, hval⟩, _⟩ := only_verified valid n ms
  rw [hchain] at hd
  rcases List.mem_append.mp hd with h | h
  · exact Or.inl (List.mem_of_mem_take h)
  · refine Or.inr ⟨?_, hval d h⟩
    obtain ⟨known, hk, _⟩ := dropKnown_split n ms
    rw [hk]
    exact List.mem_append_right _ (hpre.subset h)

/-- `history_holds_only_verified`: after any history of deliveries every element of the node's chain is an element of its
    initial chain or passed verification as delivered. No premise on the batches: extensions, side chains, batches that fail,
    re-deliveries of held, abandoned or refused elements under the same hash. -/
theorem history_holds_only_verified (valid : DM → Bool) : ∀ (bs : List (List DM)) (n : Node),
    ∀ d ∈ (deliverAll valid n bs).chain, d ∈ n.chain ∨ valid d = true := by
  intro bs
  induction bs with
  | nil => intro n d hd; exact Or.inl hd
  | cons ms rest ih =>
    intro n d hd
    rcases ih (insertChain valid n ms).1 d hd with h | h
    · rcases delivery_holds_only_verified valid n ms d h with h' | ⟨_, h'⟩
      · exact Or.inl h'
      · exact Or.inr h'
    · exact Or.inr h

/-- `failed_variant_never_held`: a delivered copy `d'` that fails verification and that the node does not hold to begin with
    is not held after any history of deliveries — even when the history made the node verify and hold (and lose again) another
    copy `d` with the same hash and height, `valid d = true` (`flip_flop_witness` is such a history). -/
theorem failed_variant_never_held (valid : DM → Bool) (n : Node) (d' : DM) (hbad : valid d' = false) (hnot : d' ∉ n.chain)
    (bs : List (List DM)) : d' ∉ (deliverAll valid n bs).chain := by
  intro h
  rcases history_holds_only_verified valid bs n d' h with h1 | h1
  · exact hnot h1
  · rw [hbad] at h1; exact Bool.noConfusion h1

/-- the history of the stream's directed part on the model (oracle: low bit of `body`, as the driver reads it off a line):
    the node adopts A2; the longer side chain C2,C3 rolls A2 back; the still longer A2',A3,A4 — A2' has the hash and height of
    A2 and fails verification — is refused at index 0 (the rollback has happened: F7d) and A2' is not held; the same batch again
    is refused at index 0 again; the honest A2,A3,A4 is adopted afterwards. -/
theorem flip_flop_witness :
    let v : DM → Bool := fun d => d.body % 2 == 1
    let g : DM := ⟨1, 10, 0, 1⟩
    let a2 : DM := ⟨2, 20, 10, 1⟩
    let a2' : DM := ⟨2, 20, 10, 0⟩
    let a3 : DM := ⟨3, 30, 20, 1⟩
    let a4 : DM := ⟨4, 40, 30, 1⟩
    let c2 : DM := ⟨2, 21, 10, 1⟩
    let c3 : DM := ⟨3, 31, 21, 1⟩
    let n0 : Node := { genesis := g, rest := [] }
    a2'.id = a2.id ∧
    insertChain v n0 [a2] = ({ n0 with rest := [a2] }, 0, .ok) ∧
    insertChain v { n0 with rest := [a2] } [c2, c3] = ({ n0 with rest := [c2, c3] }, 0, .ok) ∧
    insertChain v { n0 with rest := [c2, c3] } [a2', a3, a4] = (n0, 0, .errVerify) ∧
    insertChain v n0 [a2', a3, a4] = (n0, 0, .errVerify) ∧
    insertChain v n0 [a2, a3, a4] = ({ n0 with rest := [a2, a3, a4] }, 0, .ok) ∧
    -- the variant of a HELD element in front of an honest extension is skipped, the node keeps its own copy
    insertChain v { n0 with rest := [a2] } [a2', a3] = ({ n0 with rest := [a2, a3] }, 0, .ok) ∧
    a2' ∉ (deliverAll v n0 [[a2], [c2, c3], [a2', a3, a4], [a2', a3, a4], [a2, a3, a4]]).chain := by
  decide

/-- non-vacuity of `failed_variant_never_held`: its hypotheses hold for the witness's variant on the genesis-only node -/
example : (fun d : DM => d.body % 2 == 1) ⟨2, 20, 10, 0⟩ = false ∧
    (⟨2, 20, 10, 0⟩ : DM) ∉ ({ genesis := ⟨1, 10, 0, 1⟩, rest := [] } : Node).chain := by decide

end ZV.C16Redelivery
