import ZenonVerif.Model.Ledger
/-
C01 — token supply conservation. Property theorems only.
-/
namespace ZV.C01
open ZV.Ledger

/-- T2′ (send side): an accepted send never spends more than the account holds — the debit cannot underflow. -/
theorem send_within_balance (s s' : State) (src dst : Addr) (tok : Tok) (amt : Nat) (h : Hash) (call : TokCall)
    (hok : applySend s src dst tok amt h call = .ok s') (ht : tok ≠ zeroTok) :
    amt ≤ getBal s.bal src tok := by
  unfold applySend at hok
  split at hok
  · cases hok
  · split at hok
    · cases hok
    · rename_i h2
      simp only [bne_iff_ne, ne_eq, Bool.and_eq_true, decide_eq_true_eq, not_and, Nat.not_lt] at h2
      exact h2 ht

/-- a send of the zero token standard carries no amount -/
theorem zero_token_send_is_empty (s s' : State) (src dst : Addr) (amt : Nat) (h : Hash) (call : TokCall)
    (hok : applySend s src dst zeroTok amt h call = .ok s') : amt = 0 := by
  unfold applySend at hok
  split at hok
  · cases hok
  · rename_i h1
    simp at h1
    omega

/-- scenario for the negative witness: U1(=16) sends 7 ZNN to U2(=17); U3(=18) and then U2 receive it -/
def doubleReceive (gate : Bool) : Except Err Nat := do
  let s0 : State := { State.init gate with bal := [((16, znnTok), 10)], toks := [(znnTok, ⟨10, 100, true, true, 1⟩)] }
  let s1 ← usend s0 16 17 znnTok 7 0 TokCall.none
  let s2 ← urecv s1 18 0
  let s3 ← urecv s2 17 0
  pure (getBal s3.bal 16 znnTok + getBal s3.bal 17 znnTok + getBal s3.bal 18 znnTok)

/-- N1 (negative witness, finding F8): below the receiver-enforcement height the rules accept a receive of a send
    by a third account and then by its addressee — balances sum to 17 while the recorded supply stays 10. -/
theorem pre_gate_double_receive : doubleReceive false = .ok 17 := by rfl

/-- with the gate on, the third-party receive is refused -/
theorem post_gate_third_party_refused : doubleReceive true = .error Err.receiverMismatch := by rfl

end ZV.C01
