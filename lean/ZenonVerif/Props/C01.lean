import ZenonVerif.Model.Ledger
import ZenonVerif.Lemmas.LedgerReach
import ZenonVerif.Lemmas.LedgerDemo
/-
C01 — token supply conservation. Property theorems only (helpers are in Lemmas/Ledger*.lean).

Vocabulary (Lemmas/LedgerStep.lean, LedgerInv.lean, LedgerCons.lean):
  `Ev` / `step`      the three accepted block kinds: user send, user receive, contract receive with its observed outcome
  `Fresh s e`        the hashes of the sends that `e` adds are pairwise distinct and not hashes of confirmed sends
  `Admissible s e`   `Fresh` + the send-time validation of token calls the model does not repeat (`CallOk`: issue has total ≤ max)
  `Reach s0 s`       `s` is reached from `s0` by accepted admissible events
  `WF s`             one balance entry per (address, token); distinct send hashes; one storage entry per token; every marker
                     refers to a confirmed send; markers distinct; under the gate a marker belongs to the send's addressee;
                     zero-token sends carry no amount
  `sumBal s t`       Σ of all balance entries of token t        `inflightSum s t`  Σ amounts of token t over `s.unreceived`
  `supplyOf s t`     supply recorded in the token contract's storage, 0 for an unknown token
  `Conserved s`      ∀ t ≠ zeroTok, supplyOf s t = sumBal s t + inflightSum s t
-/
namespace ZV.C01
open ZV.Ledger

/-! ## T1 — conservation -/

/-- T1, one step: above the receiver-enforcement height every accepted block with fresh hashes preserves
    well-formedness and `supply = Σ balances + Σ unreceived sends` for every token. For `issue` the new token had no
    storage entry, hence (by `Conserved` before) supply 0 = no balances and nothing in flight. -/
theorem conservation_step (s s' : State) (e : Ev) (hg : s.gate = true) (hw : WF s) (hc : Conserved s)
    (hf : Fresh s e) (hok : step s e = .ok s') : WF s' ∧ Conserved s' :=
  ⟨step_wf hw hf hok, step_conserved hg hw hc hf hok⟩

/-- T1: conservation holds in every state reachable from a well-formed conserved state above the enforcement height. -/
theorem conservation (s0 s : State) (hg : s0.gate = true) (hw : WF s0) (hc : Conserved s0) (hr : Reach s0 s) :
    WF s ∧ Conserved s :=
  hr.conserved hg hw hc

/-- T1 from the empty ledger (no balances, no tokens): everything that exists was issued through the token contract. -/
theorem conservation_from_empty (s : State) (hr : Reach (State.init true) s) : Conserved s :=
  (hr.conserved rfl (wf_init true) (inv_init true).conserved).2

/-! ## T2 — no balance goes negative -/

/-- T2′ (send side): an accepted send never spends more than the account holds — the debit cannot underflow. -/
theorem send_within_balance (s s' : State) (src dst : Addr) (tok : Tok) (amt : Nat) (h : Hash) (call : TokCall)
    (hok : applySend s src dst tok amt h call = .ok s') (ht : tok ≠ zeroTok) :
    amt ≤ getBal s.bal src tok := by
  unfold applySend at hok
  split at hok
  · cases hok
  · split at hok
    · cases hok
    · rename_i h2
      simp only [bne_iff_ne, ne_eq, Bool.and_eq_true, decide_eq_true_eq, not_and, Nat.not_lt] at h2
      exact h2 ht

/-- a send of the zero token standard carries no amount -/
theorem zero_token_send_is_empty (s s' : State) (src dst : Addr) (amt : Nat) (h : Hash) (call : TokCall)
    (hok : applySend s src dst zeroTok amt h call = .ok s') : amt = 0 := by
  unfold applySend at hok
  split at hok
  · cases hok
  · rename_i h1
    simp at h1
    omega

/-- T2′: in an accepted step no truncated subtraction truncates. `NoUnderflow s e` lists the debits of the step with
    the balance each is applied to: the user send's amount ≤ the sender's balance; for a contract receive every
    descendant `d` of the list is debited in the intermediate state `sm` reached after its predecessors with
    `d.amt ≤ balance sm c d.tok` (`GuardedDescs`), and in the token-applied shape the burn is debited after the credit
    and the mint with `burn ≤ balance` (the `getBal … < out.burn → error` guard). Balances are `Nat`, so non-negativity
    itself is by typing. -/
theorem no_underflow (s s' : State) (e : Ev) (hok : step s e = .ok s') : NoUnderflow s e :=
  step_noUnderflow hok

/-- T2′ (supply side): the amount of a receivable send is within the recorded supply of its token; in particular
    `supply − amount` in Burn is exact. -/
theorem burn_within_supply (s : State) (c : Addr) (h : Hash) (snd : Send) (i : TokInfo)
    (hg : s.gate = true) (hw : WF s) (hc : Conserved s) (hchk : checkFrom s c h = .ok snd)
    (hi : getTok s.toks snd.tok = some i) : snd.amt ≤ i.supply := by
  have := receivable_le_supply hg hw hc hchk
  simpa [supplyOf, supplyOfL, hi] using this

/-! ## T3 — supply ≤ max supply -/

/-- T3, one step. `CallsOk s` says every confirmed send's decoded token call passed the send-time validation that the
    model does not repeat at receive time: for `issue total max …`, `total ≤ max` (Go: `checkToken` in
    `IssueMethod.ValidateSendBlock`, which `ReceiveBlock` re-runs). Mint is guarded by `max − supply ≥ amount`, burn
    lowers `max` along with `supply` for non-mintable tokens, update sets `max := supply` when mintable is switched off. -/
theorem supply_le_max_step (s s' : State) (e : Ev) (hs : SupplyLeMax s) (hcalls : CallsOk s)
    (hok : step s e = .ok s') : SupplyLeMax s' :=
  step_supplyLeMax hs hcalls hok

/-- T3 over reachable states (admissible events carry `total ≤ max` for every new issue call). Needs neither the
    gate nor well-formedness. -/
theorem supply_le_max (s0 s : State) (hs : SupplyLeMax s0) (hcalls : CallsOk s0) (hr : Reach s0 s)
    (t : Tok) (i : TokInfo) (hi : getTok s.toks t = some i) : i.supply ≤ i.max :=
  (hr.supplyLeMax hs hcalls).1 t i hi

/-! ## T4 — only the token contract changes the supply -/

/-- T4: every accepted step other than a status-1 receive of the token contract leaves the token storage — hence every
    recorded supply — unchanged, and (above the enforcement height, fresh hashes) leaves Σ balances + Σ in flight
    unchanged for every token. -/
theorem only_token_contract_changes_supply (s s' : State) (e : Ev) (hok : step s e = .ok s')
    (hne : ∀ h ds, e ≠ .crecv tokenContract h 1 ds) :
    s'.toks = s.toks ∧ (∀ t, supplyOf s' t = supplyOf s t) ∧
    (s.gate = true → WF s → Fresh s e → ∀ t, sumBal s' t + inflightSum s' t = sumBal s t + inflightSum s t) := by
  have ht := step_toks hok hne
  refine ⟨ht, fun t => by simp only [supplyOf, ht], ?_⟩
  intro hg hw hf t
  exact step_total hg hw hf hok hne t

/-- T4′: a failed embedded call (status 2) emits exactly the refund of the received send (one descendant of the full
    amount back to the sender, or nothing when the amount is 0) — for every contract, the token contract included —,
    leaves token storage alone and is neutral on Σ balances + Σ in flight of every token. -/
theorem refund_neutral (s s' : State) (c : Addr) (h : Hash) (ds : List Desc)
    (hok : crecv s c h 2 ds = .ok s') :
    ∃ snd, checkFrom s c h = .ok snd ∧ descShape ds = refundOf snd ∧ s'.toks = s.toks ∧
      (s.gate = true → WF s → Fresh s (.crecv c h 2 ds) →
        ∀ t, sumBal s' t + inflightSum s' t = sumBal s t + inflightSum s t) := by
  have hne : ∀ h' ds', Ev.crecv c h 2 ds ≠ .crecv tokenContract h' 1 ds' := by
    intro h' ds' he; cases he
  have hstep : step s (.crecv c h 2 ds) = .ok s' := hok
  cases crecv_cases hok with
  | plain nxt snd _ _ hchk _ href _ _ hds =>
    exact ⟨snd, hchk, href rfl, (applyDescs_frame hds).2.1,
      fun hg hw hf t => step_total hg hw hf hstep hne t⟩
  | token nxt snd out _ _ _ _ hst _ _ _ _ => cases hst

/-! ## the gate is necessary (finding F8) -/

/-- scenario for the negative witness: U1(=16) sends 7 ZNN to U2(=17); U3(=18) and then U2 receive it -/
def doubleReceive (gate : Bool) : Except Err Nat := do
  let s0 : State := { State.init gate with bal := [((16, znnTok), 10)], toks := [(znnTok, ⟨10, 100, true, true, 1⟩)] }
  let s1 ← usend s0 16 17 znnTok 7 0 TokCall.none
  let s2 ← urecv s1 18 0
  let s3 ← urecv s2 17 0
  pure (getBal s3.bal 16 znnTok + getBal s3.bal 17 znnTok + getBal s3.bal 18 znnTok)

/-- N1 (negative witness, finding F8): below the receiver-enforcement height the rules accept a receive of a send
    by a third account and then by its addressee — balances sum to 17 while the recorded supply stays 10. -/
theorem pre_gate_double_receive : doubleReceive false = .ok 17 := by rfl

/-- with the gate on, the third-party receive is refused -/
theorem post_gate_third_party_refused : doubleReceive true = .error Err.receiverMismatch := by rfl

/-! ## the hypotheses are satisfiable: a concrete reachable state -/

/-- the demo history (issue, receive, transfer, mint, failed call + refund, burn, queued calls) is accepted,
    admissible at every step, and ends in `demoFinal` -/
example : runAdm (State.init true) demoEvents = some demoFinal := by rfl

example : Reach (State.init true) demoFinal := reach_of_runAdm demoEvents _ _ (by rfl)

/-- … where token 5 has supply 60 = 36 in balances + 24 in flight, below its max 80 -/
example : supplyOf demoFinal 5 = 60 ∧ sumBal demoFinal 5 = 36 ∧ inflightSum demoFinal 5 = 24 := by decide

example : WF demoFinal := by decide

example : Conserved demoFinal := conservation_from_empty _ (reach_of_runAdm demoEvents _ _ (by rfl))

/-- a state with a genesis-like allocation that satisfies the hypotheses of `conservation` directly -/
example : let s0 : State := { State.init true with bal := [((16, znnTok), 10)], toks := [(znnTok, ⟨10, 100, true, true, 1⟩)] }
    s0.gate = true ∧ WF s0 ∧ Conserved s0 ∧ SupplyLeMax s0 ∧ CallsOk s0 := by
  refine ⟨rfl, by decide, ?_, ?_, ?_⟩
  · intro t _
    by_cases h : t = znnTok
    · subst h; decide
    · have h' : ¬ znnTok = t := fun e => h e.symm
      simp [supplyOf, supplyOfL, getTok, sumBal, sumBalL, inflightSum, State.unreceived, State.init, h']
  · intro t i hi
    simp only [getTok] at hi
    split at hi
    · cases hi; decide
    · cases hi
  · intro x hx; simp [State.init] at hx

end ZV.C01
