import ZenonVerif.Lemmas.EpochCursor
/-
C11 — the part of the property that speaks about a running chain: "each contract rewards each epoch exactly once and
in increasing epoch order, and a credited reward can be collected exactly once, minting exactly the credited amount".
Property theorems only, over Model/EpochCursor.lean (the epoch cursor shared by the pillar / stake / sentinel /
liquidity contracts, the three catch-up loops, RewardDeposit / CollectReward).

`consecutive cur n` is the list of epochs cur+1, …, cur+n.
-/
namespace ZV.C11Node
open ZV ZV.EpochCursor

/-! ### T4 — one Update call -/

/-- T4 `epoch_cursor` (pillar, stake, sentinel: `update…Rewards` loops): one call moves the cursor through consecutive
    epochs `cursor+1 … cursor+n`, rewards exactly those, each of them ended at least `RewardTimeLimit` before the frontier
    momentum, and it stops only at an epoch that is not yet due. -/
theorem epoch_cursor (c : Cfg) (ts cursor : Int) :
    ∃ n : Nat, catchUp c ts cursor = (cursor + n, consecutive cursor n) ∧
      (∀ e ∈ consecutive cursor n, epochEnd c e + c.rtl ≤ ts) ∧
      ts < epochEnd c (cursor + n + 1) + c.rtl :=
  catchUp_spec c ts cursor

/-- liveness of one call (loop variant): every epoch after the cursor that is due at the frontier momentum is rewarded
    by this very call, and nothing else is. -/
theorem epoch_cursor_rewards_exactly_the_due (c : Cfg) (ts cursor e : Int) :
    e ∈ (catchUp c ts cursor).2 ↔ cursor < e ∧ epochEnd c e + c.rtl ≤ ts := by
  obtain ⟨n, hn, hdue, hstop⟩ := catchUp_spec c ts cursor
  rw [hn]
  constructor
  · intro he
    exact ⟨(mem_consecutive.mp he).1, hdue e he⟩
  · rintro ⟨h1, h2⟩
    apply mem_consecutive.mpr
    refine ⟨h1, ?_⟩
    by_cases hle : e ≤ cursor + n
    · exact hle
    · exfalso
      have := epochEnd_mono c (show cursor + n + 1 ≤ e by omega)
      omega

/-- T4 for the post-spork liquidity method (`updateLiquidityStakeRewards`): nothing when the next epoch is not due,
    otherwise exactly that epoch. -/
theorem epoch_cursor_liq_one (c : Cfg) (ts cursor : Int) :
    (ts < epochEnd c (cursor + 1) + c.rtl ∧ liqOne c ts cursor = (cursor, [])) ∨
    (epochEnd c (cursor + 1) + c.rtl ≤ ts ∧ liqOne c ts cursor = (cursor + 1, [cursor + 1])) :=
  liqOne_spec c ts cursor

/-- T4 for the origin-table liquidity method (`updateLiquidityRewards`), as far as it holds: the rewarded epochs are
    consecutive from the cursor, all due, at most ⌈MaxEpochsPerUpdate/2⌉ of them, and the cursor ends on the last rewarded
    epoch — OR one past it (second alternative). What is missing for the full T4: "the cursor moves only over rewarded
    epochs"; it is false, see `liq_origin_skips_epoch`. -/
theorem epoch_cursor_liq_origin_partial (c : Cfg) (ts cursor : Int) :
    ∃ n : Nat, (liqOrigin c ts cursor 0).2 = consecutive cursor n ∧
      (∀ e ∈ consecutive cursor n, epochEnd c e + c.rtl ≤ ts) ∧
      2 * n ≤ c.maxBlocks + 1 ∧
      (((liqOrigin c ts cursor 0).1 = cursor + n ∧ ts < epochEnd c (cursor + n + 1) + c.rtl) ∨
       ((liqOrigin c ts cursor 0).1 = cursor + n + 1 ∧ epochEnd c (cursor + n + 1) + c.rtl ≤ ts ∧ c.maxBlocks ≤ 2 * n)) := by
  obtain ⟨n, h1, h2, h3, h4⟩ := liqOrigin_spec c ts cursor 0
  refine ⟨n, h1, h2, ?_, ?_⟩
  · rcases h3 with rfl | h3 <;> omega
  · rcases h4 with h | ⟨a, b, d⟩
    · exact Or.inl h
    · exact Or.inr ⟨a, b, by omega⟩

/-- NEGATIVE WITNESS (finding F14), for every configuration: when the origin-table liquidity contract is called with
    k+1 or more due epochs, k = ⌈MaxEpochsPerUpdate/2⌉ (10 with the generated constant), it rewards k epochs and moves
    the cursor over k+1: epoch cursor+k+1 is consumed without reward, and since the cursor never goes back it is never
    rewarded. -/
theorem liq_origin_skips_epoch (c : Cfg) (ts cursor : Int) (k : Nat) (hk : c.maxBlocks ≤ 2 * k) (hk' : k = 0 ∨ 2 * (k - 1) < c.maxBlocks)
    (hdue : epochEnd c (cursor + k + 1) + c.rtl ≤ ts) :
    liqOrigin c ts cursor 0 = (cursor + k + 1, consecutive cursor k) ∧ cursor + k + 1 ∉ consecutive cursor k := by
  have gen : ∀ (j : Nat) (blocks : Nat) (cur : Int), c.maxBlocks ≤ blocks + 2 * j → (j = 0 ∨ blocks + 2 * (j - 1) < c.maxBlocks) →
      epochEnd c (cur + j + 1) + c.rtl ≤ ts → liqOrigin c ts cur blocks = (cur + j + 1, consecutive cur j) := by
    intro j
    induction j with
    | zero =>
      intro blocks cur h1 _ h3
      have hf : tooRecent c cur ts = false := (tooRecent_false_iff c cur ts).mpr (by simpa using h3)
      rw [liqOrigin_cap c ts cur blocks hf (by omega)]
      simp [consecutive]
    | succ j ih =>
      intro blocks cur h1 h2 h3
      have hd1 : epochEnd c (cur + 1) + c.rtl ≤ ts := by
        have := epochEnd_mono c (show cur + 1 ≤ cur + ((j + 1 : Nat) : Int) + 1 by omega)
        omega
      have hf : tooRecent c cur ts = false := (tooRecent_false_iff c cur ts).mpr hd1
      have hc : ¬ c.maxBlocks ≤ blocks := by omega
      have e : cur + ((j + 1 : Nat) : Int) + 1 = cur + 1 + j + 1 := by omega
      rw [liqOrigin_step c ts cur blocks hf hc, ih (blocks + 2) (cur + 1) (by omega) (by omega) (by rw [← e]; exact h3)]
      simp only [consecutive]
      congr 1
      omega
  refine ⟨gen k 0 cursor (by omega) (by omega) hdue, ?_⟩
  intro h
  have := (mem_consecutive.mp h).2
  omega

/-- the witness with the generated constants (epoch duration, RewardTimeLimit and MaxEpochsPerUpdate as in the tree): a
    contract that was never updated, called when 11 epochs are due — the cursor ends at epoch 10, epochs 0…9 are rewarded. -/
theorem liq_origin_skips_epoch_live :
    liqOrigin (Cfg.live 0) (Gen.EpochDurationSec * 11 + Gen.RewardTimeLimit) (-1) 0 = (10, consecutive (-1) 10) ∧
      (10 : Int) ∉ consecutive (-1) 10 := by
  have h := liq_origin_skips_epoch (Cfg.live 0) (Gen.EpochDurationSec * 11 + Gen.RewardTimeLimit) (-1) 10 (by decide) (by decide) (by decide)
  simpa using h

/-! ### T4′ — termination / cost of the loops -/

/-- T4′ `update_terminates`: the catch-up loop is defined by well-founded recursion on the seconds by which the next epoch
    is overdue (`overdue`, decreasing by one epoch per iteration — accepted by the kernel only with that proof); the
    number of iterations is bounded by the elapsed time: n rewarded epochs need n whole epochs (+ RewardTimeLimit) between
    the end of the cursor's epoch and the frontier momentum. -/
theorem update_terminates (c : Cfg) (ts cursor : Int) :
    let n := (catchUp c ts cursor).2.length
    n = 0 ∨ epochEnd c cursor + n * c.epochSec + c.rtl ≤ ts := by
  intro n
  obtain ⟨m, hm, hdue, _⟩ := catchUp_spec c ts cursor
  have hn : n = m := by simp [n, hm, consecutive_length]
  rw [hn]
  rcases Nat.eq_zero_or_pos m with h0 | hpos
  · exact Or.inl h0
  · right
    have hmem : cursor + m ∈ consecutive cursor m := mem_consecutive.mpr ⟨by omega, by omega⟩
    have h := hdue _ hmem
    have e : ∀ k : Nat, epochEnd c (cursor + k) = epochEnd c cursor + k * c.epochSec := by
      intro k
      induction k with
      | zero => simp
      | succ k ih =>
        have : cursor + ((k + 1 : Nat) : Int) = cursor + k + 1 := by omega
        rw [this, epochEnd_succ, ih]
        have : ((k + 1 : Nat) : Int) * c.epochSec = k * c.epochSec + c.epochSec := by
          rw [show ((k + 1 : Nat) : Int) = (k : Int) + 1 by omega, Int.add_mul]; omega
        omega
    rw [e m] at h
    exact h

/-- the origin liquidity loop additionally stops after ⌈MaxEpochsPerUpdate/2⌉ rewarded epochs -/
theorem liq_origin_bounded (c : Cfg) (ts cursor : Int) : 2 * (liqOrigin c ts cursor 0).2.length ≤ c.maxBlocks + 1 := by
  obtain ⟨n, h1, _, h3, _⟩ := epoch_cursor_liq_origin_partial c ts cursor
  rw [h1, consecutive_length]
  exact h3

/-! ### T4 — the Update method and sequences of calls -/

/-- every variant: the rewarded epochs of one call are consecutive from the old cursor, each was due, and the new cursor is
    the last rewarded epoch — except for the origin liquidity variant, where it may be one further (F14). -/
theorem advance_spec (c : Cfg) (v : Variant) (ts cursor : Int) :
    ∃ n : Nat, (advance c v ts cursor).2 = consecutive cursor n ∧
      (∀ e ∈ consecutive cursor n, epochEnd c e + c.rtl ≤ ts) ∧
      cursor + n ≤ (advance c v ts cursor).1 ∧ (advance c v ts cursor).1 ≤ cursor + n + 1 ∧
      (v ≠ .liqOrigin → (advance c v ts cursor).1 = cursor + n) := by
  cases v with
  | loop =>
    obtain ⟨n, hn, hdue, _⟩ := catchUp_spec c ts cursor
    refine ⟨n, ?_, hdue, ?_, ?_, ?_⟩ <;> simp [advance, hn]
    omega
  | liqOrigin =>
    obtain ⟨n, h1, h2, _, h4⟩ := liqOrigin_spec c ts cursor 0
    refine ⟨n, by simpa [advance] using h1, h2, ?_, ?_, by simp⟩ <;> simp only [advance] <;> rcases h4 with ⟨a, _⟩ | ⟨a, _⟩ <;> omega
  | liqOne =>
    rcases liqOne_spec c ts cursor with ⟨_, h⟩ | ⟨hd, h⟩
    · refine ⟨0, ?_, ?_, ?_, ?_, ?_⟩ <;> simp [advance, h, consecutive] <;> omega
    · refine ⟨1, ?_, ?_, ?_, ?_, ?_⟩ <;> simp [advance, h, consecutive] <;> first | omega | exact hd

/-- the Update method: refused exactly when the last successful Update is less than UpdateMinNumMomentums momentums
    ago (and then nothing changes — `step` keeps the state); otherwise the height is recorded, deposits are untouched, the
    cursor does not go back and every rewarded epoch had ended RewardTimeLimit before the frontier momentum. -/
theorem update_spec (c : Cfg) (v : Variant) (s : CState) (h : Nat) (ts : Int) :
    (update c v s h ts = none ↔ h < s.lastUpdate + c.updMin) ∧
    (∀ s' es, update c v s h ts = some (s', es) →
      s'.lastUpdate = h ∧ s'.dep = s.dep ∧ s.cursor ≤ s'.cursor ∧
      (∀ e ∈ es, s.cursor < e ∧ e ≤ s'.cursor ∧ epochEnd c e + c.rtl ≤ ts)) := by
  unfold update
  by_cases hh : s.lastUpdate + c.updMin ≤ h
  · simp only [hh, if_true]
    refine ⟨by simp; omega, ?_⟩
    intro s' es heq
    simp only [Option.some.injEq, Prod.mk.injEq] at heq
    obtain ⟨rfl, rfl⟩ := heq
    obtain ⟨n, h1, h2, h3, _, _⟩ := advance_spec c v ts s.cursor
    refine ⟨rfl, rfl, by simp only; omega, ?_⟩
    intro e he
    rw [h1] at he
    have := mem_consecutive.mp he
    exact ⟨this.1, by simp only; omega, h2 e he⟩
  · simp only [hh, if_false]
    exact ⟨by simp; omega, by intro s' es h; cases h⟩

/-- T4, sequences: over ANY sequence of calls (Update at any heights and times, credits, collects, in any order) to a
    contract of any variant, the epochs rewarded are strictly increasing — so no epoch is rewarded twice and the order is
    the epoch order — all lie after the initial and at or before the final cursor, and the cursor never goes back. -/
theorem rewarded_once_in_order (c : Cfg) (v : Variant) (s : CState) (ops : List Op) :
    (rewardedOf (run c v s ops).2).Pairwise (· < ·) ∧
    (∀ e ∈ rewardedOf (run c v s ops).2, s.cursor < e ∧ e ≤ (run c v s ops).1.cursor) ∧
    s.cursor ≤ (run c v s ops).1.cursor := by
  induction ops generalizing s with
  | nil => simp [run, rewardedOf]
  | cons o os ih =>
    cases o with
    | update h ts =>
      cases hu : update c v s h ts with
      | none =>
        have : run c v s (Op.update h ts :: os) = ((run c v s os).1, Out.refused :: (run c v s os).2) := by
          simp [run, step, hu]
        rw [this]; simpa [rewardedOf] using ih s
      | some r =>
        obtain ⟨s', es⟩ := r
        have : run c v s (Op.update h ts :: os) = ((run c v s' os).1, Out.rewarded es :: (run c v s' os).2) := by
          simp [run, step, hu]
        rw [this]
        obtain ⟨_, _, hcur, hes⟩ := (update_spec c v s h ts).2 s' es hu
        obtain ⟨ih1, ih2, ih3⟩ := ih s'
        obtain ⟨n, hn, _⟩ := advance_spec c v ts s.cursor
        have hes' : es = consecutive s.cursor n := by
          unfold update at hu
          split at hu
          · simp only [Option.some.injEq, Prod.mk.injEq] at hu
            rw [← hu.2]; exact hn
          · cases hu
        simp only [rewardedOf]
        refine ⟨?_, ?_, by omega⟩
        · rw [List.pairwise_append]
          refine ⟨hes' ▸ consecutive_pairwise _ _, ih1, ?_⟩
          intro a ha b hb
          have := (hes a ha).2.1
          have := (ih2 b hb).1
          omega
        · intro e he
          rcases List.mem_append.mp he with he | he
          · have := hes e he
            exact ⟨this.1, by omega⟩
          · have := ih2 e he
            exact ⟨by omega, this.2⟩
    | credit a x =>
      have : run c v s (Op.credit a x :: os) = ((run c v (credit s a x) os).1, Out.credited :: (run c v (credit s a x) os).2) := by
        simp [run, step]
      rw [this]; simpa [rewardedOf, credit] using ih (credit s a x)
    | collect a =>
      cases hc : collect s a with
      | none =>
        have : run c v s (Op.collect a :: os) = ((run c v s os).1, Out.refused :: (run c v s os).2) := by
          simp [run, step, hc]
        rw [this]; simpa [rewardedOf] using ih s
      | some r =>
        obtain ⟨ms, s'⟩ := r
        have : run c v s (Op.collect a :: os) = ((run c v s' os).1, Out.minted ms :: (run c v s' os).2) := by
          simp [run, step, hc]
        rw [this]
        have hcur : s'.cursor = s.cursor := by
          unfold collect at hc
          simp only at hc
          split at hc
          · cases hc
          · simp only [Option.some.injEq, Prod.mk.injEq] at hc
            rw [← hc.2]
        simpa [rewardedOf, hcur] using ih s'

/-- T4, exactly once: for the loop variant and the post-spork liquidity variant the epochs rewarded along any sequence
    of calls are EXACTLY the epochs between the initial and the final cursor, each once, in order: every epoch the cursor
    has passed has been rewarded. (False for the origin liquidity variant: `liq_origin_skips_epoch`.) -/
theorem rewarded_exactly_once (c : Cfg) (v : Variant) (hv : v ≠ .liqOrigin) (s : CState) (ops : List Op) :
    ∃ n : Nat, (run c v s ops).1.cursor = s.cursor + n ∧ rewardedOf (run c v s ops).2 = consecutive s.cursor n := by
  induction ops generalizing s with
  | nil => exact ⟨0, by simp [run], by simp [run, rewardedOf, consecutive]⟩
  | cons o os ih =>
    cases o with
    | update h ts =>
      cases hu : update c v s h ts with
      | none =>
        have : run c v s (Op.update h ts :: os) = ((run c v s os).1, Out.refused :: (run c v s os).2) := by
          simp [run, step, hu]
        rw [this]; simpa [rewardedOf] using ih s
      | some r =>
        obtain ⟨s', es⟩ := r
        have : run c v s (Op.update h ts :: os) = ((run c v s' os).1, Out.rewarded es :: (run c v s' os).2) := by
          simp [run, step, hu]
        rw [this]
        obtain ⟨n, hn, _, _, _, hex⟩ := advance_spec c v ts s.cursor
        have hs' : s'.cursor = s.cursor + n ∧ es = consecutive s.cursor n := by
          unfold update at hu
          split at hu
          · simp only [Option.some.injEq, Prod.mk.injEq] at hu
            rw [← hu.1, ← hu.2]
            exact ⟨hex hv, hn⟩
          · cases hu
        obtain ⟨m, hm1, hm2⟩ := ih s'
        refine ⟨n + m, ?_, ?_⟩
        · simp only; rw [hm1, hs'.1]; omega
        · simp only [rewardedOf]
          rw [hm2, hs'.2, hs'.1, consecutive_append]
    | credit a x =>
      have : run c v s (Op.credit a x :: os) = ((run c v (credit s a x) os).1, Out.credited :: (run c v (credit s a x) os).2) := by
        simp [run, step]
      rw [this]; simpa [rewardedOf, credit] using ih (credit s a x)
    | collect a =>
      cases hc : collect s a with
      | none =>
        have : run c v s (Op.collect a :: os) = ((run c v s os).1, Out.refused :: (run c v s os).2) := by
          simp [run, step, hc]
        rw [this]; simpa [rewardedOf] using ih s
      | some r =>
        obtain ⟨ms, s'⟩ := r
        have : run c v s (Op.collect a :: os) = ((run c v s' os).1, Out.minted ms :: (run c v s' os).2) := by
          simp [run, step, hc]
        rw [this]
        have hcur : s'.cursor = s.cursor := by
          unfold collect at hc
          simp only at hc
          split at hc
          · cases hc
          · simp only [Option.some.injEq, Prod.mk.injEq] at hc
            rw [← hc.2]
        simpa [rewardedOf, hcur] using ih s'

/-- the cursor of a contract that started at −1 (no `lastEpochUpdate` key) never drops below −1, so the conversion
    `uint64(LastEpoch + 1)` in `CanPerformEpochUpdate` is the identity -/
theorem cursor_ge_neg_one (c : Cfg) (v : Variant) (ops : List Op) : -1 ≤ (run c v CState.init ops).1.cursor :=
  (rewarded_once_in_order c v CState.init ops).2.2

/-- liveness, loop variant: a successful Update at a frontier momentum with timestamp `ts` leaves no epoch unrewarded
    that was due at `ts` -/
theorem update_rewards_all_due (c : Cfg) (s s' : CState) (es : List Int) (h : Nat) (ts : Int)
    (hu : update c .loop s h ts = some (s', es)) (e : Int) (he : s.cursor < e) (hd : epochEnd c e + c.rtl ≤ ts) : e ∈ es := by
  unfold update at hu
  split at hu
  · simp only [Option.some.injEq, Prod.mk.injEq] at hu
    rw [← hu.2]
    exact (epoch_cursor_rewards_exactly_the_due c ts s.cursor e).mpr ⟨he, hd⟩
  · cases hu

/-- liveness, post-spork liquidity variant: each call whose next epoch is due advances by one, so k calls at a time when
    epoch cursor+k is due reach it: if Update keeps being called every elapsed epoch is eventually rewarded -/
theorem liq_one_eventually (c : Cfg) (ts : Int) (k : Nat) (cursor : Int) (hd : epochEnd c (cursor + k) + c.rtl ≤ ts) :
    Nat.repeat (fun cur => (liqOne c ts cur).1) k cursor = cursor + k := by
  induction k with
  | zero => simp [Nat.repeat]
  | succ k ih =>
    have hk : epochEnd c (cursor + k) + c.rtl ≤ ts := by
      have := epochEnd_mono c (show cursor + (k : Int) ≤ cursor + ((k + 1 : Nat) : Int) by omega)
      omega
    simp only [Nat.repeat, ih hk]
    rcases liqOne_spec c ts (cursor + k) with ⟨hlt, _⟩ | ⟨_, h⟩
    · have e : cursor + ((k + 1 : Nat) : Int) = cursor + k + 1 := by omega
      rw [e] at hd
      omega
    · rw [h]; simp only; omega

/-! ### T5 — collect once -/

/-- T5 `collect_once`: a successful CollectReward requests mints to the caller only, each for a positive amount, that
    add up to exactly the caller's deposit per coin; it zeroes that deposit, leaves every other deposit and the cursor
    alone — and a second CollectReward right after it is refused. -/
theorem collect_once (s s' : CState) (a : Addr) (ms : List Mint) (h : collect s a = some (ms, s')) :
    paid ms a = s.dep a ∧ (∀ m ∈ ms, m.to = a ∧ 0 < m.amount) ∧ ms.length ≤ 2 ∧
    s'.dep a = Coins.zero ∧ (∀ b, b ≠ a → s'.dep b = s.dep b) ∧ s'.cursor = s.cursor ∧ s'.lastUpdate = s.lastUpdate ∧
    collect s' a = none := by
  unfold collect at h
  simp only at h
  split at h
  · cases h
  · rename_i hne
    simp only [Option.some.injEq, Prod.mk.injEq] at h
    obtain ⟨rfl, rfl⟩ := h
    have hd : s.dep a = ⟨(s.dep a).znn, (s.dep a).qsr⟩ := rfl
    refine ⟨?_, ?_, ?_, by simp, ?_, rfl, rfl, ?_⟩
    · by_cases hz : 0 < (s.dep a).znn <;> by_cases hq : 0 < (s.dep a).qsr <;>
        simp [paid, hz, hq, Coins.zero] <;> (apply Coins.ext' <;> simp <;> omega)
    · intro m hm
      by_cases hz : 0 < (s.dep a).znn <;> by_cases hq : 0 < (s.dep a).qsr <;> simp [hz, hq] at hm
      · rcases hm with rfl | rfl <;> exact ⟨rfl, by assumption⟩
      · subst hm; exact ⟨rfl, hz⟩
      · subst hm; exact ⟨rfl, hq⟩
    · by_cases hz : 0 < (s.dep a).znn <;> by_cases hq : 0 < (s.dep a).qsr <;> simp [hz, hq]
    · intro b hb; simp [hb]
    · simp [collect, Coins.zero]

/-- CollectReward is refused (ErrNothingToWithdraw) exactly when the caller's deposit is zero in both coins -/
theorem collect_refused_iff_empty (s : CState) (a : Addr) : collect s a = none ↔ s.dep a = Coins.zero := by
  unfold collect
  simp only
  constructor
  · intro h
    split at h
    · rename_i hz; exact Coins.ext' hz.1 hz.2
    · cases h
  · intro h
    simp [h, Coins.zero]

/-- `addReward` only adds: the credited address gains exactly the credited amount, nobody else changes -/
theorem credit_grows (s : CState) (a : Addr) (x : Coins) :
    (credit s a x).dep a = s.dep a + x ∧ (∀ b, b ≠ a → (credit s a x).dep b = s.dep b) ∧ (credit s a x).cursor = s.cursor := by
  refine ⟨by simp [credit], ?_, rfl⟩
  intro b hb; simp [credit, hb]

/-- T5, conservation over any sequence of calls to a contract (any variant): what was minted to an address plus what it
    can still collect equals what it could collect at the start plus everything credited to it since. A credited reward
    is paid out once, in full, and nothing else is ever paid. -/
theorem deposit_conservation (c : Cfg) (v : Variant) (s : CState) (ops : List Op) (a : Addr) :
    mintedOf a (run c v s ops).2 + (run c v s ops).1.dep a = s.dep a + creditedOf a ops := by
  induction ops generalizing s with
  | nil => simp [run, mintedOf, creditedOf, Coins.zero_add', Coins.add_zero']
  | cons o os ih =>
    cases o with
    | update h ts =>
      cases hu : update c v s h ts with
      | none =>
        have : run c v s (Op.update h ts :: os) = ((run c v s os).1, Out.refused :: (run c v s os).2) := by
          simp [run, step, hu]
        rw [this]; simpa [mintedOf, creditedOf] using ih s
      | some r =>
        obtain ⟨s', es⟩ := r
        have : run c v s (Op.update h ts :: os) = ((run c v s' os).1, Out.rewarded es :: (run c v s' os).2) := by
          simp [run, step, hu]
        rw [this]
        have hd := ((update_spec c v s h ts).2 s' es hu).2.1
        simpa [mintedOf, creditedOf, hd] using ih s'
    | credit b x =>
      have : run c v s (Op.credit b x :: os) = ((run c v (credit s b x) os).1, Out.credited :: (run c v (credit s b x) os).2) := by
        simp [run, step]
      rw [this]
      simp only [mintedOf, creditedOf]
      rw [ih (credit s b x)]
      by_cases hb : a = b
      · subst hb; simp [credit, Coins.add_assoc']
      · have : ¬ b = a := fun h => hb h.symm
        simp [credit, hb, this, Coins.zero_add']
    | collect b =>
      cases hc : collect s b with
      | none =>
        have : run c v s (Op.collect b :: os) = ((run c v s os).1, Out.refused :: (run c v s os).2) := by
          simp [run, step, hc]
        rw [this]; simpa [mintedOf, creditedOf] using ih s
      | some r =>
        obtain ⟨ms, s'⟩ := r
        have : run c v s (Op.collect b :: os) = ((run c v s' os).1, Out.minted ms :: (run c v s' os).2) := by
          simp [run, step, hc]
        rw [this]
        obtain ⟨hp, hto, _, hz, hoth, _, _, _⟩ := collect_once s s' b ms hc
        simp only [mintedOf, creditedOf]
        rw [Coins.add_assoc', ih s']
        by_cases hb : a = b
        · subst hb; rw [hp, hz, ← Coins.add_assoc', Coins.add_zero']
        · have hpaid : paid ms a = Coins.zero := by
            have : ∀ (l : List Mint) (acc : Coins), (∀ m ∈ l, m.to = b) →
                l.foldl (fun acc m => if m.to = a then (if m.qsr then ⟨acc.znn, acc.qsr + m.amount⟩ else ⟨acc.znn + m.amount, acc.qsr⟩) else acc) acc = acc := by
              intro l
              induction l with
              | nil => intro acc _; rfl
              | cons m l ihl =>
                intro acc hl
                have hm : m.to = b := hl m (by simp)
                have : ¬ m.to = a := by rw [hm]; exact fun h => hb h.symm
                simp only [List.foldl_cons, this, if_false]
                exact ihl acc (fun m' hm' => hl m' (by simp [hm']))
            exact this ms Coins.zero (fun m hm => (hto m hm).1)
          rw [hpaid, hoth a hb, ← Coins.add_assoc', Coins.zero_add']

/-! ### the hypotheses are satisfiable / the statements are not vacuous -/

/-- a deposit of (5 ZNN-units, 7 QSR-units) is paid by two mint requests; an empty one is refused -/
example : (collect (credit CState.init "z1a" ⟨5, 7⟩) "z1a").map (·.1) = some [⟨false, 5, "z1a"⟩, ⟨true, 7, "z1a"⟩] := by decide
example : (collect CState.init "z1a").isNone = true := by decide

/-- one Update of a never-updated pillar contract three days and one hour after genesis rewards epochs 0, 1, 2 -/
example : (update (Cfg.live 0) .loop CState.init 300 (86400 * 3 + 3600)).map (fun r => (r.1.cursor, r.1.lastUpdate, r.2))
    = some (2, 300, [0, 1, 2]) := by
  have h0 : tooRecent (Cfg.live 0) (-1) (86400 * 3 + 3600) = false := by decide
  have h1 : tooRecent (Cfg.live 0) (-1 + 1) (86400 * 3 + 3600) = false := by decide
  have h2 : tooRecent (Cfg.live 0) (-1 + 1 + 1) (86400 * 3 + 3600) = false := by decide
  have h3 : tooRecent (Cfg.live 0) (-1 + 1 + 1 + 1) (86400 * 3 + 3600) = true := by decide
  unfold update
  simp only [CState.init, advance]
  rw [catchUp_step _ _ _ h0, catchUp_step _ _ _ h1, catchUp_step _ _ _ h2, catchUp_stop _ _ _ h3]
  decide

end ZV.C11Node
