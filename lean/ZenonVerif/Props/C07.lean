import ZenonVerif.Model.Versioned
import ZenonVerif.Lemmas.KvLogic
import ZenonVerif.Lemmas.KvOrder
import ZenonVerif.Lemmas.LdbInv
import ZenonVerif.Lemmas.KvChanges
import ZenonVerif.Lemmas.ViewScan
/-
C07 — versioned store: a view at commit X shows exactly the state as of X. Property theorems only.
(C06-T2 `rollback_exact` lives in Props/C06.lean.)
-/
namespace ZV.C07
open ZV ZV.Kv ZV.KvLogic ZV.Versioned

/-- One commit step of the reconstruction invariant. If the overlay `o` on top of the current frontier `cur`
    shows the viewed version `sX`, then after committing patch `p` (frontier becomes `applyP cur p`, the undo
    patch `rollbackPatch cur p` is folded into the overlay without overriding) it still shows `sX`. -/
theorem view_step (sX cur : Store) (o : Overlay) (p : Patch)
    (h : viewOf o cur = sX) :
    viewOf (woP o (rollbackPatch cur p)) (applyP cur p) = sX := viewOf_step sX cur o p h

/-- the frontier after a list of commits -/
def frontierAfter (s : Store) : List Patch → Store
  | [] => s
  | p :: ps => frontierAfter (applyP s p) ps

/-- the overlay `ldbManager.Get` builds for version `s`: undo patches of all later commits, oldest first,
    never overriding (each undo patch is the one recorded against the frontier it was committed on) -/
def overlayAfter (s : Store) (o : Overlay) : List Patch → Overlay
  | [] => o
  | p :: ps => overlayAfter (applyP s p) (woP o (rollbackPatch s p)) ps

/-- T1 (logical level) `view_reconstructs`: for every version `sX` and every sequence of later commits,
    the rollback overlay over the final frontier shows exactly `sX` — for every key. -/
theorem view_reconstructs (sX : Store) (ps : List Patch) :
    viewOf (overlayAfter sX Overlay.empty ps) (frontierAfter sX ps) = sX := by
  suffices h : ∀ (cur : Store) (o : Overlay), viewOf o cur = sX →
      viewOf (overlayAfter cur o ps) (frontierAfter cur ps) = sX by
    exact h sX Overlay.empty (by funext x; simp [viewOf, Overlay.empty])
  induction ps with
  | nil => intro cur o h; exact h
  | cons p ps ih =>
    intro cur o h
    simp only [overlayAfter, frontierAfter]
    exact ih _ _ (view_step sX cur o p h)

/-- T1 (byte level, lookup and existence test): what `Get`/`Has` return through a historical root
    (rollback layer over the frontier snapshot, enable-delete decoding) is `viewOf` of the abstractions. -/
theorem hist_get_refines (rb base : Raw) (k : Bytes) :
    (Root.hist rb base).get k = viewOf (oabs rb) (abs base) k := by
  simp only [Root.get, Root.rawGet]; exact edDecode_mget2 rb base k

/-- the byte-level overlay built by ApplyWithoutOverride abstracts to the logical overlay -/
theorem overlay_refines (rb : Raw) (p : Patch) : oabs (woApply rb p) = woP (oabs rb) p := oabs_woApply p rb

/-- applying a patch through Put/Delete at the byte level abstracts to the logical patch application -/
theorem apply_refines (r : Raw) (p : Patch) : abs (edApply r p) = applyP (abs r) p := abs_edApply p r

/-- T3 `write_visible`: a write through a view is what that view reads afterwards, other keys are unaffected -/
theorem write_visible (top : Raw) (o : Op) (x : Bytes) :
    abs (edApplyOp top o) x = if x = o.key then (match o with | .put _ v => some v | .del _ => none) else abs top x := by
  rw [abs_edApplyOp]
  cases o with
  | put k v => simp only [applyOp, Op.key]; by_cases h : x = k <;> simp [h]
  | del k => simp only [applyOp, Op.key]; by_cases h : x = k <;> simp [h]


/-! ### T5 — the merged iterator and the scans of the two kinds of roots -/

/-- T5 `merged_scan_correct`: over layers in key order, the merged iterator of the two prefix iterators
    (first layer wins on equal keys) is the key-ordered list of exactly the entries `(k, v)` with `k` under the
    prefix and `v` the answer of the merged lookup (`mergedDB.Get`) for `k`. -/
theorem merged_scan_correct {a b : Raw} (ha : Sorted a) (hb : Sorted b) (p : Bytes) :
    OrderedEntries (merge2 (rscan a p) (rscan b p)) (fun k v => isPrefix p k = true ∧ mget2 a b k = some v) :=
  merged_scan_entries ha hb p

/-- T5, iterator form: merging the prefix iterators = prefix iterator of the merge -/
theorem merged_scan_commutes {a b : Raw} (ha : Sorted a) (hb : Sorted b) (p : Bytes) :
    merge2 (rscan a p) (rscan b p) = rscan (merge2 a b) p := merge2_rscan ha hb p

/-- the specification `OrderedEntries l P` determines the list `l` -/
theorem scan_spec_unique {l l' : Raw} {P : Bytes → Bytes → Prop}
    (h : OrderedEntries l P) (h' : OrderedEntries l' P) : l = l' := h.unique h'

/-- the merged lookup agrees with the merged iterator, key by key -/
theorem merged_get_scan_agree {a b : Raw} (ha : Sorted a) (hb : Sorted b) (k : Bytes) :
    rget (merge2 a b) k = mget2 a b k := rget_merge2 ha hb k

/-- scan through a historical root (rollback overlay over the frontier snapshot, seen through the delete-enabled
    iterator, which skips the deleted entries and nothing else): the key-ordered list of exactly the entries of the
    viewed version under the prefix — keys holding the empty value included. (Before 734ff49 the overlay and the
    snapshot were additionally wrapped in `skipDeletedIterator`, which dropped those keys: former finding F3b.) -/
theorem hist_scan_spec {rb base : Raw} (hrb : Sorted rb) (hbase : Sorted base) (p : Bytes) :
    OrderedEntries (edEntries ((Root.hist rb base).rawScan p))
      (fun k v => isPrefix p k = true ∧ viewOf (oabs rb) (abs base) k = some v) :=
  hist_scan_entries hrb hbase p

/-- scan through the frontier root: the key-ordered list of exactly the entries under the prefix -/
theorem front_scan_spec {base : Raw} (hbase : Sorted base) (p : Bytes) :
    OrderedEntries (edEntries ((Root.front base).rawScan p))
      (fun k v => isPrefix p k = true ∧ abs base k = some v) :=
  front_scan_entries hbase p

/-- scan and lookup of a historical root agree: the scan under prefix `p` lists `(k, v)` exactly when `k` is under
    `p` and `Get k` answers `v` (so: no key that `Get`/`Has` report present is missing, no key they report absent
    is listed). This is the sentence the model-free scan monitor of the `vdb` stream tests on the real store. -/
theorem hist_scan_agrees_get {rb base : Raw} (hrb : Sorted rb) (hbase : Sorted base) (p k v : Bytes) :
    (k, v) ∈ edEntries ((Root.hist rb base).rawScan p) ↔ isPrefix p k = true ∧ (Root.hist rb base).get k = some v := by
  rw [hist_get_refines]
  exact (hist_scan_spec hrb hbase p).2 k v

/-- in particular (the former F3b case): a key that holds the empty value in the viewed version is listed, with
    the empty value, by every scan of the historical view whose prefix covers it -/
theorem hist_scan_lists_empty_value {rb base : Raw} (hrb : Sorted rb) (hbase : Sorted base) (p k : Bytes)
    (hp : isPrefix p k = true) (hk : (Root.hist rb base).get k = some []) :
    (k, []) ∈ edEntries ((Root.hist rb base).rawScan p) :=
  (hist_scan_agrees_get hrb hbase p k []).2 ⟨hp, hk⟩

/-- … and a key deleted in the overlay (created after X) or deleted in the snapshot is never listed -/
theorem hist_scan_hides_deleted {rb base : Raw} (hrb : Sorted rb) (hbase : Sorted base) (p k : Bytes)
    (hk : (Root.hist rb base).get k = none) :
    ∀ v, (k, v) ∉ edEntries ((Root.hist rb base).rawScan p) := by
  intro v hm
  have := ((hist_scan_agrees_get hrb hbase p k v).1 hm).2
  rw [hk] at this
  cases this

/-- the concrete witness of the former finding F3b, now positive: key `[9]` holds the empty value at X; a later
    commit created key `[11]` (the overlay holds its tombstone). The view at X answers `Get [9] = ""`, `Get [11]` =
    not found, and its scan is exactly `[9] ↦ ""` — the same list as a scan of the frontier root with that content. -/
example :
    let rb : Raw := [([11], [])]
    let base : Raw := [([9], [0]), ([11], [0, 1])]
    (Root.hist rb base).get [9] = some [] ∧
    (Root.hist rb base).get [11] = none ∧
    edEntries ((Root.hist rb base).rawScan []) = [([9], [])] ∧
    edEntries ((Root.front [([9], [0])]).rawScan []) = [([9], [])] := by
  refine ⟨by decide, by decide, ?_, by decide⟩
  simp [Root.rawScan, rscan, isPrefix, merge2, bytesLt, edEntries]

/-- the same witness with a one-byte value next to it and a key deleted since X that the overlay restores -/
example :
    let rb : Raw := [([10], [0]), ([11], [])]
    let base : Raw := [([9], [0]), ([10], []), ([11], [0, 1]), ([12], [0, 7])]
    edEntries ((Root.hist rb base).rawScan []) = [([9], []), ([10], []), ([12], [7])] := by
  simp [Root.rawScan, rscan, isPrefix, merge2, bytesLt, edEntries]


/-! ### the executable manager (`Ldb` = ldbManager without caches) over arbitrary operation sequences

`Reach s h` (Lemmas/LdbInv.lean): `s` is reachable from the empty store by any sequence of commits on the
frontier (`Ldb.add s.frontierId …` with height = frontier height + 1 < 2^64, a hash not used on the chain, user
keys outside the hash-index prefix), commits on any other parent, and pops; `h` is the ghost history of the
current chain, newest first; `v.store` is the logical content (meta keys included) at the moment `v` was
committed: `applyP (content of the predecessor) (ops ++ frontierOps id)`. -/

/-- the frontier of a reachable state holds the content and the identifier of the newest version -/
theorem frontier_refines {s : Ldb} {h : List Ver} (hr : Reach s h) :
    (∀ k, (Root.front s.frontier).get k = topStore h k) ∧ s.frontierId = topId h ∧ Sorted s.frontier :=
  ⟨fun k => congrFun hr.inv.inv0.front k, hr.inv.inv0.frontierId, hr.inv.inv0.sorted⟩

/-- T1 `view_refines` (executable manager, lookup): in every reachable state, `Get(id)` of every version on the
    chain succeeds, and the returned view reads — for EVERY key — exactly what the store held when that version
    was committed, whatever was committed, refused or popped afterwards. -/
theorem view_refines {s : Ldb} {h : List Ver} (hr : Reach s h) {v : Ver} (hv : v ∈ h) :
    ∃ r, s.get v.id = some r ∧ ∀ k, r.get k = v.store k := by
  obtain ⟨r, hg, hget, _⟩ := hr.inv.view hv
  exact ⟨r, hg, fun k => congrFun hget k⟩

/-- T1, existence test (`Has`) -/
theorem view_refines_has {s : Ldb} {h : List Ver} (hr : Reach s h) {v : Ver} (hv : v ∈ h) :
    ∃ r, s.get v.id = some r ∧ ∀ k, (r.get k).isSome = (v.store k).isSome := by
  obtain ⟨r, hg, hget⟩ := view_refines hr hv
  exact ⟨r, hg, fun k => by rw [hget k]⟩

/-- T1, ordered scan: in every reachable state, the scan of the view at ANY version `v` on the chain (frontier or
    below) under prefix `p` is the key-ordered list of exactly the entries of `v`'s content under `p` — empty values
    included, whatever was committed, refused or popped afterwards. -/
theorem view_refines_scan {s : Ldb} {h : List Ver} (hr : Reach s h) {v : Ver} (hv : v ∈ h) (p : Bytes) :
    ∃ r, s.get v.id = some r ∧
      OrderedEntries (edEntries (r.rawScan p)) (fun k val => isPrefix p k = true ∧ v.store k = some val) := by
  obtain ⟨r, hg, _, hscan⟩ := hr.inv.view_scan hv
  exact ⟨r, hg, hscan p⟩

/-- T4 `add_parent_check`: a commit on anything but the frontier leaves the store unchanged (the call itself
    reports success when the parent is a known version — the repository's own test needs that). -/
theorem add_parent_check {s s' : Ldb} {prev id : Id} {ops : Patch} (hne : prev ≠ s.frontierId)
    (ha : s.add prev id ops = some s') : s' = s := add_stale_eq hne ha

/-- an identifier that is not on the current chain (unknown hash, or a known hash with another height) gets no
    view … -/
theorem unknown_id_refused {s : Ldb} {h : List Ver} (hr : Reach s h) {id : Id} (hz : id.isZero = false)
    (hid : ∀ v ∈ h, v.id ≠ id) : s.get id = none := hr.inv.get_unknown hz hid

/-- … and a commit on it fails with an error -/
theorem unknown_parent_refused {s : Ldb} {h : List Ver} (hr : Reach s h) {prev : Id} (hz : prev.isZero = false)
    (hid : ∀ v ∈ h, v.id ≠ prev) (id : Id) (ops : Patch) : s.add prev id ops = none :=
  hr.inv.add_unknown hz hid id ops

/-- T2 `view_immutable` (value level): the views handed out for the same version in two different reachable
    states — e.g. before and after any number of later commits, refused commits and pops that keep the version on
    the chain, also when the version was the frontier in one state and lies below it in the other — agree on every
    lookup and every ordered scan. (A view is a value here: it owns its snapshot; aliasing of the cached overlay
    object is outside this model and covered by the `vdb` stream.) -/
theorem view_immutable {s s' : Ldb} {h h' : List Ver} (hr : Reach s h) (hr' : Reach s' h') {v : Ver}
    (hv : v ∈ h) (hv' : v ∈ h') :
    ∃ r r', s.get v.id = some r ∧ s'.get v.id = some r' ∧ (∀ k, r.get k = r'.get k) ∧
      (∀ p, edEntries (r.rawScan p) = edEntries (r'.rawScan p)) := by
  obtain ⟨r, hg, hget, hscan⟩ := hr.inv.view_scan hv
  obtain ⟨r', hg', hget', hscan'⟩ := hr'.inv.view_scan hv'
  exact ⟨r, r', hg, hg', fun k => by rw [hget, hget'], fun p => (hscan p).unique (hscan' p)⟩

/-- the model totalises two places where the Go code dereferences a missing undo patch (the `none` branch of
    `buildOverlay` in `Get`, and `Pop`): in every reachable state the undo patch of every height 1 … frontier height
    is stored, so those branches are never taken for identifiers on the chain, and nothing is stored for other
    heights. -/
theorem rollbacks_complete {s : Ldb} {h : List Ver} (hr : Reach s h) (j : Nat) :
    (1 ≤ j ∧ j ≤ s.frontierId.height → (lookupH s.rollbacks j).isSome = true) ∧
    (j = 0 ∨ s.frontierId.height < j → lookupH s.rollbacks j = none) := by
  have hf : s.frontierId.height = h.length := by
    rw [hr.inv.inv0.frontierId, hr.inv.inv0.hchain.topHeight]
  rw [hf]
  exact ⟨fun hj => hr.inv.inv0.rb.isSome hr.inv.inv0.hchain j hj.1 hj.2, hr.inv.inv0.rbNone j⟩

/-- T1 "for every cache state" (`I_cache`): `ldbManager.Get` may start from a cached pair (frontier `F` at caching
    time, overlay folded up to `F`) and only fold the undo patches of the heights above `F`. If the chain at caching
    time (`h`) is still the lower part of the current chain (`newer ++ h` — guaranteed because `Pop` purges the
    caches), the result is the overlay the cache-free `Get` of the model builds; so `view_refines` and the scan
    theorems hold for the cached path as well. -/
theorem cached_overlay_sound {s s' : Ldb} {h newer : List Ver} (hr : Reach s h) (hr' : Reach s' (newer ++ h))
    {v : Ver} (hv : v ∈ h) :
    buildOverlay s'.rollbacks s.frontierId.height (s'.frontierId.height - s.frontierId.height)
        (buildOverlay s.rollbacks v.id.height (s.frontierId.height - v.id.height) []) =
      buildOverlay s'.rollbacks v.id.height (s'.frontierId.height - v.id.height) [] :=
  hr.inv.inv0.cached_overlay hr'.inv.inv0 hv

/-- the former F3b case on the manager: a key holding the empty value in a version on the chain (below the
    frontier or not) is answered by `Get`/`Has` of the view AND listed, with the empty value, by every scan of the
    view whose prefix covers it -/
theorem view_scan_lists_empty_value {s : Ldb} {h : List Ver} (hr : Reach s h) {v : Ver} (hv : v ∈ h)
    {k : Bytes} (hk : v.store k = some []) :
    ∃ r, s.get v.id = some r ∧ r.get k = some [] ∧
      ∀ p, isPrefix p k = true → (k, []) ∈ edEntries (r.rawScan p) := by
  obtain ⟨r, hg, hget, hscan⟩ := hr.inv.view_scan hv
  exact ⟨r, hg, by rw [hget, hk], fun p hp => ((hscan p).2 k []).2 ⟨hp, hk⟩⟩

/-- scan and lookup of the view at a version on the chain agree, key by key -/
theorem view_scan_agrees_get {s : Ldb} {h : List Ver} (hr : Reach s h) {v : Ver} (hv : v ∈ h) :
    ∃ r, s.get v.id = some r ∧
      ∀ p k val, (k, val) ∈ edEntries (r.rawScan p) ↔ isPrefix p k = true ∧ r.get k = some val := by
  obtain ⟨r, hg, hget, hscan⟩ := hr.inv.view_scan hv
  exact ⟨r, hg, fun p k val => by rw [hget]; exact (hscan p).2 k val⟩

/-- non-vacuity of `Reach`: two commits, a refused commit on the stale first version, a third commit and a pop;
    the final state is reachable with a history of two versions, and the view at the first version (below the
    frontier) still hides what the second wrote; key `[9]`, which holds the empty value at the first version and
    was deleted by the second, is answered by `Get` and listed by the scan of that view (the former F3b witness,
    now positive), and key `[10]`, created by the second version, is not listed -/
example : ∃ s h v1, Reach s h ∧ h.length = 2 ∧ v1 ∈ h ∧ v1.id = ⟨1, [7]⟩ ∧ v1.id ≠ topId h ∧
    v1.store [9] = some [] ∧ v1.store [10] = none ∧ topStore h [10] = some [5] ∧
    (∃ r, s.get v1.id = some r ∧ r.get [9] = some [] ∧ ([9], []) ∈ edEntries (r.rawScan []) ∧
      ∀ val, ([10], val) ∉ edEntries (r.rawScan [])) := by
  let id1 : Id := ⟨1, [7]⟩
  let id2 : Id := ⟨2, [8]⟩
  let id3 : Id := ⟨3, [9]⟩
  let ops1 : Patch := [Op.put [9] []]
  let ops2 : Patch := [Op.put [10] [5], Op.del [9]]
  have r0 := Reach.init
  -- commit 1
  obtain ⟨s1, a1⟩ := r0.inv.inv0.add_succeeds id1 ops1
  have r1 := Reach.add (id := id1) (ops := ops1) r0 ⟨⟨by decide, by decide⟩, by simp, by decide⟩ a1
  have f1 : s1.frontierId = id1 := r1.inv.inv0.frontierId
  -- commit 2
  obtain ⟨s2, a2⟩ := r1.inv.inv0.add_succeeds id2 ops2
  have r2 := Reach.add (id := id2) (ops := ops2) r1
    ⟨⟨by rw [f1], by decide⟩, by simp [commitVer, id1, id2], by decide⟩ a2
  have f2 : s2.frontierId = id2 := r2.inv.inv0.frontierId
  -- a commit on the stale version 1 is a no-op
  have hne : id1 ≠ s2.frontierId := by rw [f2]; decide
  have a3 := r2.inv.add_stale_succeeds (v := commitVer [] id1 ops1) (by simp) hne id3 []
  have r3 := Reach.addStale r2 hne a3
  -- commit 3 and pop it again
  obtain ⟨s4, a4⟩ := r3.inv.inv0.add_succeeds id3 []
  have r4 := Reach.add (id := id3) (ops := []) r3
    ⟨⟨by rw [f2], by decide⟩, by simp [commitVer, id1, id2, id3], by simp⟩ a4
  obtain ⟨s5, p5⟩ := r4.inv.inv0.pop_succeeds
  have r5 := Reach.pop r4 p5
  have hv1 : commitVer [] id1 ops1 ∈ [commitVer [commitVer [] id1 ops1] id2 ops2, commitVer [] id1 ops1] := by simp
  obtain ⟨r, hg, hag⟩ := view_scan_agrees_get r5 hv1
  obtain ⟨r', hg', hget'⟩ := view_refines r5 hv1
  have hrr : r' = r := Option.some.inj (hg'.symm.trans hg)
  subst hrr
  have h9 : r'.get [9] = some [] := by rw [hget']; decide
  have h10 : r'.get [10] = none := by rw [hget']; decide
  refine ⟨s5, _, commitVer [] id1 ops1, r5, rfl, hv1, rfl, by decide, by decide, by decide, by decide,
    r', hg, h9, (hag [] [9] []).2 ⟨by decide, h9⟩, ?_⟩
  intro val hm
  have := ((hag [] [10] val).1 hm).2
  rw [h10] at this
  cases this


/-! ### T3 — write isolation and change sets -/

/-- T3 `changes_replay`: for a view with its own (key-ordered) top layer directly over a root, replaying the
    view's change set onto the root's content gives exactly what the view reads — for every key. -/
theorem changes_replay_layer {top : Raw} (hs : Sorted top) (root : Root) (k : Bytes) :
    applyP root.get (edChanges top) k =
      edDecode (match rget top k with | some v => some v | none => root.rawGet k) := by
  rw [applyP_edChanges hs]
  cases rget top k with
  | some raw => exact (edDecode_some raw).symm
  | none => rfl

/-- the same on the driver's view tree: `Changes()` of a first-level view replayed over its root = its reads -/
theorem changes_replay_view (vs : Views) (n : String) (top : Raw) (root : Root)
    (hn : findNode vs n = some (.layer top none root)) (hs : Sorted top) (k : Bytes) :
    applyP root.get (changesV vs n) k = getV vs n k := by
  have h1 : changesV vs n = edChanges top := by
    simp [changesV, rawChangesV, hn, rscan_nil_prefix]
  have h2 : getV vs n k = edDecode (match rget top k with | some v => some v | none => root.rawGet k) := by
    simp only [getV, rawGetV, hn]
    cases rget top k <;> rfl
  rw [h1, h2]; exact changes_replay_layer hs root k

/-- every top layer a view can have (writes through `Put`/`Delete` starting from the empty memdb) is key-ordered -/
theorem top_layer_sorted (p : Patch) : Sorted (edApply [] p) := Sorted.nil.edApply p

/-- the change set of a view that received the writes `p` replays to the same logical effect as `p` -/
theorem changes_of_writes (s : Store) (p : Patch) : applyP s (edChanges (edApply [] p)) = applyP s p := by
  rw [applyP_edChanges_edApply Sorted.nil]; rfl

/-- `changes_order_independent`: the change set depends only on the final content of the top layer, not on the
    order (or repetition) of the writes that produced it — two write sequences leaving the same raw lookup
    function produce the identical operation list (hence identical dumps and changes hashes). -/
theorem changes_order_independent (p q : Patch)
    (h : ∀ k, rget (edApply [] p) k = rget (edApply [] q) k) :
    edChanges (edApply [] p) = edChanges (edApply [] q) := by
  rw [sorted_ext (top_layer_sorted p) (top_layer_sorted q) h]

/-- instances: writes to different keys may be swapped, an overwritten write may be dropped — anywhere in the
    sequence — without changing the change set -/
theorem changes_swap (pre post : Patch) (o1 o2 : Op) (hk : o1.key ≠ o2.key) :
    edChanges (edApply [] (pre ++ o1 :: o2 :: post)) = edChanges (edApply [] (pre ++ o2 :: o1 :: post)) := by
  simp only [edApply, List.foldl_append, List.foldl_cons]
  have := edApplyOp_comm (top_layer_sorted pre) o1 o2 hk
  simp only [edApply] at this
  rw [this]

theorem changes_overwrite (pre post : Patch) (o1 o2 : Op) (hk : o1.key = o2.key) :
    edChanges (edApply [] (pre ++ o1 :: o2 :: post)) = edChanges (edApply [] (pre ++ o2 :: post)) := by
  simp only [edApply, List.foldl_append, List.foldl_cons]
  have := edApplyOp_overwrite (top_layer_sorted pre) o1 o2 hk
  simp only [edApply] at this
  rw [this]

/-- T3 on the manager: committing the change set of a view opened on the frontier installs exactly what that view
    read (then the three bookkeeping writes of `SetFrontier` on top) -/
theorem commit_installs_view {s s' : Ldb} {h : List Ver} (hr : Reach s h) {top : Raw} (hs : Sorted top)
    (id : Id) (ha : s.add s.frontierId id (edChanges top) = some s') (k : Bytes) :
    abs s'.frontier k =
      applyP (fun x => edDecode (match rget top x with | some v => some v | none => rget s.frontier x))
        (frontierOps id) k := by
  have he := hr.inv.inv0.add_eq id (edChanges top) ha
  subst he
  simp only []
  rw [abs_edApply, applyP_append]
  congr 2
  funext x
  exact changes_replay_layer hs (Root.front s.frontier) x

/-- the stored redo patch (`GetPatch`) of every version on the chain is that version's patch, and replaying the
    chain's patches oldest-first from the empty store reproduces the frontier content. (Model level only: the
    `patches` table follows the Go code but is not exercised by the `vdb` stream.) -/
theorem patches_replay {s : Ldb} {h : List Ver} (hr : Reach s h) :
    (∀ v ∈ h, lookupH s.patches v.id.height = some v.patch) ∧
    (h.reverse.map Ver.patch).foldl applyP Store.empty = abs s.frontier := by
  refine ⟨fun v hv => hr.inv.inv0.pt.mem hv, ?_⟩
  rw [hr.inv.inv0.hchain.replay, hr.inv.inv0.front]

example : edChanges (edApply [] [Op.put [5] [1], Op.del [3], Op.put [5] [], Op.put [4] [9]]) =
    [Op.del [3], Op.put [4] [9], Op.put [5] []] := by decide


/-! ### scans through a view that has its own writes (what block processing uses) -/

/-- the driver's view tree, first-level view: its reads and scans are `layerGet` / `layerRawScan` -/
theorem view_tree_layer (vs : Views) (n : String) (top : Raw) (root : Root)
    (hn : findNode vs n = some (.layer top none root)) :
    (∀ k, getV vs n k = layerGet top root k) ∧ (∀ p, scanV vs n p = edEntries (layerRawScan top root p)) := by
  constructor
  · intro k; simp only [getV, rawGetV, hn, layerGet, layerRawGet]; cases rget top k <;> rfl
  · intro p; simp only [scanV, rawScanV, hn, layerRawScan]

/-- ordered scan through a view with private writes over ANY root (memdb, frontier snapshot, historical overlay):
    the key-ordered list of exactly the entries the view reads under the prefix -/
theorem layer_scan_spec {top : Raw} (hs : Sorted top) {root : Root} (hw : root.WF) (p : Bytes) :
    OrderedEntries (edEntries (layerRawScan top root p))
      (fun k v => isPrefix p k = true ∧ layerGet top root k = some v) :=
  layer_scan_entries hs hw p

/-- instance: over the frontier snapshot -/
theorem frontier_layer_scan_spec {top base : Raw} (hs : Sorted top) (hb : Sorted base) (p : Bytes) :
    OrderedEntries (edEntries (layerRawScan top (Root.front base) p))
      (fun k v => isPrefix p k = true ∧ layerGet top (Root.front base) k = some v) :=
  layer_scan_entries hs (root := Root.front base) hb p

/-- instance: over a historical root (what a block re-processed on a version below the frontier scans) -/
theorem hist_layer_scan_spec {top rb base : Raw} (hs : Sorted top) (hrb : Sorted rb) (hb : Sorted base) (p : Bytes) :
    OrderedEntries (edEntries (layerRawScan top (Root.hist rb base) p))
      (fun k v => isPrefix p k = true ∧ layerGet top (Root.hist rb base) k = some v) :=
  layer_scan_entries hs (root := Root.hist rb base) ⟨hrb, hb⟩ p

/-- manager level, any version: a view opened at a version `v` on the chain of a reachable state that then
    received the writes `ops` reads `applyP (content of v) ops` on every key, and every ordered prefix scan of it is
    the key-ordered list of exactly those entries. -/
theorem version_view_refines {s : Ldb} {h : List Ver} (hr : Reach s h) {v : Ver} (hv : v ∈ h) (ops : Patch) :
    ∃ r, s.get v.id = some r ∧
      (∀ k, layerGet (edApply [] ops) r k = applyP v.store ops k) ∧
      (∀ p, OrderedEntries (edEntries (layerRawScan (edApply [] ops) r p))
        (fun k val => isPrefix p k = true ∧ applyP v.store ops k = some val)) := by
  obtain ⟨r, hg, hget, hshape⟩ := hr.inv.view hv
  have hreads : ∀ k, layerGet (edApply [] ops) r k = applyP v.store ops k := by
    intro k
    have := changes_replay_layer (top_layer_sorted ops) r k
    rw [hget] at this
    rw [changes_of_writes] at this
    rw [this]
    simp only [layerGet, layerRawGet]
    cases rget (edApply [] ops) k <;> rfl
  have hw : r.WF := by
    rcases hshape with ⟨rfl, _⟩ | ⟨_, rb, rfl, hrb⟩
    · exact hr.inv.inv0.sorted
    · exact ⟨hrb, hr.inv.inv0.sorted⟩
  refine ⟨r, hg, hreads, ?_⟩
  intro p
  have hsc := layer_scan_entries (top_layer_sorted ops) hw p
  refine ⟨hsc.1, fun k val => (hsc.2 k val).trans ?_⟩
  simp only [hreads]

/-- manager level: a view opened on the frontier of a reachable state that then received the writes `ops` reads
    `applyP (frontier content) ops` on every key, and every ordered prefix scan of it is the key-ordered list of
    exactly those entries. -/
theorem frontier_view_refines {s : Ldb} {h : List Ver} (hr : Reach s h) (ops : Patch) :
    ∃ r, s.get s.frontierId = some r ∧
      (∀ k, layerGet (edApply [] ops) r k = applyP (topStore h) ops k) ∧
      (∀ p, OrderedEntries (edEntries (layerRawScan (edApply [] ops) r p))
        (fun k v => isPrefix p k = true ∧ applyP (topStore h) ops k = some v)) := by
  obtain ⟨r, hg, hget, hshape⟩ := hr.inv.inv0.get_frontier
  have hreads : ∀ k, layerGet (edApply [] ops) r k = applyP (topStore h) ops k := by
    intro k
    have := changes_replay_layer (top_layer_sorted ops) r k
    rw [hget] at this
    rw [changes_of_writes] at this
    rw [this]
    simp only [layerGet, layerRawGet]
    cases rget (edApply [] ops) k <;> rfl
  have hw : r.WF := by
    rcases hshape with ⟨rfl, _⟩ | rfl
    · exact trivial
    · exact hr.inv.inv0.sorted
  refine ⟨r, hg, hreads, ?_⟩
  intro p
  have hsc := layer_scan_entries (top_layer_sorted ops) hw p
  refine ⟨hsc.1, fun k v => (hsc.2 k v).trans ?_⟩
  simp only [hreads]

/-- non-vacuity: a concrete two-commit history; the view at the first version hides the later write and deletion -/
example :
    let s1 : Store := applyP Store.empty [Op.put [3] [7], Op.put [4] []]
    let ps : List Patch := [[Op.put [3] [8], Op.del [4]], [Op.put [5] [1]]]
    viewOf (overlayAfter s1 Overlay.empty ps) (frontierAfter s1 ps) [3] = some [7] ∧
    viewOf (overlayAfter s1 Overlay.empty ps) (frontierAfter s1 ps) [4] = some [] ∧
    viewOf (overlayAfter s1 Overlay.empty ps) (frontierAfter s1 ps) [5] = none ∧
    frontierAfter s1 ps [3] = some [8] := by
  decide

end ZV.C07
