import ZenonVerif.Model.Versioned
import ZenonVerif.Lemmas.KvLogic
/-
C07 — versioned store: a view at commit X shows exactly the state as of X. Property theorems only.
(C06-T2 `rollback_exact` lives in Props/C06.lean.)
-/
namespace ZV.C07
open ZV ZV.Kv ZV.KvLogic ZV.Versioned

/-- One commit step of the reconstruction invariant. If the overlay `o` on top of the current frontier `cur`
    shows the viewed version `sX`, then after committing patch `p` (frontier becomes `applyP cur p`, the undo
    patch `rollbackPatch cur p` is folded into the overlay without overriding) it still shows `sX`. -/
theorem view_step (sX cur : Store) (o : Overlay) (p : Patch)
    (h : viewOf o cur = sX) :
    viewOf (woP o (rollbackPatch cur p)) (applyP cur p) = sX := by
  funext x
  have hx : viewOf o cur x = sX x := congrFun h x
  simp only [viewOf] at hx ⊢
  cases ho : o x with
  | some y =>
    rw [woP_keep _ _ _ _ ho]
    simpa [ho] using hx
  | none =>
    simp only [ho] at hx
    by_cases hm : x ∈ keys p
    · rw [woP_rollback_fresh cur p o x hm ho]; exact hx
    · have hm' : x ∉ keys (rollbackPatch cur p) := by
        simpa [keys, rollbackPatch, List.map_map, Function.comp_def, undoOp_key] using hm
      rw [woP_not_mem _ _ _ hm', ho]
      simp only []
      rw [applyP_not_mem p cur x hm]; exact hx

/-- the frontier after a list of commits -/
def frontierAfter (s : Store) : List Patch → Store
  | [] => s
  | p :: ps => frontierAfter (applyP s p) ps

/-- the overlay `ldbManager.Get` builds for version `s`: undo patches of all later commits, oldest first,
    never overriding (each undo patch is the one recorded against the frontier it was committed on) -/
def overlayAfter (s : Store) (o : Overlay) : List Patch → Overlay
  | [] => o
  | p :: ps => overlayAfter (applyP s p) (woP o (rollbackPatch s p)) ps

/-- T1 (logical level) `view_reconstructs`: for every version `sX` and every sequence of later commits,
    the rollback overlay over the final frontier shows exactly `sX` — for every key. -/
theorem view_reconstructs (sX : Store) (ps : List Patch) :
    viewOf (overlayAfter sX Overlay.empty ps) (frontierAfter sX ps) = sX := by
  suffices h : ∀ (cur : Store) (o : Overlay), viewOf o cur = sX →
      viewOf (overlayAfter cur o ps) (frontierAfter cur ps) = sX by
    exact h sX Overlay.empty (by funext x; simp [viewOf, Overlay.empty])
  induction ps with
  | nil => intro cur o h; exact h
  | cons p ps ih =>
    intro cur o h
    simp only [overlayAfter, frontierAfter]
    exact ih _ _ (view_step sX cur o p h)

/-- T1 (byte level, lookup and existence test): what `Get`/`Has` return through a historical root
    (rollback layer over the frontier snapshot, enable-delete decoding) is `viewOf` of the abstractions. -/
theorem hist_get_refines (rb base : Raw) (k : Bytes) :
    (Root.hist rb base).get k = viewOf (oabs rb) (abs base) k := by
  simp only [Root.get, Root.rawGet]; exact edDecode_mget2 rb base k

/-- the byte-level overlay built by ApplyWithoutOverride abstracts to the logical overlay -/
theorem overlay_refines (rb : Raw) (p : Patch) : oabs (woApply rb p) = woP (oabs rb) p := oabs_woApply p rb

/-- applying a patch through Put/Delete at the byte level abstracts to the logical patch application -/
theorem apply_refines (r : Raw) (p : Patch) : abs (edApply r p) = applyP (abs r) p := abs_edApply p r

/-- T3 `write_visible`: a write through a view is what that view reads afterwards, other keys are unaffected -/
theorem write_visible (top : Raw) (o : Op) (x : Bytes) :
    abs (edApplyOp top o) x = if x = o.key then (match o with | .put _ v => some v | .del _ => none) else abs top x := by
  rw [abs_edApplyOp]
  cases o with
  | put k v => simp only [applyOp, Op.key]; by_cases h : x = k <;> simp [h]
  | del k => simp only [applyOp, Op.key]; by_cases h : x = k <;> simp [h]

/-- non-vacuity: a concrete two-commit history; the view at the first version hides the later write and deletion -/
example :
    let s1 : Store := applyP Store.empty [Op.put [3] [7], Op.put [4] []]
    let ps : List Patch := [[Op.put [3] [8], Op.del [4]], [Op.put [5] [1]]]
    viewOf (overlayAfter s1 Overlay.empty ps) (frontierAfter s1 ps) [3] = some [7] ∧
    viewOf (overlayAfter s1 Overlay.empty ps) (frontierAfter s1 ps) [4] = some [] ∧
    viewOf (overlayAfter s1 Overlay.empty ps) (frontierAfter s1 ps) [5] = none ∧
    frontierAfter s1 ps [3] = some [8] := by
  decide

end ZV.C07
