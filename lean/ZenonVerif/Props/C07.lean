import ZenonVerif.Model.Versioned
import ZenonVerif.Lemmas.KvLogic
import ZenonVerif.Lemmas.KvOrder
/-
C07 — versioned store: a view at commit X shows exactly the state as of X. Property theorems only.
(C06-T2 `rollback_exact` lives in Props/C06.lean.)
-/
namespace ZV.C07
open ZV ZV.Kv ZV.KvLogic ZV.Versioned

/-- One commit step of the reconstruction invariant. If the overlay `o` on top of the current frontier `cur`
    shows the viewed version `sX`, then after committing patch `p` (frontier becomes `applyP cur p`, the undo
    patch `rollbackPatch cur p` is folded into the overlay without overriding) it still shows `sX`. -/
theorem view_step (sX cur : Store) (o : Overlay) (p : Patch)
    (h : viewOf o cur = sX) :
    viewOf (woP o (rollbackPatch cur p)) (applyP cur p) = sX := by
  funext x
  have hx : viewOf o cur x = sX x := congrFun h x
  simp only [viewOf] at hx ⊢
  cases ho : o x with
  | some y =>
    rw [woP_keep _ _ _ _ ho]
    simpa [ho] using hx
  | none =>
    simp only [ho] at hx
    by_cases hm : x ∈ keys p
    · rw [woP_rollback_fresh cur p o x hm ho]; exact hx
    · have hm' : x ∉ keys (rollbackPatch cur p) := by
        simpa [keys, rollbackPatch, List.map_map, Function.comp_def, undoOp_key] using hm
      rw [woP_not_mem _ _ _ hm', ho]
      simp only []
      rw [applyP_not_mem p cur x hm]; exact hx

/-- the frontier after a list of commits -/
def frontierAfter (s : Store) : List Patch → Store
  | [] => s
  | p :: ps => frontierAfter (applyP s p) ps

/-- the overlay `ldbManager.Get` builds for version `s`: undo patches of all later commits, oldest first,
    never overriding (each undo patch is the one recorded against the frontier it was committed on) -/
def overlayAfter (s : Store) (o : Overlay) : List Patch → Overlay
  | [] => o
  | p :: ps => overlayAfter (applyP s p) (woP o (rollbackPatch s p)) ps

/-- T1 (logical level) `view_reconstructs`: for every version `sX` and every sequence of later commits,
    the rollback overlay over the final frontier shows exactly `sX` — for every key. -/
theorem view_reconstructs (sX : Store) (ps : List Patch) :
    viewOf (overlayAfter sX Overlay.empty ps) (frontierAfter sX ps) = sX := by
  suffices h : ∀ (cur : Store) (o : Overlay), viewOf o cur = sX →
      viewOf (overlayAfter cur o ps) (frontierAfter cur ps) = sX by
    exact h sX Overlay.empty (by funext x; simp [viewOf, Overlay.empty])
  induction ps with
  | nil => intro cur o h; exact h
  | cons p ps ih =>
    intro cur o h
    simp only [overlayAfter, frontierAfter]
    exact ih _ _ (view_step sX cur o p h)

/-- T1 (byte level, lookup and existence test): what `Get`/`Has` return through a historical root
    (rollback layer over the frontier snapshot, enable-delete decoding) is `viewOf` of the abstractions. -/
theorem hist_get_refines (rb base : Raw) (k : Bytes) :
    (Root.hist rb base).get k = viewOf (oabs rb) (abs base) k := by
  simp only [Root.get, Root.rawGet]; exact edDecode_mget2 rb base k

/-- the byte-level overlay built by ApplyWithoutOverride abstracts to the logical overlay -/
theorem overlay_refines (rb : Raw) (p : Patch) : oabs (woApply rb p) = woP (oabs rb) p := oabs_woApply p rb

/-- applying a patch through Put/Delete at the byte level abstracts to the logical patch application -/
theorem apply_refines (r : Raw) (p : Patch) : abs (edApply r p) = applyP (abs r) p := abs_edApply p r

/-- T3 `write_visible`: a write through a view is what that view reads afterwards, other keys are unaffected -/
theorem write_visible (top : Raw) (o : Op) (x : Bytes) :
    abs (edApplyOp top o) x = if x = o.key then (match o with | .put _ v => some v | .del _ => none) else abs top x := by
  rw [abs_edApplyOp]
  cases o with
  | put k v => simp only [applyOp, Op.key]; by_cases h : x = k <;> simp [h]
  | del k => simp only [applyOp, Op.key]; by_cases h : x = k <;> simp [h]


/-! ### T5 — the merged iterator and the scans of the two kinds of roots -/

/-- T5 `merged_scan_correct`: over layers in key order, the merged iterator of the two prefix iterators
    (first layer wins on equal keys) is the key-ordered list of exactly the entries `(k, v)` with `k` under the
    prefix and `v` the answer of the merged lookup (`mergedDB.Get`) for `k`. -/
theorem merged_scan_correct {a b : Raw} (ha : Sorted a) (hb : Sorted b) (p : Bytes) :
    OrderedEntries (merge2 (rscan a p) (rscan b p)) (fun k v => isPrefix p k = true ∧ mget2 a b k = some v) :=
  merged_scan_entries ha hb p

/-- T5, iterator form: merging the prefix iterators = prefix iterator of the merge -/
theorem merged_scan_commutes {a b : Raw} (ha : Sorted a) (hb : Sorted b) (p : Bytes) :
    merge2 (rscan a p) (rscan b p) = rscan (merge2 a b) p := merge2_rscan ha hb p

/-- the specification `OrderedEntries l P` determines the list `l` -/
theorem scan_spec_unique {l l' : Raw} {P : Bytes → Bytes → Prop}
    (h : OrderedEntries l P) (h' : OrderedEntries l' P) : l = l' := h.unique h'

/-- the merged lookup agrees with the merged iterator, key by key -/
theorem merged_get_scan_agree {a b : Raw} (ha : Sorted a) (hb : Sorted b) (k : Bytes) :
    rget (merge2 a b) k = mget2 a b k := rget_merge2 ha hb k

/-- scan through a historical root (rollback overlay over the frontier snapshot, skipDeleted, enableDelete):
    the key-ordered list of exactly the entries of the viewed version under the prefix — EXCEPT those holding
    the empty value (known finding F3b: `skipDeletedIterator` drops raw values of length ≤ 1, i.e. tombstones
    and present-but-empty values alike). -/
theorem hist_scan_spec_partial {rb base : Raw} (hrb : Sorted rb) (hbase : Sorted base) (p : Bytes) :
    OrderedEntries (edEntries ((Root.hist rb base).rawScan p))
      (fun k v => isPrefix p k = true ∧ viewOf (oabs rb) (abs base) k = some v ∧ v ≠ []) :=
  hist_scan_entries hrb hbase p

/-- scan through the frontier root: the key-ordered list of exactly the entries under the prefix -/
theorem front_scan_spec {base : Raw} (hbase : Sorted base) (p : Bytes) :
    OrderedEntries (edEntries ((Root.front base).rawScan p))
      (fun k v => isPrefix p k = true ∧ abs base k = some v) :=
  front_scan_entries hbase p

/-- N2 (F3b, general form): a key that holds the empty value in the viewed version is found by `Get`/`Has`
    but is missing from every scan of the historical view. -/
theorem hist_scan_drops_empty_value {rb base : Raw} (hrb : Sorted rb) (hbase : Sorted base) (p k : Bytes)
    (hk : (Root.hist rb base).get k = some []) :
    ∀ v, (k, v) ∉ edEntries ((Root.hist rb base).rawScan p) := by
  intro v hv
  have h := ((hist_scan_spec_partial hrb hbase p).2 k v).1 hv
  rw [hist_get_refines] at hk
  rw [hk] at h
  exact h.2.2 (Option.some.inj h.2.1).symm

/-- N2 (F3b, concrete witness): key `[9]` holds the empty value at X; a later commit created key `[11]`.
    The view at X answers `Get [9] = ""` but its scan is empty, whereas the same content scanned at the frontier
    root lists the key. -/
theorem hist_scan_drops_empty_value_witness :
    let rb : Raw := [([11], [])]
    let base : Raw := [([9], [0]), ([11], [0, 1])]
    (Root.hist rb base).get [9] = some [] ∧
    edEntries ((Root.hist rb base).rawScan []) = [] ∧
    edEntries ((Root.front [([9], [0])]).rawScan []) = [([9], [])] := by
  refine ⟨by decide, ?_, by decide⟩
  simp [Root.rawScan, rscan, isPrefix, merge2, bytesLt, skipDel, edEntries]

/-- non-vacuity: a concrete two-commit history; the view at the first version hides the later write and deletion -/
example :
    let s1 : Store := applyP Store.empty [Op.put [3] [7], Op.put [4] []]
    let ps : List Patch := [[Op.put [3] [8], Op.del [4]], [Op.put [5] [1]]]
    viewOf (overlayAfter s1 Overlay.empty ps) (frontierAfter s1 ps) [3] = some [7] ∧
    viewOf (overlayAfter s1 Overlay.empty ps) (frontierAfter s1 ps) [4] = some [] ∧
    viewOf (overlayAfter s1 Overlay.empty ps) (frontierAfter s1 ps) [5] = none ∧
    frontierAfter s1 ps [3] = some [8] := by
  decide

end ZV.C07
