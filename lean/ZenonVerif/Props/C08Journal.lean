import ZenonVerif.Lemmas.Journal
import ZenonVerif.Props.C08
/-
C08 — crash atomicity at BYTE granularity: the journal (write-ahead log) layer under `Props/C08.lean`.
`Props/C08.lean` proves that a commit / rollback is ONE write call and that a crash between write calls leaves the
state before or after. This file proves what was taken for granted there: that one write call is one atomic unit
after a crash, for a process that dies at ANY BYTE of the journal file - on the model of goleveldb's log format
and of its (non-strict) reader in `Model/Journal.lean`. Property theorems only; lemmas in `Lemmas/Journal.lean`.

Block size: every general theorem holds for all block sizes 8 ≤ B ≤ 65542 (a header plus one payload byte must fit
into a block; the payload of a chunk, at most B - 7 bytes, must fit the 16-bit length field) and for every checksum
function `crc`; goleveldb's instance is B = 32768, crc = `leveldbCrc` (masked CRC-32C).
-/
namespace ZV.C08J
open ZV ZV.Kv ZV.Versioned ZV.Crash ZV.Journal

variable (B : Nat) (crc : Journal.Bytes → UInt32)

/-- the bounds on the block size the format needs -/
def BlockOK (B : Nat) : Prop := 8 ≤ B ∧ B ≤ 65542

/-- J0 (chunk level, any way of cutting records into pieces): every prefix of the chunk sequence of a journal
    delivers a prefix of whole records. `pss` = the records, each given by its non-empty list of payload pieces. -/
theorem chunk_prefix_whole_records (pss : List (List Journal.Bytes)) (hne : ∀ ps ∈ pss, ps ≠ []) (j : Nat) :
    ∃ k, recoverChunks (((pss.map recChunks).flatten).take j) none = (pss.map List.flatten).take k := by
  induction pss generalizing j with
  | nil => exact ⟨0, by simp [recoverChunks]⟩
  | cons ps pss ih =>
    have hps : ps ≠ [] := hne ps (by simp)
    simp only [List.map_cons, List.flatten_cons, List.take_append]
    by_cases hj : (recChunks ps).length ≤ j
    · obtain ⟨k, hk⟩ := ih (fun q hq => hne q (by simp [hq])) (j - (recChunks ps).length)
      refine ⟨k + 1, ?_⟩
      rw [List.take_of_length_le hj, recoverChunks_rec ps hps, hk, List.take_succ_cons]
    · refine ⟨0, ?_⟩
      have : j - (recChunks ps).length = 0 := by omega
      rw [this, List.take_zero, List.append_nil, List.take_zero]
      exact recoverChunks_rec_prefix ps j (by omega)

/-- the journal file has the size the layout says, whatever the checksum function -/
theorem journal_size (rs : List Record) : (encodeJournal B crc rs).length = journalSize B rs :=
  length_encSegs crc _

/-- the journal after the first `i` write calls is the prefix of that length of the journal after all of them:
    `journalSize B (rs.take (i+1))` is the offset at which record `i` ends (the quantity `completeAt` counts) -/
theorem journal_prefix (rs : List Record) (i : Nat) :
    encodeJournal B crc (rs.take i) = (encodeJournal B crc rs).take (journalSize B (rs.take i)) := by
  have h := journalSegs_append B (rs.take i) 0 (rs.drop i)
  rw [List.take_append_drop] at h
  unfold encodeJournal journalSize
  rw [h, encSegs_append]
  exact (List.take_left' (length_encSegs crc _)).symm

/-- T3 `recover_truncate_exact`: a journal cut at ANY byte `n` is read back as the records whose encoding ends at
    or before `n` - whole records, in order, nothing of the record the cut falls into. -/
theorem recover_truncate_exact (hB : BlockOK B) (rs : List Record) (n : Nat) :
    recover B crc ((encodeJournal B crc rs).take n) = rs.take (completeAt B rs n) := by
  unfold recover encodeJournal
  rw [read_segs B crc hB.2 _ 0 n _ none (WF_journal B hB.1 rs 0 (by have := hB.1; omega)) (by omega),
    recoverChunks_journal, completeAt_eq]

/-- the count in T3 is what the layout recursion `wholeRecs` computes (the `p=` value the driver prints on jr-cut lines) -/
theorem completeAt_is_wholeRecs (rs : List Record) (n : Nat) : completeAt B rs n = wholeRecs B 0 rs n :=
  completeAt_eq B rs n

/-- T3' `recover_truncate`: every byte prefix of a journal recovers to a prefix of the write calls -/
theorem recover_truncate (hB : BlockOK B) (rs : List Record) (n : Nat) :
    ∃ k, recover B crc ((encodeJournal B crc rs).take n) = rs.take k :=
  ⟨_, recover_truncate_exact B crc hB rs n⟩

/-- T4 `recover_encode`: reader ∘ writer = identity (records of any size: empty, spanning many blocks) -/
theorem recover_encode (hB : BlockOK B) (rs : List Record) : recover B crc (encodeJournal B crc rs) = rs := by
  have h := recover_truncate_exact B crc hB rs (encodeJournal B crc rs).length
  rw [List.take_length] at h
  rw [h, completeAt_eq, wholeRecs_all B rs 0 _ (by rw [journal_size]; exact Nat.le_refl _), List.take_length]

/-- T5 `recover_zero_tail`: a file system that extended the file before the data arrived leaves zeros behind the
    cut. Provided the checksum test rejects the one chunk the cut falls into when its missing bytes read as zeros
    (`TornDetected`; nothing is assumed when the cut falls between chunks, into padding or into a chunk header), the
    result is the same whole-record prefix. -/
theorem recover_zero_tail (hB : BlockOK B) (rs : List Record) (n z : Nat)
    (hdet : TornDetected crc n (journalSegs B 0 rs)) :
    recover B crc ((encodeJournal B crc rs).take n ++ List.replicate z 0) = rs.take (completeAt B rs n) := by
  unfold recover encodeJournal
  rw [read_segs_zeros B crc hB.2 _ 0 n z _ none (WF_journal B hB.1 rs 0 (by have := hB.1; omega)) hdet (by omega),
    recoverChunks_journal, completeAt_eq]

/-- T5' zeros behind a COMPLETE journal (preallocated tail) change nothing - no hypothesis on the checksum -/
theorem recover_zero_padded (hB : BlockOK B) (rs : List Record) (z : Nat) :
    recover B crc (encodeJournal B crc rs ++ List.replicate z 0) = rs := by
  have hall : ∀ (ss : List Seg) (n : Nat), segsSize ss ≤ n → TornDetected crc n ss := by
    intro ss
    induction ss with
    | nil => intro n _; trivial
    | cons s t ih =>
      intro n h
      cases s with
      | pad k =>
        simp only [segsSize, Seg.size] at h
        simp only [TornDetected, show k ≤ n by omega, if_true]
        exact ih _ (by omega)
      | chunk c =>
        simp only [segsSize, Seg.size] at h
        simp only [TornDetected, show 7 + c.payload.length ≤ n by omega, if_true]
        exact ih _ (by omega)
  have h := recover_zero_tail B crc hB rs (encodeJournal B crc rs).length z
    (hall _ _ (by rw [journal_size]; exact Nat.le_refl _))
  rw [List.take_length] at h
  rw [h, completeAt_eq, wholeRecs_all B rs 0 _ (by rw [journal_size]; exact Nat.le_refl _), List.take_length]

/-! ### joined with the write plan of `Model/Crash.lean` -/

/-- the store a reopened database shows: the batches read back from the journal, applied to the state `s0` the
    table files hold. `de` decodes a record into its batch. -/
def replay (de : Record → Batch) (s0 : Ldb) (recs : List Record) : Ldb := (recs.map de).foldl applyBatch s0

/-- T6 `replay_truncate`: byte granularity = write-call granularity. The journal holds the earlier write calls
    `hist` and then the write plan of an operation; the process dies when `n` bytes of the file exist, the earlier
    calls being complete (`hn`). Then the reopened store is the store after the first `k` write calls of the plan,
    for some `k` - the situation `afterWrites` of Props/C08 describes. `ser`/`de`: any batch serialisation with a
    left inverse. -/
theorem replay_truncate (hB : BlockOK B) (ser : Batch → Record) (de : Record → Batch) (hde : ∀ b, de (ser b) = b)
    (s0 : Ldb) (hist plan : List Batch) (n : Nat) (hn : journalSize B (hist.map ser) ≤ n) :
    ∃ k, replay de s0 (recover B crc ((encodeJournal B crc ((hist ++ plan).map ser)).take n))
      = afterWrites (hist.foldl applyBatch s0) plan k := by
  have hmap : ∀ l : List Batch, (l.map ser).map de = l := by
    intro l
    induction l with
    | nil => rfl
    | cons b t ih => simp [hde, ih]
  have hex := recover_truncate_exact B crc hB ((hist ++ plan).map ser) n
  rw [completeAt_eq, List.map_append, wholeRecs_append B _ 0 _ n hn] at hex
  refine ⟨wholeRecs B (segsEnd B 0 (journalSegs B 0 (hist.map ser))) (plan.map ser)
    (n - segsSize (journalSegs B 0 (hist.map ser))), ?_⟩
  rw [List.map_append, hex, List.take_append, List.take_of_length_le (by omega)]
  simp only [List.length_map, Nat.add_sub_cancel_left]
  unfold replay afterWrites
  rw [List.map_append, hmap, ← List.map_take, hmap, List.foldl_append]

/-- T7 `crash_atomic_add_bytes`: a commit interrupted at ANY BYTE of the journal leaves, after reopening, exactly
    the state before or exactly the state after (lifts `C08.crash_atomic_add` from write calls to bytes). -/
theorem crash_atomic_add_bytes (hB : BlockOK B) (ser : Batch → Record) (de : Record → Batch)
    (hde : ∀ b, de (ser b) = b) (s0 : Ldb) (hist : List Batch) (s s' : Ldb) (prev id : Id) (ops : Patch)
    (hs : s = hist.foldl applyBatch s0) (hp : prev = s.frontierId) (h : s.add prev id ops = some s')
    (n : Nat) (hn : journalSize B (hist.map ser) ≤ n) :
    replay de s0 (recover B crc ((encodeJournal B crc ((hist ++ planAdd s prev id ops).map ser)).take n)) = s ∨
    replay de s0 (recover B crc ((encodeJournal B crc ((hist ++ planAdd s prev id ops).map ser)).take n)) = s' := by
  obtain ⟨k, hk⟩ := replay_truncate B crc hB ser de hde s0 hist (planAdd s prev id ops) n hn
  rw [hk, ← hs]
  exact C08.crash_atomic_add s s' prev id ops hp h k

/-- T7' `crash_atomic_pop_bytes`: the same for a rollback -/
theorem crash_atomic_pop_bytes (hB : BlockOK B) (ser : Batch → Record) (de : Record → Batch)
    (hde : ∀ b, de (ser b) = b) (s0 : Ldb) (hist : List Batch) (s s' : Ldb)
    (hs : s = hist.foldl applyBatch s0) (h : s.pop = some s')
    (n : Nat) (hn : journalSize B (hist.map ser) ≤ n) :
    replay de s0 (recover B crc ((encodeJournal B crc ((hist ++ planPop s).map ser)).take n)) = s ∨
    replay de s0 (recover B crc ((encodeJournal B crc ((hist ++ planPop s).map ser)).take n)) = s' := by
  obtain ⟨k, hk⟩ := replay_truncate B crc hB ser de hde s0 hist (planPop s) n hn
  rw [hk, ← hs]
  exact C08.crash_atomic_pop s s' h k

/-! ### goleveldb's instance -/

theorem block_32768 : BlockOK 32768 := by unfold BlockOK; omega

/-- T3 at goleveldb's parameters -/
theorem recover_truncate_leveldb (rs : List Record) (n : Nat) :
    recover 32768 leveldbCrc ((encodeJournal 32768 leveldbCrc rs).take n) = rs.take (completeAt 32768 rs n) :=
  recover_truncate_exact 32768 leveldbCrc block_32768 rs n

/-- the checksum implementation against the published CRC-32C check value ("123456789" ↦ 0xE3069283) -/
theorem crc32c_check_value :
    crc32c [0x31, 0x32, 0x33, 0x34, 0x35, 0x36, 0x37, 0x38, 0x39] = 0xE3069283 := by decide +kernel

/-! ### negative witness: the strict reader (seeded change C08-r2-1: `Strict: opt.StrictAll`) -/

/-- toy checksum for the decidable instance -/
def toyCrc (l : Journal.Bytes) : UInt32 := l.foldl (fun a b => a * 31 + b.toUInt32) 7

/-- two write calls with block size 32: a 3-byte record, then a 30-byte record that needs two blocks -/
def tornRecs : List Record := [[1, 2, 3], List.replicate 30 9]

/-- N2 `strict_reader_refuses_torn_tail`: the second write is torn at the block boundary (byte 32 of 54: the first
    of its two write(2) calls reached the file). The reader the node uses drops the torn record and delivers the
    first write (the state before); the strict reader refuses the journal - the database cannot be opened any more -
    although it reads the complete journal like the other one. -/
theorem strict_reader_refuses_torn_tail :
    (encodeJournal 32 toyCrc tornRecs).length = 54 ∧
    recover 32 toyCrc ((encodeJournal 32 toyCrc tornRecs).take 32) = tornRecs.take 1 ∧
    recoverStrict 32 toyCrc ((encodeJournal 32 toyCrc tornRecs).take 32) = none ∧
    recoverStrict 32 toyCrc (encodeJournal 32 toyCrc tornRecs) = some tornRecs := by
  decide +kernel

/-- the strict reader differs from the node's reader only by refusing: on ANY file content, when it opens the
    journal it delivers the same records (so the seeded change is invisible until a journal is torn) -/
theorem strict_reader_agrees_when_it_opens (data : Journal.Bytes) (l : List Record)
    (h : recoverStrict B crc data = some l) : recover B crc data = l :=
  strictAux_some B crc _ _ _ _ _ h

end ZV.C08J
