import ZenonVerif.Model.Genesis
import ZenonVerif.Lemmas.Genesis
/-
C20 — genesis: property theorems only.
Not theorems (covered by the `genesis` stream on the real code only): that the full genesis momentum — patch of the
whole embedded-contract storage, hash — is invariant under permutation of the configuration lists (T3 `genesis_pure`
of DESIGN.md needs a model of the ABI packing and of every `Save`; what IS proved is the two order-sensitive
mechanisms it rests on: sorted momentum content and commuting writes to distinct keys), and "fresh processes".
-/
namespace ZV.C20
open ZV ZV.Genesis

/-! ### T2 content_canonical -/

/-- the facts the model of `NewMomentumContent` was written for are the ones in the tree -/
theorem content_facts :
    Gen.headerComparer = "bytes.Compare <= 0" ∧ Gen.newMomentumContentSortCalls = 1 ∧
      Gen.gnAccountHeaderBytesFields = ["Address", "Height", "Hash"] ∧ Gen.AccountBlockHeaderRawLen = 60 := by decide

/-- `NewMomentumContent` returns a permutation of its input, sorted by header bytes. -/
theorem content_sorted (l : List Header) :
    (newMomentumContent l).Perm l ∧ (newMomentumContent l).Pairwise (fun a b => hdrLe a b = true) :=
  ⟨List.mergeSort_perm l hdrLe,
   List.pairwise_mergeSort (fun a b c => bytesLe_trans a.bytes b.bytes c.bytes)
     (fun a b => bytesLe_total a.bytes b.bytes) l⟩

/-- Independence of the sorting algorithm: ANY two sorted arrangements of the same well-formed headers are equal —
    so Go's unstable `sort.Slice` and the model's merge sort cannot differ, duplicates included (the comparer is a
    total ORDER on header bytes and `Bytes()` is injective on 20-byte address / uint64 height / 32-byte hash). -/
theorem content_sorted_unique (s₁ s₂ : List Header) (hwf : ∀ h ∈ s₁, h.WF) (hp : s₁.Perm s₂)
    (h₁ : s₁.Pairwise (fun a b => hdrLe a b = true)) (h₂ : s₂.Pairwise (fun a b => hdrLe a b = true)) : s₁ = s₂ := by
  apply List.Perm.eq_of_pairwise (le := fun a b => hdrLe a b = true) _ h₁ h₂ hp
  intro a b ha hb hab hba
  exact Header.bytes_inj a b (hwf a ha) (hwf b (hp.mem_iff.2 hb)) (bytesLe_antisymm _ _ hab hba)

/-- T2 `content_canonical`: the momentum content does not depend on the order in which the account blocks are
    handed over (pool iteration order, configuration list order): `sort (perm l) = sort l`. -/
theorem content_canonical (l₁ l₂ : List Header) (hwf : ∀ h ∈ l₁, h.WF) (hp : l₁.Perm l₂) :
    newMomentumContent l₁ = newMomentumContent l₂ := by
  have s1 := content_sorted l₁
  have s2 := content_sorted l₂
  apply content_sorted_unique _ _ _ (s1.1.trans (hp.trans s2.1.symm)) s1.2 s2.2
  intro h hh
  exact hwf h (s1.1.mem_iff.1 hh)

/-- the header encoding is fixed-width (60 bytes), hence the byte order is the (address, height, hash) order -/
theorem header_bytes_length (h : Header) (hwf : h.WF) : h.bytes.length = 60 := Header.bytes_length h hwf

/-! ### T1 (the part that is provable here): writes to distinct keys commute -/

/-- the genesis writers write one key per list entry; when the keys of a list are pairwise distinct the resulting
    store does not depend on the order of the list -/
theorem writes_canonical (s : Bytes → Option Bytes) (w₁ w₂ : List (Bytes × Bytes)) (hp : w₁.Perm w₂)
    (hnd : (w₁.map (·.1)).Nodup) : applyWrites s w₁ = applyWrites s w₂ := by
  induction hp generalizing s with
  | nil => rfl
  | cons x _ ih =>
    obtain ⟨k, v⟩ := x
    simp only [applyWrites]
    exact ih _ (List.nodup_cons.1 (by simpa using hnd)).2
  | swap x y l =>
    obtain ⟨k₁, v₁⟩ := x
    obtain ⟨k₂, v₂⟩ := y
    simp only [applyWrites]
    have hne : k₂ ≠ k₁ := by
      intro h; simp [h] at hnd
    congr 1
    funext z
    simp only [put]
    by_cases h1 : z = k₁ <;> by_cases h2 : z = k₂ <;> simp_all
  | trans p₁ _ ih₁ ih₂ =>
    rw [ih₁ s hnd]
    exact ih₂ s ((p₁.map (·.1)).nodup_iff.1 hnd)

/-- two entries with one key (e.g. the nine fusions of one owner with the zero id in the mock genesis) are the excluded
    case: the last writer wins, so the order matters -/
theorem writes_duplicate_key_order_dependent :
    applyWrites (fun _ => none) [([1], [10]), ([1], [20])] [1] ≠ applyWrites (fun _ => none) [([1], [20]), ([1], [10])] [1] := by
  decide

/-! ### T4 check_genesis_sound -/

/-- `CheckGenesis` calls the five validators in the order the model uses -/
theorem check_order_fact : Gen.checkGenesisOrder =
    ["CheckFieldsExist", "CheckPlasmaInfo", "CheckSwapAccount", "CheckPillarBalance", "CheckTokenTotalSupply"] := by decide

/-- T4a: accepted ⇒ for every declared token, the amounts of ALL balance entries of that token add up to TotalSupply,
    and the token is given at least once. (Full strength of what the code checks.) -/
theorem check_genesis_entries_sum (c : Config) (h : checkGenesis c = .ok) :
    ∀ t ∈ c.tokens, givenSum c t.zts = t.total ∧ givenHas c t.zts = true := by
  have h5 := (checkGenesis_ok c h).2.2.2.2
  unfold checkTokenTotalSupply at h5
  rw [Bool.and_eq_true, List.all_eq_true] at h5
  intro t ht
  have := h5.1 t ht
  simp only [Bool.and_eq_true, beq_iff_eq] at this
  exact ⟨this.2.symm, this.1⟩

/-- T4b: accepted ⇒ every token given in any balance list is declared. -/
theorem check_genesis_declared (c : Config) (h : checkGenesis c = .ok) :
    ∀ b ∈ c.blocks, ∀ e ∈ b.bal, ∃ t ∈ c.tokens, t.zts = e.1 := by
  have h5 := (checkGenesis_ok c h).2.2.2.2
  unfold checkTokenTotalSupply at h5
  rw [Bool.and_eq_true, List.all_eq_true, List.all_eq_true] at h5
  intro b hb e he
  have hm : e ∈ givenEntries c := List.mem_flatMap.2 ⟨b, hb, he⟩
  have := h5.2 e hm
  simp only [List.any_eq_true, decide_eq_true_eq] at this
  exact this

/-- T4c `check_genesis_sound_partial` (supply): accepted ⇒ the LEDGER balances of every declared token add up to its
    TotalSupply — under two extra premises the code never checks: no address has two `GenesisBlocks` entries
    (`supply_duplicate_entry_accepted`) and no amount is negative (`supply_negative_entry_accepted`: the ledger keeps
    the absolute value). -/
theorem check_genesis_supply_partial (c : Config) (hwf : c.WF) (h : checkGenesis c = .ok)
    (hnd : (c.blocks.map (·.addr)).Nodup) (hnn : c.NonNeg) : ∀ t ∈ c.tokens, ledgerSupply c t.zts = t.total := by
  intro t ht
  rw [ledgerSupply_eq_givenSum c hwf hnn hnd]
  exact (check_genesis_entries_sum c h t ht).1

/-- negative witness: entries of −7 and +12, TotalSupply 5 — accepted, the ledger holds 7 + 12 = 19. -/
theorem supply_negative_entry_accepted :
    ∃ c : Config, c.WF ∧ (c.blocks.map (·.addr)).Nodup ∧ checkGenesis c = .ok ∧
      ∃ t ∈ c.tokens, ledgerSupply c t.zts ≠ t.total := by
  refine ⟨{ blocks := [⟨[0, 7], [(Gen.ZnnTokenStandard, -7)]⟩, ⟨[0, 8], [(Gen.ZnnTokenStandard, 12)]⟩],
            tokens := [⟨Gen.ZnnTokenStandard, 5, 100⟩] }, ?_, by decide, by decide,
          ⟨Gen.ZnnTokenStandard, 5, 100⟩, by simp, by decide⟩
  intro b hb
  simp only [List.mem_cons, List.mem_nil_iff, or_false] at hb
  rcases hb with rfl | rfl <;> simp

/-- negative witness: one address with two entries of 5, TotalSupply 10 — accepted, the ledger holds 5. -/
theorem supply_duplicate_entry_accepted :
    ∃ c : Config, c.WF ∧ checkGenesis c = .ok ∧ ∃ t ∈ c.tokens, ledgerSupply c t.zts ≠ t.total := by
  refine ⟨{ blocks := [⟨[0, 7], [(Gen.ZnnTokenStandard, 5)]⟩, ⟨[0, 7], [(Gen.ZnnTokenStandard, 5)]⟩],
            tokens := [⟨Gen.ZnnTokenStandard, 10, 100⟩] }, ?_, by decide, ⟨Gen.ZnnTokenStandard, 10, 100⟩, by simp, by decide⟩
  intro b hb
  simp only [List.mem_cons, List.mem_nil_iff, or_false, or_self] at hb
  subst hb
  simp

/-- T4d `check_genesis_sound_partial` (plasma): accepted ⇒ the plasma contract holds exactly (the absolute value
    of — amounts are stored unsigned) the sum of the fusions in QSR and nothing else — under the extra premise that the plasma contract HAS a `GenesisBlocks` entry (or the
    fusions add up to zero). `checkAccountBalance` returns nil when there is no entry (`plasma_no_entry_accepted`). -/
theorem check_genesis_plasma_partial (c : Config) (h : checkGenesis c = .ok)
    (hex : fusionSum c = 0 ∨ ∃ b ∈ c.blocks, b.addr = Gen.PlasmaContract) :
    ledgerBalance c Gen.PlasmaContract Gen.QsrTokenStandard = stored (fusionSum c) ∧
      (0 ≤ fusionSum c → ledgerBalance c Gen.PlasmaContract Gen.QsrTokenStandard = fusionSum c) ∧
      ∀ z, z ≠ Gen.QsrTokenStandard → ledgerBalance c Gen.PlasmaContract z = 0 := by
  have h2 := (checkGenesis_ok c h).2.1
  unfold checkPlasmaInfo at h2
  rw [Bool.and_eq_true] at h2
  have hq := held_required c _ _ h2.2 Gen.QsrTokenStandard (fusionSum c) (by simp [lookup]) hex
  refine ⟨hq, fun h0 => by rw [hq, stored_nonneg _ h0], ?_⟩
  intro z hz
  exact held_not_required c _ _ h2.2 z (by simp [lookup, Ne.symm hz])

/-- … and every fusion entry is present (non-nil), so `fusionSum` is the sum of the real amounts -/
theorem check_genesis_fusions_present (c : Config) (h : checkGenesis c = .ok) : ∀ f ∈ c.fusions, f.isSome = true := by
  have h2 := (checkGenesis_ok c h).2.1
  unfold checkPlasmaInfo at h2
  rw [Bool.and_eq_true, List.all_eq_true] at h2
  exact h2.1

/-- negative witness (F13): fusions of 5 QSR, no plasma-contract entry, supplies consistent — accepted; the plasma
    contract holds nothing. -/
theorem plasma_no_entry_accepted :
    ∃ c : Config, c.WF ∧ checkGenesis c = .ok ∧
      ledgerBalance c Gen.PlasmaContract Gen.QsrTokenStandard ≠ fusionSum c := by
  refine ⟨{ blocks := [⟨[0, 7], [(Gen.QsrTokenStandard, 9)]⟩], tokens := [⟨Gen.QsrTokenStandard, 9, 100⟩],
            fusions := [some 5] }, ?_, by decide, by decide⟩
  intro b hb
  simp only [List.mem_cons, List.mem_nil_iff, or_false] at hb
  subst hb
  simp

/-- T4e (pillar): accepted ⇒ the pillar contract holds exactly the sum of the pillar stakes in ZNN and nothing else —
    same extra premise, same gap. -/
theorem check_genesis_pillar_partial (c : Config) (h : checkGenesis c = .ok)
    (hex : pillarSum c = 0 ∨ ∃ b ∈ c.blocks, b.addr = Gen.PillarContract) :
    ledgerBalance c Gen.PillarContract Gen.ZnnTokenStandard = stored (pillarSum c) ∧
      (0 ≤ pillarSum c → ledgerBalance c Gen.PillarContract Gen.ZnnTokenStandard = pillarSum c) ∧
      ∀ z, z ≠ Gen.ZnnTokenStandard → ledgerBalance c Gen.PillarContract z = 0 := by
  have h4 := (checkGenesis_ok c h).2.2.2.1
  unfold checkPillarBalance at h4
  have hq := held_required c _ _ h4 Gen.ZnnTokenStandard (pillarSum c) (by simp [lookup]) hex
  refine ⟨hq, fun h0 => by rw [hq, stored_nonneg _ h0], ?_⟩
  intro z hz
  exact held_not_required c _ _ h4 z (by simp [lookup, Ne.symm hz])

theorem pillar_no_entry_accepted :
    ∃ c : Config, c.WF ∧ checkGenesis c = .ok ∧
      ledgerBalance c Gen.PillarContract Gen.ZnnTokenStandard ≠ pillarSum c := by
  refine ⟨{ blocks := [⟨[0, 7], [(Gen.ZnnTokenStandard, 9)]⟩], tokens := [⟨Gen.ZnnTokenStandard, 9, 100⟩],
            pillars := [15000] }, ?_, by decide, by decide⟩
  intro b hb
  simp only [List.mem_cons, List.mem_nil_iff, or_false] at hb
  subst hb
  simp

/-- T4f (swap): accepted ⇒ the swap contract holds nothing, of any token. Full strength, no extra premise. -/
theorem check_genesis_swap (c : Config) (h : checkGenesis c = .ok) : ∀ z, ledgerBalance c Gen.SwapContract z = 0 := by
  have h3 := (checkGenesis_ok c h).2.2.1
  unfold checkSwapAccount at h3
  rw [Bool.and_eq_true] at h3
  intro z
  by_cases hz1 : Gen.ZnnTokenStandard = z
  · exact held_required c _ _ h3.2 z 0 (by simp [lookup, hz1]) (Or.inl rfl)
  · by_cases hz2 : Gen.QsrTokenStandard = z
    · exact held_required c _ _ h3.2 z 0 (by simp [lookup, hz1, hz2]) (Or.inl rfl)
    · exact held_not_required c _ _ h3.2 z (by simp [lookup, hz1, hz2])

/-- `TotalSupply ≤ MaxSupply` is not checked at all: negative witness. -/
theorem max_supply_unchecked :
    ∃ c : Config, c.WF ∧ checkGenesis c = .ok ∧ ∃ t ∈ c.tokens, t.total > t.max := by
  refine ⟨{ blocks := [⟨[0, 7], [(Gen.ZnnTokenStandard, 9)]⟩], tokens := [⟨Gen.ZnnTokenStandard, 9, 8⟩] },
    ?_, by decide, ⟨Gen.ZnnTokenStandard, 9, 8⟩, by simp, by decide⟩
  intro b hb
  simp only [List.mem_cons, List.mem_nil_iff, or_false] at hb
  subst hb
  simp

/-- consequence used by the stream: changing one declared supply of an accepted configuration (everything else
    equal) is rejected -/
theorem supply_change_rejected (c c' : Config) (h : checkGenesis c = .ok) (hb : c'.blocks = c.blocks)
    (t t' : Token) (ht : t ∈ c.tokens) (ht' : t' ∈ c'.tokens) (hz : t'.zts = t.zts) (hne : t'.total ≠ t.total) :
    checkGenesis c' ≠ .ok := by
  intro h'
  have e1 := (check_genesis_entries_sum c h t ht).1
  have e2 := (check_genesis_entries_sum c' h' t' ht').1
  have : givenSum c' t'.zts = givenSum c t.zts := by simp [givenSum, givenEntries, hb, hz]
  omega

/-- hypotheses are satisfiable: a small consistent configuration with both contract entries is accepted -/
example : checkGenesis { blocks := [⟨Gen.PillarContract, [(Gen.ZnnTokenStandard, 15)]⟩,
                                    ⟨Gen.PlasmaContract, [(Gen.QsrTokenStandard, 7)]⟩,
                                    ⟨[0, 7], [(Gen.ZnnTokenStandard, 5), (Gen.QsrTokenStandard, 3)]⟩],
                         tokens := [⟨Gen.ZnnTokenStandard, 20, 100⟩, ⟨Gen.QsrTokenStandard, 10, 100⟩],
                         pillars := [15], fusions := [some 3, some 4], swaps := [(some 1, some 2)] } = .ok := by decide

/-! ### T5 startup_compare -/

/-- `checkGenesisCompatibility` refuses iff the database is non-empty and its height-1 momentum hash differs from the
    configured genesis hash -/
theorem startup_compare (stored : Option Bytes) (configured : Bytes) :
    (checkGenesisCompatibility stored configured).1 = .refused ↔ ∃ h, stored = some h ∧ h ≠ configured := by
  unfold checkGenesisCompatibility
  cases stored with
  | none => simp
  | some h => by_cases hh : h = configured <;> simp [hh]

/-- an empty database gets the configured genesis; a non-empty one is never changed by the comparison -/
theorem startup_store (stored : Option Bytes) (configured : Bytes) :
    (stored = none → checkGenesisCompatibility stored configured = (.inserted, some configured)) ∧
    (∀ h, stored = some h → (checkGenesisCompatibility stored configured).2 = some h) := by
  constructor
  · intro h; subst h; rfl
  · intro h hs; subst hs; unfold checkGenesisCompatibility; by_cases hh : h = configured <;> simp [hh]

/-- hence: a database created with configuration A restarts with A and refuses every B whose genesis hash differs -/
theorem startup_pair (a b : Bytes) :
    let db := (checkGenesisCompatibility none a).2
    (checkGenesisCompatibility db a).1 = .matches ∧ (a ≠ b → (checkGenesisCompatibility db b).1 = .refused) := by
  simp only [checkGenesisCompatibility, ne_eq, not_true_eq_false, if_false, true_and]
  intro h
  simp [h]

end ZV.C20
