import ZenonVerif.Model.Genesis
import ZenonVerif.Lemmas.Genesis
/-
C20 — genesis: property theorems only.
Not theorems (covered by the `genesis` stream on the real code only): that the full genesis momentum — patch of the
whole embedded-contract storage, hash — is invariant under permutation of the configuration lists (T3 `genesis_pure`
of DESIGN.md needs a model of the ABI packing and of every `Save`; what IS proved is the two order-sensitive
mechanisms it rests on: sorted momentum content and commuting writes to distinct keys), and "fresh processes".
-/
namespace ZV.C20
open ZV ZV.Genesis

/-! ### T2 content_canonical -/

/-- the facts the model of `NewMomentumContent` was written for are the ones in the tree -/
theorem content_facts :
    Gen.headerComparer = "bytes.Compare <= 0" ∧ Gen.newMomentumContentSortCalls = 1 ∧
      Gen.gnAccountHeaderBytesFields = ["Address", "Height", "Hash"] ∧ Gen.AccountBlockHeaderRawLen = 60 := by decide

/-- `NewMomentumContent` returns a permutation of its input, sorted by header bytes. -/
theorem content_sorted (l : List Header) :
    (newMomentumContent l).Perm l ∧ (newMomentumContent l).Pairwise (fun a b => hdrLe a b = true) :=
  ⟨List.mergeSort_perm l hdrLe,
   List.pairwise_mergeSort (fun a b c => bytesLe_trans a.bytes b.bytes c.bytes)
     (fun a b => bytesLe_total a.bytes b.bytes) l⟩

/-- Independence of the sorting algorithm: ANY two sorted arrangements of the same well-formed headers are equal —
    so Go's unstable `sort.Slice` and the model's merge sort cannot differ, duplicates included (the comparer is a
    total ORDER on header bytes and `Bytes()` is injective on 20-byte address / uint64 height / 32-byte hash). -/
theorem content_sorted_unique (s₁ s₂ : List Header) (hwf : ∀ h ∈ s₁, h.WF) (hp : s₁.Perm s₂)
    (h₁ : s₁.Pairwise (fun a b => hdrLe a b = true)) (h₂ : s₂.Pairwise (fun a b => hdrLe a b = true)) : s₁ = s₂ := by
  apply List.Perm.eq_of_pairwise (le := fun a b => hdrLe a b = true) _ h₁ h₂ hp
  intro a b ha hb hab hba
  exact Header.bytes_inj a b (hwf a ha) (hwf b (hp.mem_iff.2 hb)) (bytesLe_antisymm _ _ hab hba)

/-- T2 `content_canonical`: the momentum content does not depend on the order in which the account blocks are
    handed over (pool iteration order, configuration list order): `sort (perm l) = sort l`. -/
theorem content_canonical (l₁ l₂ : List Header) (hwf : ∀ h ∈ l₁, h.WF) (hp : l₁.Perm l₂) :
    newMomentumContent l₁ = newMomentumContent l₂ := by
  have s1 := content_sorted l₁
  have s2 := content_sorted l₂
  apply content_sorted_unique _ _ _ (s1.1.trans (hp.trans s2.1.symm)) s1.2 s2.2
  intro h hh
  exact hwf h (s1.1.mem_iff.1 hh)

/-- the header encoding is fixed-width (60 bytes), hence the byte order is the (address, height, hash) order -/
theorem header_bytes_length (h : Header) (hwf : h.WF) : h.bytes.length = 60 := Header.bytes_length h hwf

/-! ### T1 (the part that is provable here): writes to distinct keys commute -/

/-- the genesis writers write one key per list entry; when the keys of a list are pairwise distinct the resulting
    store does not depend on the order of the list -/
theorem writes_canonical (s : Bytes → Option Bytes) (w₁ w₂ : List (Bytes × Bytes)) (hp : w₁.Perm w₂)
    (hnd : (w₁.map (·.1)).Nodup) : applyWrites s w₁ = applyWrites s w₂ := by
  induction hp generalizing s with
  | nil => rfl
  | cons x _ ih =>
    obtain ⟨k, v⟩ := x
    simp only [applyWrites]
    exact ih _ (List.nodup_cons.1 (by simpa using hnd)).2
  | swap x y l =>
    obtain ⟨k₁, v₁⟩ := x
    obtain ⟨k₂, v₂⟩ := y
    simp only [applyWrites]
    have hne : k₂ ≠ k₁ := by
      intro h; simp [h] at hnd
    congr 1
    funext z
    simp only [put]
    by_cases h1 : z = k₁ <;> by_cases h2 : z = k₂ <;> simp_all
  | trans p₁ _ ih₁ ih₂ =>
    rw [ih₁ s hnd]
    exact ih₂ s ((p₁.map (·.1)).nodup_iff.1 hnd)

/-- two entries with one key (e.g. the nine fusions of one owner with the zero id in the mock genesis) are the excluded
    case: the last writer wins, so the order matters -/
theorem writes_duplicate_key_order_dependent :
    applyWrites (fun _ => none) [([1], [10]), ([1], [20])] [1] ≠ applyWrites (fun _ => none) [([1], [20]), ([1], [10])] [1] := by
  decide

/-! ### T4 check_genesis_sound

The validators as repaired by 842d79c (contract without entry), bf6e6a8 (two entries for one address), 5b5b1ec (nil /
negative amount), 4c4dee5 (MaxSupply), feb4686 (nil / negative fusion, pillar and swap amounts). Every statement below is about `checkGenesis`, the function the driver evaluates
on each `gen-check` line of the stream, and about `ledgerBalance` / `ledgerSupply`, the specification of what
`NewGenesis` stores (one balance per (address, token), the absolute value of the last amount written) — which the
stream's ledger monitor compares with a chain really started from the accepted configuration.

The only hypothesis left is `Config.WF` (the keys of one `BalanceList` are distinct), and only for the supply clause: it is
the representation invariant of a Go map, not a class of inputs — no `GenesisConfig` value and no JSON file violates it
(`supply_needs_wf` shows the association-list model would otherwise count a repeated key twice). -/

/-- `CheckGenesis` calls the five validators in the order the model uses -/
theorem check_order_fact : Gen.checkGenesisOrder =
    ["CheckFieldsExist", "CheckPlasmaInfo", "CheckSwapAccount", "CheckPillarBalance", "CheckTokenTotalSupply"] := by decide

/-- the refusals of `checkAccountBalance`, `CheckTokenTotalSupply` and of the loops of `CheckPlasmaInfo`, `CheckSwapAccount`,
    `CheckPillarBalance` (every `return errors.Errorf`, with the loops and
    conditions it sits under, in source order — read from the AST of the tree) are the ones `Model.checkAccountBalance`
    (`blockOK`, then `!found`), `Model.checkTokenTotalSupply` (`scanBlocks`, `tokenOK`, declared), `fusionOK` and `amountOK`
    were written for -/
theorem validator_refusals_fact :
    Gen.gnCheckAccountBalanceRefusals =
      ["range g.GenesisBlocks.Blocks / range block.BalanceList / !ok",
       "range g.GenesisBlocks.Blocks / range block.BalanceList / !(!ok) / requiredAmount.Cmp(amount) != 0",
       "range g.GenesisBlocks.Blocks / range required / !ok && required[token].Cmp(common.Big0) != 0",
       "!found / range required / amount.Cmp(common.Big0) != 0"] ∧
    Gen.gnCheckTokenTotalSupplyRefusals =
      ["range g.GenesisBlocks.Blocks / seen[block.Address]",
       "range g.GenesisBlocks.Blocks / range block.BalanceList / amount == nil || amount.Sign() < 0",
       "range g.TokenConfig.Tokens / !ok",
       "range g.TokenConfig.Tokens / !(!ok) / token.TotalSupply.Cmp(total) != 0",
       "range g.TokenConfig.Tokens / token.MaxSupply == nil || token.TotalSupply.Cmp(token.MaxSupply) > 0",
       "range given / !found"] ∧
    Gen.gnCheckPlasmaInfoRefusals =
      ["range g.PlasmaConfig.Fusions / fusion == nil",
       "range g.PlasmaConfig.Fusions / fusion.Amount == nil || fusion.Amount.Sign() < 0"] ∧
    Gen.gnCheckSwapAccountRefusals =
      ["range g.SwapConfig.Entries / entry.Qsr == nil || entry.Znn == nil || entry.Qsr.Sign() < 0 || entry.Znn.Sign() < 0"] ∧
    Gen.gnCheckPillarBalanceRefusals =
      ["range g.PillarConfig.Pillars / el.Amount == nil || el.Amount.Sign() < 0"] := by decide

theorem check_supply_parts (c : Config) (h : checkGenesis c = .ok) :
    scanBlocks [] c.blocks = true ∧ (∀ t ∈ c.tokens, tokenOK c t = true) ∧
      ∀ e ∈ givenEntries c, (c.tokens.any (fun t => t.zts = e.1)) = true := by
  have h5 := (checkGenesis_ok c h).2.2.2.2
  unfold checkTokenTotalSupply at h5
  rw [Bool.and_eq_true, Bool.and_eq_true, List.all_eq_true, List.all_eq_true] at h5
  exact ⟨h5.1.1, h5.1.2, h5.2⟩

/-- T4a: accepted ⇒ for every declared token, the amounts of ALL balance entries of that token add up to TotalSupply,
    and the token is given at least once. -/
theorem check_genesis_entries_sum (c : Config) (h : checkGenesis c = .ok) :
    ∀ t ∈ c.tokens, givenSum c t.zts = t.total ∧ givenHas c t.zts = true := by
  intro t ht
  have := (check_supply_parts c h).2.1 t ht
  simp only [tokenOK, Bool.and_eq_true, beq_iff_eq] at this
  exact ⟨this.1.2.symm, this.1.1⟩

/-- T4b: accepted ⇒ every token given in any balance list is declared. -/
theorem check_genesis_declared (c : Config) (h : checkGenesis c = .ok) :
    ∀ b ∈ c.blocks, ∀ e ∈ b.bal, ∃ t ∈ c.tokens, t.zts = e.1 := by
  intro b hb e he
  have hm : e ∈ givenEntries c := List.mem_flatMap.2 ⟨b, hb, he⟩
  have := (check_supply_parts c h).2.2 e hm
  simp only [List.any_eq_true, decide_eq_true_eq] at this
  exact this

/-- T4g (F13b, F13e repaired): accepted ⇒ no address has two `GenesisBlocks` entries, and no amount of any balance list
    is missing (nil) or negative. No hypothesis. -/
theorem check_genesis_entries_wellformed (c : Config) (h : checkGenesis c = .ok) :
    (c.blocks.map (·.addr)).Nodup ∧ ∀ b ∈ c.blocks, ∀ e ∈ b.bal, ∃ a : Int, e.2 = some a ∧ 0 ≤ a := by
  obtain ⟨_, hnd, hok⟩ := scanBlocks_spec [] c.blocks (check_supply_parts c h).1
  exact ⟨hnd, fun b hb e he => amountOK_spec e.2 (hok b hb e he)⟩

/-- T4h: accepted ⇒ the ledger holds, for every address and token, exactly the amount the (one) entry of the address
    lists — nothing for a token the entry does not list, nothing at all for an address without entry — and no balance
    is negative. No hypothesis. -/
theorem check_genesis_ledger (c : Config) (h : checkGenesis c = .ok) :
    (∀ b ∈ c.blocks, ∀ z, ledgerBalance c b.addr z = listed b.bal z) ∧
      (∀ a, a ∉ c.blocks.map (·.addr) → ∀ z, ledgerBalance c a z = 0) ∧
      ∀ a z, 0 ≤ ledgerBalance c a z := by
  obtain ⟨_, hnd, hok⟩ := scanBlocks_spec [] c.blocks (check_supply_parts c h).1
  have h1 : ∀ b ∈ c.blocks, ∀ z, ledgerBalance c b.addr z = listed b.bal z :=
    fun b hb z => ledgerBalance_single c hnd hok b hb z
  have h2 : ∀ a, a ∉ c.blocks.map (·.addr) → ∀ z, ledgerBalance c a z = 0 :=
    fun a ha z => ledgerBalance_absent c a ha z
  refine ⟨h1, h2, ?_⟩
  intro a z
  by_cases ha : a ∈ c.blocks.map (·.addr)
  · obtain ⟨b, hb, rfl⟩ := List.mem_map.1 ha
    rw [h1 b hb z]
    exact listed_nonneg b.bal z (hok b hb)
  · rw [h2 a ha z]; exact Int.le_refl 0

/-- T4c `check_genesis_supply` (was `check_genesis_supply_partial`; the premises "one entry per address" and "no
    negative amount" are now consequences of acceptance): accepted ⇒ for every declared token the LEDGER balances — one
    per (address, token), as `NewGenesis` stores them — add up to its TotalSupply, MaxSupply is present and
    0 ≤ TotalSupply ≤ MaxSupply. `hwf`: see the header of this section. -/
theorem check_genesis_supply (c : Config) (hwf : c.WF) (h : checkGenesis c = .ok) :
    ∀ t ∈ c.tokens, ledgerSupply c t.zts = t.total ∧ 0 ≤ t.total ∧ ∃ m : Int, t.max = some m ∧ t.total ≤ m := by
  intro t ht
  obtain ⟨hscan, htok, _⟩ := check_supply_parts c h
  have hs : ledgerSupply c t.zts = t.total := by
    rw [ledgerSupply_eq_givenSum c hwf hscan]
    exact (check_genesis_entries_sum c h t ht).1
  refine ⟨hs, ?_, ?_⟩
  · rw [← hs]
    unfold ledgerSupply
    apply isum_nonneg
    intro x hx
    obtain ⟨a, _, rfl⟩ := List.mem_map.1 hx
    exact (check_genesis_ledger c h).2.2 a t.zts
  · have := htok t ht
    simp only [tokenOK, Bool.and_eq_true] at this
    have hm := this.2
    unfold maxOK at hm
    cases hmax : t.max with
    | none => simp [hmax] at hm
    | some m => exact ⟨m, rfl, by simpa [hmax] using hm⟩

/-- the association-list model needs `WF` for the supply clause: one (impossible in Go) balance list with the key
    repeated is accepted with TotalSupply 10 while a map — and the ledger — holds 5 -/
theorem supply_needs_wf :
    ∃ c : Config, checkGenesis c = .ok ∧ ¬ c.WF ∧ ∃ t ∈ c.tokens, ledgerSupply c t.zts ≠ t.total := by
  refine ⟨{ blocks := [⟨[0, 7], [(Gen.ZnnTokenStandard, some 5), (Gen.ZnnTokenStandard, some 5)]⟩],
            tokens := [⟨Gen.ZnnTokenStandard, 10, some 100⟩] }, by decide, ?_, ⟨Gen.ZnnTokenStandard, 10, some 100⟩, by simp, by decide⟩
  intro hwf
  have := hwf ⟨[0, 7], [(Gen.ZnnTokenStandard, some 5), (Gen.ZnnTokenStandard, some 5)]⟩ (by simp)
  simp at this

/-- T4d `check_genesis_plasma` (was `check_genesis_plasma_partial`; the premise "the plasma contract has a
    `GenesisBlocks` entry or the fusions add up to zero" is now checked by `checkAccountBalance`): accepted ⇒ the plasma
    contract holds exactly the sum of the fusions in QSR — the value itself, it is not negative — and nothing else.
    No hypothesis. -/
theorem check_genesis_plasma (c : Config) (h : checkGenesis c = .ok) :
    ledgerBalance c Gen.PlasmaContract Gen.QsrTokenStandard = fusionSum c ∧ 0 ≤ fusionSum c ∧
      ∀ z, z ≠ Gen.QsrTokenStandard → ledgerBalance c Gen.PlasmaContract z = 0 := by
  have h2 := (checkGenesis_ok c h).2.1
  unfold checkPlasmaInfo at h2
  rw [Bool.and_eq_true] at h2
  have hq := held_required c _ _ h2.2 Gen.QsrTokenStandard (fusionSum c) (by simp [lookup])
  have h0 := required_nonneg c _ _ h2.2 (check_supply_parts c h).1 Gen.QsrTokenStandard (fusionSum c) (by simp [lookup])
  refine ⟨by rw [hq, stored_nonneg _ h0], h0, ?_⟩
  intro z hz
  exact held_not_required c _ _ h2.2 z (by simp [lookup, Ne.symm hz])

/-- T4i (F13f repaired, was the accepted-witness `fusion_signs_unchecked`): accepted ⇒ every fusion entry is present
    and every fusion amount, pillar stake and swap amount is present and non-negative — so `fusionSum` / `pillarSum` are
    sums of the real, non-negative amounts the contracts store. No hypothesis. -/
theorem check_genesis_amounts (c : Config) (h : checkGenesis c = .ok) :
    (∀ f ∈ c.fusions, ∃ a : Int, f = some (some a) ∧ 0 ≤ a) ∧
    (∀ p ∈ c.pillars, ∃ a : Int, p = some a ∧ 0 ≤ a) ∧
    (∀ e ∈ c.swaps, ∃ z q : Int, e = (some z, some q) ∧ 0 ≤ z ∧ 0 ≤ q) := by
  obtain ⟨_, h2, h3, h4, _⟩ := checkGenesis_ok c h
  unfold checkPlasmaInfo at h2
  unfold checkSwapAccount at h3
  unfold checkPillarBalance at h4
  rw [Bool.and_eq_true, List.all_eq_true] at h2 h3 h4
  refine ⟨?_, ?_, ?_⟩
  · intro f hf
    have := h2.1 f hf
    cases f with
    | none => simp [fusionOK] at this
    | some a =>
      obtain ⟨v, hv, h0⟩ := amountOK_spec a (by simpa [fusionOK] using this)
      exact ⟨v, by rw [hv], h0⟩
  · intro p hp
    exact amountOK_spec p (h4.1 p hp)
  · intro e he
    have := h3.1 e he
    rw [Bool.and_eq_true] at this
    obtain ⟨z, hz, hz0⟩ := amountOK_spec e.1 this.1
    obtain ⟨q, hq, hq0⟩ := amountOK_spec e.2 this.2
    exact ⟨z, q, by rw [← hz, ← hq], hz0, hq0⟩

/-- F13f (was `fusion_signs_unchecked`): fusions of −5 and +12 with a plasma balance of 7 — the signed sum fits — are
    refused by `CheckPlasmaInfo`; so are a missing fusion amount, a negative / missing pillar stake (`CheckPillarBalance`)
    and a negative swap amount (`CheckSwapAccount`); zero amounts are fine -/
theorem fusion_signs_checked :
    checkGenesis { blocks := [⟨Gen.PlasmaContract, [(Gen.QsrTokenStandard, some 7)]⟩],
                   tokens := [⟨Gen.QsrTokenStandard, 7, some 100⟩], fusions := [some (some (-5)), some (some 12)] } = .plasma ∧
    checkGenesis { blocks := [⟨Gen.PlasmaContract, [(Gen.QsrTokenStandard, some 7)]⟩],
                   tokens := [⟨Gen.QsrTokenStandard, 7, some 100⟩], fusions := [some none, some (some 7)] } = .plasma ∧
    checkGenesis { blocks := [⟨Gen.PillarContract, [(Gen.ZnnTokenStandard, some 7)]⟩],
                   tokens := [⟨Gen.ZnnTokenStandard, 7, some 100⟩], pillars := [some (-5), some 12] } = .pillar ∧
    checkGenesis { blocks := [⟨Gen.PillarContract, [(Gen.ZnnTokenStandard, some 7)]⟩],
                   tokens := [⟨Gen.ZnnTokenStandard, 7, some 100⟩], pillars := [none, some 7] } = .pillar ∧
    checkGenesis { blocks := [⟨[0, 7], [(Gen.ZnnTokenStandard, some 9)]⟩], tokens := [⟨Gen.ZnnTokenStandard, 9, some 100⟩],
                   swaps := [(some (-1), some 2)] } = .swap ∧
    checkGenesis { blocks := [⟨[0, 7], [(Gen.ZnnTokenStandard, some 9)]⟩], tokens := [⟨Gen.ZnnTokenStandard, 9, some 100⟩],
                   swaps := [(some 1, some 0)] } = .ok := by decide

/-- T4e `check_genesis_pillar` (was `check_genesis_pillar_partial`): accepted ⇒ the pillar contract holds exactly the
    sum of the pillar stakes in ZNN and nothing else. No hypothesis. -/
theorem check_genesis_pillar (c : Config) (h : checkGenesis c = .ok) :
    ledgerBalance c Gen.PillarContract Gen.ZnnTokenStandard = pillarSum c ∧ 0 ≤ pillarSum c ∧
      ∀ z, z ≠ Gen.ZnnTokenStandard → ledgerBalance c Gen.PillarContract z = 0 := by
  have h4 := (checkGenesis_ok c h).2.2.2.1
  unfold checkPillarBalance at h4
  rw [Bool.and_eq_true] at h4
  have hq := held_required c _ _ h4.2 Gen.ZnnTokenStandard (pillarSum c) (by simp [lookup])
  have h0 := required_nonneg c _ _ h4.2 (check_supply_parts c h).1 Gen.ZnnTokenStandard (pillarSum c) (by simp [lookup])
  refine ⟨by rw [hq, stored_nonneg _ h0], h0, ?_⟩
  intro z hz
  exact held_not_required c _ _ h4.2 z (by simp [lookup, Ne.symm hz])

/-- T4f (swap): accepted ⇒ the swap contract holds nothing, of any token. No hypothesis. -/
theorem check_genesis_swap (c : Config) (h : checkGenesis c = .ok) : ∀ z, ledgerBalance c Gen.SwapContract z = 0 := by
  have h3 := (checkGenesis_ok c h).2.2.1
  unfold checkSwapAccount at h3
  rw [Bool.and_eq_true] at h3
  intro z
  by_cases hz1 : Gen.ZnnTokenStandard = z
  · exact held_required c _ _ h3.2 z 0 (by simp [lookup, hz1])
  · by_cases hz2 : Gen.QsrTokenStandard = z
    · exact held_required c _ _ h3.2 z 0 (by simp [lookup, hz1, hz2])
    · exact held_not_required c _ _ h3.2 z (by simp [lookup, hz1, hz2])

/-- T4 `check_genesis_sound`: the sentence of the property in one statement. A configuration `CheckGenesis` accepts
    yields a ledger in which, for every declared token, the balances add up to TotalSupply with
    0 ≤ TotalSupply ≤ MaxSupply; every token held is declared; no balance is negative; the plasma contract holds exactly
    Σ fusions of QSR, the pillar contract exactly Σ pillar stakes of ZNN, neither anything else, the swap contract
    nothing; every fusion, pillar and swap amount is present and non-negative (so the sums are sums of what the
    contracts really store). -/
theorem check_genesis_sound (c : Config) (hwf : c.WF) (h : checkGenesis c = .ok) :
    (∀ t ∈ c.tokens, ledgerSupply c t.zts = t.total ∧ 0 ≤ t.total ∧ ∃ m : Int, t.max = some m ∧ t.total ≤ m) ∧
    (∀ b ∈ c.blocks, ∀ e ∈ b.bal, ∃ t ∈ c.tokens, t.zts = e.1) ∧
    (∀ a z, 0 ≤ ledgerBalance c a z) ∧
    (ledgerBalance c Gen.PlasmaContract Gen.QsrTokenStandard = fusionSum c ∧
      ∀ z, z ≠ Gen.QsrTokenStandard → ledgerBalance c Gen.PlasmaContract z = 0) ∧
    (ledgerBalance c Gen.PillarContract Gen.ZnnTokenStandard = pillarSum c ∧
      ∀ z, z ≠ Gen.ZnnTokenStandard → ledgerBalance c Gen.PillarContract z = 0) ∧
    (∀ z, ledgerBalance c Gen.SwapContract z = 0) ∧
    ((∀ f ∈ c.fusions, ∃ a : Int, f = some (some a) ∧ 0 ≤ a) ∧ (∀ p ∈ c.pillars, ∃ a : Int, p = some a ∧ 0 ≤ a) ∧
      (∀ e ∈ c.swaps, ∃ z q : Int, e = (some z, some q) ∧ 0 ≤ z ∧ 0 ≤ q)) :=
  ⟨check_genesis_supply c hwf h, check_genesis_declared c h, (check_genesis_ledger c h).2.2,
   ⟨(check_genesis_plasma c h).1, (check_genesis_plasma c h).2.2⟩,
   ⟨(check_genesis_pillar c h).1, (check_genesis_pillar c h).2.2⟩, check_genesis_swap c h, check_genesis_amounts c h⟩

/-- the clause of the property as it is worded ("a configuration whose balances do not add up to the declared token
    supplies and contract holdings is rejected"): contrapositive of `check_genesis_sound` -/
theorem inconsistent_rejected (c : Config) (hwf : c.WF)
    (hbad : (∃ t ∈ c.tokens, ledgerSupply c t.zts ≠ t.total ∨ t.max = none ∨ ∃ m : Int, t.max = some m ∧ m < t.total) ∨
      ledgerBalance c Gen.PlasmaContract Gen.QsrTokenStandard ≠ fusionSum c ∨
      ledgerBalance c Gen.PillarContract Gen.ZnnTokenStandard ≠ pillarSum c ∨
      (∃ z, ledgerBalance c Gen.SwapContract z ≠ 0) ∨
      (∃ b ∈ c.blocks, ∃ e ∈ b.bal, e.2 = none ∨ ∃ a : Int, e.2 = some a ∧ a < 0) ∨
      ¬ (c.blocks.map (·.addr)).Nodup ∨
      (∃ f ∈ c.fusions, f = none ∨ f = some none ∨ ∃ a : Int, f = some (some a) ∧ a < 0) ∨
      (∃ p ∈ c.pillars, p = none ∨ ∃ a : Int, p = some a ∧ a < 0) ∨
      (∃ e ∈ c.swaps, e.1 = none ∨ e.2 = none ∨ (∃ a : Int, e.1 = some a ∧ a < 0) ∨ ∃ a : Int, e.2 = some a ∧ a < 0)) :
    checkGenesis c ≠ .ok := by
  intro h
  rcases hbad with ⟨t, ht, hb⟩ | hb | hb | ⟨z, hz⟩ | ⟨b, hb, e, he, hbad⟩ | hb | ⟨f, hf, hbad⟩ | ⟨p, hp, hbad⟩ |
    ⟨e, he, hbad⟩
  · obtain ⟨h1, _, m, hm, hle⟩ := check_genesis_supply c hwf h t ht
    rcases hb with hb | hb | ⟨m', hm', hlt⟩
    · exact hb h1
    · rw [hm] at hb; cases hb
    · rw [hm] at hm'; cases hm'; omega
  · exact hb (check_genesis_plasma c h).1
  · exact hb (check_genesis_pillar c h).1
  · exact hz (check_genesis_swap c h z)
  · obtain ⟨a, ha, h0⟩ := (check_genesis_entries_wellformed c h).2 b hb e he
    rcases hbad with hn | ⟨a', ha', hneg⟩
    · rw [ha] at hn; cases hn
    · rw [ha] at ha'; cases ha'; omega
  · exact hb (check_genesis_entries_wellformed c h).1
  · obtain ⟨a, ha, h0⟩ := (check_genesis_amounts c h).1 f hf
    subst ha
    rcases hbad with hn | hn | ⟨a', ha', hneg⟩
    · cases hn
    · cases hn
    · cases ha'; omega
  · obtain ⟨a, ha, h0⟩ := (check_genesis_amounts c h).2.1 p hp
    subst ha
    rcases hbad with hn | ⟨a', ha', hneg⟩
    · cases hn
    · cases ha'; omega
  · obtain ⟨z, q, heq, hz0, hq0⟩ := (check_genesis_amounts c h).2.2 e he
    subst heq
    rcases hbad with hn | hn | ⟨a', ha', hneg⟩ | ⟨a', ha', hneg⟩
    · cases hn
    · cases hn
    · cases ha'; omega
    · cases ha'; omega

/-! #### the former negative witnesses: the same concrete configurations are now refused -/

/-- F13e (was `supply_negative_entry_accepted`): entries of −7 and +12, TotalSupply 5 — refused by `CheckTokenTotalSupply` -/
theorem supply_negative_entry_rejected :
    checkGenesis { blocks := [⟨[0, 7], [(Gen.ZnnTokenStandard, some (-7))]⟩, ⟨[0, 8], [(Gen.ZnnTokenStandard, some 12)]⟩],
                   tokens := [⟨Gen.ZnnTokenStandard, 5, some 100⟩] } = .supply := by decide

/-- F13e, nil half: a missing amount is refused as well (before 5b5b1ec the validator dereferenced it) -/
theorem supply_missing_amount_rejected :
    checkGenesis { blocks := [⟨[0, 7], [(Gen.ZnnTokenStandard, none)]⟩, ⟨[0, 8], [(Gen.ZnnTokenStandard, some 5)]⟩],
                   tokens := [⟨Gen.ZnnTokenStandard, 5, some 100⟩] } = .supply := by decide

/-- F13b (was `supply_duplicate_entry_accepted`): one address with two entries of 5, TotalSupply 10 — refused -/
theorem supply_duplicate_entry_rejected :
    checkGenesis { blocks := [⟨[0, 7], [(Gen.ZnnTokenStandard, some 5)]⟩, ⟨[0, 7], [(Gen.ZnnTokenStandard, some 5)]⟩],
                   tokens := [⟨Gen.ZnnTokenStandard, 10, some 100⟩] } = .supply := by decide

/-- F13a (was `plasma_no_entry_accepted`): fusions of 5 QSR, no plasma-contract entry, supplies consistent — refused by
    `CheckPlasmaInfo` -/
theorem plasma_no_entry_rejected :
    checkGenesis { blocks := [⟨[0, 7], [(Gen.QsrTokenStandard, some 9)]⟩], tokens := [⟨Gen.QsrTokenStandard, 9, some 100⟩],
                   fusions := [some (some 5)] } = .plasma := by decide

/-- F13a (was `pillar_no_entry_accepted`): a pillar stake of 15000, no pillar-contract entry — refused by `CheckPillarBalance` -/
theorem pillar_no_entry_rejected :
    checkGenesis { blocks := [⟨[0, 7], [(Gen.ZnnTokenStandard, some 9)]⟩], tokens := [⟨Gen.ZnnTokenStandard, 9, some 100⟩],
                   pillars := [some 15000] } = .pillar := by decide

/-- … while a contract without entry is still fine when nothing is required of it (no fusions, no pillars, swap) -/
theorem no_entry_nothing_required_accepted :
    checkGenesis { blocks := [⟨[0, 7], [(Gen.ZnnTokenStandard, some 9)]⟩], tokens := [⟨Gen.ZnnTokenStandard, 9, some 100⟩] } = .ok := by
  decide

/-- F13c (was `max_supply_unchecked`): TotalSupply 9 above MaxSupply 8 — refused; so is a missing MaxSupply;
    TotalSupply = MaxSupply is the accepted boundary -/
theorem max_supply_checked :
    checkGenesis { blocks := [⟨[0, 7], [(Gen.ZnnTokenStandard, some 9)]⟩], tokens := [⟨Gen.ZnnTokenStandard, 9, some 8⟩] } = .supply ∧
    checkGenesis { blocks := [⟨[0, 7], [(Gen.ZnnTokenStandard, some 9)]⟩], tokens := [⟨Gen.ZnnTokenStandard, 9, none⟩] } = .supply ∧
    checkGenesis { blocks := [⟨[0, 7], [(Gen.ZnnTokenStandard, some 9)]⟩], tokens := [⟨Gen.ZnnTokenStandard, 9, some 9⟩] } = .ok := by
  decide

/-- order of the validators when several refuse: an unbacked plasma contract AND a supply above its maximum is the plasma
    refusal (the earlier validator) -/
example : checkGenesis { blocks := [⟨[0, 7], [(Gen.QsrTokenStandard, some 9)]⟩], tokens := [⟨Gen.QsrTokenStandard, 9, some 8⟩],
                         fusions := [some (some 5)] } = .plasma := by decide

/-- consequence used by the stream: changing one declared supply of an accepted configuration (everything else
    equal) is rejected -/
theorem supply_change_rejected (c c' : Config) (h : checkGenesis c = .ok) (hb : c'.blocks = c.blocks)
    (t t' : Token) (ht : t ∈ c.tokens) (ht' : t' ∈ c'.tokens) (hz : t'.zts = t.zts) (hne : t'.total ≠ t.total) :
    checkGenesis c' ≠ .ok := by
  intro h'
  have e1 := (check_genesis_entries_sum c h t ht).1
  have e2 := (check_genesis_entries_sum c' h' t' ht').1
  have : givenSum c' t'.zts = givenSum c t.zts := by simp [givenSum, givenEntries, hb, hz]
  omega

/-- hypotheses are satisfiable: a small consistent configuration with both contract entries is accepted (and is `WF`) -/
example : checkGenesis { blocks := [⟨Gen.PillarContract, [(Gen.ZnnTokenStandard, some 15)]⟩,
                                    ⟨Gen.PlasmaContract, [(Gen.QsrTokenStandard, some 7)]⟩,
                                    ⟨[0, 7], [(Gen.ZnnTokenStandard, some 5), (Gen.QsrTokenStandard, some 3)]⟩],
                         tokens := [⟨Gen.ZnnTokenStandard, 20, some 100⟩, ⟨Gen.QsrTokenStandard, 10, some 100⟩],
                         pillars := [some 15], fusions := [some (some 3), some (some 4)], swaps := [(some 1, some 2)] } = .ok := by decide

/-! ### T5 startup_compare -/

/-- `checkGenesisCompatibility` refuses iff the database is non-empty and its height-1 momentum hash differs from the
    configured genesis hash -/
theorem startup_compare (stored : Option Bytes) (configured : Bytes) :
    (checkGenesisCompatibility stored configured).1 = .refused ↔ ∃ h, stored = some h ∧ h ≠ configured := by
  unfold checkGenesisCompatibility
  cases stored with
  | none => simp
  | some h => by_cases hh : h = configured <;> simp [hh]

/-- an empty database gets the configured genesis; a non-empty one is never changed by the comparison -/
theorem startup_store (stored : Option Bytes) (configured : Bytes) :
    (stored = none → checkGenesisCompatibility stored configured = (.inserted, some configured)) ∧
    (∀ h, stored = some h → (checkGenesisCompatibility stored configured).2 = some h) := by
  constructor
  · intro h; subst h; rfl
  · intro h hs; subst hs; unfold checkGenesisCompatibility; by_cases hh : h = configured <;> simp [hh]

/-- hence: a database created with configuration A restarts with A and refuses every B whose genesis hash differs -/
theorem startup_pair (a b : Bytes) :
    let db := (checkGenesisCompatibility none a).2
    (checkGenesisCompatibility db a).1 = .matches ∧ (a ≠ b → (checkGenesisCompatibility db b).1 = .refused) := by
  simp only [checkGenesisCompatibility, ne_eq, not_true_eq_false, if_false, true_and]
  intro h
  simp [h]

end ZV.C20
