import ZenonVerif.Lemmas.NodeSync
import ZenonVerif.Gen.NodeSync
/-
C02 at the level of the node: the ledger a node ends with is a function of the momentum sequence it accepted and of
nothing else that happened to it, and an honest momentum is accepted whatever the receiver's pool holds. Property
theorems only; the model is `ZenonVerif/Model/NodeSync.lean`, the invariants are in `ZenonVerif/Lemmas/NodeSync.lean`.

What is assumed, and where:
  * about `exec` (verifier + VM): NOTHING. It is a parameter of the model — an arbitrary function of (ledger as of the
    acknowledged momentum, account chain up to the stated previous block, block). That the Go VM reads nothing else is the
    correspondence side of C02 (multi-node streams) and the nondeterminism-site fact of `Props/C02.lean`.
  * about block identifiers: no collision among the blocks that occur in the two operation sequences (`NoCollision`;
    for the code: SHA3 collision freedom AND that the identifier covers every field that reaches the stored bytes or
    the execution — C13; known finding F9, a user block's ChangesHash field, is a real-code exception to exactly this
    hypothesis and shows the predicted effect: the node holding the variant refuses the producer's momentum).
    Needed wherever a node recognises a block by its identifier (`GetPatch`).
  * about the changes hash: injectivity is needed ONLY for `ledger_pinned_by_changes_hash` (nodes whose VMs differ);
    (a), (b), (c) hold for every hash function.
  * about `higherPriority`: nothing — it only decides what gossip leaves in the pool, and the theorems quantify over
    every pool content that gossip can produce.
-/
namespace ZV.C02Node
open ZV ZV.NodeSync

variable {P L : Type}

/-- no two different blocks with the same identifier -/
def NoCollision (bs : List Block) : Prop := ∀ b ∈ bs, ∀ b' ∈ bs, b.id = b'.id → b = b'

/-- (a) INVARIANT `pool_patches_sound`: in every reachable state — after any sequence of gossiped blocks (valid,
    competing, unrelated), delivered batches (accepted or refused half-way) and restarts — every pooled transaction
    `(b, p)` sits in the pool of its own account, links to the transaction below it (or to the confirmed frontier), and
    `p` is the value of `exec` on the ledger as of `b.ack` and the account chain up to `b.prev`: a function of the chain
    and the block, not of the node's frontier, the rest of its pool or the way the block arrived. -/
theorem pool_patches_sound (W : VM P L) (ops : List Op) (a : Nat) (below above : List (Tx P)) (b : Block) (p : P)
    (h : (run W ops).pool a = below ++ (b, p) :: above) :
    b.acct = a ∧ b.prev = lastId (conf W (run W ops).hist a ++ below) ∧
      ∃ l, ledgerAt W (run W ops).hist b.ack = some l ∧
        W.exec l (conf W (run W ops).hist a ++ below) b = some p := by
  have hi := run_inv W (fun _ => True) ops (fun _ _ => trivial)
  obtain ⟨hacct, hst⟩ := hi.pool a
  rw [h] at hacct hst
  obtain ⟨hprev, _, hex⟩ := (StackSound.append.1 hst).2.1
  exact ⟨hacct (b, p) (by simp), hprev, hex⟩

/-- (a′) the same for what is confirmed: every stored momentum's transactions are exec-determined in their stated
    contexts (as of the chain below the momentum), they are the momentum's content, the momentum's patch is `pack` of
    them and its hash is the momentum's changes hash. (`HistSound`, `HashOk`: Lemmas/NodeSync.lean.) -/
theorem confirmed_patches_sound (W : VM P L) (ops : List Op) :
    HistSound W (run W ops).hist ∧ HashOk W (run W ops).hist :=
  let hi := run_inv W (fun _ => True) ops (fun _ _ => trivial)
  ⟨hi.hist, hi.hash⟩

/-- (b) `ledger_schedule_independent` — the headline of C02 for the model. Two nodes that went through ANY two
    operation sequences (any interleaving of gossip of arbitrary blocks, batch boundaries, refused deliveries, restarts)
    and ended having accepted the same momentum sequence hold the same stored history — same transactions, same patch
    for every block and every momentum — hence the same frontier ledger, the same ledger as of every momentum and the
    same confirmed account chains. By (a′) that common value is the fold over the sequence of the patches `exec`
    determines. No hypothesis on `exec`, on the hash or on the priority rule. -/
theorem ledger_schedule_independent (W : VM P L) (ops₁ ops₂ : List Op)
    (hcol : NoCollision (opBlocks ops₁ ++ opBlocks ops₂))
    (hchain : (run W ops₁).chain = (run W ops₂).chain) :
    ledger W (run W ops₁).hist = ledger W (run W ops₂).hist ∧
      (∀ x, ledgerAt W (run W ops₁).hist x = ledgerAt W (run W ops₂).hist x) ∧
      (∀ a, conf W (run W ops₁).hist a = conf W (run W ops₂).hist a) ∧
      (run W ops₁).hist.map (·.patch) = (run W ops₂).hist.map (·.patch) := by
  let U : Block → Prop := fun b => b ∈ opBlocks ops₁ ++ opBlocks ops₂
  have i1 := run_inv W U ops₁ (fun b hb => List.mem_append.2 (Or.inl hb))
  have i2 := run_inv W U ops₂ (fun b hb => List.mem_append.2 (Or.inr hb))
  have e : (run W ops₁).hist = (run W ops₂).hist :=
    hist_det (fun b b' hb hb' => hcol b hb b' hb') _ _ i1.hist i2.hist i1.blocks.2 i2.blocks.2 hchain
  rw [e]
  exact ⟨rfl, fun _ => rfl, fun _ => rfl, rfl⟩

/-- (b′) `ledger_pinned_by_changes_hash`: the role of the changes hash. Two nodes running DIFFERENT VMs (other `exec`,
    other `pack`, other validity checks — another software version, a faulty build) over the same genesis and commit
    function that accepted the same momentum sequence still hold the same ledger, provided the changes hash is
    injective on patches: every accepted momentum passed `hash (own patch) = m.changesHash`. -/
theorem ledger_pinned_by_changes_hash (W₁ W₂ : VM P L) (hinit : W₁.init = W₂.init) (hcommit : W₁.commit = W₂.commit)
    (hhash : W₁.hash = W₂.hash) (hinj : ∀ p q, W₁.hash p = W₁.hash q → p = q) (ops₁ ops₂ : List Op)
    (hchain : (run W₁ ops₁).chain = (run W₂ ops₂).chain) :
    ledger W₁ (run W₁ ops₁).hist = ledger W₂ (run W₂ ops₂).hist :=
  ledger_of_hash hinit hcommit hhash hinj _ _
    (run_inv W₁ (fun _ => True) ops₁ (fun _ _ => trivial)).hash
    (run_inv W₂ (fun _ => True) ops₂ (fun _ _ => trivial)).hash hchain

/-- (c) `honest_momentum_accepted`: a momentum produced on a reachable node (content taken bottom-up from its own
    pool, changes hash computed from the pooled patches — `produce`) and passing the remaining momentum checks there is
    accepted by EVERY reachable node that holds the same chain, whatever gossip, refused deliveries and restarts left in
    that node's pool: blocks it already pooled are recognised, blocks it never saw are executed in their stated
    context, blocks that compete with pooled ones displace them. -/
theorem honest_momentum_accepted (W : VM P L) (opsP opsT : List Op)
    (hcol : NoCollision (opBlocks opsP ++ opBlocks opsT))
    (m0 : Momentum) (d : DM) (hprod : produce W (run W opsP) m0 = some d)
    (hvalid : W.mvalid (ledger W (run W opsP).hist) d.m = true)
    (hchain : (run W opsT).chain = (run W opsP).chain) :
    (deliver W true true (run W opsT) [d]).2 = none ∧
      (known (run W opsT).hist d.m = false →
        (deliver W true true (run W opsT) [d]).1.chain = d.m :: (run W opsP).chain) := by
  let U : Block → Prop := fun b => b ∈ opBlocks opsP ++ opBlocks opsT
  have hinj : ∀ b b', U b → U b' → b.id = b'.id → b = b' := fun b b' hb hb' => hcol b hb b' hb'
  have iP := run_inv W U opsP (fun b hb => List.mem_append.2 (Or.inl hb))
  have iT := run_inv W U opsT (fun b hb => List.mem_append.2 (Or.inr hb))
  have e : (run W opsT).hist = (run W opsP).hist :=
    hist_det hinj _ _ iT.hist iP.hist iT.blocks.2 iP.blocks.2 hchain
  unfold produce at hprod
  rw [← e] at hprod hvalid
  rw [← hchain]
  split at hprod
  · cases hprod
  · rename_i q txs hq
    simp only [Option.some.injEq] at hprod
    subst hprod
    obtain ⟨c1, _, c3⟩ := consume_sound _ iP.pool hq
    obtain ⟨m1, _⟩ := consume_mem _ hq
    have hu : ∀ x ∈ txs, U x.1 := fun x hx => by obtain ⟨a, ha⟩ := m1 x hx; exact iP.blocks.1 a x ha
    rw [← e] at c1
    exact deliver_honest hinj iT hu c1 c3 rfl rfl hvalid

/-! ### (d) negative witnesses: the two places where the mechanism can be lost

A tiny world: patches are numbers, `exec` tags a block with the frontier of the account chain it was run on, the
changes hash is the identity (injective). One account, one honest block `wB`, one rival `wR` at the same height that
the priority rule prefers. -/

def wVM : VM Nat (List Nat) where
  init := []
  commit l _ p := p :: l
  gid := 1
  gconf _ := []
  exec _ view b := some (1000 * lastId view + b.id)
  pack _ txs := txs.foldl (fun acc t => 1000003 * acc + t.2 + 1) 0
  hash p := p
  mvalid _ _ := true
  prio a b := a.id < b.id

def wB : Block := { acct := 7, height := 1, prev := 0, ack := 1, payload := 0, id := 20 }
def wR : Block := { acct := 7, height := 1, prev := 0, ack := 1, payload := 1, id := 10 }

/-- the honest momentum: produced on a node that saw only `wB` -/
def wD : DM :=
  (produce wVM (run wVM [.gossip wB]) { id := 2, height := 2, prev := 0, content := [wB.hdr], changesHash := 0 }).getD default

/-- seeded C02-2 (execute on the pool frontier instead of the stated previous): the real rules accept the honest
    momentum on a node that pooled the rival, on a node with an empty pool and on a node that pooled the block itself;
    the variant accepts it on the latter two but refuses it (changes hash differs: the block ran on top of the rival) on
    the node that pooled the rival. -/
theorem exec_on_pool_frontier_breaks_acceptance :
    (deliver wVM true true (run wVM [.gossip wR]) [wD]).2 = none ∧
    (deliver wVM true true (run wVM []) [wD]).2 = none ∧
    (deliver wVM true true (run wVM [.gossip wB]) [wD]).2 = none ∧
    (deliver wVM false true (run wVM []) [wD]).2 = none ∧
    (deliver wVM false true (run wVM [.gossip wB]) [wD]).2 = none ∧
    (deliver wVM false true (run wVM [.gossip wR]) [wD]).2 = some 0 := by decide

/-- seeded C02-r2-3 (the priority rule instead of force on delivery): the confirmed block loses against the pooled
    rival, the honest momentum is refused — and is accepted by the same node after a restart (the pool is gone). -/
theorem no_force_breaks_acceptance :
    (deliver wVM true true (run wVM [.gossip wR]) [wD]).2 = none ∧
    (deliver wVM true false (run wVM []) [wD]).2 = none ∧
    (deliver wVM true false (run wVM [.gossip wR]) [wD]).2 = some 0 ∧
    (deliver wVM true false (run wVM [.gossip wR, .restart]) [wD]).2 = none := by decide

/-- gossip does obey the priority rule (that is why delivery must not): the rival displaces `wB`, `wB` does not
    displace the rival -/
theorem gossip_obeys_priority :
    ((run wVM [.gossip wB, .gossip wR]).pool 7).map (·.1.id) = [10] ∧
    ((run wVM [.gossip wR, .gossip wB]).pool 7).map (·.1.id) = [10] := by decide

/-! ### the mechanism in the code (AST of the working tree, regenerated on every run) -/

/-- `newBlockContext` (model: `addBlock`, `ctxAtPrev = true`): the momentum store is the one of the ACKNOWLEDGED momentum,
    the account store the one at the block's stated PREVIOUS; these two (and the pillar reader of the acknowledged
    momentum) are what the VM context is built from -/
theorem context_is_the_stated_one :
    Gen.newBlockContextAssigns =
      ["momentumStore := s.chain.GetMomentumStore(block.MomentumAcknowledged)",
       "accountStore := s.chain.GetAccountStore(block.Address, block.Previous())",
       "cache := s.consensus.FixedPillarReader(block.MomentumAcknowledged)"] ∧
    Gen.newBlockContextReturn = "vm_context.NewAccountContext(momentumStore, accountStore, cache)" ∧
    Gen.applyBlockAssigns =
      ["context := s.newBlockContext(block)", "vm := NewVM(context)", "err := vm.applyBlock(block)",
       "transaction, err = s.packBlock(context, block, signFunc)"] := by decide

/-- `InsertChain` (model: `blockLoop` with `force = true`): a block pooled under the same identifier is not executed
    again, any other block is executed and FORCE-added; no other pool insertion is reachable from `InsertChain` -/
theorem delivery_uses_pooled_patch_or_forces :
    Gen.insertChainBlockLoop =
      ["if block.BlockType == nom.BlockTypeContractSend => continue",
       "if patch := c.chain.GetPatch(block.Address, block.Identifier()); patch != nil => continue",
       "call c.supervisor.ApplyBlock(block)", "if err != nil",
       "call c.chain.ForceAddAccountBlockTransaction(insert, transaction)"] ∧
    Gen.insertChainPoolInserts = ["ForceAddAccountBlockTransaction"] := by decide

/-- `AddAccountBlocks` (model: `step (.gossip b)`, `force = false`): same test, plain insertion (priority rule) -/
theorem gossip_inserts_without_force :
    Gen.addAccountBlocksLoop =
      ["if patch := c.chain.GetPatch(block.Address, block.Identifier()); patch != nil => continue",
       "if block.BlockType == nom.BlockTypeContractSend => continue",
       "call c.supervisor.ApplyBlock(block)", "if err != nil",
       "call c.chain.AddAccountBlockTransaction(insert, transaction)"] ∧
    Gen.addAccountBlocksPoolInserts = ["AddAccountBlockTransaction"] := by decide

/-- the pool: the two insertions differ in the force flag only, and the flag does nothing but switch the priority test off -/
theorem force_only_skips_priority :
    Gen.poolAddReturn = "ap.addAccountBlockTransaction(transaction, false)" ∧
    Gen.poolForceAddReturn = "ap.addAccountBlockTransaction(transaction, true)" ∧
    Gen.poolForceConds = ["err := higherPriority(block, trueBlock); !forceAdd && err != nil"] := by decide

/-- a momentum's patches are the POOLED patches of its content (model: `consume`), and the receiver recomputes the
    changes hash from them and compares (model: `stepMomentum`) -/
theorem momentum_patches_from_pool_hash_compared :
    Gen.applyMomentumLoop =
      ["call momentumStore.AddAccountBlockTransaction(*header, pool.GetPatch(header.Address, header.Identifier()))"] ∧
    Gen.changesHashStmts =
      ["computedHash := db.PatchHash(transaction.Changes)",
       "if computedHash != transaction.Momentum.ChangesHash", "return nil"] := by decide

end ZV.C02Node
