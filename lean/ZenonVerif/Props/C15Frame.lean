import ZenonVerif.Lemmas.Frame
import ZenonVerif.Gen.Proto
/-
C15 — "Corrupted, truncated or re-ordered encrypted frames and malformed discovery packets are rejected, only the
offending peer is dropped": the RLPx frame reader / writer (p2p/rlpx.go) and the discovery packet decoder
(p2p/discover/udp.go) of Model/Frame.lean. Property theorems only; every statement is about ALL byte strings.

The cryptography is a parameter. What is proved is the code AROUND it: which bytes are authenticated before which
are used, that nothing is delivered unless both MACs (hash and signature) verified, that no bounds check can fail.
What is NOT proved, and is a premise wherever it is needed, is that the MAC cannot be forged: stated as "the changed
bytes do not happen to carry the right tag" (`…_rejected` theorems; a changed TAG needs no premise at all) and, for
re-ordering, as injectivity of the tag in the state of the running hash.
-/
namespace ZV.C15Frame
open ZV ZV.Frame

variable {μ κ : Type} {C : Crypto μ κ}

/-! ### frames: round trip -/

/-- Reading what the writer wrote — any code below 2^64, any payload whose frame size fits 24 bits — yields exactly that
    message, leaves the rest of the stream untouched and leaves the reader in the writer's successor state. -/
theorem frame_roundtrip (L : Lawful C) (st : RW μ κ) (code : Nat) (payload rest : Bytes) (hc : code < two64)
    (hs : (encodeCode code).length + payload.length ≤ maxUint24) :
    ∃ wire st', writeMsg C st code payload.length payload = .ok wire st' ∧
      readMsg C st (wire ++ rest) = .msg code payload.length payload rest st' :=
  ⟨_, _, writeMsg_eq L st code payload hs, readMsg_frame L st code payload rest hc hs⟩

/-- The writer refuses a message whose frame size (code bytes + declared size, `uint32`) exceeds 2^24 − 1. -/
theorem writer_size_gate (st : RW μ κ) (code size : Nat) (payload : Bytes)
    (h : ((encodeCode code).length + size) % two32 > maxUint24) : writeMsg C st code size payload = .err := by
  unfold writeMsg; simp only []; rw [if_pos h]

/-! ### frames: totality, authenticity, size -/

/-- For every byte string the reader ends in one of three ways — a message, waiting for more bytes, an error: no bounds
    check of `ReadMsg`, `updateMAC`, `readInt24` can fail. -/
theorem frame_reject_total (L : Lawful C) (st : RW μ κ) (inp : Bytes) : readMsg C st inp ≠ .panic := by
  intro h
  have s := readMsg_spec L st inp
  rw [h] at s
  cases s

/-- A delivered message passed BOTH MAC comparisons: the stream starts with 16 header bytes whose tag under the
    connection's ingress MAC is the next 16 bytes, and a frame body whose tag (MAC state after header and body) is
    the 16 bytes behind it. -/
theorem accepted_frame_authentic (L : Lawful C) (st : RW μ κ) (inp : Bytes) (code size : Nat) (payload rest : Bytes)
    (st' : RW μ κ) (h : readMsg C st inp = .msg code size payload rest st') :
    ∃ h16 t fb fm, inp = h16 ++ t ++ (fb ++ fm ++ rest) ∧ h16.length = 16 ∧ t.length = 16 ∧ fm.length = 16 ∧
      (tag C st.mac h16).2 = t ∧
      (tag C (C.write (tag C st.mac h16).1 fb) (C.sum (C.write (tag C st.mac h16).1 fb))).2 = fm := by
  have s := readMsg_spec L st inp
  rw [h] at s
  cases s with
  | msg h16 t fb fm rest fsize code payload e l1 l2 ht hf m1 m2 hfm hd => exact ⟨h16, t, fb, fm, e, l1, l2, m2, ht, hfm⟩

/-- A delivered message is smaller than the 24-bit frame size, and its `Size` is the length of its payload; the reader
    has taken at most 32 + 2^24 + 16 bytes from the connection for it. -/
theorem accepted_frame_size_le (L : Lawful C) (st : RW μ κ) (inp : Bytes) (hw : inp.WF) (code size : Nat)
    (payload rest : Bytes) (st' : RW μ κ) (h : readMsg C st inp = .msg code size payload rest st') :
    size = payload.length ∧ size < maxUint24 ∧ inp.length ≤ rest.length + headerLen + (maxUint24 + 1) + macLen := by
  have s := readMsg_spec L st inp
  rw [h] at s
  cases s with
  | msg h16 t fb fm rest fsize code payload e l1 l2 ht hf m1 m2 hfm hd =>
    have hwf : (C.dec st.ks h16).2.WF := L.dec_wf _ _ (fun x hx => hw x (by rw [e]; simp [hx]))
    have hlt := readInt24_lt _ hwf _ hf
    have hp := decodeCode_len _ _ _ hd
    rw [List.length_take] at hp
    have hm := maxUint24_eq
    have hr : roundUp16 fsize ≤ 16777216 := by unfold roundUp16; split <;> omega
    have e2 := congrArg List.length e
    simp only [List.length_append, l1, l2, m1, m2] at e2
    refine ⟨?_, ?_, ?_⟩
    · unfold two32; omega
    · unfold two32; omega
    · rw [headerLen_eq, macLen_eq]; omega

/-- The buffer `make([]byte, rsize)` is at most 2^24 bytes, and it is allocated only behind a verified header MAC. -/
theorem frame_allocation_bound (fsize : Nat) (h : fsize ≤ maxUint24) : roundUp16 fsize ≤ maxUint24 + 1 := by
  have hm := maxUint24_eq
  unfold roundUp16; split <;> omega

/-! ### frames: truncation -/

/-- Any strict prefix of a valid frame makes the reader wait (`io.ReadFull` does not return): never a message. -/
theorem truncated_frame_never_accepted (L : Lawful C) (st : RW μ κ) (code : Nat) (payload : Bytes)
    (hs : (encodeCode code).length + payload.length ≤ maxUint24) (wire : Bytes) (st' : RW μ κ)
    (hw : writeMsg C st code payload.length payload = .ok wire st') (n : Nat) (hn : n < wire.length) :
    readMsg C st (wire.take n) = .needMore := by
  rw [writeMsg_eq L st code payload hs] at hw
  cases hw
  exact readMsg_frame_prefix L st code payload hs n hn

/-- Fewer than 32 bytes never produce anything. -/
theorem short_input_waits (st : RW μ κ) (inp : Bytes) (h : inp.length < headerLen) : readMsg C st inp = .needMore := by
  unfold readMsg; rw [readHeader_short _ _ h]

/-! ### frames: corruption -/

/-- The first 32 bytes, whatever they are: unless the second half is the tag of the first half under the connection's
    MAC state (premise = the sender of these bytes did not forge it), the reader stops with "bad header MAC" — having
    looked at nothing else, allocated nothing, decrypted nothing. -/
theorem corrupted_header_rejected (L : Lawful C) (st : RW μ κ) (h16 t X : Bytes) (h1 : h16.length = 16)
    (h2 : t.length = 16) (unforged : (tag C st.mac h16).2 ≠ t) :
    readMsg C st (h16 ++ t ++ X) = .reject .badHeaderMAC := by
  unfold readMsg; rw [readHeader_split L st h16 t X h1 h2, if_pos unforged]

/-- No premise: any change of the header MAC bytes of a valid frame is rejected. -/
theorem flipped_header_mac_rejected (L : Lawful C) (st : RW μ κ) (f : Nat) (t X : Bytes) (h2 : t.length = 16)
    (hne : t ≠ wHmac C st f) : readMsg C st (wHdr C st f ++ t ++ X) = .reject .badHeaderMAC :=
  corrupted_header_rejected L st _ t X (wHdr_len L st f) h2 (fun h => hne (by rw [← h]; rfl))

/-- A change of the 16 encrypted header bytes of a valid frame is rejected unless the changed bytes collide with the
    original ones under the MAC (premise: they do not). -/
theorem flipped_header_rejected (L : Lawful C) (st : RW μ κ) (f : Nat) (h16 X : Bytes) (h1 : h16.length = 16)
    (nocollision : (tag C st.mac h16).2 ≠ (tag C st.mac (wHdr C st f)).2) :
    readMsg C st (h16 ++ wHmac C st f ++ X) = .reject .badHeaderMAC :=
  corrupted_header_rejected L st h16 _ X h1 (wHmac_len L st f) nocollision

/-- Behind an authentic header announcing `fsize`: whatever the body `fb` and the 16 bytes `fm` behind it are, unless
    `fm` is the tag of the MAC state after the body (premise), the reader stops with "bad frame MAC" — before
    decrypting the body and before looking at the message code. -/
theorem corrupted_body_rejected (L : Lawful C) (st : RW μ κ) (h16 t fb fm rest : Bytes) (fsize : Nat)
    (h1 : h16.length = 16) (h2 : t.length = 16) (ht : (tag C st.mac h16).2 = t)
    (hf : readInt24 (C.dec st.ks h16).2 = .ok fsize) (h3 : fb.length = roundUp16 fsize) (h4 : fm.length = 16)
    (unforged : (tag C (C.write (tag C st.mac h16).1 fb) (C.sum (C.write (tag C st.mac h16).1 fb))).2 ≠ fm) :
    readMsg C st (h16 ++ t ++ (fb ++ fm ++ rest)) = .reject .badFrameMAC := by
  unfold readMsg
  rw [readHeader_split L st h16 t _ h1 h2, if_neg (by simp [ht]), hf]
  simp only []
  rw [readBody_split L _ _ _ fb fm rest h3 h4, if_pos unforged]

/-- No premise: any change of the frame MAC bytes of a valid frame is rejected. -/
theorem flipped_frame_mac_rejected (L : Lawful C) (st : RW μ κ) (code : Nat) (payload fm rest : Bytes)
    (hs : (encodeCode code).length + payload.length ≤ maxUint24) (h4 : fm.length = 16) (hne : fm ≠ wFmac C st code payload) :
    readMsg C st (wHdr C st (wFsize code payload) ++ wHmac C st (wFsize code payload)
      ++ (wBody C (wK1 C st (wFsize code payload)) code payload (wFsize code payload) ++ fm ++ rest)) = .reject .badFrameMAC := by
  unfold readMsg
  rw [readHeader_frame L st (wFsize code payload) _ hs]
  simp only []
  rw [readBody_split L _ _ _ _ fm rest (wBody_len L _ code payload) h4, if_pos (fun h => hne (by rw [← h]; rfl))]

/-- A changed body (same length) of a valid frame is rejected unless it collides with the original under the MAC. -/
theorem flipped_body_rejected (L : Lawful C) (st : RW μ κ) (code : Nat) (payload fb rest : Bytes)
    (hs : (encodeCode code).length + payload.length ≤ maxUint24) (h3 : fb.length = roundUp16 (wFsize code payload))
    (nocollision : (tag C (C.write (wM1 C st (wFsize code payload)) fb) (C.sum (C.write (wM1 C st (wFsize code payload)) fb))).2
      ≠ wFmac C st code payload) :
    readMsg C st (wHdr C st (wFsize code payload) ++ wHmac C st (wFsize code payload)
      ++ (fb ++ wFmac C st code payload ++ rest)) = .reject .badFrameMAC := by
  unfold readMsg
  rw [readHeader_frame L st (wFsize code payload) _ hs]
  simp only []
  rw [readBody_split L _ _ _ fb _ rest h3 (wFmac_len L st code payload), if_pos nocollision]

/-! ### frames: re-ordering and replay (the MAC is a running hash) -/

/-- "The running MAC is injective in its history", as far as the header check needs it: the header tag of the same 16
    bytes under two different MAC states differs. -/
def TagSeparatesStates (C : Crypto μ κ) : Prop := ∀ m m' x, (tag C m x).2 = (tag C m' x).2 → m = m'

/-- A frame written for MAC state `s.mac` and read at a different MAC state is rejected at its header. -/
theorem frame_for_other_state_rejected (L : Lawful C) (hinj : TagSeparatesStates C) (st s : RW μ κ) (code : Nat)
    (payload X : Bytes) (hne : s.mac ≠ st.mac) :
    readMsg C st (frameBytes C s code payload ++ X) = .reject .badHeaderMAC := by
  have e : frameBytes C s code payload ++ X = wHdr C s (wFsize code payload) ++ wHmac C s (wFsize code payload)
      ++ (wBody C (wK1 C s (wFsize code payload)) code payload (wFsize code payload) ++ wFmac C s code payload ++ X) := by
    unfold frameBytes; simp [List.append_assoc]
  rw [e]
  exact corrupted_header_rejected L st _ _ _ (wHdr_len L s _) (wHmac_len L s _)
    (fun h => hne (hinj _ _ _ h).symm)

/-- Two frames A, B written in this order and delivered as B, A: the reader rejects B (the first swapped frame) with
    "bad header MAC" — premises: the tag separates MAC states, and writing A moved the MAC state. -/
theorem reordered_frames_rejected (L : Lawful C) (hinj : TagSeparatesStates C) (st : RW μ κ) (a b : Nat) (pa pb X : Bytes)
    (hadv : (frameNext C st a pa).mac ≠ st.mac) :
    readMsg C st (frameBytes C (frameNext C st a pa) b pb ++ (frameBytes C st a pa ++ X)) = .reject .badHeaderMAC :=
  frame_for_other_state_rejected L hinj st _ b pb _ hadv

/-- A frame delivered a second time is rejected: the reader's MAC state has moved on. -/
theorem replayed_frame_rejected (L : Lawful C) (hinj : TagSeparatesStates C) (st : RW μ κ) (a : Nat) (pa X : Bytes)
    (ha : a < two64) (hs : (encodeCode a).length + pa.length ≤ maxUint24)
    (hadv : (frameNext C st a pa).mac ≠ st.mac) :
    ∃ st', readMsg C st (frameBytes C st a pa ++ (frameBytes C st a pa ++ X)) = .msg a pa.length pa (frameBytes C st a pa ++ X) st' ∧
      readMsg C st' (frameBytes C st a pa ++ X) = .reject .badHeaderMAC :=
  ⟨_, readMsg_frame L st a pa _ ha hs, frame_for_other_state_rejected L hinj _ st a pa X (fun h => hadv h.symm)⟩

/-! ### a toy instance: the premises are satisfiable -/

/-- MAC state = number of bytes written; `Sum` shows it; no encryption. -/
def toy : Crypto Nat Unit where
  sum m := m :: List.replicate 31 0
  write m b := m + b.length
  block _ := List.replicate 16 0
  enc k b := (k, b)
  dec k b := (k, b)

theorem toy_lawful : Lawful toy where
  sum_len _ := by simp [toy]; rfl
  block_len _ := by simp [toy]; rfl
  enc_len _ _ := rfl
  dec_len _ _ := rfl
  dec_wf _ _ h := h
  dec_enc _ _ := rfl
  dec_append _ _ _ := rfl
  write_append m a b := by simp [toy]; omega

theorem toy_separates : TagSeparatesStates toy := by
  intro m m' x h
  simp [tag, toy, macLen_eq, xorBytes] at h
  omega

example : ∃ (C : Crypto Nat Unit), Lawful C ∧ TagSeparatesStates C ∧
    (frameNext C ⟨0, ()⟩ 5 [1, 2, 3]).mac ≠ (⟨0, ()⟩ : RW Nat Unit).mac ∧
    (tag C 0 (List.replicate 16 7)).2 ≠ List.replicate 16 0 :=
  ⟨toy, toy_lawful, toy_separates, by decide, by decide⟩

/-! ### only the offending peer -/

/-- `ReadMsg` works on the state of ONE connection. Whatever peer `p`'s bytes are — message, waiting, rejection — the
    session of every other peer is what it was; a rejection removes `p`'s session and nothing else. -/
theorem reject_drops_only_that_peer (node : Node μ κ) (p : Nat) (inp : Bytes) (q : Nat) (hq : q ≠ p) :
    (nodeRead C node p inp).1 q = node q := by
  unfold nodeRead
  split
  · rfl
  · split <;> simp [hq]

/-- …and a rejection does drop `p`. -/
theorem rejected_peer_is_dropped (node : Node μ κ) (p : Nat) (inp : Bytes) (st : RW μ κ) (r : Reason)
    (hp : node p = some st) (h : readMsg C st inp = .reject r) :
    nodeRead C node p inp = (fun q => if q = p then none else node q, .dropped) := by
  unfold nodeRead; rw [hp]; simp only []; rw [h]

/-- In the code (AST of p2p/peer.go): `readLoop` sends a `ReadMsg` error on its own `errc` and returns; the `readErr`
    case of `run` picks a reason and leaves the loop; behind the loop THIS peer's transport is closed. `readLoop` touches
    nothing but `p.rw`, `p.handle` and the message. -/
theorem read_error_ends_only_this_peer_in_code :
    Gen.PeerReadLoopBody.take 2 = ["msg, err := p.rw.ReadMsg()", "if err != nil { … return }"] ∧
    Gen.PeerReadLoopErrBranch = ["if err != nil", "errc <- err", "return"] ∧
    Gen.PeerRunReadErrCase = ["if r, ok := err.(DiscReason); ok { … reason = r }", "break",
      "then: requested = true; reason = r", "else: reason = DiscNetworkError"] ∧
    Gen.PeerRunAfterLoop.take 2 = ["p.rw.close(reason)", "close(p.closed)"] ∧
    Gen.PeerReadLoopSelectors = ["p.rw", "msg.ReceivedAt", "time.Now", "p.handle"] := by decide

/-! ### the order of the checks in the code -/

/-- `ReadMsg` as the model follows it: 32 header bytes, header MAC compared BEFORE the header is decrypted and the size
    read, the body read, frame MAC compared BEFORE the body is decrypted, then the code. -/
theorem readMsg_order_in_code : Gen.ReadMsgShape =
    ["headbuf := make([]byte, 32)",
     "if _, err := io.ReadFull(rw.conn, headbuf); err != nil { … return msg, err }",
     "shouldMAC := updateMAC(rw.ingressMAC, rw.macCipher, headbuf[:16])",
     "if !hmac.Equal(shouldMAC, headbuf[16:]) { … return msg, errors.New(\"bad header MAC\") }",
     "rw.dec.XORKeyStream(headbuf[:16], headbuf[:16])",
     "fsize := readInt24(headbuf)",
     "var rsize = fsize",
     "if padding := fsize % 16; padding > 0 { … rsize += 16 - padding }",
     "framebuf := make([]byte, rsize)",
     "if _, err := io.ReadFull(rw.conn, framebuf); err != nil { … return msg, err }",
     "rw.ingressMAC.Write(framebuf)",
     "fmacseed := rw.ingressMAC.Sum(nil)",
     "if _, err := io.ReadFull(rw.conn, headbuf[:16]); err != nil { … return msg, err }",
     "shouldMAC = updateMAC(rw.ingressMAC, rw.macCipher, fmacseed)",
     "if !hmac.Equal(shouldMAC, headbuf[:16]) { … return msg, errors.New(\"bad frame MAC\") }",
     "rw.dec.XORKeyStream(framebuf, framebuf)",
     "content := bytes.NewReader(framebuf[:fsize])",
     "if err := rlp.Decode(content, &msg.Code); err != nil { … return msg, err }",
     "msg.Size = uint32(content.Len())",
     "msg.Payload = content",
     "return msg, nil"] := by decide

theorem writeMsg_order_in_code : Gen.WriteMsgShape.take 9 =
    ["ptype, _ := rlp.EncodeToBytes(msg.Code)",
     "headbuf := make([]byte, 32)",
     "fsize := uint32(len(ptype)) + msg.Size",
     "if fsize > maxUint24 { … return errors.New(\"message size overflows uint24\") }",
     "putInt24(fsize, headbuf)",
     "copy(headbuf[3:], zeroHeader)",
     "rw.enc.XORKeyStream(headbuf[:16], headbuf[:16])",
     "copy(headbuf[16:], updateMAC(rw.egressMAC, rw.macCipher, headbuf[:16]))",
     "if _, err := rw.conn.Write(headbuf); err != nil { … return err }"] ∧
    Gen.UpdateMACShape = ["aesbuf := make([]byte, aes.BlockSize)", "block.Encrypt(aesbuf, mac.Sum(nil))", "for range aesbuf",
      "mac.Write(aesbuf)", "return mac.Sum(nil)[:16]"] ∧
    Gen.ReadInt24Shape = ["return uint32(b[2]) | uint32(b[1])<<8 | uint32(b[0])<<16"] ∧
    Gen.PutInt24Shape = ["b[0] = byte(v >> 16)", "b[1] = byte(v >> 8)", "b[2] = byte(v)"] := by decide

/-- the constants the model computes with, as the packages have them -/
theorem frame_constants :
    Gen.FrMaxUint24 = 2 ^ 24 - 1 ∧ Gen.FrHeaderLen = 2 * Gen.FrAesBlockSize ∧ Gen.FrAesBlockSize ≤ Gen.FrHashSize ∧
    Gen.FrZeroHeader.length = 3 ∧ Gen.FrBaseProtocolMaxMsgSize = 2048 ∧ Gen.FrBaseProtocolMaxMsgSize < Gen.FrMaxUint24 ∧
    Gen.ProtocolMaxMsgSize = 10 * 1024 * 1024 ∧ Gen.ProtocolMaxMsgSize < Gen.FrMaxUint24 := by decide

/-- the first message of a session: nothing larger than `baseProtocolMaxMsgSize` gets as far as `msg.Decode` — the size
    test stands in front of every test on the code. -/
theorem handshake_size_gate (code size : Nat) (h : size > Gen.FrBaseProtocolMaxMsgSize) :
    protoHandshakeGate true code size = .tooBig := by
  unfold protoHandshakeGate; simp [h]

theorem handshake_gate_in_code : Gen.ReadProtocolHandshakeShape.take 5 =
    ["msg, err := rw.ReadMsg()", "if err != nil { … return nil, err }",
     "if msg.Size > baseProtocolMaxMsgSize { … return nil, fmt.Errorf(\"message too big\") }",
     "if msg.Code == discMsg { … return nil, reason[0] }",
     "if msg.Code != handshakeMsg { … return nil, fmt.Errorf(\"expected handshake, got %x\", msg.Code) }"] := by decide

/-! ### discovery datagrams -/

/-- Every datagram shorter than hash + signature + one packet-type byte is refused before anything is sliced. -/
theorem packet_too_small_rejected (D : DCrypto) (buf : Bytes) (h : buf.length < headSize + 1) :
    decodePacket D buf = .reject .tooSmall := by
  unfold decodePacket; rw [if_pos h]

/-- For every byte string `decodePacket` returns a request or an error: no slice expression, not `sigdata[0]`, can fail. -/
theorem decode_total (D : DCrypto) (buf : Bytes) : decodePacket D buf ≠ .panic := by
  by_cases h : buf.length < headSize + 1
  · rw [packet_too_small_rejected D buf h]; intro h; cases h
  · rw [decodePacket_long D buf h]
    split
    · intro h; cases h
    · split
      · intro h; cases h
      · split
        · split <;> (intro h; cases h)
        · intro h; cases h

/-- A datagram whose first 32 bytes are not the hash of the rest is refused — before signature recovery, before the
    packet type is looked at, before RLP decoding. -/
theorem bad_hash_rejected (D : DCrypto) (buf : Bytes) (h : ¬ buf.length < headSize + 1)
    (hh : buf.take macSize ≠ D.hash (buf.drop macSize)) : decodePacket D buf = .reject .badHash := by
  rw [decodePacket_long D buf h, if_pos hh]

/-- A packet-type byte other than ping / pong / findnode / neighbors is refused (never decoded, never handled). -/
theorem unknown_type_rejected (D : DCrypto) (buf : Bytes) (ptype : Nat) (fromID hash : Bytes) (req : Req)
    (h : decodePacket D buf = .ok ptype fromID hash req) : ptype ∈ knownTypes := by
  by_cases hs : buf.length < headSize + 1
  · rw [packet_too_small_rejected D buf hs] at h; cases h
  · rw [decodePacket_long D buf hs] at h
    split at h
    · cases h
    · split at h
      · cases h
      · split at h
        · rename_i hk
          split at h
          · cases h
          · cases h; exact hk
        · cases h

/-- What an accepted datagram has gone through: long enough, the hash in front matches, a public key was recovered from
    the signature over the hash of type + body, the type is one of the four, the body decoded as that type's request. -/
theorem accepted_packet_wellformed (D : DCrypto) (buf : Bytes) (ptype : Nat) (fromID hash : Bytes) (req : Req)
    (h : decodePacket D buf = .ok ptype fromID hash req) :
    headSize + 1 ≤ buf.length ∧ hash = buf.take macSize ∧ buf.take macSize = D.hash (buf.drop macSize) ∧
    D.recover (D.hash (buf.drop headSize)) ((buf.drop macSize).take sigSize) = some fromID ∧
    ptype = (buf.drop headSize).getD 0 0 ∧ ptype ∈ knownTypes ∧ D.body ptype ((buf.drop headSize).drop 1) = some req := by
  have hk := unknown_type_rejected D buf ptype fromID hash req h
  by_cases hs : buf.length < headSize + 1
  · rw [packet_too_small_rejected D buf hs] at h; cases h
  · rw [decodePacket_long D buf hs] at h
    have e3 : headSize - macSize = sigSize := rfl
    split at h
    · cases h
    · rename_i hh
      split at h
      · cases h
      · rename_i fid hr
        split at h
        · split at h
          · cases h
          · rename_i r hb
            cases h
            exact ⟨by omega, rfl, by simpa using hh, by rw [← e3]; exact hr, rfl, hk, hb⟩
        · cases h

/-- An expired request is never handled: `handlePacket` returns `errExpired` (or an earlier decoding error) whatever
    the type, for EVERY datagram — the expiry test is the first statement of each of the four `handle` methods. -/
theorem expired_rejected (D : DCrypto) (nowSec : Int) (nowNsec version : Nat) (buf : Bytes) (ptype : Nat)
    (fromID hash : Bytes) (req : Req) (h : decodePacket D buf = .ok ptype fromID hash req)
    (he : expired req.expiration nowSec nowNsec = true) :
    handlePacket D nowSec nowNsec version buf = .expired := by
  unfold handlePacket; rw [h]; simp only []; rw [if_pos he]

/-- …and whatever is handled was decoded, is not expired and, for a ping, carries this node's protocol version. -/
theorem handled_packet_fresh (D : DCrypto) (nowSec : Int) (nowNsec version : Nat) (buf : Bytes) (ptype : Nat)
    (h : handlePacket D nowSec nowNsec version buf = .handled ptype) :
    ∃ fromID hash req, decodePacket D buf = .ok ptype fromID hash req ∧ expired req.expiration nowSec nowNsec = false ∧
      (ptype = Gen.DiscPingPacket → req.version = version) := by
  unfold handlePacket at h
  split at h
  · cases h
  · cases h
  · rename_i pt fid hs req hd
    split at h
    · cases h
    · rename_i hne
      split at h
      · cases h
      · rename_i hv
        cases h
        refine ⟨fid, hs, req, hd, by simpa using hne, ?_⟩
        intro hp
        exact Classical.byContradiction (fun hc => hv ⟨hp, hc⟩)

/-- `expired` at the extremes: an expiration of 0, of 2^63 − 1 (`time.Unix` wraps), of 2^63 and of 2^64 − 1 (negative
    `int64`) all count as expired at any time of this era; one second ahead of the clock does not. -/
theorem expired_extremes (nowSec : Nat) (h1 : 0 < nowSec) (h2 : nowSec < 2 ^ 62) (nsec : Nat) :
    expired 0 nowSec nsec = true ∧ expired (2 ^ 63 - 1) nowSec nsec = true ∧ expired (2 ^ 63) nowSec nsec = true ∧
    expired (2 ^ 64 - 1) nowSec nsec = true ∧ expired (nowSec + 1) nowSec nsec = false := by
  have e : Gen.UnixToInternal = 62135596800 := rfl
  refine ⟨?_, ?_, ?_, ?_, ?_⟩ <;>
    simp only [expired, toInt64, wrap64, two64, two63, e, Bool.or_eq_true, Bool.and_eq_true, decide_eq_true_eq,
      Bool.or_eq_false_iff, Bool.and_eq_false_imp, decide_eq_false_iff_not] <;> omega

/-- in the code: the first statement of every `handle` is the expiry test; `decodePacket`'s statements in order; the
    packet-type switch; `handlePacket` returns a decoding error without calling `handle`; the read loop of the socket
    ignores what `handlePacket` returns and goes on. -/
theorem decodePacket_order_in_code :
    Gen.DecodePacketShape =
      ["if len(buf) < headSize+1 { … return nil, NodeID{}, nil, errPacketTooSmall }",
       "hash, sig, sigdata := buf[:macSize], buf[macSize:headSize], buf[headSize:]",
       "shouldhash := crypto.Keccak256(buf[macSize:])",
       "if !bytes.Equal(hash, shouldhash) { … return nil, NodeID{}, nil, errBadHash }",
       "fromID, err := recoverNodeID(crypto.Keccak256(buf[headSize:]), sig)",
       "if err != nil { … return nil, NodeID{}, hash, err }",
       "var req packet", "switch ptype", "err = rlp.DecodeBytes(sigdata[1:], req)", "return req, fromID, hash, err"] ∧
    Gen.DecodePacketCases =
      ["pingPacket: req = new(ping)", "pongPacket: req = new(pong)", "findnodePacket: req = new(findnode)",
       "neighborsPacket: req = new(neighbors)", "default: return nil, fromID, hash, fmt.Errorf(\"unknown type: %d\", ptype)"] ∧
    Gen.HandleFirstStatement =
      ["ping: if expired(req.Expiration) { … return errExpired }", "pong: if expired(req.Expiration) { … return errExpired }",
       "findnode: if expired(req.Expiration) { … return errExpired }",
       "neighbors: if expired(req.Expiration) { … return errExpired }"] ∧
    Gen.ExpiredShape = ["return time.Unix(int64(ts), 0).Before(time.Now())"] ∧
    Gen.HandlePacketShape.take 2 = ["packet, fromID, hash, err := decodePacket(buf)", "if err != nil { … return err }"] ∧
    Gen.UdpReadLoopShape = ["defer t.conn.Close()", "buf := make([]byte, 1280)", "for",
      "nbytes, from, err := t.conn.ReadFromUDP(buf)", "if err != nil { … return }", "t.handlePacket(from, buf[:nbytes])"] := by
  decide

theorem disc_constants :
    Gen.DiscHeadSize = Gen.DiscMacSize + Gen.DiscSigSize ∧ Gen.DiscMacSize = 32 ∧ Gen.DiscSigSize = 65 ∧
    Gen.DiscExpirationSec = 20 ∧ Gen.DiscDatagramLimit = 1280 ∧ Gen.DiscLimitLiterals = [1280, 1, 1280] ∧
    knownTypes = [1, 2, 3, 4] ∧ Gen.DiscMaxNeighbors ≤ Gen.DiscBucketSize := by decide

/-! ### the size of a neighbors reply -/

/-- `maxNeighbors` is what the stuffing loop of `init()` computes under the model's size arithmetic: with that many
    nodes of maximal size the datagram stays below the limit, with one more it does not. -/
theorem maxNeighbors_is_stuffing_bound :
    stuff 100 0 = some Gen.DiscMaxNeighbors ∧
    neighborsPacketLen (List.replicate Gen.DiscMaxNeighbors maxSizeNode) (two64 - 1) < Gen.DiscDatagramLimit ∧
    neighborsPacketLen (List.replicate (Gen.DiscMaxNeighbors + 1) maxSizeNode) (two64 - 1) ≥ Gen.DiscDatagramLimit := by
  decide

/-- A neighbors datagram with at most `maxNeighbors` nodes — any IPs of at most 16 bytes, any ports, any expiration
    below 2^64 — is at most 1280 bytes long (it is below 1280: what `readLoop`'s buffer of the receiver holds). -/
theorem neighbors_reply_fits (ns : List RpcNode) (exp : Nat) (h : ∀ n ∈ ns, NodeOk n) (hn : ns.length ≤ Gen.DiscMaxNeighbors)
    (he : exp < two64) : neighborsPacketLen ns exp < Gen.DiscDatagramLimit := by
  have e1 : Gen.DiscMaxNeighbors = 12 := rfl
  have e2 : Gen.DiscDatagramLimit = 1280 := rfl
  have e3 : headSize = 97 := rfl
  have hl := nodesLen_le ns h
  have a1 : rlpUintLen exp ≤ 9 := by
    unfold rlpUintLen; split
    · omega
    · have := natBytesBE_len_le exp 8 (by unfold two64 at he; omega); omega
  have hh : ∀ x, x < 65536 → rlpHdrLen x ≤ 3 := by
    intro x hx
    unfold rlpHdrLen; split
    · omega
    · have := natBytesBE_len_le x 2 (by omega); omega
  unfold neighborsPacketLen neighborsLen
  simp only []
  have b1 := hh (nodesLen ns) (by omega)
  have b2 := hh (rlpHdrLen (nodesLen ns) + nodesLen ns + rlpUintLen exp) (by omega)
  omega

/-- The chunking loop of `findnode.handle`: no datagram carries more than `maxNeighbors` nodes (for `maxNeighbors ≥ 1`),
    and together the datagrams carry exactly the nodes found, in order. -/
theorem chunks_bounded {α : Type} (maxN : Nat) (hm : 1 ≤ maxN) (closest acc : List α) (ha : acc.length < maxN) :
    (∀ c ∈ chunkLoop maxN acc closest, c.length ≤ maxN) ∧
    (chunkLoop maxN acc closest).flatten = (if closest = [] then [] else acc ++ closest) := by
  induction closest generalizing acc with
  | nil => simp [chunkLoop]
  | cons n rest ih =>
    unfold chunkLoop
    simp only []
    split
    · rename_i hc
      have := ih [] (by simp; omega)
      refine ⟨?_, ?_⟩
      · intro c hcm
        simp only [List.mem_cons] at hcm
        rcases hcm with rfl | hcm
        · simp; omega
        · exact this.1 c hcm
      · simp only [List.flatten_cons, this.2]
        cases rest with
        | nil => simp
        | cons r rs => simp
    · rename_i hc
      have hlen : (acc ++ [n]).length < maxN := by simp at hc ⊢; omega
      have := ih (acc ++ [n]) hlen
      refine ⟨this.1, ?_⟩
      rw [this.2]
      have hr : rest ≠ [] := fun h => hc (Or.inr h)
      simp [hr]

theorem chunk_loop_in_code : Gen.FindnodeChunkLoop =
    ["closest := t.closest(target, bucketSize).entries", "for i, n := range closest",
     "p.Nodes = append(p.Nodes, nodeToRPC(n))",
     "if len(p.Nodes) == maxNeighbors || i == len(closest)-1 { … p.Nodes = p.Nodes[:0] }",
     "then: t.send(from, neighborsPacket, p); p.Nodes = p.Nodes[:0]"] ∧
    Gen.DiscInitShape.drop 3 =
    ["for n := 0; ; n++", "p.Nodes = append(p.Nodes, maxSizeNode)", "size, _, err := rlp.EncodeToReader(p)",
     "if err != nil { … panic(\"cannot encode: \" + err.Error()) }", "if headSize+size+1 >= 1280 { … break }",
     "then: maxNeighbors = n; break"] := by decide

end ZV.C15Frame
