import ZenonVerif.Gen.LdbWrites
/-
C08 — the tie of "ONE leveldb write per commit / rollback" to the code: assertions about the table of accesses to the
leveldb handle of `ldbManager`, regenerated from the AST of common/db on every run (harness/cmd/zvh/f_ldbwrites.go).
The crash stream observes the same thing in the journal of the live database (one operation = one journal record, at every
depth threshold of the store); these theorems make a second write site - or a raw read that bypasses the delete-enabled
wrapper - fail the build before the stream has to find the history that reaches it.
-/
namespace ZV.C08Gen
open ZV

/-- methods of *leveldb.DB that do not change the database -/
def readOnly : List String := ["GetSnapshot", "Get", "Has", "NewIterator", "GetProperty", "SizeOf", "Stats"]

/-- (function, method) of every call on the handle that is not read-only -/
def mutatingCalls : List (String × String) :=
  (Gen.LdbCalls.filter (fun r => !readOnly.contains r.2.1)).map (fun r => (r.1, r.2.1))

/-- the mutating calls on the handle inside one function, with their arguments -/
def mutatingIn (fn : String) : List (String × String) :=
  (Gen.LdbCalls.filter (fun r => r.1 == fn && !readOnly.contains r.2.1)).map (fun r => r.2)

/-- `ldbManager.Add` contains exactly ONE mutating call on the leveldb handle: the `Write` of one batch -/
theorem add_single_write : mutatingIn "ldbManager.Add" = [("Write", "batch, nil")] := by decide

/-- `ldbManager.Pop` contains exactly ONE mutating call on the leveldb handle: the `Write` of one batch -/
theorem pop_single_write : mutatingIn "ldbManager.Pop" = [("Write", "batch, nil")] := by decide

/-- no other function of package common/db writes to the handle (helpers called from Add / Pop included): the only
    mutating calls are the two batch writes and the `Close` of `Stop` -/
theorem no_other_writer : mutatingCalls =
    [("ldbManager.Add", "Write"), ("ldbManager.Pop", "Write"), ("ldbManager.Stop", "Close")] := by decide

/-- every access to the handle in the package: where it is created, the snapshot reads, the two places it is handed on
    (`NewLevelDBWrapper(m.ldb)`: the frontier identifier is read through the delete-enabled wrapper; `newBatchWriter(m.ldb,
    batch)`: reads from the handle, Puts collected in the batch), the two writes, Close. No raw `Get` / `Has` / iterator on the
    handle (they would see deletion markers as present keys), no alias of the handle. -/
theorem ldb_accesses_reviewed : Gen.LdbAccesses =
    [("NewLevelDBManager", "init", "ldb"),
     ("ldbManager.Frontier", "call", "GetSnapshot()"),
     ("ldbManager.Get", "call", "GetSnapshot()"),
     ("ldbManager.getPatch", "call", "GetSnapshot()"),
     ("ldbManager.getRollback", "call", "GetSnapshot()"),
     ("ldbManager.Add", "pass", "NewLevelDBWrapper(m.ldb)"),
     ("ldbManager.Add", "pass", "newBatchWriter(m.ldb, batch)"),
     ("ldbManager.Add", "call", "Write(batch, nil)"),
     ("ldbManager.Pop", "pass", "newBatchWriter(m.ldb, batch)"),
     ("ldbManager.Pop", "call", "Write(batch, nil)"),
     ("ldbManager.Stop", "call", "Close()"),
     ("ldbManager.Stop", "assign", "= nil")] := by decide

end ZV.C08Gen
