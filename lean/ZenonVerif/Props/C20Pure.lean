import ZenonVerif.Model.Genesis
import ZenonVerif.Gen.GenesisAmbient
/-
C20, clause "the genesis momentum — hash, content and full initial state — is a PURE FUNCTION of the genesis
configuration, independent of … process": the header of the genesis momentum is a function of the three scalar members
of the configuration for ALL their values (boundary values and members left out of the file included), and the code
that builds the genesis refers to nothing a process can read besides its argument.

Tie: `Gen/GenesisAmbient.lean` (AST of chain/genesis, chain/account_pool.go, chain/nom) pinned below by `decide`;
`gen-header` lines of the `genesis` stream (s_genesis_pure.go: the real `NewGenesis` under swapped clocks, time zones,
GOMAXPROCS, working directories, environments, math/rand states and in child processes) replayed through
`genesisHeader` by Driver/Genesis.lean.
-/
namespace ZV.C20Pure
open ZV ZV.Genesis

/-! ### the header is the configuration's -/

/-- `TimestampUnix` of the genesis momentum is `GenesisTimestampSec` of the configuration — for every int64 value:
    itself when non-negative (0 included: nothing is substituted for a zero / omitted member), the two's complement
    `uint64(s)` when negative. -/
theorem genesis_timestamp_is_config (c : HeaderCfg)
    (hlo : -(two63 : Int) ≤ c.genesisTimestampSec) (hhi : c.genesisTimestampSec < (two63 : Int)) :
    ((genesisHeader c).timestampUnix : Int) =
      if 0 ≤ c.genesisTimestampSec then c.genesisTimestampSec else c.genesisTimestampSec + (two64 : Int) := by
  simp only [genesisHeader, toUint64, two63, two64] at *
  split <;> omega

/-- the boundary the seeded defect lived on: a zero / omitted `GenesisTimestampSec` gives the timestamp 0 -/
theorem genesis_timestamp_zero (c : HeaderCfg) (h : c.genesisTimestampSec = 0) : (genesisHeader c).timestampUnix = 0 := by
  simp [genesisHeader, toUint64, h]

/-- all header fields: constants and the configuration's members, nothing else -/
theorem genesis_header_is_config (c : HeaderCfg) :
    (genesisHeader c).version = 1 ∧ (genesisHeader c).height = 1 ∧
      (genesisHeader c).chainIdentifier = c.chainIdentifier ∧ (genesisHeader c).data = c.extraData ∧
      (genesisHeader c).timestampUnix = toUint64 c.genesisTimestampSec := by
  simp [genesisHeader]

/-- no two int64 timestamps share a header: the timestamp member is never ignored (a start with an edited
    `GenesisTimestampSec` on the own database is refused — the `startup-field:*` scenarios of the stream) -/
theorem genesis_header_timestamp_injective (c d : HeaderCfg)
    (hc : -(two63 : Int) ≤ c.genesisTimestampSec ∧ c.genesisTimestampSec < (two63 : Int))
    (hd : -(two63 : Int) ≤ d.genesisTimestampSec ∧ d.genesisTimestampSec < (two63 : Int))
    (h : genesisHeader c = genesisHeader d) : c = d := by
  cases c with | mk ci ce ct => cases d with | mk di de dt =>
  simp only [genesisHeader, toUint64, two63, two64, MomentumHeader.mk.injEq, true_and] at *
  obtain ⟨h1, h2, h3⟩ := h
  subst h1 h3
  have : ct = dt := by omega
  subst this
  rfl

/-- negative witness for the excluded shape: a header that substitutes an ambient reading for the zero value is NOT a
    function of the configuration (two clock readings, one configuration, two headers) — and agrees with the real
    header on every other timestamp, which is why pinned hashes of configurations with a non-zero timestamp cannot see it -/
theorem ambient_fallback_not_pure :
    genesisHeaderAmbient 1700000000 {} ≠ genesisHeaderAmbient 1700040000 {} ∧
      ∀ amb c, c.genesisTimestampSec ≠ 0 → genesisHeaderAmbient amb c = genesisHeader c := by
  refine ⟨by decide, ?_⟩
  intro amb c h
  simp [genesisHeaderAmbient, h, genesisHeader]

example : (genesisHeader { chainIdentifier := 321, extraData := [115], genesisTimestampSec := 0 }).timestampUnix = 0 := by decide
example : (genesisHeader { genesisTimestampSec := -1 }).timestampUnix = 18446744073709551615 := by decide
example : (genesisHeader { genesisTimestampSec := 9223372036854775807 }).timestampUnix = 9223372036854775807 := by decide

/-! ### the code the model stands for (facts regenerated from the tree on every run) -/

/-- the header literal of `newGenesisMomentum` is the one `genesisHeader` transcribes: the timestamp comes from
    `time.Unix(genesisConfig.GenesisTimestampSec, 0)` directly, every other field from the configuration or a constant -/
theorem genesis_header_literal_fact : Gen.gnHeaderLiteral =
    ["timestamp := time.Unix(genesisConfig.GenesisTimestampSec, 0)",
     "blocks := pool.GetAllUncommittedAccountBlocks()",
     "Version: 1", "ChainIdentifier: genesisConfig.ChainIdentifier", "Height: 1",
     "TimestampUnix: uint64(timestamp.Unix())", "Data: []byte(genesisConfig.ExtraData)",
     "Content: nom.NewMomentumContent(blocks)"] := by decide

/-- every reference of the genesis-building code into `time`, `os`, `runtime`, `math/rand`, `crypto/rand`, `net`,
    `syscall` and to a process-wide `Clock`: the reviewed list — the conversion `time.Unix` (twice), the type
    `time.Time`, and `os.Open` of the genesis FILE (an argument). No `time.Now`, no `common.Clock`, no `os.Getenv`,
    no `os.Hostname`, no random numbers. -/
theorem genesis_ambient_refs_fact : Gen.gnAmbientRefs =
    ["chain/genesis/config.go:ReadGenesisConfigFromFile:os.Open",
     "chain/genesis/momentum.go:newGenesisMomentum:time.Unix",
     "chain/nom/momentum.go:(package level):time.Time",
     "chain/nom/momentum.go:Momentum.EnsureCache:time.Unix"] := by decide

/-- every range over a Go map in the genesis-building code: the reviewed list. `wrap` writes one balance key per map
    entry and `genesisPlasmaContractConfig` one fused-amount key per beneficiary — distinct keys, so the order does not
    reach the patch (`C20.writes_canonical`); `GetAllUncommittedAccountBlocks` collects the blocks that
    `NewMomentumContent` sorts (`C20.content_canonical`); `rebuild` is not on the genesis path. -/
theorem genesis_map_ranges_fact : Gen.gnMapRanges =
    ["chain/account_pool.go:accountPool.GetAllUncommittedAccountBlocks:range ap.managers",
     "chain/account_pool.go:accountPool.rebuild:range ap.managers",
     "chain/genesis/account_block.go:genesisPlasmaContractConfig:range fusedAmount",
     "chain/genesis/account_block.go:wrap:range block.BalanceList"] := by decide

end ZV.C20Pure
