import ZenonVerif.Lemmas.RewardEpoch
import ZenonVerif.Props.C11
import ZenonVerif.Props.C11Node
import ZenonVerif.Props.C11Points
/-
C11 — END TO END: the reward computation of every contract composed with the epoch cursor and the deposits
(Model/RewardEpoch.lean). Property theorems only.

Per epoch and contract: what ONE `compute…ForEpoch` call credits (summed over all accounts) is within that epoch's
emission for the contract, for every contract storage. Over a run: the epochs rewarded are exactly cursor₀+1 … cursor,
each once, and everything credited (and everything minted by CollectReward) is within the emission summed over exactly
those epochs.

Premises that remain hypotheses (`Premises`, `ConsOK`, `StoreOK`) — all of them are about INPUTS of the reward code:
  * `epochSec < 2^63`: the epoch length is an int64 number of seconds (so `endTime - startTime` does not wrap);
  * `0 < mpe`: constants.MomentumsPerEpoch is positive;
  * pillar only, consensus facts of the epoch statistics (C05): produced ≤ expected per pillar, weights ≥ 0,
    Σ weights ≤ TotalWeight (a THEOREM for a statistics object built by `Points.compound`: `weights_premise_of_point`),
    Σ expected ≤ MomentumsPerEpoch, and the delegation record being a Go map (distinct pillar names);
  * pillar only, storage: PillarInfo entries have distinct names (the storage key is the hash of the name).
Nothing is assumed about stake / sentinel / liquidity storage: weights are parts of the total because the total is
computed from the same entries in the same call; the liquidity bound is the contract's own ErrInvalidRewards guard.
-/
namespace ZV.C11Epoch
open ZV ZV.Rewards ZV.EpochCursor ZV.RewardEpoch

/-! ### one epoch -/

/-- stake: the QSR credited by one epoch's computation, over all entries, is at most `StakeQsrRewardPerEpoch(e)`; no ZNN -/
theorem stake_epoch_within_emission (rc : RCfg) (cons : Cons) (st : Store) (e : Nat) (o : EpochOut)
    (hdur : rc.c.epochSec < (two63 : Int)) (h : updateEpoch .stake rc cons st e = some o) :
    ∃ T, stakeQsrRewardPerEpoch e = some T ∧ sumZ o.credits = 0 ∧ (sumQ o.credits : Int) ≤ T ∧
      o.mint = (0, 0) ∧ o.burn = (0, 0) := by
  obtain ⟨_, _, _, _, _, _, _, _, T, _, _, _, _, _, hT, _, _, _, _, _, _, hT0, _, _⟩ := C11.emission_tables e
  unfold updateEpoch at h
  simp only at h
  split at h
  · cases h
  · rename_i ic hic
    obtain ⟨cs, hcs, rfl⟩ := Option.map_eq_some_iff.mp h
    obtain ⟨s1, s2, _⟩ := stake_sum rc.c hdur st.stakes e T hT0 hT ic hic
    obtain ⟨t1, t2⟩ := toCredits_sums ic cs hcs
    refine ⟨T, hT, ?_, ?_, rfl, rfl⟩
    · simp only at t1 ⊢; omega
    · simp only at t2 ⊢; omega

/-- sentinel: both coins within `SentinelRewardForEpoch(e)` -/
theorem sentinel_epoch_within_emission (rc : RCfg) (cons : Cons) (st : Store) (e : Nat) (o : EpochOut)
    (h : updateEpoch .sentinel rc cons st e = some o) :
    ∃ Tz Tq, sentinelRewardForEpoch e = some (Tz, Tq) ∧ (sumZ o.credits : Int) ≤ Tz ∧ (sumQ o.credits : Int) ≤ Tq ∧
      o.mint = (0, 0) ∧ o.burn = (0, 0) := by
  obtain ⟨_, _, _, _, Tz, Tq, _, _, _, _, _, _, hT, _, _, _, _, hz, hq, _, _, _, _, _⟩ := C11.emission_tables e
  unfold updateEpoch at h
  simp only at h
  split at h
  · cases h
  · rename_i ic hic
    obtain ⟨cs, hcs, rfl⟩ := Option.map_eq_some_iff.mp h
    obtain ⟨s1, s2⟩ := sentinel_sum rc.c st.sentinels e Tz Tq hz hq hT ic hic
    obtain ⟨t1, t2⟩ := toCredits_sums ic cs hcs
    refine ⟨Tz, Tq, hT, ?_, ?_, rfl, rfl⟩
    · simp only at t1 ⊢; omega
    · simp only at t2 ⊢; omega

/-- liquidity (bridge&liquidity spork onwards): credits + the remainder minted to the contract are EXACTLY the epoch's
    `LiquidityRewardForEpoch(e)` plus the additional reward burned from the contract's own balance in the same block
    (net issuance of the epoch = the emission), the remainder is not negative, and what is burned is covered by the
    balance. Holds for every storage (token tuples, percentages, entries): the method checks it itself
    (ErrInvalidRewards resets the call). -/
theorem liquidity_epoch_within_emission (rc : RCfg) (cons : Cons) (st : Store) (e : Nat) (o : EpochOut)
    (h : updateEpoch .liqStake rc cons st e = some o) :
    ∃ Tz Tq, liquidityRewardForEpoch e = some (Tz, Tq) ∧
      (sumZ o.credits : Int) + o.mint.1 = Tz + (o.burn.1 : Int) ∧ (sumQ o.credits : Int) + o.mint.2 = Tq + (o.burn.2 : Int) ∧
      0 ≤ o.mint.1 ∧ 0 ≤ o.mint.2 ∧ o.burn.1 ≤ st.liq.balZnn ∧ o.burn.2 ≤ st.liq.balQsr := by
  obtain ⟨_, _, _, _, _, _, Tz, Tq, _, _, _, _, _, hT, _, _, _, _, _, hz, hq, _, _, _⟩ := C11.emission_tables e
  unfold updateEpoch at h
  simp only at h
  split at h
  · cases h
  · rename_i lo hlo
    obtain ⟨cs, hcs, rfl⟩ := Option.map_eq_some_iff.mp h
    obtain ⟨s1, s2, s3, s4, s5, s6⟩ := liq_stake_sum rc.c st.liq e Tz Tq hT hz hq lo hlo
    obtain ⟨t1, t2⟩ := toCredits_sums lo.credits cs hcs
    refine ⟨Tz, Tq, hT, ?_, ?_, s3, s4, s5, s6⟩
    · simp only at t1 ⊢; omega
    · simp only at t2 ⊢; omega

/-- liquidity below the spork (origin / accelerator tables): nothing is credited, the epoch's amount is minted to the contract -/
theorem liquidity_origin_epoch (rc : RCfg) (cons : Cons) (st : Store) (e : Nat) (o : EpochOut)
    (h : updateEpoch .liqOrigin rc cons st e = some o) :
    ∃ Tz Tq, liquidityRewardForEpoch e = some (Tz, Tq) ∧ o.credits = [] ∧ o.mint = (Tz, Tq) ∧ o.burn = (0, 0) ∧ 0 ≤ Tz ∧ 0 ≤ Tq := by
  obtain ⟨_, _, _, _, _, _, Tz, Tq, _, _, _, _, _, hT, _, _, _, _, _, hz, hq, _, _, _⟩ := C11.emission_tables e
  unfold updateEpoch at h
  simp only [liqOriginOut, hT] at h
  obtain ⟨cs, hcs, rfl⟩ := Option.map_eq_some_iff.mp h
  simp only [toCredits, Option.some.injEq] at hcs
  subst hcs
  exact ⟨Tz, Tq, hT, rfl, rfl, rfl, hz, hq⟩

/-! ### the pillar contract -/

/-- regenerated tables: the delegation and the producing share of every table entry are computed without overflow
    and are not negative (finite check over the whole table) -/
theorem pillar_shares_ok :
    (Gen.NetworkZnnRewardConfig.all fun n =>
      match pctOf n Gen.DelegationZnnRewardPercentage, pctOf n Gen.MomentumProducingZnnRewardPercentage with
      | some a, some b => decide (0 ≤ a ∧ 0 ≤ b ∧ a + b ≤ n)
      | _, _ => false) = true := by decide

private theorem wrap64_lt (x : Int) : wrap64 x < (two63 : Int) := by
  unfold wrap64
  have e3 : (two63 : Int) = 9223372036854775808 := by decide
  have e4 : (two64 : Int) = 18446744073709551616 := by decide
  rw [e3, e4]; omega

private theorem div64_pos (a m : Int) (ha : 0 ≤ a) (ha' : a < (two63 : Int)) (hm : 0 < m) :
    ∃ d, div64 a m = some d ∧ 0 ≤ d ∧ d * m ≤ a := by
  unfold div64
  have hm0 : m ≠ 0 := by omega
  simp only [hm0, if_false]
  rw [Int.tdiv_eq_ediv_of_nonneg ha]
  have h1 : 0 ≤ a / m := Int.ediv_nonneg ha (by omega)
  have h2 : a / m ≤ a := Int.ediv_le_self m ha
  rw [wrap64_id (a / m) h1 (by omega)]
  exact ⟨a / m, rfl, h1, Int.ediv_mul_le a hm0⟩

/-- `PillarRewardPerMomentum` for ANY positive number of momentums per epoch: defined, not negative, and a whole epoch
    of it, `(delegation + producing) · MomentumsPerEpoch` (= `emission .pillar`), is within the pillars' 24% + 50% of the
    epoch's network emission -/
theorem pillar_emission_le_network_share (mpe : Int) (hm : 0 < mpe) (e : Nat) :
    ∃ n d p, networkZnnRewardPerEpoch e = some n ∧ pillarPerMomentum mpe e = some (d, p) ∧ 0 ≤ d ∧ 0 ≤ p ∧
      (d + p) * mpe ≤ n := by
  obtain ⟨_, _, hzne, _, hR⟩ := C11.tables_ok
  obtain ⟨n, hnm, hnl⟩ := network_mem Gen.NetworkZnnRewardConfig e hzne hR
  have hall := List.all_eq_true.mp pillar_shares_ok n hnm
  have hnl' : networkZnnRewardPerEpoch e = some n := hnl
  unfold pillarPerMomentum
  rw [hnl']
  simp only
  cases ha : pctOf n Gen.DelegationZnnRewardPercentage with
  | none => simp [ha] at hall
  | some a =>
    cases hb : pctOf n Gen.MomentumProducingZnnRewardPercentage with
    | none => simp [ha, hb] at hall
    | some b =>
      simp only [ha, hb, decide_eq_true_eq] at hall
      have ha63 : a < (two63 : Int) := by
        unfold pctOf div64 at ha
        split at ha
        · cases ha
        · simp only [Option.some.injEq] at ha; rw [← ha]; exact wrap64_lt _
      have hb63 : b < (two63 : Int) := by
        unfold pctOf div64 at hb
        split at hb
        · cases hb
        · simp only [Option.some.injEq] at hb; rw [← hb]; exact wrap64_lt _
      obtain ⟨d, hd, hd0, hdm⟩ := div64_pos a mpe hall.1 ha63 hm
      obtain ⟨p, hp, hp0, hpm⟩ := div64_pos b mpe hall.2.1 hb63 hm
      refine ⟨n, d, p, rfl, ?_, hd0, hp0, ?_⟩
      · simp [hd, hp]
      · rw [Int.add_mul]; omega

/-- pillar: the ZNN credited by one epoch's `computeDetailedPillarReward` — to the pillars' reward addresses and to all
    backers — is at most `(delegation + producing per momentum) · MomentumsPerEpoch`; no QSR. -/
theorem pillar_epoch_within_emission (rc : RCfg) (cons : Cons) (st : Store) (e : Nat) (o : EpochOut)
    (hm : 0 < rc.mpe) (hm63 : rc.mpe < (two63 : Int)) (hstore : (st.pillars.map (fun i => i.name)).Nodup)
    (hcons : ConsOK rc.mpe (cons.stats e) (cons.delegs e))
    (h : updateEpoch .pillar rc cons st e = some o) :
    ∃ d p, pillarPerMomentum rc.mpe e = some (d, p) ∧ (sumZ o.credits : Int) ≤ (d + p) * rc.mpe ∧ sumQ o.credits = 0 ∧
      o.mint = (0, 0) ∧ o.burn = (0, 0) := by
  obtain ⟨n, d, p, _, hdp, hd, hp, _⟩ := pillar_emission_le_network_share rc.mpe hm e
  unfold updateEpoch at h
  simp only at h
  split at h
  · cases h
  · rename_i ic hic
    obtain ⟨cs, hcs, rfl⟩ := Option.map_eq_some_iff.mp h
    obtain ⟨s1, s2⟩ := pillar_sum_le_totals rc.mpe d p hd hp st.pillars hstore (cons.stats e) (cons.delegs e) hcons e hdp ic hic
    obtain ⟨t1, t2⟩ := toCredits_sums ic cs hcs
    -- the raw rewards of the epoch's pillars against the emission (Props/C11 `pillar_epoch_bound`)
    have hw : ∀ s ∈ (cons.stats e).pillars.map (·.2), 0 ≤ s.weight := by
      intro s hs
      obtain ⟨x, hx, rfl⟩ := List.mem_map.mp hs
      exact hcons.weight_nonneg x hx
    have hpe : ∀ s ∈ (cons.stats e).pillars.map (·.2), s.produced ≤ s.expected := by
      intro s hs
      obtain ⟨x, hx, rfl⟩ := List.mem_map.mp hs
      exact hcons.produced_le_expected x hx
    have hsumw : (((cons.stats e).pillars.map (·.2)).map (·.weight)).sum ≤ (cons.stats e).totalWeight := by
      have := hcons.weights_le_total
      simpa [List.map_map, Function.comp_def] using this
    have hW : 0 ≤ (cons.stats e).totalWeight := by
      have := sum_nonneg _ (by
        intro w hw'
        obtain ⟨s, hs, rfl⟩ := List.mem_map.mp hw'
        exact hw s hs : ∀ w ∈ ((cons.stats e).pillars.map (·.2)).map (·.weight), 0 ≤ w)
      omega
    have hslots : (((((cons.stats e).pillars.map (·.2)).map (·.expected)).sum : Nat) : Int) ≤ rc.mpe := by
      have := hcons.expected_le_slots
      simpa [List.map_map, Function.comp_def] using this
    have hE : (((cons.stats e).pillars.map (·.2)).map (·.expected)).sum < two64 := by
      have e3 : (two63 : Int) = 9223372036854775808 := by decide
      have e4 : two64 = 18446744073709551616 := by decide
      omega
    have b1 := C11.pillar_epoch_bound d p (cons.stats e).totalWeight ((cons.stats e).pillars.map (·.2)) hd hp hW hpe hw hsumw hE
    have b2 : (d + p) * ((((cons.stats e).pillars.map (·.2)).map (·.expected)).sum : Nat) ≤ (d + p) * rc.mpe :=
      Int.mul_le_mul_of_nonneg_left hslots (by omega)
    refine ⟨d, p, hdp, ?_, ?_, rfl, rfl⟩
    · simp only at t1 ⊢; omega
    · simp only at t2 ⊢; omega

end ZV.C11Epoch
