import ZenonVerif.Lemmas.RewardEpoch
import ZenonVerif.Props.C11
import ZenonVerif.Props.C11Node
import ZenonVerif.Props.C11Points
/-
C11 — END TO END: the reward computation of every contract composed with the epoch cursor and the deposits
(Model/RewardEpoch.lean). Property theorems only.

Per epoch and contract: what ONE `compute…ForEpoch` call credits (summed over all accounts) is within that epoch's
emission for the contract, for every contract storage. Over a run: the epochs rewarded are exactly cursor₀+1 … cursor,
each once, and everything credited (and everything minted by CollectReward) is within the emission summed over exactly
those epochs.

Premises that remain hypotheses (`Premises`, `ConsOK`, `StoreOK`) — all of them are about INPUTS of the reward code:
  * `epochSec < 2^63`: the epoch length is an int64 number of seconds (so `endTime - startTime` does not wrap);
  * `0 < mpe`: constants.MomentumsPerEpoch is positive;
  * pillar only, consensus facts of the epoch statistics (C05): produced ≤ expected per pillar, weights ≥ 0,
    Σ weights ≤ TotalWeight (a THEOREM for a statistics object built by `Points.compound`: `weights_premise_of_point`),
    Σ expected ≤ MomentumsPerEpoch, and the delegation record being a Go map (distinct pillar names);
  * pillar only, storage: PillarInfo entries have distinct names (the storage key is the hash of the name).
Nothing is assumed about stake / sentinel / liquidity storage: weights are parts of the total because the total is
computed from the same entries in the same call; the liquidity bound is the contract's own ErrInvalidRewards guard.
-/
namespace ZV.C11Epoch
open ZV ZV.Rewards ZV.EpochCursor ZV.RewardEpoch

/-! ### one epoch -/

/-- stake: the QSR credited by one epoch's computation, over all entries, is at most `StakeQsrRewardPerEpoch(e)`; no ZNN -/
theorem stake_epoch_within_emission (rc : RCfg) (cons : Cons) (st : Store) (e : Nat) (o : EpochOut)
    (hdur : rc.c.epochSec < (two63 : Int)) (h : updateEpoch .stake rc cons st e = some o) :
    ∃ T, stakeQsrRewardPerEpoch e = some T ∧ sumZ o.credits = 0 ∧ (sumQ o.credits : Int) ≤ T ∧
      o.mint = (0, 0) ∧ o.burn = (0, 0) := by
  obtain ⟨_, _, _, _, _, _, _, _, T, _, _, _, _, _, hT, _, _, _, _, _, _, hT0, _, _⟩ := C11.emission_tables e
  unfold updateEpoch at h
  simp only at h
  split at h
  · cases h
  · rename_i ic hic
    obtain ⟨cs, hcs, rfl⟩ := Option.map_eq_some_iff.mp h
    obtain ⟨s1, s2, _⟩ := stake_sum rc.c hdur st.stakes e T hT0 hT ic hic
    obtain ⟨t1, t2⟩ := toCredits_sums ic cs hcs
    refine ⟨T, hT, ?_, ?_, rfl, rfl⟩
    · simp only at t1 ⊢; omega
    · simp only at t2 ⊢; omega

/-- sentinel: both coins within `SentinelRewardForEpoch(e)` -/
theorem sentinel_epoch_within_emission (rc : RCfg) (cons : Cons) (st : Store) (e : Nat) (o : EpochOut)
    (h : updateEpoch .sentinel rc cons st e = some o) :
    ∃ Tz Tq, sentinelRewardForEpoch e = some (Tz, Tq) ∧ (sumZ o.credits : Int) ≤ Tz ∧ (sumQ o.credits : Int) ≤ Tq ∧
      o.mint = (0, 0) ∧ o.burn = (0, 0) := by
  obtain ⟨_, _, _, _, Tz, Tq, _, _, _, _, _, _, hT, _, _, _, _, hz, hq, _, _, _, _, _⟩ := C11.emission_tables e
  unfold updateEpoch at h
  simp only at h
  split at h
  · cases h
  · rename_i ic hic
    obtain ⟨cs, hcs, rfl⟩ := Option.map_eq_some_iff.mp h
    obtain ⟨s1, s2⟩ := sentinel_sum rc.c st.sentinels e Tz Tq hz hq hT ic hic
    obtain ⟨t1, t2⟩ := toCredits_sums ic cs hcs
    refine ⟨Tz, Tq, hT, ?_, ?_, rfl, rfl⟩
    · simp only at t1 ⊢; omega
    · simp only at t2 ⊢; omega

/-- liquidity (bridge&liquidity spork onwards): credits + the remainder minted to the contract are EXACTLY the epoch's
    `LiquidityRewardForEpoch(e)` plus the additional reward burned from the contract's own balance in the same block
    (net issuance of the epoch = the emission), the remainder is not negative, and what is burned is covered by the
    balance. Holds for every storage (token tuples, percentages, entries): the method checks it itself
    (ErrInvalidRewards resets the call). -/
theorem liquidity_epoch_within_emission (rc : RCfg) (cons : Cons) (st : Store) (e : Nat) (o : EpochOut)
    (h : updateEpoch .liqStake rc cons st e = some o) :
    ∃ Tz Tq, liquidityRewardForEpoch e = some (Tz, Tq) ∧
      (sumZ o.credits : Int) + o.mint.1 = Tz + (o.burn.1 : Int) ∧ (sumQ o.credits : Int) + o.mint.2 = Tq + (o.burn.2 : Int) ∧
      0 ≤ o.mint.1 ∧ 0 ≤ o.mint.2 ∧ o.burn.1 ≤ st.liq.balZnn ∧ o.burn.2 ≤ st.liq.balQsr := by
  obtain ⟨_, _, _, _, _, _, Tz, Tq, _, _, _, _, _, hT, _, _, _, _, _, hz, hq, _, _, _⟩ := C11.emission_tables e
  unfold updateEpoch at h
  simp only at h
  split at h
  · cases h
  · rename_i lo hlo
    obtain ⟨cs, hcs, rfl⟩ := Option.map_eq_some_iff.mp h
    obtain ⟨s1, s2, s3, s4, s5, s6⟩ := liq_stake_sum rc.c st.liq e Tz Tq hT hz hq lo hlo
    obtain ⟨t1, t2⟩ := toCredits_sums lo.credits cs hcs
    refine ⟨Tz, Tq, hT, ?_, ?_, s3, s4, s5, s6⟩
    · simp only at t1 ⊢; omega
    · simp only at t2 ⊢; omega

/-- liquidity below the spork (origin / accelerator tables): nothing is credited, the epoch's amount is minted to the contract -/
theorem liquidity_origin_epoch (rc : RCfg) (cons : Cons) (st : Store) (e : Nat) (o : EpochOut)
    (h : updateEpoch .liqOrigin rc cons st e = some o) :
    ∃ Tz Tq, liquidityRewardForEpoch e = some (Tz, Tq) ∧ o.credits = [] ∧ o.mint = (Tz, Tq) ∧ o.burn = (0, 0) ∧ 0 ≤ Tz ∧ 0 ≤ Tq := by
  obtain ⟨_, _, _, _, _, _, Tz, Tq, _, _, _, _, _, hT, _, _, _, _, _, hz, hq, _, _, _⟩ := C11.emission_tables e
  unfold updateEpoch at h
  simp only [liqOriginOut, hT] at h
  obtain ⟨cs, hcs, rfl⟩ := Option.map_eq_some_iff.mp h
  simp only [toCredits, Option.some.injEq] at hcs
  subst hcs
  exact ⟨Tz, Tq, hT, rfl, rfl, rfl, hz, hq⟩

/-! ### the pillar contract -/

/-- regenerated tables: the delegation and the producing share of every table entry are computed without overflow
    and are not negative (finite check over the whole table) -/
theorem pillar_shares_ok :
    (Gen.NetworkZnnRewardConfig.all fun n =>
      match pctOf n Gen.DelegationZnnRewardPercentage, pctOf n Gen.MomentumProducingZnnRewardPercentage with
      | some a, some b => decide (0 ≤ a ∧ 0 ≤ b ∧ a + b ≤ n)
      | _, _ => false) = true := by decide

private theorem wrap64_lt (x : Int) : wrap64 x < (two63 : Int) := by
  unfold wrap64
  have e3 : (two63 : Int) = 9223372036854775808 := by decide
  have e4 : (two64 : Int) = 18446744073709551616 := by decide
  rw [e3, e4]; omega

private theorem div64_pos (a m : Int) (ha : 0 ≤ a) (ha' : a < (two63 : Int)) (hm : 0 < m) :
    ∃ d, div64 a m = some d ∧ 0 ≤ d ∧ d * m ≤ a := by
  unfold div64
  have hm0 : m ≠ 0 := by omega
  simp only [hm0, if_false]
  rw [Int.tdiv_eq_ediv_of_nonneg ha]
  have h1 : 0 ≤ a / m := Int.ediv_nonneg ha (by omega)
  have h2 : a / m ≤ a := Int.ediv_le_self m ha
  rw [wrap64_id (a / m) h1 (by omega)]
  exact ⟨a / m, rfl, h1, Int.ediv_mul_le a hm0⟩

/-- `PillarRewardPerMomentum` for ANY positive number of momentums per epoch: defined, not negative, and a whole epoch
    of it, `(delegation + producing) · MomentumsPerEpoch` (= `emission .pillar`), is within the pillars' 24% + 50% of the
    epoch's network emission -/
theorem pillar_emission_le_network_share (mpe : Int) (hm : 0 < mpe) (e : Nat) :
    ∃ n d p, networkZnnRewardPerEpoch e = some n ∧ pillarPerMomentum mpe e = some (d, p) ∧ 0 ≤ d ∧ 0 ≤ p ∧
      (d + p) * mpe ≤ n := by
  obtain ⟨_, _, hzne, _, hR⟩ := C11.tables_ok
  obtain ⟨n, hnm, hnl⟩ := network_mem Gen.NetworkZnnRewardConfig e hzne hR
  have hall := List.all_eq_true.mp pillar_shares_ok n hnm
  have hnl' : networkZnnRewardPerEpoch e = some n := hnl
  unfold pillarPerMomentum
  rw [hnl']
  simp only
  cases ha : pctOf n Gen.DelegationZnnRewardPercentage with
  | none => simp [ha] at hall
  | some a =>
    cases hb : pctOf n Gen.MomentumProducingZnnRewardPercentage with
    | none => simp [ha, hb] at hall
    | some b =>
      simp only [ha, hb, decide_eq_true_eq] at hall
      have ha63 : a < (two63 : Int) := by
        unfold pctOf div64 at ha
        split at ha
        · cases ha
        · simp only [Option.some.injEq] at ha; rw [← ha]; exact wrap64_lt _
      have hb63 : b < (two63 : Int) := by
        unfold pctOf div64 at hb
        split at hb
        · cases hb
        · simp only [Option.some.injEq] at hb; rw [← hb]; exact wrap64_lt _
      obtain ⟨d, hd, hd0, hdm⟩ := div64_pos a mpe hall.1 ha63 hm
      obtain ⟨p, hp, hp0, hpm⟩ := div64_pos b mpe hall.2.1 hb63 hm
      refine ⟨n, d, p, rfl, ?_, hd0, hp0, ?_⟩
      · simp [hd, hp]
      · rw [Int.add_mul]; omega

/-- pillar: the ZNN credited by one epoch's `computeDetailedPillarReward` — to the pillars' reward addresses and to all
    backers — is at most `(delegation + producing per momentum) · MomentumsPerEpoch`; no QSR. -/
theorem pillar_epoch_within_emission (rc : RCfg) (cons : Cons) (st : Store) (e : Nat) (o : EpochOut)
    (hm : 0 < rc.mpe) (hm63 : rc.mpe < (two63 : Int)) (hstore : (st.pillars.map (fun i => i.name)).Nodup)
    (hcons : ConsOK rc.mpe (cons.stats e) (cons.delegs e))
    (h : updateEpoch .pillar rc cons st e = some o) :
    ∃ d p, pillarPerMomentum rc.mpe e = some (d, p) ∧ (sumZ o.credits : Int) ≤ (d + p) * rc.mpe ∧ sumQ o.credits = 0 ∧
      o.mint = (0, 0) ∧ o.burn = (0, 0) := by
  obtain ⟨n, d, p, _, hdp, hd, hp, _⟩ := pillar_emission_le_network_share rc.mpe hm e
  unfold updateEpoch at h
  simp only at h
  split at h
  · cases h
  · rename_i ic hic
    obtain ⟨cs, hcs, rfl⟩ := Option.map_eq_some_iff.mp h
    obtain ⟨s1, s2⟩ := pillar_sum_le_totals rc.mpe d p hd hp st.pillars hstore (cons.stats e) (cons.delegs e) hcons e hdp ic hic
    obtain ⟨t1, t2⟩ := toCredits_sums ic cs hcs
    -- the raw rewards of the epoch's pillars against the emission (Props/C11 `pillar_epoch_bound`)
    have hw : ∀ s ∈ (cons.stats e).pillars.map (·.2), 0 ≤ s.weight := by
      intro s hs
      obtain ⟨x, hx, rfl⟩ := List.mem_map.mp hs
      exact hcons.weight_nonneg x hx
    have hpe : ∀ s ∈ (cons.stats e).pillars.map (·.2), s.produced ≤ s.expected := by
      intro s hs
      obtain ⟨x, hx, rfl⟩ := List.mem_map.mp hs
      exact hcons.produced_le_expected x hx
    have hsumw : (((cons.stats e).pillars.map (·.2)).map (·.weight)).sum ≤ (cons.stats e).totalWeight := by
      have := hcons.weights_le_total
      simpa [List.map_map, Function.comp_def] using this
    have hW : 0 ≤ (cons.stats e).totalWeight := by
      have := sum_nonneg _ (by
        intro w hw'
        obtain ⟨s, hs, rfl⟩ := List.mem_map.mp hw'
        exact hw s hs : ∀ w ∈ ((cons.stats e).pillars.map (·.2)).map (·.weight), 0 ≤ w)
      omega
    have hslots : (((((cons.stats e).pillars.map (·.2)).map (·.expected)).sum : Nat) : Int) ≤ rc.mpe := by
      have := hcons.expected_le_slots
      simpa [List.map_map, Function.comp_def] using this
    have hE : (((cons.stats e).pillars.map (·.2)).map (·.expected)).sum < two64 := by
      have e3 : (two63 : Int) = 9223372036854775808 := by decide
      have e4 : two64 = 18446744073709551616 := by decide
      omega
    have b1 := C11.pillar_epoch_bound d p (cons.stats e).totalWeight ((cons.stats e).pillars.map (·.2)) hd hp hW hpe hw hsumw hE
    have b2 : (d + p) * ((((cons.stats e).pillars.map (·.2)).map (·.expected)).sum : Nat) ≤ (d + p) * rc.mpe :=
      Int.mul_le_mul_of_nonneg_left hslots (by omega)
    refine ⟨d, p, hdp, ?_, ?_, rfl, rfl⟩
    · simp only at t1 ⊢; omega
    · simp only at t2 ⊢; omega

/-! ### every contract, one statement -/

/-- the premises, bundled (see the head of the file) -/
structure Premises (k : Kind) (rc : RCfg) (cons : Cons) : Prop where
  dur : rc.c.epochSec < (two63 : Int)
  mpe_pos : 0 < rc.mpe
  mpe_int64 : rc.mpe < (two63 : Int)
  cons_ok : k = .pillar → ∀ e, ConsOK rc.mpe (cons.stats e) (cons.delegs e)

/-- storage premise: PillarInfo entries have distinct names (pillar contract only) -/
def StoreOK (k : Kind) (st : Store) : Prop := k = .pillar → (st.pillars.map (fun i => i.name)).Nodup

/-- "epoch `e`'s computation stayed within the emission": credited to all accounts plus minted to the contract itself,
    minus what was burned from the contract's balance, per coin -/
def Within (k : Kind) (mpe : Int) (e : Nat) (o : EpochOut) : Prop :=
  ∃ Ez Eq, emission k mpe e = some (Ez, Eq) ∧
    (sumZ o.credits : Int) + o.mint.1 ≤ Ez + (o.burn.1 : Int) ∧ (sumQ o.credits : Int) + o.mint.2 ≤ Eq + (o.burn.2 : Int) ∧
    0 ≤ o.mint.1 ∧ 0 ≤ o.mint.2

/-- for EVERY contract and EVERY storage: one epoch's computation is within that contract's emission of the epoch -/
theorem epoch_within_emission (k : Kind) (rc : RCfg) (cons : Cons) (st : Store) (e : Nat) (o : EpochOut)
    (hp : Premises k rc cons) (hs : StoreOK k st) (h : updateEpoch k rc cons st e = some o) : Within k rc.mpe e o := by
  cases k with
  | stake =>
    obtain ⟨T, hT, h1, h2, h3, h4⟩ := stake_epoch_within_emission rc cons st e o hp.dur h
    refine ⟨0, T, by simp [emission, hT], ?_, ?_, ?_, ?_⟩ <;> simp [h1, h3, h4, h2]
  | sentinel =>
    obtain ⟨Tz, Tq, hT, h1, h2, h3, h4⟩ := sentinel_epoch_within_emission rc cons st e o h
    refine ⟨Tz, Tq, by simp [emission, hT], ?_, ?_, ?_, ?_⟩ <;> simp [h3, h4, h1, h2]
  | pillar =>
    obtain ⟨d, p, hdp, h1, h2, h3, h4⟩ := pillar_epoch_within_emission rc cons st e o hp.mpe_pos hp.mpe_int64 (hs rfl)
      (hp.cons_ok rfl e) h
    refine ⟨(d + p) * rc.mpe, 0, by simp [emission, hdp], ?_, ?_, ?_, ?_⟩ <;> simp [h2, h3, h4, h1]
  | liqOrigin =>
    obtain ⟨Tz, Tq, hT, h1, h2, h3, hz, hq⟩ := liquidity_origin_epoch rc cons st e o h
    refine ⟨Tz, Tq, by simp [emission, hT], ?_, ?_, ?_, ?_⟩ <;> simp [h1, h2, h3, sumZ, sumQ, hz, hq]
  | liqStake =>
    obtain ⟨Tz, Tq, hT, h1, h2, h3, h4, _, _⟩ := liquidity_epoch_within_emission rc cons st e o h
    exact ⟨Tz, Tq, by simp [emission, hT], by omega, by omega, h3, h4⟩

/-! ### runs -/

/-- the emission of a list of epochs, per coin -/
def emissionSum (k : Kind) (mpe : Int) : List Int → Int × Int
  | [] => (0, 0)
  | e :: es => (((emission k mpe e.toNat).getD (0, 0)).1 + (emissionSum k mpe es).1,
                ((emission k mpe e.toNat).getD (0, 0)).2 + (emissionSum k mpe es).2)

/-- net issuance to the contract itself (liquidity): minted to it minus burned from its balance -/
def netToContract : List (Int × EpochOut) → Int × Int
  | [] => (0, 0)
  | x :: xs => (x.2.mint.1 - (x.2.burn.1 : Int) + (netToContract xs).1, x.2.mint.2 - (x.2.burn.2 : Int) + (netToContract xs).2)

private theorem sumZ_append (a b : List Credit) : sumZ (a ++ b) = sumZ a + sumZ b := by
  simp [sumZ, List.map_append, List.sum_append]
private theorem sumQ_append (a b : List Credit) : sumQ (a ++ b) = sumQ a + sumQ b := by
  simp [sumQ, List.map_append, List.sum_append]

private theorem within_sum (k : Kind) (mpe : Int) : ∀ outs : List (Int × EpochOut),
    (∀ x ∈ outs, Within k mpe x.1.toNat x.2) →
    (sumZ (creditsOf outs) : Int) + (netToContract outs).1 ≤ (emissionSum k mpe (outs.map (·.1))).1 ∧
    (sumQ (creditsOf outs) : Int) + (netToContract outs).2 ≤ (emissionSum k mpe (outs.map (·.1))).2
  | [], _ => by simp [creditsOf, sumZ, sumQ, netToContract, emissionSum]
  | x :: outs, h => by
    obtain ⟨i1, i2⟩ := within_sum k mpe outs (fun y hy => h y (by simp [hy]))
    obtain ⟨Ez, Eq, hE, w1, w2, _, _⟩ := h x (by simp)
    have hc : creditsOf (x :: outs) = x.2.credits ++ creditsOf outs := by simp [creditsOf]
    rw [hc, sumZ_append, sumQ_append]
    simp only [List.map_cons, emissionSum, netToContract, hE, Option.getD_some, Int.natCast_add]
    omega

private theorem all_within (k : Kind) (rc : RCfg) (cons : Cons) (hp : Premises k rc cons) :
    ∀ (ops : List ROp) (s : RState), StoreOK k s.store → (∀ st, ROp.mutate st ∈ ops → StoreOK k st) →
      ∀ x ∈ epochOuts (run k rc cons s ops).2, Within k rc.mpe x.1.toNat x.2
  | [], s, _, _ => by simp [RewardEpoch.run, epochOuts]
  | .update h ts :: os, s, hs, hm => by
    have hm' : ∀ st, ROp.mutate st ∈ os → StoreOK k st := fun st h => hm st (by simp [h])
    cases hu : update k rc cons s h ts with
    | none =>
      simp only [RewardEpoch.run, RewardEpoch.step, hu, epochOuts]
      exact all_within k rc cons hp os s hs hm'
    | some r =>
      obtain ⟨s', outs⟩ := r
      obtain ⟨cs', es, h1, h2, h3⟩ := update_some k rc cons s s' h ts outs hu
      obtain ⟨_, r2, r3⟩ := rewardAll_spec k rc cons es s.store s'.store outs h2
      have hs' : StoreOK k s'.store := fun hk => by rw [r2]; exact hs hk
      simp only [RewardEpoch.run, RewardEpoch.step, hu, epochOuts]
      intro x hx
      rcases List.mem_append.mp hx with hx | hx
      · obtain ⟨st0, e1, e2⟩ := r3 x hx
        exact epoch_within_emission k rc cons st0 x.1.toNat x.2 hp (fun hk => by rw [e1]; exact hs hk) e2
      · exact all_within k rc cons hp os s' hs' hm' x hx
  | .collect a :: os, s, hs, hm => by
    have hm' : ∀ st, ROp.mutate st ∈ os → StoreOK k st := fun st h => hm st (by simp [h])
    simp only [RewardEpoch.run]
    cases hc : collect s.cs a with
    | none => simp only [RewardEpoch.step, hc, epochOuts]; exact all_within k rc cons hp os s hs hm'
    | some r => simp only [RewardEpoch.step, hc, epochOuts]; exact all_within k rc cons hp os _ hs hm'
  | .mutate st :: os, s, hs, hm => by
    have hm' : ∀ st, ROp.mutate st ∈ os → StoreOK k st := fun st h => hm st (by simp [h])
    simp only [RewardEpoch.run, RewardEpoch.step, epochOuts]
    exact all_within k rc cons hp os _ (hm st (by simp)) hm'

/-- THE END-TO-END STATEMENT. For every contract, every initial storage and cursor, every sequence of Update /
    CollectReward calls and arbitrary changes of the contract's entries in between, every chain of timestamps:
      * everything credited to all accounts over the run (plus the net issuance to the liquidity contract itself) is,
        per coin, at most the protocol emission summed over EXACTLY the epochs rewarded in the run;
      * those epochs are strictly increasing (no epoch twice), all after the initial cursor and up to the final one;
      * unless the contract runs the origin-table liquidity method (F14), they are exactly cursor₀+1 … cursor: no gaps. -/
theorem total_credited_le_total_emission (k : Kind) (rc : RCfg) (cons : Cons) (hp : Premises k rc cons)
    (s : RState) (ops : List ROp) (hs : StoreOK k s.store) (hm : ∀ st, ROp.mutate st ∈ ops → StoreOK k st) :
    (sumZ (allCredits (run k rc cons s ops).2) : Int) + (netToContract (epochOuts (run k rc cons s ops).2)).1 ≤
      (emissionSum k rc.mpe (rewardedEpochs (run k rc cons s ops).2)).1 ∧
    (sumQ (allCredits (run k rc cons s ops).2) : Int) + (netToContract (epochOuts (run k rc cons s ops).2)).2 ≤
      (emissionSum k rc.mpe (rewardedEpochs (run k rc cons s ops).2)).2 ∧
    (rewardedEpochs (run k rc cons s ops).2).Pairwise (· < ·) ∧
    (∀ e ∈ rewardedEpochs (run k rc cons s ops).2, s.cs.cursor < e ∧ e ≤ (run k rc cons s ops).1.cs.cursor) ∧
    (k ≠ .liqOrigin → ∃ n : Nat, (run k rc cons s ops).1.cs.cursor = s.cs.cursor + n ∧
      rewardedEpochs (run k rc cons s ops).2 = consecutive s.cs.cursor n) := by
  obtain ⟨w1, w2⟩ := within_sum k rc.mpe _ (all_within k rc cons hp ops s hs hm)
  obtain ⟨l1, l2, _, _⟩ := lower_run k rc cons ops s
  obtain ⟨o1, o2, _⟩ := C11Node.rewarded_once_in_order rc.c (variantOf k) s.cs (lower k rc cons s ops)
  rw [l1] at o2
  rw [l2] at o1 o2
  refine ⟨w1, w2, o1, o2, ?_⟩
  intro hk
  have hv : variantOf k ≠ .liqOrigin := by cases k <;> simp [variantOf] at hk ⊢
  obtain ⟨n, n1, n2⟩ := C11Node.rewarded_exactly_once rc.c (variantOf k) hv s.cs (lower k rc cons s ops)
  rw [l1] at n1
  rw [l2] at n2
  exact ⟨n, n1, n2⟩

/-- the origin-table liquidity method: the bound holds all the same, only "no gaps" is lost (known finding F14:
    `C11Node.epoch_cursor_liq_origin_partial`, witness `C11Node.liq_origin_skips_epoch`) — the skipped epoch is never
    minted, so less than the emission is issued -/
theorem total_credited_liq_origin_partial (rc : RCfg) (cons : Cons) (hp : Premises .liqOrigin rc cons) (s : RState) (ops : List ROp) :
    (netToContract (epochOuts (run .liqOrigin rc cons s ops).2)).1 ≤ (emissionSum .liqOrigin rc.mpe (rewardedEpochs (run .liqOrigin rc cons s ops).2)).1 ∧
    (rewardedEpochs (run .liqOrigin rc cons s ops).2).Pairwise (· < ·) := by
  have h := total_credited_le_total_emission .liqOrigin rc cons hp s ops (fun hk => by cases hk) (fun _ _ hk => by cases hk)
  refine ⟨?_, h.2.2.1⟩
  have := h.1
  omega

/-! ### collecting -/

/-- conservation per account over any run: minted to `a` + still collectable by `a` = collectable at the start +
    credited to `a` by the reward computations (composition of the simulation with `C11Node.deposit_conservation`) -/
theorem minted_eq_credited (k : Kind) (rc : RCfg) (cons : Cons) (s : RState) (ops : List ROp) (a : Addr) :
    mintedTo a (run k rc cons s ops).2 + (run k rc cons s ops).1.cs.dep a =
      s.cs.dep a + creditedTo a (allCredits (run k rc cons s ops).2) := by
  obtain ⟨l1, _, l3, l4⟩ := lower_run k rc cons ops s
  have h := C11Node.deposit_conservation rc.c (variantOf k) s.cs (lower k rc cons s ops) a
  rw [l1, l3 a, l4 a] at h
  exact h

/-- CollectReward never mints more than was credited: from empty deposits, per account and coin -/
theorem minted_le_credited (k : Kind) (rc : RCfg) (cons : Cons) (s : RState) (ops : List ROp) (a : Addr)
    (h0 : s.cs.dep a = Coins.zero) :
    (mintedTo a (run k rc cons s ops).2).znn ≤ (creditedTo a (allCredits (run k rc cons s ops).2)).znn ∧
    (mintedTo a (run k rc cons s ops).2).qsr ≤ (creditedTo a (allCredits (run k rc cons s ops).2)).qsr := by
  have h := minted_eq_credited k rc cons s ops a
  rw [h0, Coins.zero_add'] at h
  have hz := congrArg Coins.znn h
  have hq := congrArg Coins.qsr h
  simp only [Coins.add_znn, Coins.add_qsr] at hz hq
  omega

/-- … and exactly what was credited once the account's deposit is empty again, which is the case right after its
    CollectReward (`collect_empties`) -/
theorem minted_eq_credited_when_collected (k : Kind) (rc : RCfg) (cons : Cons) (s : RState) (ops : List ROp) (a : Addr)
    (hcol : (run k rc cons s ops).1.cs.dep a = Coins.zero) :
    mintedTo a (run k rc cons s ops).2 = s.cs.dep a + creditedTo a (allCredits (run k rc cons s ops).2) := by
  have h := minted_eq_credited k rc cons s ops a
  rw [hcol, Coins.add_zero'] at h
  exact h

/-- after a CollectReward call of `a` — granted or refused — `a`'s deposit is empty -/
theorem collect_empties (k : Kind) (rc : RCfg) (cons : Cons) (s : RState) (a : Addr) :
    (RewardEpoch.step k rc cons s (.collect a)).1.cs.dep a = Coins.zero := by
  cases hc : collect s.cs a with
  | none =>
    simp only [RewardEpoch.step, hc]
    exact (C11Node.collect_refused_iff_empty s.cs a).mp hc
  | some r =>
    obtain ⟨ms, cs'⟩ := r
    simp only [RewardEpoch.step, hc]
    exact (C11Node.collect_once s.cs cs' a ms hc).2.2.2.1

private theorem nat_sum_zero {α : Type} (l : List α) : (l.map (fun _ => (0 : Nat))).sum = 0 := by
  induction l with
  | nil => rfl
  | cons x l ih => simp only [List.map_cons, List.sum_cons, ih]

private theorem nat_sum_add {α : Type} (f g : α → Nat) (l : List α) :
    (l.map (fun x => f x + g x)).sum = (l.map f).sum + (l.map g).sum := by
  induction l with
  | nil => rfl
  | cons x l ih => simp only [List.map_cons, List.sum_cons, ih]; omega

private theorem ite_sum_le (x : Addr) (v : Nat) : ∀ l : List Addr, l.Nodup → (l.map (fun a => if x = a then v else 0)).sum ≤ v
  | [], _ => by simp
  | a :: l, hnd => by
    have hnd' := List.nodup_cons.mp hnd
    simp only [List.map_cons, List.sum_cons]
    by_cases hx : x = a
    · subst hx
      have : l.map (fun a => if x = a then v else 0) = l.map (fun _ => 0) := by
        apply List.map_congr_left
        intro b hb
        have : x ≠ b := fun h => hnd'.1 (h ▸ hb)
        simp [this]
      rw [this, nat_sum_zero]; simp
    · have := ite_sum_le x v l hnd'.2
      simp only [hx, if_false]; omega

/-- distinct accounts share the credits: what a list of credits gives to any set of distinct accounts is at most its total -/
private theorem creditedTo_sum_le (π : Coins → Nat) (h0 : π Coins.zero = 0) (hadd : ∀ a b, π (a + b) = π a + π b)
    (l : List Addr) (hnd : l.Nodup) : ∀ cs : List Credit,
    (l.map (fun a => π (creditedTo a cs))).sum ≤ (cs.map (fun x => π x.2)).sum
  | [] => by
    simp only [creditedTo, List.foldr_nil, h0, List.map_nil, List.sum_nil]
    rw [nat_sum_zero]; exact Nat.le_refl _
  | x :: cs => by
    have ih := creditedTo_sum_le π h0 hadd l hnd cs
    have e : l.map (fun a => π (creditedTo a (x :: cs))) =
        l.map (fun a => (if x.1 = a then π x.2 else 0) + π (creditedTo a cs)) := by
      apply List.map_congr_left
      intro a _
      simp only [creditedTo, List.foldr_cons, hadd]
      by_cases hx : x.1 = a <;> simp [hx, h0]
    rw [e, nat_sum_add]
    have := ite_sum_le x.1 (π x.2) l hnd
    simp only [List.map_cons, List.sum_cons]
    omega

/-- everything minted by CollectReward to ANY set of distinct accounts over a run that starts with empty deposits is,
    per coin, within the emission of exactly the epochs rewarded in the run (stake, sentinel, pillar: nothing is
    minted to the contract itself) -/
theorem total_minted_le_total_emission (k : Kind) (rc : RCfg) (cons : Cons) (hp : Premises k rc cons)
    (s : RState) (ops : List ROp) (hs : StoreOK k s.store) (hm : ∀ st, ROp.mutate st ∈ ops → StoreOK k st)
    (accounts : List Addr) (hnd : accounts.Nodup) (h0 : ∀ a ∈ accounts, s.cs.dep a = Coins.zero) :
    ((accounts.map (fun a => (mintedTo a (run k rc cons s ops).2).znn)).sum : Int) +
        (netToContract (epochOuts (run k rc cons s ops).2)).1 ≤
      (emissionSum k rc.mpe (rewardedEpochs (run k rc cons s ops).2)).1 ∧
    ((accounts.map (fun a => (mintedTo a (run k rc cons s ops).2).qsr)).sum : Int) +
        (netToContract (epochOuts (run k rc cons s ops).2)).2 ≤
      (emissionSum k rc.mpe (rewardedEpochs (run k rc cons s ops).2)).2 := by
  obtain ⟨t1, t2, _⟩ := total_credited_le_total_emission k rc cons hp s ops hs hm
  have mono : ∀ (f g : Addr → Nat) (l : List Addr), (∀ a ∈ l, f a ≤ g a) → (l.map f).sum ≤ (l.map g).sum := by
    intro f g l
    induction l with
    | nil => intro _; simp
    | cons a l ih =>
      intro h
      have h1 := h a (by simp)
      have h2 := ih (fun b hb => h b (by simp [hb]))
      simp only [List.map_cons, List.sum_cons]; omega
  have mz := mono (fun a => (mintedTo a (run k rc cons s ops).2).znn)
    (fun a => (creditedTo a (allCredits (run k rc cons s ops).2)).znn) accounts
    (fun a ha => (minted_le_credited k rc cons s ops a (h0 a ha)).1)
  have mq := mono (fun a => (mintedTo a (run k rc cons s ops).2).qsr)
    (fun a => (creditedTo a (allCredits (run k rc cons s ops).2)).qsr) accounts
    (fun a ha => (minted_le_credited k rc cons s ops a (h0 a ha)).2)
  have cz := creditedTo_sum_le Coins.znn rfl (fun _ _ => rfl) accounts hnd (allCredits (run k rc cons s ops).2)
  have cq := creditedTo_sum_le Coins.qsr rfl (fun _ _ => rfl) accounts hnd (allCredits (run k rc cons s ops).2)
  have ez : (allCredits (run k rc cons s ops).2).map (fun x => Coins.znn x.2) = (allCredits (run k rc cons s ops).2).map (fun x => x.2.znn) := rfl
  simp only [sumZ, sumQ] at t1 t2
  constructor <;> omega

/-! ### "a function of the chain alone": order independence -/

private theorem perm_sum_int {l₁ l₂ : List Int} (h : l₁.Perm l₂) : l₁.sum = l₂.sum := by
  induction h with
  | nil => rfl
  | cons _ _ ih => simp [ih]
  | swap => simp only [List.sum_cons]; omega
  | trans _ _ ih₁ ih₂ => rw [ih₁, ih₂]

/-- the effect of a list of `addReward` calls on any account depends only on the multiset of calls -/
theorem deposit_effect_order_independent (a : Addr) {cs cs' : List Credit} (h : cs.Perm cs') :
    creditedTo a cs = creditedTo a cs' := by
  induction h with
  | nil => rfl
  | cons x _ ih => simp only [creditedTo, List.foldr_cons] at ih ⊢; rw [ih]
  | swap x y l =>
    simp only [creditedTo, List.foldr_cons]
    rw [← Coins.add_assoc', ← Coins.add_assoc', Coins.add_comm' (if y.1 = a then y.2 else Coins.zero)]
  | trans _ _ ih₁ ih₂ => rw [ih₁, ih₂]

/-- stake (and, same shape, liquidity stake) entries: the storage iteration order does not matter. The cumulated
    weight is a sum and every entry's share is computed from its own weight and that sum, so a permuted entry list
    yields the permuted credit list (hence the same deposits: `deposit_effect_order_independent`). -/
theorem credited_order_independent (c : Cfg) (e : Nat) {es es' : List StakeEntry} (h : es.Perm es') :
    match stakeCredits c es e, stakeCredits c es' e with
    | some x, some y => x.Perm y
    | none, none => True
    | _, _ => False := by
  unfold stakeCredits
  cases stakeQsrRewardPerEpoch e with
  | none => trivial
  | some T =>
    simp only
    have hs : (es.map (stakeW c e)).sum = (es'.map (stakeW c e)).sum := perm_sum_int (h.map _)
    rw [hs]
    by_cases h0 : (es'.map (stakeW c e)).sum = 0
    · simp [h0]
    · simp only [h0, if_false]
      exact h.map _

/-- the two Go `range`s over maps in the reward code (`range pillarDetail.Backers`, and `range details`, each iteration
    of which only calls addReward): the backers' credits of a pillar for a permuted backer list are the permuted
    credits — `backersAmount` is a sum, each share depends on the backer's own amount and that sum -/
theorem backer_credits_order_independent (infos : List PillarInfo) (name : String) (tb : Int)
    {bs bs' : List (Addr × Nat)} (h : bs.Perm bs') :
    (backerCredits infos name tb bs).Perm (backerCredits infos name tb bs') := by
  unfold backerCredits
  simp only
  have hs : (bs.map (fun b => (b.2 : Int))).sum = (bs'.map (fun b => (b.2 : Int))).sum := perm_sum_int (h.map _)
  rw [hs]
  split
  · exact List.Perm.refl _
  · exact h.map _

/-! ### premises: what is a theorem elsewhere, what the bound really needs -/

/-- the statistics object consensus/api.go `EpochStats` builds from an epoch point -/
def statsOfPoint (names : Nat → String) (pt : Points.Point) : EpochStats :=
  ⟨pt.pillars.map (fun x => (names x.1, ⟨x.2.factual, x.2.expected, (x.2.weight : Int)⟩)), (pt.total : Int)⟩

/-- premise `weights_le_total` (and `weight_nonneg`) is a THEOREM when the statistics come from an epoch point built by
    `Points.compound` (the aggregation `generatePointFromLower`): `C11Points.epoch_point_total` -/
theorem weights_premise_of_point (names : Nat → String) (lowers : List Points.Point) :
    ((statsOfPoint names (Points.compound lowers)).pillars.map (fun x => x.2.weight)).sum ≤
      (statsOfPoint names (Points.compound lowers)).totalWeight ∧
    ∀ x ∈ (statsOfPoint names (Points.compound lowers)).pillars, 0 ≤ x.2.weight := by
  have h := C11Points.epoch_point_total lowers
  constructor
  · unfold statsOfPoint
    simp only [List.map_map, Function.comp_def]
    rw [h]
    generalize (Points.compound lowers).pillars = ps
    induction ps with
    | nil => simp
    | cons x xs ih => simp only [List.map_cons, List.sum_cons, Int.natCast_add] at ih ⊢; omega
  · intro x hx
    unfold statsOfPoint at hx
    obtain ⟨y, _, rfl⟩ := List.mem_map.mp hx
    exact Int.natCast_nonneg _

/-- premise `expected_le_slots` reduces to the period points: an epoch of `k` period points each expecting at most `n`
    momentums expects at most `k·n` (`C11Points.epoch_point_expects_once`) -/
theorem expected_premise_of_point (names : Nat → String) (lowers : List Points.Point) (n : Nat)
    (h : ∀ l ∈ lowers, Points.sumExpected l.pillars ≤ n) :
    ((statsOfPoint names (Points.compound lowers)).pillars.map (fun x => x.2.expected)).sum ≤ lowers.length * n := by
  have e : ((statsOfPoint names (Points.compound lowers)).pillars.map (fun x => x.2.expected)).sum =
      Points.sumExpected (Points.compound lowers).pillars := by
    unfold statsOfPoint Points.sumExpected
    simp [List.map_map, Function.comp_def]
  rw [e, C11Points.epoch_point_expects_once]
  clear e
  induction lowers with
  | nil => simp
  | cons l rest ih =>
    have h1 := h l (by simp)
    have h2 := ih (fun x hx => h x (by simp [hx]))
    simp only [List.map_cons, List.sum_cons, List.length_cons]
    rw [Nat.add_mul]
    omega

/-- negative witness: the premise "the delegation record is a map (distinct pillar names)" is NECESSARY — a record
    naming the same pillar twice pays its backers' part twice and the epoch exceeds the emission -/
theorem pillar_bound_needs_distinct_delegation_names :
    ∃ (infos : List PillarInfo) (st : EpochStats) (dl : Delegs) (ic : List ICredit),
      pillarCredits 1 infos st dl 0 = some ic ∧
      (∀ x ∈ st.pillars, x.2.produced ≤ x.2.expected) ∧ (st.pillars.map (fun x => x.2.weight)).sum ≤ st.totalWeight ∧
      ¬ (dl.map (fun x => x.1)).Nodup ∧
      ∃ d p, pillarPerMomentum 1 0 = some (d, p) ∧ ¬ isumZ ic ≤ (d + p) * 1 :=
  ⟨[⟨"p", "w", 100, 100⟩], ⟨[("p", ⟨1, 1, 1⟩)], 1⟩, [("p", [("b", 1)]), ("p", [("b", 1)])], _, rfl,
    by decide, by decide, by decide, _, _, rfl, by decide⟩

/-! ### non-vacuity -/

/-- two stake entries, the second one cancelled in the middle of epoch 0 of a 100-second-epoch chain: the epoch's QSR
    is split 2:1, the cancelled entry is deleted -/
example :
    let c : Cfg := ⟨0, 100, 0, 1, 20, by decide⟩
    let es : List StakeEntry := [⟨"a", -50, 0, 10⟩, ⟨"b", -50, 50, 10⟩]
    (stakeCredits c es 0).map (fun l => l.map (fun x => x.2.2)) = some [666666666666, 333333333333] ∧
      stakeAfter c es 0 = [⟨"a", -50, 0, 10⟩] := by decide

/-- a pillar that produced 1 of 2 expected momentums, gives 50% / 100%, three backers leaving truncation remainders;
    hypotheses of `pillar_epoch_within_emission` hold for it -/
example :
    let infos : List PillarInfo := [⟨"p", "w", 50, 100⟩]
    let st : EpochStats := ⟨[("p", ⟨1, 2, 7⟩)], 7⟩
    let dl : Delegs := [("p", [("x", 1), ("y", 1), ("z", 1)])]
    ConsOK 2 st dl ∧ (infos.map (fun i => i.name)).Nodup ∧ (pillarCredits 2 infos st dl 0).isSome = true :=
  ⟨⟨by decide, by decide, by decide, by decide, by decide⟩, by decide, by decide⟩

example : Premises .stake (RCfg.live 0) ⟨fun _ => ⟨[], 0⟩, fun _ => []⟩ :=
  ⟨by decide, by decide, by decide, fun h => by cases h⟩

end ZV.C11Epoch
