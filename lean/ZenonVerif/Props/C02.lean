import ZenonVerif.Props.C06
import ZenonVerif.Props.C07
import ZenonVerif.Gen.Nondet
/-
C02 — replay determinism: same momentums in, byte-identical ledger out. Property theorems only.
The manager-level statements are corollaries of the C06/C07 refinement; they are restated here in the
vocabulary of the property (two nodes, same accepted sequence, any delivery history).
-/
namespace ZV.C02
open ZV ZV.Kv ZV.KvLogic ZV.Versioned

/-- T1 `commit_determinism`: two nodes whose stores hold the same sequence of accepted commits (identifier and
    patch of every momentum) answer every lookup, existence test and ordered scan identically, at the frontier and at
    every historical identifier — whatever else happened on the way (refused stale-parent commits, commits that were
    rolled back again, i.e. any batching, gossip or reorganisation history), because `Reach` allows all of these. -/
theorem commit_determinism {s t : Ldb} {h : List Ver} (hs : Reach s h) (ht : Reach t h) : ObsEq s t :=
  C06.same_history_same_obs hs ht

/-- T1′ `state_is_fold_of_patches`: the frontier content is the fold of the accepted momentums' patches over the empty
    store, oldest first — nothing else (caches, arrival order, restarts) enters. The `sync` stream checks the same
    equation on the real nodes: the model fed with the real redo patches has the followers' frontier digest. -/
theorem state_is_fold_of_patches {s : Ldb} {h : List Ver} (hr : Reach s h) :
    (h.reverse.map Ver.patch).foldl applyP Store.empty = abs s.frontier :=
  (C07.patches_replay hr).2

/-- T2 `view_independent_of_frontier`: the view a block is executed in (opened at the momentum it acknowledges) is
    the same on a node whose frontier is that momentum and on a node that is any number of commits ahead. -/
theorem view_independent_of_frontier {s s' : Ldb} {h h' : List Ver} (hr : Reach s h) (hr' : Reach s' h')
    {v : Ver} (hv : v ∈ h) (hv' : v ∈ h') :
    ∃ r r', s.get v.id = some r ∧ s'.get v.id = some r' ∧ ∀ k, r.get k = r'.get k := by
  obtain ⟨r, r', h1, h2, h3, _⟩ := C07.view_immutable hr hr' hv hv'
  exact ⟨r, r', h1, h2, h3⟩

/-- T3 `changes_order_independent`: the change set of a block (whose hash is `ChangesHash`) depends only on the final
    overlay of its writes, not on the order in which they were issued. -/
theorem changes_order_independent (p q : Patch)
    (h : ∀ k, rget (edApply [] p) k = rget (edApply [] q) k) :
    edChanges (edApply [] p) = edChanges (edApply [] q) :=
  C07.changes_order_independent p q h

/-- reviewed list of node-local nondeterminism sources in the packages that decide a block's effect: the consensus
    work loop (wall clock, goroutine, select — scheduling of production only), the election's PRNG seeded from chain
    data, and the momentum verifier's "not in the future" clock check. -/
def reviewedNondetSites : List String := [
  "consensus/consensus.go:consensus.Start:go",
  "consensus/consensus.go:consensus.work:select", "consensus/consensus.go:consensus.work:select",
  "consensus/consensus.go:consensus.work:select", "consensus/consensus.go:consensus.work:select",
  "consensus/consensus.go:consensus.work:select",
  "consensus/consensus.go:consensus.work:time.Now", "consensus/consensus.go:consensus.work:time.Now",
  "consensus/consensus.go:consensus.work:time.Now", "consensus/consensus.go:consensus.work:time.Now",
  "consensus/election_algorithm.go:electionAlgorithm.filterRandom:rand.New",
  "consensus/election_algorithm.go:electionAlgorithm.filterRandom:rand.New",
  "consensus/election_algorithm.go:electionAlgorithm.filterRandom:rand.New",
  "consensus/election_algorithm.go:electionAlgorithm.filterRandom:rand.NewSource",
  "consensus/election_algorithm.go:electionAlgorithm.filterRandom:rand.NewSource",
  "consensus/election_algorithm.go:electionAlgorithm.filterRandom:rand.NewSource",
  "consensus/election_algorithm.go:electionAlgorithm.shuffleOrder:rand.New",
  "consensus/election_algorithm.go:electionAlgorithm.shuffleOrder:rand.NewSource",
  "verifier/momentum.go:rawMomentumVerifier.timestamp:time.Now"]

/-- generated fact: the tree has no other wall-clock / random / environment / goroutine site in vm, verifier, chain,
    consensus, common/db, common/types (regenerated from the AST on every run) -/
theorem nondet_sites_reviewed : Gen.nondetSites = reviewedNondetSites := by decide

end ZV.C02
