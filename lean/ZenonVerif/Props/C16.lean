import ZenonVerif.Lemmas.Sync
/-
C16 — sync adopts only verified, strictly longer chains within the rollback window.
Property theorems only, over the line-by-line model of `chainBridge.InsertChain` (Model/Sync.lean).
`valid` is the verification oracle (C03/C05 own what it stands for); every theorem holds for every oracle.
-/
namespace ZV.C16
open ZV ZV.Proto ZV.Sync

/-- the decisive lines of `InsertChain` as they stand in the working tree (AST facts): the window constant
    and both comparison operators, the offset of every index returned out of the insert loop, the order of
    the tests — the emptiness test first, `target == nil` before the first use of `target` (264f72a) — the
    first `return` being `0, nil`, and that `RollbackTo` is called before the loop. The model uses
    `Gen.InsertChainWindow`; the operators `>` / `<=` are the ones written in `insertSuffix`. -/
theorem insertChain_shape_in_code :
    Gen.InsertChainWindow = 30 ∧ Gen.InsertChainWindowOp = ">" ∧ Gen.InsertChainLongerOp = "<=" ∧
    Gen.InsertChainLoopReturnIndex = ["index + start", "index + start", "index + start", "index + start"] ∧
    Gen.InsertChainIfConds = ["len(momentums) == 0", "err != nil", "our == nil",
      "our.Hash != momentums[start].Momentum.Hash",
      "start == len(momentums)", "err != nil", "head.Previous() != ourFrontier.Identifier()", "err != nil",
      "target == nil", "target.Identifier() != head.Previous()", "ourFrontier.Height-target.Height > 30",
      "tail.Height <= ourFrontier.Height", "err != nil", "block.BlockType == nom.BlockTypeContractSend",
      "patch != nil", "err != nil", "err != nil", "err != nil", "err != nil"] ∧
    Gen.InsertChainReturns.head? = some "0 / nil" ∧
    Gen.InsertChainReturns.length = 15 ∧
    Gen.InsertChainRollbackBeforeApplyLoop = true := by decide

/-- the node state `n` of the model is the chain the node has AT INSERTION TIME: in the working tree `InsertChain` takes the
    chain's insert lock (`c.chain.AcquireInsert`), releases it by a deferred `Unlock`, and reads NOTHING from the node — no call on
    the receiver `c` (chain, consensus, supervisor) or on a value obtained from such a call (a frontier store taken early is a
    snapshot of the chain as it was BEFORE the wait for the lock) — before the lock is held (AST facts). A delivery that waits for
    the lock while the pillar or another import extends the chain is therefore judged (known prefix, strictly longer, window of
    `InsertChainWindow`) against the frontier it finds when it is inserted; the stream delivers such batches (deliveries that wait
    for the lock while the chain grows, `locked-*` lines) and replays them through `insertChain` on the grown node. -/
theorem insertChain_reads_under_lock :
    Gen.InsertChainLockAcquired = true ∧ Gen.InsertChainUnlockDeferred = true ∧
    Gen.InsertChainNodeReadsBeforeLock = [] := by decide

/-- T1 `adopt_conditions`: if the chain after the call is not an extension of the chain before, then the
    delivered suffix (what is left after the known prefix) starts one above an own momentum `target` whose
    hash it names as previous, `target` lies at most `InsertChainWindow` = 30 below the old frontier, and
    the height claimed by the last delivered momentum is strictly greater than the old frontier's. -/
theorem adopt_conditions (valid : DM → Bool) (n : Node) (ms : List DM) (hwf : n.WF)
    (hleave : ¬ (n.chain <+: (insertChain valid n ms).1.chain)) :
    ∃ head more target, dropKnown n ms = head :: more ∧ target ∈ n.chain ∧
      head.prev = target.hash ∧ head.height = target.height + 1 ∧
      n.frontier.height - target.height ≤ Gen.InsertChainWindow ∧
      n.frontier.height < ((head :: more).getLastD head).height := by
  unfold insertChain at hleave
  cases ms with
  | nil => exact absurd (List.prefix_refl _) hleave
  | cons m0 mt =>
    simp only at hleave
    generalize dropKnown n (m0 :: mt) = suffix at hleave ⊢
    generalize (m0 :: mt).length - suffix.length = start at hleave
    unfold insertSuffix at hleave
    cases suffix with
    | nil => exact absurd (List.prefix_refl _) hleave
    | cons head more =>
      simp only at hleave
      split at hleave
      · next hne =>
        split at hleave
        · exact absurd (List.prefix_refl _) hleave
        · next target hb =>
          split at hleave
          · exact absurd (List.prefix_refl _) hleave
          · next hid =>
            split at hleave
            · exact absurd (List.prefix_refl _) hleave
            · next hfar =>
              split at hleave
              · exact absurd (List.prefix_refl _) hleave
              · next hlong =>
                refine ⟨head, more, target, rfl, byHeight_mem hb, ?_, ?_, ?_, ?_⟩
                · have : target.id = head.prevId := by simpa using hid
                  unfold DM.id DM.prevId at this
                  exact (Prod.mk.inj this).1.symm
                · have hid' : target.id = head.prevId := by simpa using hid
                  unfold DM.id DM.prevId at hid'
                  have hp : target.height = pred64 head.height := (Prod.mk.inj hid').2
                  have hw := byHeight_wf hwf hb
                  unfold pred64 at hp hw
                  split at hp
                  · next h0 =>
                    -- height 0 would name height 2^64-1, which a well-formed node does not hold
                    have := hwf.bound
                    simp only [h0, if_true] at hw
                    omega
                  · omega
                · unfold sub64 at hfar
                  split at hfar <;> omega
                · omega
      · -- the head links to the frontier: the loop only appends
        obtain ⟨new, h1, h2, _, _⟩ := applyLoop_spec valid (head :: more) n start
        apply absurd _ hleave
        unfold Node.chain
        rw [h1, h2]
        exact ⟨new, by simp⟩

/-- T1, second half: when the call succeeds and the node has left its chain, the new frontier is the last
    delivered momentum and it is strictly higher than the old frontier. (On a verification error after
    the rollback this is false — see `rollback_before_verification`.) -/
theorem adopt_longer_on_success (valid : DM → Bool) (n : Node) (ms : List DM)
    (hok : (insertChain valid n ms).2.2 = .ok)
    (hleave : ¬ (n.chain <+: (insertChain valid n ms).1.chain)) :
    n.frontier.height < (insertChain valid n ms).1.frontier.height := by
  unfold insertChain at hok hleave ⊢
  cases ms with
  | nil => exact absurd (List.prefix_refl _) hleave
  | cons m0 mt =>
    simp only at hok hleave ⊢
    generalize dropKnown n (m0 :: mt) = suffix at hok hleave ⊢
    generalize (m0 :: mt).length - suffix.length = start at hok hleave ⊢
    cases suffix with
    | nil => exact absurd (List.prefix_refl _) hleave
    | cons head more =>
      rcases insertSuffix_cases valid n head more start with ⟨_, he⟩ | ⟨target, _, _, _, _, hlong, he⟩ | ⟨o, he, _, _, _⟩
      · rw [he] at hleave
        obtain ⟨new, h1, h2, _, _⟩ := applyLoop_spec valid (head :: more) n start
        apply absurd _ hleave
        unfold Node.chain
        rw [h1, h2]
        exact ⟨new, by simp⟩
      · rw [he] at hok ⊢
        obtain ⟨new, h1, h2, _, h4⟩ := applyLoop_spec valid (head :: more) (n.rollbackTo target.height) start
        rcases h4 with ⟨_, hnew, _⟩ | ⟨o, _, _⟩
        · -- everything was applied: the frontier is the last delivered momentum
          have hfr : (applyLoop valid (n.rollbackTo target.height) (head :: more) start).1.frontier
              = (head :: more).getLastD head := by
            unfold Node.frontier
            rw [h2, hnew]
            have hl : (head :: more).getLast? = some ((head :: more).getLast (by simp)) :=
              List.getLast?_eq_some_getLast _
            simp [List.getLastD_eq_getLast?, List.getLast?_append, hl]
          rw [hfr]; omega
        · rw [o] at hok; cases hok
      · rw [he] at hleave
        exact absurd (List.prefix_refl _) hleave

/-- T2 `only_verified`: whatever is delivered, the chain after the call is a non-empty prefix of the old
    chain followed by `new`, where `new` is an initial segment of the delivered suffix (same order, nothing
    skipped), every element of `new` passed the verification oracle, and — for a well-formed node with room
    below 2^64 — the resulting node is well-formed again, i.e. each new momentum names the one below it as
    previous and sits one above it: it was verified on the chain it extends. -/
theorem only_verified (valid : DM → Bool) (n : Node) (ms : List DM) :
    (∃ k new, 1 ≤ k ∧ (insertChain valid n ms).1.chain = n.chain.take k ++ new ∧
        new <+: dropKnown n ms ∧ ∀ d ∈ new, valid d = true) ∧
    (n.WF → n.chain.length + ms.length + 1 < two64 → (insertChain valid n ms).1.WF) := by
  have hsame : ∃ k new, 1 ≤ k ∧ n.chain = n.chain.take k ++ new ∧ new <+: dropKnown n ms ∧ ∀ d ∈ new, valid d = true :=
    ⟨n.chain.length, [], by rw [chain_length]; omega, by simp, List.nil_prefix, by simp⟩
  unfold insertChain
  cases ms with
  | nil => exact ⟨hsame, fun h _ => h⟩
  | cons m0 mt =>
    simp only
    have hlen := dropKnown_length_le n (m0 :: mt)
    generalize hsuf : dropKnown n (m0 :: mt) = suffix at hsame hlen ⊢
    generalize (m0 :: mt).length - suffix.length = start
    unfold insertSuffix
    cases suffix with
    | nil => exact ⟨hsame, fun h _ => h⟩
    | cons head more =>
      simp only
      split
      · split
        · exact ⟨hsame, fun h _ => h⟩
        · next target hb =>
          split
          · exact ⟨hsame, fun h _ => h⟩
          · split
            · exact ⟨hsame, fun h _ => h⟩
            · split
              · exact ⟨hsame, fun h _ => h⟩
              · obtain ⟨new, h1, h2, h3, h4⟩ := applyLoop_spec valid (head :: more) (n.rollbackTo target.height) start
                constructor
                · refine ⟨max target.height 1, new, by omega, ?_, ?_, h3⟩
                  · rw [← rollbackTo_chain]
                    unfold Node.chain
                    rw [h1, h2]; simp
                  · rcases h4 with ⟨_, hn, _⟩ | ⟨_, _, d, r, hn, _⟩
                    · rw [hn]; exact List.prefix_refl _
                    · rw [hn]; exact List.prefix_append _ _
                · intro hwf hroom
                  apply applyLoop_wf valid _ _ _ (rollbackTo_wf hwf _)
                  rw [rollbackTo_chain]
                  have : (n.chain.take (max target.height 1)).length ≤ n.chain.length := by
                    simp [List.length_take]; omega
                  simp only [List.length_cons] at hroom hlen ⊢
                  omega
      · obtain ⟨new, h1, h2, h3, h4⟩ := applyLoop_spec valid (head :: more) n start
        constructor
        · refine ⟨n.chain.length, new, by rw [chain_length]; omega, ?_, ?_, h3⟩
          · unfold Node.chain
            rw [h1, h2]; simp
          · rcases h4 with ⟨_, hn, _⟩ | ⟨_, _, d, r, hn, _⟩
            · rw [hn]; exact List.prefix_refl _
            · rw [hn]; exact List.prefix_append _ _
        · intro hwf hroom
          apply applyLoop_wf valid _ _ _ hwf
          simp only [List.length_cons] at hroom hlen ⊢
          omega

/-- T3 `failure_index`: on a verification error the batch splits as
    `known ++ new ++ d :: rest'` — `known` the skipped momentums the node already holds, `new` the
    momentums applied by this call (all passed the oracle), `d` the first momentum that does not apply on
    the node as it now stands — the returned index is the position of `d` in the ORIGINAL batch, and the
    node holds exactly a prefix of its old chain followed by `new`. -/
theorem failure_index (valid : DM → Bool) (n : Node) (ms : List DM)
    (herr : (insertChain valid n ms).2.2 = .errVerify) :
    ∃ known new d rest', ms = known ++ new ++ d :: rest' ∧ (∀ x ∈ known, n.held x = true) ∧
      new ++ d :: rest' = dropKnown n ms ∧
      (insertChain valid n ms).2.1 = known.length + new.length ∧
      (∀ x ∈ new, valid x = true) ∧ applies valid (insertChain valid n ms).1 d = false ∧
      ∃ k, 1 ≤ k ∧ (insertChain valid n ms).1.chain = n.chain.take k ++ new := by
  obtain ⟨known, hk1, hk2⟩ := dropKnown_split n ms
  unfold insertChain at herr ⊢
  cases ms with
  | nil => cases herr
  | cons m0 mt =>
    simp only at herr ⊢
    have hstart : (m0 :: mt).length - (dropKnown n (m0 :: mt)).length = known.length := by
      have := congrArg List.length hk1
      simp only [List.length_append] at this
      omega
    rw [hstart] at herr ⊢
    generalize dropKnown n (m0 :: mt) = suffix at hk1 herr ⊢
    cases suffix with
    | nil => cases herr
    | cons head more =>
      rcases insertSuffix_cases valid n head more known.length with ⟨_, he⟩ | ⟨target, _, _, _, _, _, he⟩ | ⟨o, he, _, ho, _⟩
      · rw [he] at herr ⊢
        obtain ⟨new, h1, h2, h3, h4⟩ := applyLoop_spec valid (head :: more) n known.length
        rcases h4 with ⟨o, _, _⟩ | ⟨_, hidx, d, r, hn, hna⟩
        · rw [o] at herr; cases herr
        · refine ⟨known, new, d, r, ?_, hk2, hn.symm, hidx, h3, hna, n.chain.length, by rw [chain_length]; omega, ?_⟩
          · rw [hk1, hn]; simp
          · unfold Node.chain
            rw [h1, h2]; simp
      · rw [he] at herr ⊢
        obtain ⟨new, h1, h2, h3, h4⟩ := applyLoop_spec valid (head :: more) (n.rollbackTo target.height) known.length
        rcases h4 with ⟨o, _, _⟩ | ⟨_, hidx, d, r, hn, hna⟩
        · rw [o] at herr; cases herr
        · refine ⟨known, new, d, r, ?_, hk2, hn.symm, hidx, h3, hna, max target.height 1, by omega, ?_⟩
          · rw [hk1, hn]; simp
          · rw [← rollbackTo_chain]
            unfold Node.chain
            rw [h1, h2]; simp
      · rw [he] at herr
        exact absurd herr ho

/-- T4 `idempotent_on_known`: a batch of momentums the node already holds — the empty batch included —
    returns (0, nil) and leaves the node exactly as it was. -/
theorem idempotent_on_known (valid : DM → Bool) (n : Node) (ms : List DM)
    (hall : ∀ d ∈ ms, n.held d = true) : insertChain valid n ms = (n, 0, .ok) := by
  unfold insertChain
  cases ms with
  | nil => rfl
  | cons m0 mt =>
    simp only
    rw [dropKnown_all_held n _ hall]
    rfl

/-- T4, overlap: a known prefix in front of a batch changes nothing but the offset of a reported failure
    index: same resulting node, same outcome, index + |known| on a verification error. (Also when nothing
    follows the known prefix: both sides are then (node, 0, nil).) -/
theorem overlap_skips_known (valid : DM → Bool) (n : Node) (known rest : List DM)
    (hall : ∀ d ∈ known, n.held d = true) :
    insertChain valid n (known ++ rest) = shiftIdx known.length (insertChain valid n rest) := by
  cases rest with
  | nil =>
    rw [List.append_nil, idempotent_on_known valid n known hall]
    rfl
  | cons r0 rt =>
    unfold insertChain
    cases hk : known ++ r0 :: rt with
    | nil => simp at hk
    | cons a t =>
      simp only
      rw [← hk, dropKnown_append n known (r0 :: rt) hall]
      have hle := dropKnown_length_le n (r0 :: rt)
      have : (known ++ r0 :: rt).length - (dropKnown n (r0 :: rt)).length
           = known.length + ((r0 :: rt).length - (dropKnown n (r0 :: rt)).length) := by
        simp only [List.length_append]; omega
      rw [this]
      exact insertSuffix_shift valid known.length n _ _

/-- T5 `insert_total`: no panic — for every verification oracle, every node (well-formed or not) and every
    batch: empty, starting above frontier + 1, claiming height 0 or 1, anything. No premise. -/
theorem insert_total (valid : DM → Bool) (n : Node) (ms : List DM) :
    (insertChain valid n ms).2.2 ≠ .panic := by
  unfold insertChain
  cases ms with
  | nil => simp
  | cons m0 mt =>
    simp only
    generalize dropKnown n (m0 :: mt) = suffix
    generalize (m0 :: mt).length - suffix.length = start
    cases suffix with
    | nil => simp [insertSuffix]
    | cons head more =>
      rcases insertSuffix_cases valid n head more start with ⟨_, he⟩ | ⟨target, _, _, _, _, _, he⟩ | ⟨o, he, _, _, hp, _⟩
      · rw [he]; exact applyLoop_ne_panic valid _ _ _
      · rw [he]; exact applyLoop_ne_panic valid _ _ _
      · rw [he]; exact hp

/-- T5, the empty batch (it used to panic on `momentums[0]`; F7c, repaired in 264f72a): (0, nil), node
    untouched — on every node. -/
theorem insert_empty (valid : DM → Bool) (n : Node) : insertChain valid n [] = (n, 0, .ok) := rfl

/-- T5, the batches that used to dereference a nil `target` (F7c): when the first momentum the node does not
    hold claims height 0, height 1 (then its hash is not the genesis hash, or it would have been skipped) or a
    height of frontier + 2 and above, the call returns index 0 with the link error and the node is exactly
    as it was — whatever follows in the batch and whatever the oracle says. -/
theorem insert_unlinkable_refused (valid : DM → Bool) (n : Node) (ms : List DM) (hwf : n.WF) (head : DM)
    (more : List DM) (hd : dropKnown n ms = head :: more)
    (hh : head.height ≤ 1 ∨ n.frontier.height + 2 ≤ head.height) :
    insertChain valid n ms = (n, 0, .errLink) := by
  have hf := wf_frontier_height hwf
  have hb := hwf.bound
  have hcl := chain_length n
  -- no own momentum sits at the height the head names as its previous
  have hnone : n.byHeight (pred64 head.height) = none := by
    cases hbh : n.byHeight (pred64 head.height) with
    | none => rfl
    | some t =>
      have hw := byHeight_wf hwf hbh
      unfold pred64 at hw
      split at hw <;> omega
  unfold insertChain
  cases ms with
  | nil => simp [dropKnown] at hd
  | cons m0 mt =>
    simp only
    rw [hd]
    rcases insertSuffix_cases valid n head more ((m0 :: mt).length - (head :: more).length) with
      ⟨hl, _⟩ | ⟨target, _, hbt, _⟩ | ⟨o, he, _, _, _, hlink⟩
    · -- the head cannot name the frontier as its previous
      unfold DM.prevId DM.id at hl
      have h2 : pred64 head.height = n.frontier.height := (Prod.mk.inj hl).2
      unfold pred64 at h2
      split at h2 <;> omega
    · rw [hnone] at hbt; cases hbt
    · rw [he, hlink hnone]

/-- every refusal that is not a verification error (link, too far, not longer) leaves the node exactly as it
    was and reports index 0. -/
theorem refused_unchanged (valid : DM → Bool) (n : Node) (ms : List DM)
    (h1 : (insertChain valid n ms).2.2 ≠ .ok) (h2 : (insertChain valid n ms).2.2 ≠ .errVerify) :
    (insertChain valid n ms).1 = n ∧ (insertChain valid n ms).2.1 = 0 := by
  unfold insertChain at h1 h2 ⊢
  cases ms with
  | nil => exact ⟨rfl, rfl⟩
  | cons m0 mt =>
    simp only at h1 h2 ⊢
    generalize dropKnown n (m0 :: mt) = suffix at h1 h2 ⊢
    generalize (m0 :: mt).length - suffix.length = start at h1 h2 ⊢
    cases suffix with
    | nil => exact ⟨rfl, rfl⟩
    | cons head more =>
      rcases insertSuffix_cases valid n head more start with ⟨_, he⟩ | ⟨target, _, _, _, _, _, he⟩ | ⟨o, he, _⟩
      · rw [he] at h1 h2
        obtain ⟨_, _, _, _, h4⟩ := applyLoop_spec valid (head :: more) n start
        rcases h4 with ⟨o, _, _⟩ | ⟨o, _, _⟩
        · exact absurd o h1
        · exact absurd o h2
      · rw [he] at h1 h2
        obtain ⟨_, _, _, _, h4⟩ := applyLoop_spec valid (head :: more) (n.rollbackTo target.height) start
        rcases h4 with ⟨o, _, _⟩ | ⟨o, _, _⟩
        · exact absurd o h1
        · exact absurd o h2
      · rw [he]; exact ⟨rfl, rfl⟩

/-- the former negative witnesses of T5 on the node [g(1), a(2)], now positive: a batch that starts above
    frontier + 1, a head claiming height 0, and a head claiming height 1 with a hash other than genesis are
    all refused with the link error, index 0, node unchanged; the empty batch is a no-op. -/
theorem insert_former_counterexamples :
    let n : Node := { genesis := ⟨1, 10, 0, 1⟩, rest := [⟨2, 20, 10, 1⟩] }
    insertChain (fun _ => true) n [⟨4, 40, 30, 1⟩] = (n, 0, .errLink) ∧
    insertChain (fun _ => true) n [⟨0, 50, 20, 1⟩] = (n, 0, .errLink) ∧
    insertChain (fun _ => true) n [⟨1, 99, 0, 1⟩] = (n, 0, .errLink) ∧
    insertChain (fun _ => true) n [] = (n, 0, .ok) := by decide

/-- negative witness for "leaves its chain only for a verified, strictly longer chain": the rollback is
    done before anything is verified. Node [g(1), a(2), b(3), c(4)]; the batch is a side chain off `g`
    whose head fails verification and whose tail merely claims height 9: the call returns index 0 with a
    verification error and the node is left with its genesis only. -/
theorem rollback_before_verification :
    let n : Node := { genesis := ⟨1, 10, 0, 1⟩, rest := [⟨2, 20, 10, 1⟩, ⟨3, 30, 20, 1⟩, ⟨4, 40, 30, 1⟩] }
    insertChain (fun _ => false) n [⟨2, 21, 10, 0⟩, ⟨9, 91, 81, 0⟩] = ({ n with rest := [] }, 0, .errVerify) := by
  decide

/-! ### hypotheses are satisfiable / the model moves -/

/-- a clean extension by two momentums, then a longer side chain off height 2 replaces them -/
example :
    let n : Node := { genesis := ⟨1, 10, 0, 1⟩, rest := [⟨2, 20, 10, 1⟩] }
    let r := insertChain (fun _ => true) n [⟨3, 30, 20, 1⟩, ⟨4, 40, 30, 1⟩]
    r = ({ n with rest := [⟨2, 20, 10, 1⟩, ⟨3, 30, 20, 1⟩, ⟨4, 40, 30, 1⟩] }, 0, .ok) ∧
    insertChain (fun _ => true) r.1 [⟨2, 20, 10, 1⟩, ⟨3, 31, 20, 1⟩, ⟨4, 41, 31, 1⟩, ⟨5, 51, 41, 1⟩] =
      ({ n with rest := [⟨2, 20, 10, 1⟩, ⟨3, 31, 20, 1⟩, ⟨4, 41, 31, 1⟩, ⟨5, 51, 41, 1⟩] }, 0, .ok) := by decide

/-- a failure in the middle, with a known prefix in front: index 3 = position in the original batch -/
example :
    let n : Node := { genesis := ⟨1, 10, 0, 1⟩, rest := [⟨2, 20, 10, 1⟩] }
    insertChain (fun d => d.body == 1) n [⟨1, 10, 0, 1⟩, ⟨2, 20, 10, 1⟩, ⟨3, 30, 20, 1⟩, ⟨4, 40, 30, 0⟩, ⟨5, 50, 40, 1⟩] =
      ({ n with rest := [⟨2, 20, 10, 1⟩, ⟨3, 30, 20, 1⟩] }, 3, .errVerify) := by decide

/-- equal height is refused, one more is taken; 31 below the frontier is refused -/
example :
    let n : Node := { genesis := ⟨1, 10, 0, 1⟩, rest := [⟨2, 20, 10, 1⟩, ⟨3, 30, 20, 1⟩] }
    (insertChain (fun _ => true) n [⟨2, 21, 10, 1⟩, ⟨3, 31, 21, 1⟩]).2.2 = .errNotLonger ∧
    (insertChain (fun _ => true) n [⟨2, 21, 10, 1⟩, ⟨3, 31, 21, 1⟩, ⟨4, 41, 31, 1⟩]).2.2 = .ok := by decide

/-- the example nodes are well-formed -/
example : ({ genesis := ⟨1, 10, 0, 1⟩, rest := [⟨2, 20, 10, 1⟩, ⟨3, 30, 20, 1⟩] } : Node).WF :=
  ⟨rfl, by simp [Node.chain, Linked], by simp [Node.chain]; decide⟩

end ZV.C16
