import ZenonVerif.Model.Spork
/-
C17 — the gate table: every (contract, method) pair's availability in every spork regime is pinned by a REVIEWED table
(Model/Spork.lean `introducedBy`: method ↦ the spork that introduces it) and the regenerated tables of the real
GetEmbeddedMethod (Gen/Spork.lean, all 8 regimes) are proved to be exactly what the reviewed table says. A method that
leaks into an earlier table, a method a spork forgets to switch on, a method that appears without review: each breaks
`tables_exact` / `method_names_reviewed`. Property theorems only.
-/
namespace ZV.C17Table
open ZV.Spork

/-- every method the real GetEmbeddedMethod resolves in at least one regime has a reviewed entry, in the same
    (sorted) order, and there is no entry without such a method -/
theorem method_names_reviewed : Gen.methodNames = introducedBy.map (·.1) := by decide +kernel

/-- the reference the stream's model-free monitors decide by (harness/cmd/zvh/s_spork_gate.go sporkGateTable and
    sporkReceiveGated, printed into Gen/ on every run) is this reviewed table -/
theorem harness_tables_are_the_reviewed_ones :
    Gen.harnessGateTable = introducedBy ∧ Gen.harnessReceiveGated = receiveGated := by decide +kernel

/-- a reviewed owner is one of: genesis (0), accelerator (1), bridge&liquidity (2), htlc (3) -/
theorem owners_in_range : ∀ e ∈ introducedBy, e.2 ≤ 3 := by decide +kernel

/-- owner of the method with index `i` of the generated name list -/
def ownerIdx (i : Nat) : Nat := ((introducedBy.map (·.2))[i]?).getD 4

/-- T-table `tables_exact`: for EVERY regime (all 8 combinations of enforced sporks) and EVERY method, the real
    GetEmbeddedMethod resolves the method iff the spork that introduces it is at or below the regime's level, the level
    being the last enforced spork in the order accelerator < bridge&liquidity < htlc. In particular nothing a spork
    introduces - a new contract's method or a method added to a contract that already exists - is in the table of a
    regime below that spork's level. -/
theorem tables_exact :
    ∀ r ∈ List.range 8, ∀ i ∈ List.range Gen.methodNames.length,
      available r i = decide (ownerIdx i ≤ levelOfRegime r) := by
  decide +kernel

/-- … and no row of the generated table names a method outside the name list -/
theorem tables_rows_in_range : ∀ row ∈ Gen.methodTable, row.1 < 8 ∧ row.2.1 < Gen.methodNames.length := by
  decide +kernel

/-- T-gate `gate_exact_in_order`: along the activation order accelerator → bridge&liquidity → htlc (regimes 0, 1, 3, 7:
    the enforced sporks are downward closed) the level rule IS the property: a method is available exactly when the
    spork that introduces it is enforced -/
theorem gate_exact_in_order :
    ∀ r ∈ [0, 1, 3, 7], ∀ k ∈ List.range 4,
      decide (k ≤ levelOfRegime r) = sporkOn k (regimeAcc r) (regimeBridge r) (regimeHtlc r) := by
  decide +kernel

/-- T-F17 `f17_inclusion` (the structure of finding F17 made explicit, all 8 regimes): a method is available iff its
    own spork OR a spork later in the order is enforced. The part "a later spork is enforced, its own is not" is the
    whole of F17 at send time; nothing else is available below its own spork. -/
theorem f17_inclusion (acc bridge htlc : Bool) (k : Nat) (hk : k ≤ 3) :
    decide (k ≤ level acc bridge htlc) =
      (sporkOn k acc bridge htlc || (decide (k < 1) || (decide (k < 2) && bridge) || (decide (k < 3) && htlc))) := by
  have : k = 0 ∨ k = 1 ∨ k = 2 ∨ k = 3 := by omega
  rcases this with h | h | h | h <;> subst h <;> cases acc <;> cases bridge <;> cases htlc <;> decide

/-- the regimes in which the level rule and the property differ are exactly the out-of-order ones (2, 4, 5, 6), and
    there it only ever ADDS methods (negative witness for the full-strength statement: liquidity.Fund, an accelerator
    feature, is available with only the bridge&liquidity spork enforced) -/
theorem f17_only_out_of_order :
    (∀ r ∈ List.range 8, ∀ k ∈ List.range 4,
      sporkOn k (regimeAcc r) (regimeBridge r) (regimeHtlc r) = true → k ≤ levelOfRegime r) ∧
    (∀ r ∈ List.range 8, (∃ k ∈ List.range 4, k ≤ levelOfRegime r ∧
      sporkOn k (regimeAcc r) (regimeBridge r) (regimeHtlc r) = false) ↔ r ∈ [2, 4, 5, 6]) ∧
    availableSpec false true false "liquidity.Fund" = some true := by
  decide +kernel

/-- T-recv `receive_gate_closes_f17`: for the methods whose receive body tests its own spork again (reviewed list
    `receiveGated`), execution follows the property in ALL 8 regimes - also the out-of-order ones: the call can change
    something iff the spork that introduces the method is enforced for the acknowledged momentum. F17 exposes these
    methods to send-time acceptance only. -/
theorem receive_gate_closes_f17 (acc bridge htlc : Bool) :
    ∀ key ∈ receiveGated, ∃ k, ownerOf key = some k ∧ 1 ≤ k ∧
      mayExecute acc bridge htlc key = some (sporkOn k acc bridge htlc) := by
  cases acc <;> cases bridge <;> cases htlc <;> decide +kernel

/-- for every method, in order, execution is allowed iff its own spork is enforced (receive time agrees with send time) -/
theorem execute_exact_in_order :
    ∀ r ∈ [0, 1, 3, 7], ∀ e ∈ introducedBy,
      mayExecute (regimeAcc r) (regimeBridge r) (regimeHtlc r) e.1 =
        some (sporkOn e.2 (regimeAcc r) (regimeBridge r) (regimeHtlc r)) ∧
      availableSpec (regimeAcc r) (regimeBridge r) (regimeHtlc r) e.1 =
        some (sporkOn e.2 (regimeAcc r) (regimeBridge r) (regimeHtlc r)) := by
  decide +kernel

/-- the verdict of the driver on an observed receive: an effect is never accepted where `mayExecute` is false, a
    designed call is never accepted without effect where it is true -/
theorem execVerdict_sound (acc bridge htlc : Bool) (key : String) (effect designed : Bool)
    (h : execVerdict acc bridge htlc key effect designed = some "ok") :
    ∃ may, mayExecute acc bridge htlc key = some may ∧ (effect = true → may = true) ∧
      (designed = true → may = true → effect = true) := by
  unfold execVerdict at h
  cases hm : mayExecute acc bridge htlc key with
  | none => rw [hm] at h; cases h
  | some may =>
    rw [hm] at h
    refine ⟨may, rfl, ?_, ?_⟩ <;> cases effect <;> cases may <;> cases designed <;> simp_all

/-- plasma asked for a method: the regenerated value under regime r -/
def plasmaAt (r i : Nat) : Option Nat := (Gen.methodTable.find? (fun row => row.1 == r && row.2.1 == i)).map (·.2.2)

/-- REVIEWED: the methods whose price a spork changes (vm/embedded/embedded.go getAccelerator replaces the CollectReward
    of pillar, sentinel and stake by a cheaper one) -/
def repricedByAccelerator : List String := ["pillar.CollectReward", "sentinel.CollectReward", "stake.CollectReward"]

/-- T-plasma `plasma_by_level`: the plasma a method asks for is the same in every regime in which the method is
    available - except the three reviewed CollectReward methods, whose price differs between level 0 and every level
    ≥ 1 (the accelerator spork's change), and only between those -/
theorem plasma_by_level :
    ∀ r ∈ List.range 8, ∀ i ∈ List.range Gen.methodNames.length, available r i = true →
      (plasmaAt r i).isSome ∧
      (plasmaAt r i = plasmaAt 7 i ↔
        ¬ (levelOfRegime r = 0 ∧ repricedByAccelerator.contains (Gen.methodNames.getD i "") = true)) := by
  decide +kernel

/-- non-vacuity / reading aid: what the reviewed table says about the methods the accelerator spork adds to the
    liquidity contract, which exists from genesis -/
example :
    ownerOf "liquidity.Fund" = some 1 ∧ ownerOf "liquidity.Donate" = some 0 ∧ ownerOf "liquidity.SetTokenTuple" = some 2 ∧
    availableSpec false false false "liquidity.Fund" = some false ∧ availableSpec true false false "liquidity.Fund" = some true ∧
    mayExecute false true false "liquidity.Fund" = some false ∧ mayExecute false true false "accelerator.CreateProject" = some true ∧
    mayExecute true true false "liquidity.Fund" = some true ∧
    execVerdict false true false "liquidity.Fund" true true = some "forbidden" ∧
    execVerdict true false false "liquidity.Fund" false true = some "missing" ∧
    execVerdict false true false "liquidity.Fund" false true = some "ok" ∧ ownerOf "liquidity.Nope" = none := by
  decide +kernel

end ZV.C17Table
