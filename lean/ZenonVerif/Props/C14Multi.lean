import ZenonVerif.Lemmas.PoolMulti
import ZenonVerif.Lemmas.PoolFilter
import ZenonVerif.Props.C14
/-
C14 — the WHOLE unconfirmed pool: any number of addresses, transactions with several commits (a contract receive with
its descendant sends). Theorems over Model/PoolMulti.lean, for all operation sequences (`Reachable`), by induction.
-/
namespace ZV.C14Multi
open ZV ZV.PoolMulti
open ZV.Pool hiding Mgr PState Op OpOK Reachable step insertMomentum deleteMomentum canRollback addAll rollbackTo
  frontierId_eq MgrOK Inv manager_ok reachable_inv add_ok pop_ok rollbackTo_ok addAll_ok inv_set_mgr uncommittedBlocks
  add_pooled addAll_linked addAll_unlinked frontierId_add

/-! ### one chain per address -/

/-- `pool_single_chain_multi`: in every reachable state, for EVERY address, the manager is built on the current
    confirmed chain; the pooled transactions, flattened, form one chain on top of it (the first block's Previous() is the
    stable identifier, every other block's is its predecessor's identifier: links by hash AND height), the heights are
    stable+1, stable+2, … without gap; and this chain is what the pool lists for the address. -/
theorem pool_single_chain_multi (s : PoolSt) (hr : Reachable s) (a : Addr) :
    (s a).manager.base = (s a).confirmed ∧
    Linked (lastId (s a).confirmed) (flat (s a).manager.pooled) ∧
    (∀ (i : Nat) (h : i < (flat (s a).manager.pooled).length),
      (flat (s a).manager.pooled)[i].height = (lastId (s a).confirmed).2 + 1 + i) ∧
    uncommittedBlocks (s a) = some (flat (s a).manager.pooled) := by
  have hi := reachable_inv hr a
  obtain ⟨h1, h2, h3, _, _⟩ := manager_ok hi
  exact ⟨h1, h2, linked_heights _ _ h2 h3, uncommitted_spec hi⟩

/-! ### confirmed blocks -/

/-- `confirmed_never_displaced_multi`: a transaction (of any number of commits, forced or not) whose head lies at or
    below the confirmed height of its address is answered "already inserted" — exactly when its head IS the confirmed
    block of that height — or refused as older than the stable identifier; the pool keeps its transactions; the frontier
    store answers every height up to the confirmed one with the confirmed block. -/
theorem confirmed_never_displaced_multi (s : PoolSt) (hr : Reachable s) (a : Addr) (t : Tx) (f : Bool) (ht : TxWF t)
    (hle : t.head.height ≤ (lastId (s a).confirmed).2) :
    ((addAt s a t f).2 = .already ∨ (addAt s a t f).2 = .olderThanStable) ∧
    (addAt s a t f).1 a = { s a with mgr := some (s a).manager } ∧
    ((addAt s a t f).2 = .already ↔ (byHeight (s a).confirmed t.head.height).map Blk.id = some t.id) ∧
    ∀ h, h ≤ (lastId (s a).confirmed).2 → byHeight (s a).manager.view h = byHeight (s a).confirmed h := by
  have hi := reachable_inv hr a
  obtain ⟨h1, h2, h3, _, _⟩ := manager_ok hi
  have habove := linked_mem_height _ _ h2 h3
  have hview : ∀ h, h ≤ (lastId (s a).confirmed).2 → byHeight (s a).manager.view h = byHeight (s a).confirmed h := by
    intro h hh
    unfold Mgr.view
    rw [byHeight_append, byHeight_none _ _ (fun x hx => by have := (habove x hx).1; omega), h1]
    simp
  have hfront : ((s a).manager.frontierId).2 = (lastId (s a).confirmed).2 + (flat (s a).manager.pooled).length := by
    rw [frontierId_eq, h1]; exact linked_last_height _ _ h2 h3
  have hpl : t.prev.2 < t.head.height := (linked_mem_height _ _ ht.1 ht.2.1 t.head (head_mem_commits t)).1
  have hne : t.prev ≠ (s a).manager.frontierId := by
    intro he
    have : t.prev.2 = ((s a).manager.frontierId).2 := by rw [he]
    omega
  have hcr : canRollback (s a).confirmed (s a).manager t = some .olderThanStable := by
    unfold canRollback; simp [hle]
  refine ⟨?_, ?_, ?_, hview⟩
  all_goals
    simp only [addAt, upd, addTx, addTxWith, hne, if_false, hview t.head.height hle, hcr, if_true]
    split <;> simp_all

/-- no pool operation other than the chain's own rollback (`deleteMomentum`) shortens or rewrites a confirmed chain:
    adding leaves every confirmed chain as it is, a momentum extends them -/
theorem confirmed_chain_only_grows (s : PoolSt) :
    (∀ a t f b, ((addAt s a t f).1 b).confirmed = (s b).confirmed) ∧
    (∀ c b, (insertMomentum s c b).confirmed = (s b).confirmed ++ contentOf c b) := by
  constructor
  · intro a t f b
    simp only [addAt, upd]
    split
    · rename_i hb; subst hb
      simp only [addTx, addTxWith]
      repeat' split
      all_goals rfl
    · rfl
  · intro c b
    simp only [insertMomentum, confirmAll, rebuildAddr, rebuildWith]
    repeat' split
    all_goals rfl

/-! ### transactions are atomic -/

/-- `transactions_atomic` (state): in every reachable state, for every address, the pool IS a list of whole well-formed
    transactions: what it lists (`GetUncommittedAccountBlocksByAddress`) is their commits in order, and `GetPatch`
    answers for an identifier iff it is a commit of one of them — no transaction is in the pool in part. -/
theorem transactions_atomic (s : PoolSt) (hr : Reachable s) (a : Addr) :
    uncommittedBlocks (s a) = some (flat (s a).manager.pooled) ∧
    (∀ i, hasPatch s a i = true ↔ i ∈ (flat (s a).manager.pooled).map Blk.id) ∧
    ∀ t ∈ (s a).manager.pooled, TxWF t := by
  have hi := reachable_inv hr a
  have hm := manager_ok hi
  refine ⟨uncommitted_spec hi, fun i => ?_, pooled_txwf hm⟩
  simp only [hasPatch, Mgr.hasPatch, List.contains_eq_mem, decide_eq_true_eq]
  exact hm.2.2.2.2 i

/-- `transactions_atomic` (step): every operation keeps or removes the pooled transactions of an address as wholes —
    an add keeps the first `j` of them and possibly appends the offered one (fast-forward: all of them; replace: the
    ones below the fork; a failed rollback: the ones it did not pop), a momentum keeps exactly `keptBy` (a suffix of
    whole transactions or nothing), a delete keeps none; other addresses keep theirs. -/
theorem transactions_atomic_step (s : PoolSt) (hr : Reachable s) (op : Op) (hop : OpOK s op) (b : Addr) :
    match op with
    | .add a t _ => if b = a then
          ∃ j, (step s op b).manager.pooled = (s b).manager.pooled.take j ∨
               (step s op b).manager.pooled = (s b).manager.pooled.take j ++ [t]
        else step s op b = s b
    | .insert c => (step s op b).manager.pooled = keptBy ((s b).confirmed ++ contentOf c b) (s b).manager.pooled
    | .delete _ => (step s op b).manager.pooled = [] := by
  have hi := reachable_inv hr
  cases op with
  | add a t f =>
    simp only [step, addAt, upd]
    split
    · rename_i hb; subst hb; exact (addTx_shape (hi b) t f hop).2.2
    · rfl
  | insert c =>
    obtain ⟨h1, h2⟩ := hop b
    exact (rebuild_addr_spec (hi b) (contentOf c b) h1 h2).2.2.1
  | delete k => simp [step, deleteMomentum, AState.manager]

/-- two blocks of one contract account: a descendant send at height 1 and the receive carrying it at height 2 -/
private def d1 : Blk := { height := 1, hash := [1], prevHash := zeroHash, btype := Gen.BlockTypeContractSend }
private def r2 : Blk := { height := 2, hash := [2], prevHash := [1], btype := 5 }
/-- a competing receive without descendants for height 1 -/
private def q1 : Blk := { height := 1, hash := [3], prevHash := zeroHash, btype := 5 }

example : TxWF ⟨[d1], r2⟩ ∧ TxWF ⟨[], q1⟩ := by decide

/-- negative witness (the behaviour before b940a18, F-BD1): with a `Pop` that forgets only the head of a transaction,
    a pooled receive with one descendant displaced by a forced competitor leaves the descendant answering `GetPatch`
    although the pool lists the competitor alone — the transaction is in the pool in part; the modelled `Pop` does not. -/
theorem pop_head_only_breaks_atomicity :
    let x := (addTx {} ⟨[d1], r2⟩ false).1
    let bad := (addTxWith Mgr.popHeadOnly canRollback (fun _ _ tb => tb) x ⟨[], q1⟩ true).1
    let good := (addTx x ⟨[], q1⟩ true).1
    uncommittedBlocks bad = some [q1] ∧ bad.manager.hasPatch d1.id = true ∧ bad.manager.hasPatch r2.id = false ∧
    uncommittedBlocks good = some [q1] ∧ good.manager.hasPatch d1.id = false := by decide

/-- negative witness (the behaviour before eef54d2, F16): a rebuild that re-applies every stored block as a transaction
    of its own loses a pooled receive with a descendant at a momentum that confirms nothing of it; the modelled rebuild
    keeps it. -/
theorem rebuild_split_loses_receive :
    let x := (addTx {} ⟨[d1], r2⟩ false).1
    (rebuildWith true x).1.manager.pooled = [] ∧ (rebuildWith true x).2 = .failed ∧
    (rebuildAddr x).1.manager.pooled = [⟨[d1], r2⟩] := by decide

/-! ### the addresses are independent -/

/-- `addresses_independent`: adding a transaction of address `a` leaves every other address's confirmed chain and pool
    untouched; what a momentum does to an address depends on that address's state and on the momentum's blocks of that
    address only. -/
theorem addresses_independent (s : PoolSt) (a : Addr) (t : Tx) (f : Bool) :
    (∀ b, b ≠ a → (addAt s a t f).1 b = s b) ∧
    (∀ (s' : PoolSt) (c c' : List (Addr × Blk)) (b : Addr), s' b = s b → contentOf c' b = contentOf c b →
      insertMomentum s' c' b = insertMomentum s c b) := by
  constructor
  · intro b hb; simp [addAt, upd, hb]
  · intro s' c c' b h1 h2
    simp only [insertMomentum, confirmAll, h1, h2]

/-- `rebuild_order_independent`: `InsertMomentum` — the address loop of `rebuild` run over ANY enumeration of the
    addresses that have a manager (Go map order), one iteration per address — is the per-address rebuild of every
    address; in particular any two enumerations give the same pool. -/
theorem rebuild_order_independent (s : PoolSt) (c : List (Addr × Blk)) (order : List Addr) (hn : order.Nodup)
    (hcover : ∀ a, (s a).mgr ≠ none → a ∈ order) :
    rebuildLoop (confirmAll s c) order = insertMomentum s c := by
  funext b
  rw [rebuildLoop_apply order _ hn b]
  split
  · rfl
  · rename_i hb
    have : (s b).mgr = none := by
      apply Classical.byContradiction
      intro h; exact hb (hcover b h)
    simp only [insertMomentum, rebuildAddr, rebuildWith, confirmAll, this]

theorem rebuild_any_two_orders (s : PoolSt) (c : List (Addr × Blk)) (o₁ o₂ : List Addr) (h1 : o₁.Nodup) (h2 : o₂.Nodup)
    (c1 : ∀ a, (s a).mgr ≠ none → a ∈ o₁) (c2 : ∀ a, (s a).mgr ≠ none → a ∈ o₂) :
    rebuildLoop (confirmAll s c) o₁ = rebuildLoop (confirmAll s c) o₂ := by
  rw [rebuild_order_independent s c o₁ h1 c1, rebuild_order_independent s c o₂ h2 c2]

/-- a user block at height 1, a competitor of it, and a second account's first block -/
private def u1 : Blk := { height := 1, hash := [7], prevHash := zeroHash, total := 21000, base := 21000, btype := 2 }
private def v1 : Blk := { height := 1, hash := [8], prevHash := zeroHash, total := 21000, base := 21000, btype := 2 }
private def w1 : Blk := { height := 1, hash := [9], prevHash := zeroHash, total := 21000, base := 21000, btype := 2 }
private def u2 : Blk := { height := 2, hash := [10], prevHash := [7], total := 21000, base := 21000, btype := 2 }

/-- address 0 pooled u1, u2, address 1 pooled w1; the momentum confirms the competitor v1 for address 0 (u2 no longer
    links) and w1 for address 1 -/
private def twoAddr : PoolSt :=
  confirmAll (addAt (addAt (addAt PoolSt.empty 0 ⟨[], u1⟩ false).1 0 ⟨[], u2⟩ false).1 1 ⟨[], w1⟩ false).1
    [(0, v1), (1, w1)]

/-- negative witness (the behaviour before 38e1b1b, F12): a loop that returns at the first address whose blocks no longer
    link leaves the addresses behind it on their stale managers — address 1 still lists the block the momentum
    confirmed when address 0 is visited first, and not when it is visited last: the result depends on the map order. The
    modelled loop gives the empty pool for address 1 in both orders. -/
theorem early_return_depends_on_order :
    ((rebuildLoopEarly twoAddr [0, 1] 1).manager.pooled = [⟨[], w1⟩]) ∧
    ((rebuildLoopEarly twoAddr [1, 0] 1).manager.pooled = []) ∧
    ((rebuildLoop twoAddr [0, 1] 1).manager.pooled = []) ∧ ((rebuildLoop twoAddr [1, 0] 1).manager.pooled = []) := by
  decide

/-- the tie to the code: the address loop of `rebuild` contains no `return` (regenerated from the AST) -/
theorem rebuild_loop_has_no_return : Gen.rebuildLoopReturns = 0 := by decide

/-! ### after a momentum -/

/-- `after_momentum_exactly_unconfirmed_that_link`: after `InsertMomentum`, for EVERY address, the confirmed chain is
    the extended one and the pool holds exactly the previously pooled transactions that the momentum did not confirm
    (head above the new confirmed height), in their order, if they still link to the new confirmed frontier — and
    nothing otherwise; `rebuild` never meets a missing height. -/
theorem after_momentum_exactly_unconfirmed_that_link (s : PoolSt) (hr : Reachable s) (c : List (Addr × Blk))
    (hop : OpOK s (.insert c)) (a : Addr) :
    let conf' := (s a).confirmed ++ contentOf c a
    let rest := (s a).manager.pooled.filter (fun t => decide ((lastId conf').2 < t.head.height))
    (insertMomentum s c a).confirmed = conf' ∧
    (insertMomentum s c a).manager.pooled = (if Linked (lastId conf') (flat rest) then rest else []) ∧
    (rebuildAddr (confirmAll s c a)).2 ≠ .nilDeref := by
  obtain ⟨h1, h2⟩ := hop a
  obtain ⟨_, r2, r3, r4, _⟩ := rebuild_addr_spec (reachable_inv hr a) (contentOf c a) h1 h2
  exact ⟨r2, r3, r4⟩

/-- … in particular a momentum that confirms the first `k` pooled transactions of an address (what a momentum built from
    the pool's own content does) leaves exactly the remaining ones -/
theorem after_momentum_confirming_a_prefix (s : PoolSt) (hr : Reachable s) (c : List (Addr × Blk)) (a : Addr) (k : Nat)
    (hc : contentOf c a = flat ((s a).manager.pooled.take k)) :
    (insertMomentum s c a).manager.pooled = (s a).manager.pooled.drop k := by
  have hi := reachable_inv hr a
  obtain ⟨_, h2, h3, _, _⟩ := manager_ok hi
  have hsplit : flat (s a).manager.pooled = flat ((s a).manager.pooled.take k) ++ flat ((s a).manager.pooled.drop k) := by
    rw [← flat_append, List.take_append_drop]
  have hl : Linked (lastId (s a).confirmed) (contentOf c a) := by
    rw [hc]; have := h2; rw [hsplit, linked_append] at this; exact this.1
  have hh : HeightsOK (contentOf c a) := by
    rw [hc]; have := h3; rw [hsplit] at this; exact (heightsOK_append.mp this).1
  have := (rebuild_addr_spec hi (contentOf c a) hl hh).2.2.1
  rw [hc, keptBy_whole_prefix h2 h3 hi.1 hi.2.1 k] at this
  simp only [insertMomentum, confirmAll, hc]
  exact this

/-! ### the winner between competing transactions -/

/-- negative part of the winner clause, for the code AS IT IS (known finding FDF1): a transaction that carries at least
    one descendant block and is not a fast-forward is never inserted — `canRollback` looks one height below its HEAD and
    compares with `Previous()`, which lies one below its FIRST descendant — whatever its priority, forced or not, in
    every state; the pool stays as it is. -/
theorem multi_commit_competitor_refused (x : AState) (t : Tx) (f : Bool) (ht : TxWF t) (hd : t.desc ≠ [])
    (hff : t.prev ≠ x.manager.frontierId) :
    (addTx x t f).1 = { x with mgr := some x.manager } ∧
    ((addTx x t f).2 = .already ∨ (addTx x t f).2 = .olderThanStable ∨ (addTx x t f).2 = .missingPrevious ∨
      (addTx x t f).2 = .previousMismatch) := by
  have hlen : 2 ≤ t.commits.length := by
    cases hdd : t.desc with
    | nil => exact absurd hdd hd
    | cons d ds => simp [Tx.commits, hdd]
  have hh := head_height ht
  have hcr : ∃ e, PoolMulti.canRollback x.confirmed x.manager t = some e ∧
      (e = .olderThanStable ∨ e = .missingPrevious ∨ e = .previousMismatch) := by
    unfold PoolMulti.canRollback
    by_cases h1 : (lastId x.confirmed).2 ≥ t.head.height
    · exact ⟨_, by simp [h1], Or.inl rfl⟩
    · have h2 : ¬ (t.head.height = 1 ∧ t.prev = zeroId) := by intro ⟨a, _⟩; omega
      simp only [h1, h2, if_false]
      cases hb : byHeight x.manager.view (t.head.height - 1) with
      | none => exact ⟨_, rfl, Or.inr (Or.inl rfl)⟩
      | some tp =>
        have hth := (byHeight_some hb).2
        have hne : tp.id ≠ t.prev := by
          intro he
          have := congrArg Prod.snd he
          simp only [Blk.id] at this
          omega
        exact ⟨_, by simp [hne], Or.inr (Or.inr rfl)⟩
  obtain ⟨e, he, hcase⟩ := hcr
  unfold addTx addTxWith
  simp only [hff, if_false, he]
  split
  · exact ⟨rfl, Or.inl rfl⟩
  · refine ⟨rfl, Or.inr ?_⟩
    rcases hcase with h | h | h <;> simp [h]

/-- a receive with one descendant and a competing receive without: by the rule on the heads ([2] < [3]) the first wins -/
example : higherPriority r2 q1 = .ok ∧ higherPriority q1 r2 = .hashTieBreak := by decide

/-- negative witness (FDF1), the code as it is: the same two transactions leave different pools depending on the arrival
    order — the one with the descendant is refused when it comes second (also when FORCED), and keeps its place when it
    comes first because the single block is compared with its descendant ([3] vs [1]) — while the rule on the heads names
    one winner; the repaired rule `addTxR` leaves that winner in both orders. -/
theorem winner_depends_on_arrival_order :
    let single : Tx := ⟨[], q1⟩
    let multi : Tx := ⟨[d1], r2⟩
    (addTx (addTx {} single false).1 multi false).1.manager.pooled = [single] ∧
    (addTx (addTx {} single false).1 multi true).2 = .previousMismatch ∧
    (addTx (addTx {} multi false).1 single false).1.manager.pooled = [multi] ∧
    (addTxR (addTxR {} single false).1 multi false).1.manager.pooled = [multi] ∧
    (addTxR (addTxR {} multi false).1 single false).1.manager.pooled = [multi] := by decide

/-- `winner_by_rule_multi` — for the REPAIRED rule (`addTxR`, fdf1_fix.diff), at full strength: a well-formed
    transaction `t` with any number of commits that competes with a pooled transaction `p` with any number of commits
    (same `Previous()`, a head hash not in the pool) is decided by `higherPriority` on the two HEAD blocks alone: it
    replaces `p` and everything pooled above it iff it is forced or the rule lets it win; otherwise the pool is unchanged
    and the rule's error is returned. With `C14.priority_total_antisymmetric` / `C14.winner_order_independent` on the head
    blocks, the survivor is the same on every node whatever the arrival order. -/
theorem winner_by_rule_multi (x : AState) (hi : PoolMulti.Inv x) (t p : Tx) (pre post : List Tx) (f : Bool) (ht : TxWF t)
    (hsplit : x.manager.pooled = pre ++ p :: post) (hprev : t.prev = p.prev)
    (hfresh : ∀ b ∈ flat x.manager.pooled, b.hash ≠ t.head.hash) :
    (addTxR x t f).2 = (if f = true ∨ higherPriority t.head p.head = .ok then .replaced
        else if higherPriority t.head p.head = .ratioWorse then .ratioWorse else .hashTieBreak) ∧
    (addTxR x t f).1.manager.pooled =
      (if f = true ∨ higherPriority t.head p.head = .ok then pre ++ [t] else x.manager.pooled) := by
  obtain ⟨hb, hl, hh, hty, hpatch⟩ := PoolMulti.manager_ok hi
  have hflat : flat x.manager.pooled = flat pre ++ (p.commits ++ flat post) := by rw [hsplit, flat_append, flat_cons]
  have hl' := hl
  rw [hflat, linked_append] at hl'
  obtain ⟨hlpre, hlrest⟩ := hl'
  have hlrest' : Linked (lastIdFrom (lastId x.confirmed) (flat pre)) (flat (p :: post)) := by rw [flat_cons]; exact hlrest
  obtain ⟨hpprev, _, _⟩ := (linked_flat_cons _ p post).mp hlrest'
  have hh' := hh
  rw [hflat] at hh'
  obtain ⟨hhpre, _⟩ := heightsOK_append.mp hh'
  have htp : t.prev = lastIdFrom (lastId x.confirmed) (flat pre) := by rw [hprev, hpprev]
  have htph : t.prev.2 = (lastId x.confirmed).2 + (flat pre).length := by
    rw [htp]; exact linked_last_height _ _ hlpre hhpre
  have hhead := head_height ht
  have hclen : 1 ≤ t.commits.length := by simp [Tx.commits]
  have hplen : 1 ≤ p.commits.length := by simp [Tx.commits]
  have hfront : (x.manager.frontierId).2 = (lastId x.confirmed).2 + (flat x.manager.pooled).length := by
    rw [PoolMulti.frontierId_eq, hb]; exact linked_last_height _ _ hl hh
  have hnff : ¬ t.prev = x.manager.frontierId := by
    intro he
    have : t.prev.2 = (x.manager.frontierId).2 := by rw [he]
    rw [hfront, htph, hflat] at this
    simp only [List.length_append] at this
    omega
  have hview : Linked zeroId x.manager.view := by
    unfold Mgr.view; rw [hb, linked_append]; exact ⟨hi.1, by rw [← lastId_eq]; exact hl⟩
  have hvh : HeightsOK x.manager.view := heightsOK_append.mpr ⟨by rw [hb]; exact hi.2.1, hh⟩
  have hconf := chain_last_height _ hi.1 hi.2.1
  have hpm : p ∈ x.manager.pooled := by rw [hsplit]; simp
  -- not already there
  have hnal : ¬ ((byHeight x.manager.view t.head.height).map Blk.id = some t.id) := by
    intro he
    cases hbh : byHeight x.manager.view t.head.height with
    | none => rw [hbh] at he; simp at he
    | some b =>
      rw [hbh] at he
      simp only [Option.map_some, Option.some.injEq] at he
      obtain ⟨hmem, hbheight⟩ := byHeight_some hbh
      unfold Mgr.view at hmem
      rcases List.mem_append.mp hmem with hc | hp
      · rw [hb] at hc
        have := (linked_mem_height _ _ hi.1 hi.2.1 b hc).2
        simp only [zeroId] at this
        omega
      · exact hfresh b hp (by have := congrArg Prod.fst he; simpa [Blk.id, Tx.id] using this)
  have hviewEq : x.manager.view = (x.confirmed ++ flat pre) ++ (p.commits ++ flat post) := by
    unfold Mgr.view; rw [hb, hflat, List.append_assoc]
  have hAlen : (x.confirmed ++ flat pre).length = t.prev.2 := by rw [htph, hconf]; simp
  -- canRollback (repaired) passes
  have hcr : canRollbackR x.confirmed x.manager t = none := by
    unfold canRollbackR
    have h1 : ¬ ((lastId x.confirmed).2 ≥ t.head.height ∨ (lastId x.confirmed).2 > t.prev.2) := by omega
    simp only [h1, if_false]
    by_cases hz : t.prev = zeroId
    · simp [hz]
    · simp only [hz, if_false]
      have hA : t.prev = lastId (x.confirmed ++ flat pre) := by rw [lastId_append]; exact htp
      have hAne : x.confirmed ++ flat pre ≠ [] := by
        intro he; rw [he] at hA; exact hz hA
      have hL : 1 ≤ (x.confirmed ++ flat pre).length := List.length_pos_iff.mpr hAne
      have hLle : (x.confirmed ++ flat pre).length ≤ x.manager.view.length := by rw [hviewEq]; simp
      have htake : x.manager.view.take (x.confirmed ++ flat pre).length = x.confirmed ++ flat pre := by
        rw [hviewEq, List.take_left']; rfl
      have h2 := lastId_take x.manager.view _ hL hLle
      rw [htake] at h2
      have h3 := byHeight_chain x.manager.view hview hvh ((x.confirmed ++ flat pre).length - 1) (by omega)
      have e : (x.confirmed ++ flat pre).length - 1 + 1 = t.prev.2 := by omega
      rw [e] at h3
      simp only [h3]
      rw [← h2, ← hA]; simp
  -- the competitor found by the repaired lookup is the head of p
  have hrival : headAt x.manager.view (x.manager.view.length + 1) (t.prev.2 + 1) = some p.head := by
    have hv : x.manager.view = (x.confirmed ++ flat pre) ++ p.desc ++ [p.head] ++ flat post := by
      rw [hviewEq]; simp [Tx.commits, List.append_assoc]
    have := headAt_spec x.manager.view hview hvh p.desc (x.confirmed ++ flat pre) p.head (flat post)
      (x.manager.view.length + 1) hv (hty p hpm).1 (hty p hpm).2 (by rw [hv]; simp; omega)
    rw [← hAlen]; exact this
  -- the rollback reaches the place below p
  have hj : pre.length ≤ x.manager.pooled.length := by rw [hsplit]; simp
  have htk : x.manager.pooled.take pre.length = pre := by rw [hsplit, List.take_left']; rfl
  obtain ⟨m', hroll, hpool, hbase⟩ := rollbackTo_reaches (conf := x.confirmed) (x.manager.pooled.length + 1) x.manager
    pre.length ⟨hb, hl, hh, hty, hpatch⟩ hj (by omega)
  rw [htk, ← htp] at hroll
  rw [htk] at hpool
  have hfm : t.prev = m'.frontierId := by rw [PoolMulti.frontierId_eq, hbase, hb, hpool]; exact htp
  have hadd : m'.add t = some { m' with pooled := m'.pooled ++ [t], patches := m'.patches ++ t.commits.map Blk.id } := by
    simp [PoolMulti.Mgr.add, hfm]
  unfold addTxR addTxWith
  simp only [hnff, if_false, hnal, hcr, hrival, hroll, hadd]
  cases f <;> cases hp : higherPriority t.head p.head <;> simp [AState.manager, hpool]

/-- one-block transactions at a place held by a block that is not a ContractSend: the code as it is and the repaired
    rule do the same -/
theorem single_block_rule_unchanged (x : AState) (t : Tx) (f : Bool) (ht : TxWF t) (hd : t.desc = [])
    (hnc : ∀ b, byHeight x.manager.view t.head.height = some b → isContractSend b.btype = false) :
    addTx x t f = addTxR x t f := by
  have h0 : t.head.height ≠ 0 := ht.2.1 t.head (head_mem_commits t)
  have hp : t.prev = t.head.prev := by simp [Tx.prev, hd]
  have hp2 : t.prev.2 = t.head.height - 1 := by rw [hp]; simp [Blk.prev, h0]
  have hcr : PoolMulti.canRollback x.confirmed x.manager t = canRollbackR x.confirmed x.manager t := by
    have hor : ((lastId x.confirmed).2 ≥ t.head.height ∨ (lastId x.confirmed).2 > t.head.height - 1) ↔
        (lastId x.confirmed).2 ≥ t.head.height := by omega
    have hand : (t.head.height = 1 ∧ t.prev = zeroId) ↔ t.prev = zeroId :=
      ⟨fun h => h.2, fun h => ⟨by have := congrArg Prod.snd h; simp only [zeroId] at this; omega, h⟩⟩
    unfold PoolMulti.canRollback canRollbackR
    simp only [hand, hp2]
    simp only [hor]
  have hrv : headAt x.manager.view (x.manager.view.length + 1) (t.prev.2 + 1) =
      byHeight x.manager.view t.head.height := by
    have e : t.prev.2 + 1 = t.head.height := by omega
    rw [e]
    simp only [headAt]
    cases hb : byHeight x.manager.view t.head.height with
    | none => rfl
    | some b => simp [hnc b hb]
  unfold addTx addTxR addTxWith
  simp only [hcr, hrv]

/-- `winner_by_rule_multi_partial` — the code AS IT IS: between one-block transactions (every user account, and contract
    receives that emit nothing) the winner is chosen by the rule on their blocks, in every state of the whole pool.
    What is missing for the full clause is false of the code (`multi_commit_competitor_refused`,
    `winner_depends_on_arrival_order`): transactions with descendant blocks. -/
theorem winner_by_rule_multi_partial (x : AState) (hi : PoolMulti.Inv x) (t p : Tx) (pre post : List Tx) (f : Bool)
    (ht : TxWF t) (hd : t.desc = []) (hpd : p.desc = [])
    (hsplit : x.manager.pooled = pre ++ p :: post) (hprev : t.prev = p.prev)
    (hfresh : ∀ b ∈ flat x.manager.pooled, b.hash ≠ t.head.hash) :
    (addTx x t f).2 = (if f = true ∨ higherPriority t.head p.head = .ok then .replaced
        else if higherPriority t.head p.head = .ratioWorse then .ratioWorse else .hashTieBreak) ∧
    (addTx x t f).1.manager.pooled =
      (if f = true ∨ higherPriority t.head p.head = .ok then pre ++ [t] else x.manager.pooled) := by
  obtain ⟨hb, hl, hh, hty, _⟩ := PoolMulti.manager_ok hi
  have hpm : p ∈ x.manager.pooled := by rw [hsplit]; simp
  have hflat : flat x.manager.pooled = flat pre ++ (p.commits ++ flat post) := by rw [hsplit, flat_append, flat_cons]
  have hview : Linked zeroId x.manager.view := by
    unfold Mgr.view; rw [hb, linked_append]; exact ⟨hi.1, by rw [← lastId_eq]; exact hl⟩
  have hvh : HeightsOK x.manager.view := heightsOK_append.mpr ⟨by rw [hb]; exact hi.2.1, hh⟩
  have hl' := hl
  rw [hflat, linked_append] at hl'
  have hlrest' : Linked (lastIdFrom (lastId x.confirmed) (flat pre)) (flat (p :: post)) := by rw [flat_cons]; exact hl'.2
  obtain ⟨hpprev, _, _⟩ := (linked_flat_cons _ p post).mp hlrest'
  have hh' := hh
  rw [hflat] at hh'
  have htph : t.prev.2 = (lastId x.confirmed).2 + (flat pre).length := by
    rw [hprev, hpprev]; exact linked_last_height _ _ hl'.1 (heightsOK_append.mp hh').1
  have hhead := head_height ht
  have hconf := chain_last_height _ hi.1 hi.2.1
  have hv : x.manager.view = (x.confirmed ++ flat pre) ++ [p.head] ++ flat post := by
    unfold Mgr.view; rw [hb, hflat]; simp [Tx.commits, hpd, List.append_assoc]
  have hat := byHeight_at_split x.manager.view hview hvh _ _ _ hv
  have e : (x.confirmed ++ flat pre).length + 1 = t.head.height := by
    rw [hhead, htph, hconf]; simp [Tx.commits, hd]
  rw [e] at hat
  rw [single_block_rule_unchanged x t f ht hd (fun b hb' => by rw [hat] at hb'; cases hb'; exact (hty p hpm).2)]
  exact winner_by_rule_multi x hi t p pre post f ht hsplit hprev hfresh

/-- hypotheses of `winner_by_rule_multi` are satisfiable with several commits on both sides -/
example : ∃ (x : AState) (t p : Tx), PoolMulti.Inv x ∧ TxWF t ∧ t.desc ≠ [] ∧ p.desc ≠ [] ∧ x.manager.pooled = [] ++ p :: [] ∧
    t.prev = p.prev ∧ (∀ b ∈ flat x.manager.pooled, b.hash ≠ t.head.hash) ∧
    (addTxR x t false).1.manager.pooled = [t] :=
  ⟨(addTx {} ⟨[d1], r2⟩ false).1,
   ⟨[{ d1 with hash := [0] }], { r2 with hash := [0, 1], prevHash := [0] }⟩, ⟨[d1], r2⟩,
   (addTx_shape (show PoolMulti.Inv ({} : AState) from ⟨trivial, fun _ h => by simp at h, fun _ h => by simp at h⟩)
     _ _ (by decide)).1,
   by decide, by decide, by decide, by decide, by decide, by decide, by decide⟩

/-! ### the content offered for production -/

/-- `offered_content_well_formed_partial`: what the pool offers for a momentum (`GetNewMomentumContent`, for every
    enumeration order of the managers) is a prefix of the concatenated pools, at most the limit long, and ends at a batch
    boundary — never between a contract's descendant sends and the receive that carries them. Together with
    `after_momentum_confirming_a_prefix` (a momentum that confirms the first k pooled transactions of an address leaves
    exactly the others) this is the content clause. NOT proved here: that the part of that prefix belonging to one
    address is `flat (pooled.take k)` for some k (a projection of a prefix of a concatenation of per-address chains); the
    pool-multi stream checks that sentence on the real pool after every offer and inserts exactly the offered content. -/
theorem offered_content_well_formed_partial (max : Nat) (s : PoolSt) (order : List Addr) (o all : List (Addr × Blk))
    (hall : allUncommitted s order = some all) (ho : offered max s order = some o) :
    o <+: all ∧ o.length ≤ max ∧ ∀ e, o.getLast? = some e → isContractSend e.2.btype = false := by
  simp only [offered, hall, Option.map_some, Option.some.injEq] at ho
  subst ho
  refine ⟨?_, ?_, ?_⟩
  · simpa using filterGo_prefix (fun e : Addr × Blk => isContractSend e.2.btype) max all [] []
  · exact filterGo_length _ max all [] [] (by simp)
  · exact filterGo_boundary (fun e : Addr × Blk => isContractSend e.2.btype) max all [] [] (fun _ h => by simp at h)

example : ∃ s, Reachable s ∧ (flat (s 0).manager.pooled).length = 2 ∧ (s 1).manager.pooled.length = 1 :=
  ⟨step (step PoolSt.empty (.add 0 ⟨[d1], r2⟩ false)) (.add 1 ⟨[], u1⟩ false),
   .step _ (.step _ (.init _ (fun _ => ⟨trivial, fun _ h => by simp [PoolSt.empty] at h, rfl⟩))
     (by show TxWF _; decide)) (by show TxWF _; decide), by decide, by decide⟩

end ZV.C14Multi
