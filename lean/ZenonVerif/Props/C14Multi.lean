import ZenonVerif.Lemmas.PoolMulti
import ZenonVerif.Props.C14
/-
C14 — the WHOLE unconfirmed pool: any number of addresses, transactions with several commits (a contract receive with
its descendant sends). Theorems over Model/PoolMulti.lean, for all operation sequences (`Reachable`), by induction.
-/
namespace ZV.C14Multi
open ZV ZV.PoolMulti
open ZV.Pool hiding Mgr PState Op OpOK Reachable step insertMomentum deleteMomentum canRollback addAll rollbackTo
  frontierId_eq MgrOK Inv manager_ok reachable_inv add_ok pop_ok rollbackTo_ok addAll_ok inv_set_mgr uncommittedBlocks
  add_pooled addAll_linked addAll_unlinked frontierId_add

/-! ### one chain per address -/

/-- `pool_single_chain_multi`: in every reachable state, for EVERY address, the manager is built on the current
    confirmed chain; the pooled transactions, flattened, form one chain on top of it (the first block's Previous() is the
    stable identifier, every other block's is its predecessor's identifier: links by hash AND height), the heights are
    stable+1, stable+2, … without gap; and this chain is what the pool lists for the address. -/
theorem pool_single_chain_multi (s : PoolSt) (hr : Reachable s) (a : Addr) :
    (s a).manager.base = (s a).confirmed ∧
    Linked (lastId (s a).confirmed) (flat (s a).manager.pooled) ∧
    (∀ (i : Nat) (h : i < (flat (s a).manager.pooled).length),
      (flat (s a).manager.pooled)[i].height = (lastId (s a).confirmed).2 + 1 + i) ∧
    uncommittedBlocks (s a) = some (flat (s a).manager.pooled) := by
  have hi := reachable_inv hr a
  obtain ⟨h1, h2, h3, _, _⟩ := manager_ok hi
  exact ⟨h1, h2, linked_heights _ _ h2 h3, uncommitted_spec hi⟩

/-! ### confirmed blocks -/

/-- `confirmed_never_displaced_multi`: a transaction (of any number of commits, forced or not) whose head lies at or
    below the confirmed height of its address is answered "already inserted" — exactly when its head IS the confirmed
    block of that height — or refused as older than the stable identifier; the pool keeps its transactions; the frontier
    store answers every height up to the confirmed one with the confirmed block. -/
theorem confirmed_never_displaced_multi (s : PoolSt) (hr : Reachable s) (a : Addr) (t : Tx) (f : Bool) (ht : TxWF t)
    (hle : t.head.height ≤ (lastId (s a).confirmed).2) :
    ((addAt s a t f).2 = .already ∨ (addAt s a t f).2 = .olderThanStable) ∧
    (addAt s a t f).1 a = { s a with mgr := some (s a).manager } ∧
    ((addAt s a t f).2 = .already ↔ (byHeight (s a).confirmed t.head.height).map Blk.id = some t.id) ∧
    ∀ h, h ≤ (lastId (s a).confirmed).2 → byHeight (s a).manager.view h = byHeight (s a).confirmed h := by
  have hi := reachable_inv hr a
  obtain ⟨h1, h2, h3, _, _⟩ := manager_ok hi
  have habove := linked_mem_height _ _ h2 h3
  have hview : ∀ h, h ≤ (lastId (s a).confirmed).2 → byHeight (s a).manager.view h = byHeight (s a).confirmed h := by
    intro h hh
    unfold Mgr.view
    rw [byHeight_append, byHeight_none _ _ (fun x hx => by have := (habove x hx).1; omega), h1]
    simp
  have hfront : ((s a).manager.frontierId).2 = (lastId (s a).confirmed).2 + (flat (s a).manager.pooled).length := by
    rw [frontierId_eq, h1]; exact linked_last_height _ _ h2 h3
  have hpl : t.prev.2 < t.head.height := (linked_mem_height _ _ ht.1 ht.2.1 t.head (head_mem_commits t)).1
  have hne : t.prev ≠ (s a).manager.frontierId := by
    intro he
    have : t.prev.2 = ((s a).manager.frontierId).2 := by rw [he]
    omega
  have hcr : canRollback (s a).confirmed (s a).manager t = some .olderThanStable := by
    unfold canRollback; simp [hle]
  refine ⟨?_, ?_, ?_, hview⟩
  all_goals
    simp only [addAt, upd, addTx, addTxWith, hne, if_false, hview t.head.height hle, hcr, if_true]
    split <;> simp_all

/-- no pool operation other than the chain's own rollback (`deleteMomentum`) shortens or rewrites a confirmed chain:
    adding leaves every confirmed chain as it is, a momentum extends them -/
theorem confirmed_chain_only_grows (s : PoolSt) :
    (∀ a t f b, ((addAt s a t f).1 b).confirmed = (s b).confirmed) ∧
    (∀ c b, (insertMomentum s c b).confirmed = (s b).confirmed ++ contentOf c b) := by
  constructor
  · intro a t f b
    simp only [addAt, upd]
    split
    · rename_i hb; subst hb
      simp only [addTx, addTxWith]
      repeat' split
      all_goals rfl
    · rfl
  · intro c b
    simp only [insertMomentum, confirmAll, rebuildAddr, rebuildWith]
    repeat' split
    all_goals rfl

/-! ### transactions are atomic -/

/-- `transactions_atomic` (state): in every reachable state, for every address, the pool IS a list of whole well-formed
    transactions: what it lists (`GetUncommittedAccountBlocksByAddress`) is their commits in order, and `GetPatch`
    answers for an identifier iff it is a commit of one of them — no transaction is in the pool in part. -/
theorem transactions_atomic (s : PoolSt) (hr : Reachable s) (a : Addr) :
    uncommittedBlocks (s a) = some (flat (s a).manager.pooled) ∧
    (∀ i, hasPatch s a i = true ↔ i ∈ (flat (s a).manager.pooled).map Blk.id) ∧
    ∀ t ∈ (s a).manager.pooled, TxWF t := by
  have hi := reachable_inv hr a
  have hm := manager_ok hi
  refine ⟨uncommitted_spec hi, fun i => ?_, pooled_txwf hm⟩
  simp only [hasPatch, Mgr.hasPatch, List.contains_eq_mem, decide_eq_true_eq]
  exact hm.2.2.2.2 i

/-- `transactions_atomic` (step): every operation keeps or removes the pooled transactions of an address as wholes —
    an add keeps the first `j` of them and possibly appends the offered one (fast-forward: all of them; replace: the
    ones below the fork; a failed rollback: the ones it did not pop), a momentum keeps exactly `keptBy` (a suffix of
    whole transactions or nothing), a delete keeps none; other addresses keep theirs. -/
theorem transactions_atomic_step (s : PoolSt) (hr : Reachable s) (op : Op) (hop : OpOK s op) (b : Addr) :
    match op with
    | .add a t _ => if b = a then
          ∃ j, (step s op b).manager.pooled = (s b).manager.pooled.take j ∨
               (step s op b).manager.pooled = (s b).manager.pooled.take j ++ [t]
        else step s op b = s b
    | .insert c => (step s op b).manager.pooled = keptBy ((s b).confirmed ++ contentOf c b) (s b).manager.pooled
    | .delete _ => (step s op b).manager.pooled = [] := by
  have hi := reachable_inv hr
  cases op with
  | add a t f =>
    simp only [step, addAt, upd]
    split
    · rename_i hb; subst hb; exact (addTx_shape (hi b) t f hop).2.2
    · rfl
  | insert c =>
    obtain ⟨h1, h2⟩ := hop b
    exact (rebuild_addr_spec (hi b) (contentOf c b) h1 h2).2.2.1
  | delete k => simp [step, deleteMomentum, AState.manager]

/-- two blocks of one contract account: a descendant send at height 1 and the receive carrying it at height 2 -/
private def d1 : Blk := { height := 1, hash := [1], prevHash := zeroHash, btype := Gen.BlockTypeContractSend }
private def r2 : Blk := { height := 2, hash := [2], prevHash := [1], btype := 5 }
/-- a competing receive without descendants for height 1 -/
private def q1 : Blk := { height := 1, hash := [3], prevHash := zeroHash, btype := 5 }

example : TxWF ⟨[d1], r2⟩ ∧ TxWF ⟨[], q1⟩ := by decide

/-- negative witness (the behaviour before b940a18, F-BD1): with a `Pop` that forgets only the head of a transaction,
    a pooled receive with one descendant displaced by a forced competitor leaves the descendant answering `GetPatch`
    although the pool lists the competitor alone — the transaction is in the pool in part; the modelled `Pop` does not. -/
theorem pop_head_only_breaks_atomicity :
    let x := (addTx {} ⟨[d1], r2⟩ false).1
    let bad := (addTxWith Mgr.popHeadOnly x ⟨[], q1⟩ true).1
    let good := (addTx x ⟨[], q1⟩ true).1
    uncommittedBlocks bad = some [q1] ∧ bad.manager.hasPatch d1.id = true ∧ bad.manager.hasPatch r2.id = false ∧
    uncommittedBlocks good = some [q1] ∧ good.manager.hasPatch d1.id = false := by decide

/-- negative witness (the behaviour before eef54d2, F16): a rebuild that re-applies every stored block as a transaction
    of its own loses a pooled receive with a descendant at a momentum that confirms nothing of it; the modelled rebuild
    keeps it. -/
theorem rebuild_split_loses_receive :
    let x := (addTx {} ⟨[d1], r2⟩ false).1
    (rebuildWith true x).1.manager.pooled = [] ∧ (rebuildWith true x).2 = .failed ∧
    (rebuildAddr x).1.manager.pooled = [⟨[d1], r2⟩] := by decide

/-! ### the addresses are independent -/

/-- `addresses_independent`: adding a transaction of address `a` leaves every other address's confirmed chain and pool
    untouched; what a momentum does to an address depends on that address's state and on the momentum's blocks of that
    address only. -/
theorem addresses_independent (s : PoolSt) (a : Addr) (t : Tx) (f : Bool) :
    (∀ b, b ≠ a → (addAt s a t f).1 b = s b) ∧
    (∀ (s' : PoolSt) (c c' : List (Addr × Blk)) (b : Addr), s' b = s b → contentOf c' b = contentOf c b →
      insertMomentum s' c' b = insertMomentum s c b) := by
  constructor
  · intro b hb; simp [addAt, upd, hb]
  · intro s' c c' b h1 h2
    simp only [insertMomentum, confirmAll, h1, h2]

/-- `rebuild_order_independent`: `InsertMomentum` — the address loop of `rebuild` run over ANY enumeration of the
    addresses that have a manager (Go map order), one iteration per address — is the per-address rebuild of every
    address; in particular any two enumerations give the same pool. -/
theorem rebuild_order_independent (s : PoolSt) (c : List (Addr × Blk)) (order : List Addr) (hn : order.Nodup)
    (hcover : ∀ a, (s a).mgr ≠ none → a ∈ order) :
    rebuildLoop (confirmAll s c) order = insertMomentum s c := by
  funext b
  rw [rebuildLoop_apply order _ hn b]
  split
  · rfl
  · rename_i hb
    have : (s b).mgr = none := by
      apply Classical.byContradiction
      intro h; exact hb (hcover b h)
    simp only [insertMomentum, rebuildAddr, rebuildWith, confirmAll, this]

theorem rebuild_any_two_orders (s : PoolSt) (c : List (Addr × Blk)) (o₁ o₂ : List Addr) (h1 : o₁.Nodup) (h2 : o₂.Nodup)
    (c1 : ∀ a, (s a).mgr ≠ none → a ∈ o₁) (c2 : ∀ a, (s a).mgr ≠ none → a ∈ o₂) :
    rebuildLoop (confirmAll s c) o₁ = rebuildLoop (confirmAll s c) o₂ := by
  rw [rebuild_order_independent s c o₁ h1 c1, rebuild_order_independent s c o₂ h2 c2]

/-- a user block at height 1, a competitor of it, and a second account's first block -/
private def u1 : Blk := { height := 1, hash := [7], prevHash := zeroHash, total := 21000, base := 21000, btype := 2 }
private def v1 : Blk := { height := 1, hash := [8], prevHash := zeroHash, total := 21000, base := 21000, btype := 2 }
private def w1 : Blk := { height := 1, hash := [9], prevHash := zeroHash, total := 21000, base := 21000, btype := 2 }
private def u2 : Blk := { height := 2, hash := [10], prevHash := [7], total := 21000, base := 21000, btype := 2 }

/-- address 0 pooled u1, u2, address 1 pooled w1; the momentum confirms the competitor v1 for address 0 (u2 no longer
    links) and w1 for address 1 -/
private def twoAddr : PoolSt :=
  confirmAll (addAt (addAt (addAt PoolSt.empty 0 ⟨[], u1⟩ false).1 0 ⟨[], u2⟩ false).1 1 ⟨[], w1⟩ false).1
    [(0, v1), (1, w1)]

/-- negative witness (the behaviour before 38e1b1b, F12): a loop that returns at the first address whose blocks no longer
    link leaves the addresses behind it on their stale managers — address 1 still lists the block the momentum
    confirmed when address 0 is visited first, and not when it is visited last: the result depends on the map order. The
    modelled loop gives the empty pool for address 1 in both orders. -/
theorem early_return_depends_on_order :
    ((rebuildLoopEarly twoAddr [0, 1] 1).manager.pooled = [⟨[], w1⟩]) ∧
    ((rebuildLoopEarly twoAddr [1, 0] 1).manager.pooled = []) ∧
    ((rebuildLoop twoAddr [0, 1] 1).manager.pooled = []) ∧ ((rebuildLoop twoAddr [1, 0] 1).manager.pooled = []) := by
  decide

/-- the tie to the code: the address loop of `rebuild` contains no `return` (regenerated from the AST) -/
theorem rebuild_loop_has_no_return : Gen.rebuildLoopReturns = 0 := by decide

/-! ### after a momentum -/

/-- `after_momentum_exactly_unconfirmed_that_link`: after `InsertMomentum`, for EVERY address, the confirmed chain is
    the extended one and the pool holds exactly the previously pooled transactions that the momentum did not confirm
    (head above the new confirmed height), in their order, if they still link to the new confirmed frontier — and
    nothing otherwise; `rebuild` never meets a missing height. -/
theorem after_momentum_exactly_unconfirmed_that_link (s : PoolSt) (hr : Reachable s) (c : List (Addr × Blk))
    (hop : OpOK s (.insert c)) (a : Addr) :
    let conf' := (s a).confirmed ++ contentOf c a
    let rest := (s a).manager.pooled.filter (fun t => decide ((lastId conf').2 < t.head.height))
    (insertMomentum s c a).confirmed = conf' ∧
    (insertMomentum s c a).manager.pooled = (if Linked (lastId conf') (flat rest) then rest else []) ∧
    (rebuildAddr (confirmAll s c a)).2 ≠ .nilDeref := by
  obtain ⟨h1, h2⟩ := hop a
  obtain ⟨_, r2, r3, r4, _⟩ := rebuild_addr_spec (reachable_inv hr a) (contentOf c a) h1 h2
  exact ⟨r2, r3, r4⟩

/-- … in particular a momentum that confirms the first `k` pooled transactions of an address (what a momentum built from
    the pool's own content does) leaves exactly the remaining ones -/
theorem after_momentum_confirming_a_prefix (s : PoolSt) (hr : Reachable s) (c : List (Addr × Blk)) (a : Addr) (k : Nat)
    (hc : contentOf c a = flat ((s a).manager.pooled.take k)) :
    (insertMomentum s c a).manager.pooled = (s a).manager.pooled.drop k := by
  have hi := reachable_inv hr a
  obtain ⟨_, h2, h3, _, _⟩ := manager_ok hi
  have hsplit : flat (s a).manager.pooled = flat ((s a).manager.pooled.take k) ++ flat ((s a).manager.pooled.drop k) := by
    rw [← flat_append, List.take_append_drop]
  have hl : Linked (lastId (s a).confirmed) (contentOf c a) := by
    rw [hc]; have := h2; rw [hsplit, linked_append] at this; exact this.1
  have hh : HeightsOK (contentOf c a) := by
    rw [hc]; have := h3; rw [hsplit] at this; exact (heightsOK_append.mp this).1
  have := (rebuild_addr_spec hi (contentOf c a) hl hh).2.2.1
  rw [hc, keptBy_whole_prefix h2 h3 hi.1 hi.2.1 k] at this
  simp only [insertMomentum, confirmAll, hc]
  exact this

example : ∃ s, Reachable s ∧ (flat (s 0).manager.pooled).length = 2 ∧ (s 1).manager.pooled.length = 1 :=
  ⟨step (step PoolSt.empty (.add 0 ⟨[d1], r2⟩ false)) (.add 1 ⟨[], u1⟩ false),
   .step _ (.step _ (.init _ (fun _ => ⟨trivial, fun _ h => by simp [PoolSt.empty] at h, rfl⟩))
     (by show TxWF _; decide)) (by show TxWF _; decide), by decide, by decide⟩

end ZV.C14Multi
