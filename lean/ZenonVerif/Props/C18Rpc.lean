import ZenonVerif.Model.JsonRpc
/-
C18 — "malformed or hostile JSON-RPC requests, single and batched, produce error responses and never terminate the server":
theorems about the dispatch model `ZV.JsonRpc.respond` (Model/JsonRpc.lean), the function the driver evaluates for every
`rpc-req` line of the rpcserver stream.

Deviations of the code from JSON-RPC 2.0 that the model follows (the theorems are about the code):
  * `hasValidID` refuses only objects and arrays: `true` / `false` are accepted as ids and echoed (2.0: String, Number or
    Null), and so are fractional numbers;
  * the `jsonrpc` member is never looked at (2.0: MUST be exactly "2.0");
  * member names are matched case-insensitively (`"ID"`, `"Method"`, `"reſult"`), a repeated member overwrites;
  * `"method"` of a non-string kind is the same as no method (−32600 with the id, which agrees with 2.0), `"params": null`
    is accepted as no arguments;
  * a message with a valid id, no method, no params and a `result` or a non-null `error` member is taken for a response of
    the peer and dropped without an answer (2.0: not a Request object, hence −32600) — the server is the bidirectional
    client/handler of geth;
  * a call whose id is `null` is answered (with id null) — 2.0 treats it as a request too, but discourages it.
-/
namespace ZV.C18Rpc
open ZV ZV.JsonRpc

-- ---- the three panic sites are unreachable ---------------------------------------------------------------------

theorem splitLastDot_isSome_of_mem (l : List Char) (h : '.' ∈ l) : (splitLastDot l).isSome = true := by
  induction l with
  | nil => cases h
  | cons c cs ih =>
    unfold splitLastDot
    cases hs : splitLastDot cs with
    | some p => simp
    | none =>
      have hc : c = '.' := by
        rcases List.mem_cons.mp h with h1 | h2
        · exact h1.symm
        · have := ih h2; rw [hs] at this; cases this
      simp [hc]

theorem suffix_has_dot (s suf : String) (hd : '.' ∈ suf.toList) (h : hasSuffix s suf = true) : '.' ∈ s.toList := by
  unfold hasSuffix at h
  exact (List.isSuffixOf_iff_suffix.mp h).subset hd

/-- `msg.namespace()` is only reached when the method ends in ".subscribe", which contains the separator -/
theorem handleSubscribe_ne_panic (reg : Registry) (tr : Transport) (m : Msg) (h : m.isSubscribe = true) :
    handleSubscribe reg tr m ≠ .panic := by
  have hdot : '.' ∈ m.method.toList := suffix_has_dot m.method ".subscribe" (by decide) h
  have hs := splitLastDot_isSome_of_mem _ hdot
  unfold handleSubscribe
  cases tr with
  | http => simp
  | stream =>
    simp only []
    cases subscriptionName? m.params with
    | none => simp
    | some name =>
      simp only []
      cases hsp : splitLastDot m.method.toList with
      | none => rw [hsp] at hs; cases hs
      | some p =>
        obtain ⟨ns, nm⟩ := p
        simp only []
        cases reg.subscription ns name <;> simp

theorem handleCall_ne_panic (reg : Registry) (tr : Transport) (m : Msg) : handleCall reg tr m ≠ .panic := by
  unfold handleCall
  by_cases h1 : m.isSubscribe = true
  · simp only [h1, if_true]; exact handleSubscribe_ne_panic reg tr m h1
  · simp only [h1]
    by_cases h2 : m.isUnsubscribe = true
    · simp [h2]
    · simp only [h2]
      cases reg.callback m.method <;> simp

theorem handleCall_out (reg : Registry) (tr : Transport) (m : Msg) : ∃ o, handleCall reg tr m = .out o := by
  cases h : handleCall reg tr m with
  | out o => exact ⟨o, rfl⟩
  | panic => exact absurd h (handleCall_ne_panic reg tr m)

theorem handleCallMsg_ne_panic (reg : Registry) (tr : Transport) (m : Msg) : handleCallMsg reg tr m ≠ .panic := by
  obtain ⟨o, ho⟩ := handleCall_out reg tr m
  unfold handleCallMsg
  rw [ho]
  split
  · simp
  · split
    · simp
    · split <;> simp

/-- after the repair loop of readBatch no message pointer is nil: the first loop of handleBatch dereferences safely -/
theorem derefAll_repaired (items : List Json) :
    derefAll ((items.map decodeMsg).map repairNil) = some (items.map msgOf) := by
  induction items with
  | nil => rfl
  | cons j js ih =>
    simp only [List.map_cons]
    cases hj : decodeMsg j with
    | none => simp [repairNil, derefAll, msgOf, hj]; rw [← List.map_map]; exact ih
    | some m => simp [repairNil, derefAll, msgOf, hj]; rw [← List.map_map]; exact ih

-- ---- classification --------------------------------------------------------------------------------------------

theorem notification_not_validID (m : Msg) (h : m.isNotification = true) : m.hasValidID = false := by
  unfold Msg.isNotification Msg.idAbsent at h
  unfold Msg.hasValidID
  cases hid : m.id <;> simp [hid] at h ⊢

/-- the classes are mutually exclusive: the order in which the code asks does not matter -/
theorem kinds_exclusive (m : Msg) :
    ¬ (m.isNotification = true ∧ m.isCall = true) ∧ ¬ (m.isNotification = true ∧ m.isResponse = true) ∧
    ¬ (m.isCall = true ∧ m.isResponse = true) := by
  refine ⟨?_, ?_, ?_⟩
  · rintro ⟨h1, h2⟩
    have := notification_not_validID m h1
    simp [Msg.isCall, this] at h2
  · rintro ⟨h1, h2⟩
    have := notification_not_validID m h1
    simp [Msg.isResponse, this] at h2
  · rintro ⟨h1, h2⟩
    simp only [Msg.isCall, Msg.isResponse, Bool.and_eq_true, bne_iff_ne, ne_eq, beq_iff_eq] at h1 h2
    exact h1.2 h2.1.1.2

/-- whether a message is due an answer, on the decoded message -/
def dueM (m : Msg) : Bool :=
  match m.kind with
  | .notification => false
  | .response => false
  | _ => true

theorem due_eq (j : Json) : due j = dueM (msgOf j) := rfl

/-- one message of a batch: consumed by handleImmediate or handed to handleCallMsg, it contributes its reply exactly when it
    is due one, with the echoed id and the outcome of the specification -/
theorem element_contribution (reg : Registry) (tr : Transport) (m : Msg) :
    (if handleImmediate m = true then (R.none) else handleCallMsg reg tr m) =
      (if dueM m = true then R.reply m.echoId (outcomeOf reg tr m) else R.none) := by
  obtain ⟨o, ho⟩ := handleCall_out reg tr m
  have hex := kinds_exclusive m
  unfold handleImmediate handleCallMsg dueM Msg.kind outcomeOf
  rw [ho]
  cases hn : m.isNotification <;> cases hc : m.isCall <;> cases hr : m.isResponse <;> simp [hn, hc, hr] at hex ⊢
  · -- invalid: the id decides which branch wrote the reply, both write the echoed id
    cases hv : m.hasValidID
    · simp only [Msg.echoId]
      unfold Msg.hasValidID at hv
      cases hid : m.id <;> simp [hid] at hv ⊢
    · simp

theorem collect_calls (reg : Registry) (tr : Transport) (ms : List Msg) :
    collect ((ms.filter (fun m => !handleImmediate m)).map (handleCallMsg reg tr)) =
      some ((ms.filter dueM).map (fun m => (m.echoId, outcomeOf reg tr m))) := by
  induction ms with
  | nil => rfl
  | cons m rest ih =>
    have hel := element_contribution reg tr m
    cases hi : handleImmediate m <;> cases hd : dueM m <;> simp [hi, hd] at hel
    · simp [hi, hd, hel, collect, ih]
    · simp [hi, hd, hel, collect, ih]
    · simp [hi, hd, ih]

/-- a reply list as it is written: nothing when it is empty, else one array -/
def shapeOf (rs : List (Id × Outcome)) : Response :=
  match rs with
  | [] => .noBody
  | rs => .batch rs

theorem spec_list_eq (reg : Registry) (tr : Transport) (items : List Json) :
    ((items.map msgOf).filter dueM).map (fun m => (m.echoId, outcomeOf reg tr m)) =
      (items.filter due).map (replyOf reg tr) := by
  induction items with
  | nil => rfl
  | cons j js ih =>
    simp only [List.map_cons, List.filter_cons, due_eq]
    by_cases hd : dueM (msgOf j) = true <;> simp [hd, ih, replyOf, echoId]

/-- a non-empty batch, completely: the replies of the elements that are due one, in order; no body when there is none -/
theorem batch_replies (reg : Registry) (tr : Transport) (items : List Json) (h : items ≠ []) :
    respond reg tr (.arr items) = shapeOf ((items.filter due).map (replyOf reg tr)) := by
  have hne : (List.map repairNil (List.map decodeMsg items)).isEmpty = false := by
    cases items with
    | nil => exact absurd rfl h
    | cons a b => rfl
  have hc := collect_calls reg tr (items.map msgOf)
  rw [spec_list_eq] at hc
  unfold respond readBatch parseMessage dispatch
  simp only [if_true]
  unfold handleBatch
  rw [hne, derefAll_repaired]
  simp only [Bool.false_eq_true, if_false]
  split
  · rename_i hemp
    rw [List.isEmpty_iff] at hemp
    rw [hemp] at hc
    simp only [List.map_nil, collect, Option.some.injEq] at hc
    rw [← hc]; rfl
  · rw [hc]
    unfold shapeOf
    cases (items.filter due).map (replyOf reg tr) <;> rfl

theorem empty_batch (reg : Registry) (tr : Transport) :
    respond reg tr (.arr []) = .single .null (.err invalidRequest) := rfl

theorem readBatch_single (j : Json) (h : j.isArr = false) : readBatch j = ([some (msgOf j)], false) := by
  cases j with
  | arr items => cases h
  | null => rfl
  | bool b => rfl
  | num l => rfl
  | str s => rfl
  | obj fs => rfl

/-- a single message, completely -/
theorem single_reply (reg : Registry) (tr : Transport) (j : Json) (h : j.isArr = false) :
    respond reg tr j = if due j = true then .single (echoId j) (outcomeOf reg tr (msgOf j)) else .noBody := by
  have hel := element_contribution reg tr (msgOf j)
  unfold respond dispatch
  rw [readBatch_single j h]
  simp only [Bool.false_eq_true, if_false]
  unfold handleMsg
  simp only []
  rw [due_eq]
  cases hi : handleImmediate (msgOf j) <;> cases hd : dueM (msgOf j) <;> simp [hi, hd] at hel ⊢
  · rw [hel]
  · rw [hel]; rfl

-- ---- (a) totality ----------------------------------------------------------------------------------------------

/-- T1 `respond_total`: for every registry, both connection kinds and EVERY JSON value the dispatch reaches none of its
    panic sites — the nil dereference in handleImmediate, `reqs[0]`, `msg.Method[0:-1]`: no request terminates the server
    from the dispatch logic -/
theorem respond_total (reg : Registry) (tr : Transport) (j : Json) : respond reg tr j ≠ .panic := by
  cases hj : j.isArr with
  | false =>
    rw [single_reply reg tr j hj]
    split <;> (intro h; cases h)
  | true =>
    cases j with
    | arr items =>
      cases items with
      | nil => rw [empty_batch]; intro h; cases h
      | cons a b =>
        rw [batch_replies reg tr (a :: b) (by simp)]
        unfold shapeOf
        split <;> (intro h; cases h)
    | _ => cases hj

-- ---- (b) one reply per element that is due one, in order, with its id ------------------------------------------

/-- T2 `batch_reply_count`: a non-empty batch is answered with exactly one reply per element that is neither a notification
    nor response-shaped, in the order of the elements, each carrying the element's id when it has a valid one and null
    otherwise; a batch none of whose elements is due a reply gets no body at all, every other batch gets one array -/
theorem batch_reply_count (reg : Registry) (tr : Transport) (items : List Json) (h : items ≠ []) :
    (respond reg tr (.arr items)).replies.length = (items.filter due).length ∧
    (respond reg tr (.arr items)).replies.map (·.1) = (items.filter due).map echoId ∧
    (respond reg tr (.arr items) = .noBody ↔ items.filter due = []) ∧
    (items.filter due ≠ [] → respond reg tr (.arr items) = .batch ((items.filter due).map (replyOf reg tr))) := by
  rw [batch_replies reg tr items h]
  unfold shapeOf
  cases hd : items.filter due with
  | nil => simp [Response.replies]
  | cons a b => simp [Response.replies, replyOf]

-- ---- (c) hostile messages get −32600 ---------------------------------------------------------------------------

/-- every JSON value that is not an object — null, booleans, numbers, strings, arrays (as ELEMENTS of a batch) — decodes to
    the zero message: invalid, no id -/
theorem non_object_is_invalid (j : Json) (h : j.isObj = false) : classify j = .invalid ∧ echoId j = .null := by
  have hz : Msg.zero.kind = .invalid ∧ Msg.zero.echoId = .null := by decide
  cases j with
  | obj fs => cases h
  | null => exact hz
  | bool b => exact hz
  | num l => exact hz
  | str s => exact hz
  | arr items => exact hz

/-- a message without a (non-empty, string) method is invalid unless it is response-shaped -/
theorem no_method_invalid_or_response (m : Msg) (h : m.method = "") : m.kind = .invalid ∨ m.kind = .response := by
  unfold Msg.kind Msg.isNotification Msg.isCall
  simp only [h]
  cases m.isResponse <;> simp

/-- an invalid message is due a reply, and that reply is error −32600 -/
theorem invalid_reply (reg : Registry) (tr : Transport) (j : Json) (h : classify j = .invalid) :
    due j = true ∧ replyOf reg tr j = (echoId j, .err invalidRequest) := by
  have hk : (msgOf j).kind = .invalid := h
  refine ⟨by simp [due, h], ?_⟩
  unfold replyOf outcomeOf
  have : (msgOf j).isCall = false := by
    unfold Msg.kind at hk
    cases hn : (msgOf j).isNotification <;> cases hc : (msgOf j).isCall <;> simp [hn, hc] at hk ⊢
  simp [this]

/-- T3 `hostile_elements_get_invalid_request`: a single message that is invalid — every JSON value that is not an object,
    and every object without a method that is not response-shaped (and an object with a method whose id is an object or
    array) — is answered by exactly one error object with code −32600 and the echoed id (null when it has no valid one);
    and every such ELEMENT of a batch has that reply in the batch's answer -/
theorem hostile_elements_get_invalid_request (reg : Registry) (tr : Transport) :
    (∀ j : Json, j.isArr = false → classify j = .invalid →
        respond reg tr j = .single (echoId j) (.err invalidRequest)) ∧
    (∀ (items : List Json) (j : Json), j ∈ items → classify j = .invalid →
        (echoId j, Outcome.err invalidRequest) ∈ (respond reg tr (.arr items)).replies) := by
  constructor
  · intro j hb hk
    have := invalid_reply reg tr j hk
    rw [single_reply reg tr j hb, this.1]
    simp only [if_true]
    have h2 := this.2
    unfold replyOf at h2
    rw [(Prod.mk.inj h2).2]
  · intro items j hj hk
    have hne : items ≠ [] := by intro h; rw [h] at hj; cases hj
    have hinv := invalid_reply reg tr j hk
    have hmem : j ∈ items.filter due := List.mem_filter.mpr ⟨hj, hinv.1⟩
    have hrep : replyOf reg tr j ∈ (items.filter due).map (replyOf reg tr) := List.mem_map_of_mem hmem
    rw [hinv.2] at hrep
    rw [batch_replies reg tr items hne]
    unfold shapeOf
    cases hl : (items.filter due).map (replyOf reg tr) with
    | nil => rw [hl] at hrep; cases hrep
    | cons a b => simp only [Response.replies]; rw [← hl]; exact hrep

/-- hostile elements, the non-object half spelled out: a batch element of any non-object kind is answered −32600, id null -/
theorem non_object_element_reply (reg : Registry) (tr : Transport) (items : List Json) (j : Json) (hj : j ∈ items)
    (h : j.isObj = false) : (Id.null, Outcome.err invalidRequest) ∈ (respond reg tr (.arr items)).replies := by
  have hn := non_object_is_invalid j h
  have := (hostile_elements_get_invalid_request reg tr).2 items j hj hn.1
  rw [hn.2] at this
  exact this

-- ---- (e) ids ---------------------------------------------------------------------------------------------------

/-- T5 `valid_id_kinds`: `hasValidID` as coded — an id is valid iff it is present and not an object or array: strings,
    numbers, null AND booleans (JSON-RPC 2.0 does not allow booleans); a valid id is echoed as it is -/
theorem valid_id_kinds (v : Json) :
    (v.toIdField = .compound ↔ (v.isArr = true ∨ v.isObj = true)) ∧
    (v.toIdField = .scalar .null ↔ v.isNull = true) ∧
    (∀ b, Json.toIdField (.bool b) = .scalar (.bool b)) ∧
    (∀ l, Json.toIdField (.num l) = .scalar (.num l)) ∧
    (∀ s, Json.toIdField (.str s) = .scalar (.str s)) ∧
    v.toIdField ≠ .absent := by
  cases v <;> simp [Json.toIdField, Json.isArr, Json.isObj, Json.isNull]

theorem has_valid_id_iff (m : Msg) : m.hasValidID = true ↔ ∃ i, m.id = .scalar i := by
  unfold Msg.hasValidID
  cases m.id <;> simp

theorem fieldOf_members :
    fieldOf "jsonrpc" = some .version ∧ fieldOf "id" = some .id ∧ fieldOf "method" = some .method ∧
    fieldOf "params" = some .params ∧ fieldOf "error" = some .error ∧ fieldOf "result" = some .result ∧
    fieldOf "ID" = some .id ∧ fieldOf "Method" = some .method ∧ fieldOf "reſult" = some .result ∧
    fieldOf "" = none ∧ fieldOf "idx" = none ∧ fieldOf "method " = none := by decide

/-- `{"id": v, "method": s}` (any registry, any method string — the empty one counts as no method): exactly one reply
    object, carrying v when v is a scalar and null when v is an object or array (then with −32600) -/
theorem call_echoes_id (reg : Registry) (tr : Transport) (v : Json) (s : String) :
    ∃ o, respond reg tr (.obj [("id", v), ("method", .str s)]) =
      .single (match v.toIdField with | .scalar i => i | _ => .null) o := by
  have hm : msgOf (.obj [("id", v), ("method", .str s)]) = { id := v.toIdField, method := s } := by
    simp [msgOf, decodeMsg, List.foldl, setField, fieldOf_members.2.1, fieldOf_members.2.2.1, Msg.zero]
  have hidne := (valid_id_kinds v).2.2.2.2.2
  have hnn : (msgOf (.obj [("id", v), ("method", .str s)])).isNotification = false := by
    rw [hm]; unfold Msg.isNotification Msg.idAbsent
    cases hv : v.toIdField <;> simp_all
  have hdue : due (.obj [("id", v), ("method", .str s)]) = true := by
    rw [due_eq]; unfold dueM Msg.kind
    rw [hnn]
    have hr : (msgOf (.obj [("id", v), ("method", .str s)])).isResponse = false := by
      rw [hm]; simp [Msg.isResponse]
    rw [hr]
    cases (msgOf (.obj [("id", v), ("method", .str s)])).isCall <;> simp
  refine ⟨outcomeOf reg tr (msgOf (.obj [("id", v), ("method", .str s)])), ?_⟩
  rw [single_reply reg tr _ rfl, hdue]
  simp only [if_true, echoId, hm, Msg.echoId]
  cases v.toIdField <;> rfl

-- ---- (d) the former counterexample shapes, and non-vacuity -----------------------------------------------------

def reg0 : Registry :=
  { methods := [⟨"ledger", "getFrontierMomentum", []⟩, ⟨"ledger", "getMomentumsByPage", [false, false]⟩,
                ⟨"embedded.token", "getAll", [false, false]⟩],
    subscriptions := [⟨"ledger", "momentums", []⟩] }

def call (id : Json) : Json :=
  .obj [("jsonrpc", .str "2.0"), ("id", id), ("method", .str "ledger.getFrontierMomentum"), ("params", .arr [])]

def inv : Outcome := .err invalidRequest

/-- T4 `null_in_batch`: the shapes of seeded change C18-r2-3, with their replies, on both connection kinds -/
theorem null_in_batch :
    respond reg0 .http (.arr [.null]) = .batch [(.null, inv)] ∧
    respond reg0 .http (.arr [call (.num "1"), .null]) = .batch [(.num "1", .app), (.null, inv)] ∧
    respond reg0 .http (.arr [.null, call (.num "1")]) = .batch [(.null, inv), (.num "1", .app)] ∧
    respond reg0 .stream (.arr [.null]) = .batch [(.null, inv)] ∧
    respond reg0 .stream (.arr [call (.num "1"), .null, call (.str "b")]) =
      .batch [(.num "1", .app), (.null, inv), (.str "b", .app)] ∧
    respond reg0 .http .null = .single .null inv := by decide

/-- the panic outcome is not vacuous: without the nil repair of readBatch exactly these shapes reach the nil dereference,
    while a single null and every other garbage element are still answered -/
theorem unrepaired_panics :
    respondUnrepaired reg0 .http (.arr [.null]) = .panic ∧
    respondUnrepaired reg0 .stream (.arr [call (.num "1"), .null]) = .panic ∧
    respondUnrepaired reg0 .http .null = .single .null inv ∧
    respondUnrepaired reg0 .http (.arr [.num "42", .str "x", .obj [], .arr [], .bool true]) =
      .batch [(.null, inv), (.null, inv), (.null, inv), (.null, inv), (.null, inv)] := by decide

/-- the other two panic sites are not vacuous either: `namespace()` of a method without separator, `reqs[0]` of nothing -/
theorem other_panic_sites :
    handleSubscribe reg0 .stream { method := "subscribe", params := some (.arr [.str "momentums"]) } = .panic ∧
    dispatch reg0 .http ([], false) = .panic := by decide

/-- non-vacuity: every class of message and every outcome occurs -/
theorem shapes :
    -- every JSON kind as a single message
    respond reg0 .http (.num "42") = .single .null inv ∧
    respond reg0 .http (.str "x") = .single .null inv ∧
    respond reg0 .http (.bool true) = .single .null inv ∧
    respond reg0 .http (.obj []) = .single .null inv ∧
    respond reg0 .http (.arr []) = .single .null inv ∧
    respond reg0 .http (.arr [.arr []]) = .batch [(.null, inv)] ∧
    -- calls: found, not found (no separator, wrong case, unknown service), wrong number of arguments
    respond reg0 .http (call (.str "a")) = .single (.str "a") .app ∧
    respond reg0 .http (.obj [("id", .num "1"), ("method", .str "nodots")]) = .single (.num "1") (.err methodNotFound) ∧
    respond reg0 .http (.obj [("id", .num "1"), ("method", .str "ledger.GetFrontierMomentum")]) =
      .single (.num "1") (.err methodNotFound) ∧
    respond reg0 .http (.obj [("id", .num "1"), ("method", .str "embedded.token.getAll"), ("params", .arr [.num "0", .num "1"])]) =
      .single (.num "1") .app ∧
    respond reg0 .http (.obj [("id", .num "1"), ("method", .str "embedded.token.getAll"), ("params", .arr [.num "0"])]) =
      .single (.num "1") (.err invalidParams) ∧
    respond reg0 .http (.obj [("id", .num "1"), ("method", .str "ledger.getFrontierMomentum"), ("params", .arr [.num "0"])]) =
      .single (.num "1") (.err invalidParams) ∧
    respond reg0 .http (.obj [("id", .num "1"), ("method", .str "ledger.getFrontierMomentum"), ("params", .obj [])]) =
      .single (.num "1") (.err invalidParams) ∧
    respond reg0 .http (.obj [("id", .num "1"), ("method", .str "ledger.getFrontierMomentum"), ("params", .null)]) =
      .single (.num "1") .app ∧
    -- ids: null and booleans are echoed, objects and arrays are not ids
    respond reg0 .http (call .null) = .single .null .app ∧
    respond reg0 .http (call (.bool true)) = .single (.bool true) .app ∧
    respond reg0 .http (call (.num "1.50e+3")) = .single (.num "1.50e+3") .app ∧
    respond reg0 .http (call (.obj [("a", .num "1")])) = .single .null inv ∧
    respond reg0 .http (call (.arr [.num "1"])) = .single .null inv ∧
    -- no method: −32600 with the id; response-shaped: dropped; "error": null is no error member; params spoil the response
    respond reg0 .http (.obj [("id", .num "1")]) = .single (.num "1") inv ∧
    respond reg0 .http (.obj [("id", .num "1"), ("method", .num "5")]) = .single (.num "1") inv ∧
    respond reg0 .http (.obj [("id", .num "5"), ("result", .num "1")]) = .noBody ∧
    respond reg0 .http (.obj [("id", .num "5"), ("result", .null)]) = .noBody ∧
    respond reg0 .http (.obj [("id", .num "5"), ("error", .num "7")]) = .noBody ∧
    respond reg0 .http (.obj [("id", .num "5"), ("error", .null)]) = .single (.num "5") inv ∧
    respond reg0 .http (.obj [("id", .num "5"), ("result", .num "1"), ("params", .null)]) = .single (.num "5") inv ∧
    -- notifications: never answered, registered or not
    respond reg0 .http (.obj [("method", .str "ledger.getFrontierMomentum")]) = .noBody ∧
    respond reg0 .http (.obj [("method", .str "nosuch")]) = .noBody ∧
    respond reg0 .http (.arr [.obj [("method", .str "a.b")], .obj [("id", .num "5"), ("result", .num "1")]]) = .noBody ∧
    -- member names fold, repeated members overwrite, a non-string method keeps the earlier one
    respond reg0 .http (.obj [("ID", .num "7"), ("Method", .str "ledger.getFrontierMomentum")]) = .single (.num "7") .app ∧
    respond reg0 .http (.obj [("id", .num "1"), ("id", .obj []), ("method", .str "a.b")]) = .single .null inv ∧
    respond reg0 .http (.obj [("id", .num "1"), ("method", .str "ledger.getFrontierMomentum"), ("method", .num "5")]) =
      .single (.num "1") .app ∧
    -- subscriptions: refused over HTTP, resolved on a stream
    respond reg0 .http (.obj [("id", .num "1"), ("method", .str "ledger.subscribe"), ("params", .arr [.str "momentums"])]) =
      .single (.num "1") (.err defaultErrorCode) ∧
    respond reg0 .stream (.obj [("id", .num "1"), ("method", .str "ledger.subscribe"), ("params", .arr [.str "momentums"])]) =
      .single (.num "1") .app ∧
    respond reg0 .stream (.obj [("id", .num "1"), ("method", .str "ledger.subscribe"), ("params", .arr [.str "nosuch"])]) =
      .single (.num "1") (.err methodNotFound) ∧
    respond reg0 .stream (.obj [("id", .num "1"), ("method", .str ".subscribe"), ("params", .arr [])]) =
      .single (.num "1") (.err invalidParams) ∧
    respond reg0 .stream (.obj [("id", .num "1"), ("method", .str "x.unsubscribe")]) = .single (.num "1") (.err invalidParams) ∧
    respond reg0 .stream (.obj [("id", .num "1"), ("method", .str "x.unsubscribe"), ("params", .arr [.str "0x1"])]) =
      .single (.num "1") .app ∧
    respond reg0 .stream (.obj [("method", .str "ledger.subscription"), ("params", .num "5")]) = .noBody := by decide

-- ---- facts read from the working tree (Gen/RpcServer.lean) -----------------------------------------------------

/-- F1 `nil_repair_fact`: the statements `repairNil` / `decodeMsg` / `parseMessage` stand for, as they are in the tree:
    parseMessage decodes a single message into `&msgs[0]` and every batch element into `&msgs[len(msgs)-1]` — a pointer to
    the slice slot, which JSON null sets to nil — and readBatch, after parseMessage and before it returns, replaces EVERY nil
    slot by `new(jsonrpcMessage)`; isBatch looks at the first non-blank byte. There is exactly one nil repair and it is
    the loop over all messages in readBatch. -/
theorem nil_repair_fact :
    Gen.rpcsrvNilRepairs = ["readBatch: range messages / if msg == nil { messages[i] = new(jsonrpcMessage) }"] ∧
    Gen.rpcsrvReadBatchStmts =
      ["var rawmsg json.RawMessage",
       "if err := c.decode(&rawmsg); err != nil { return nil, false, err }",
       "messages, batch = parseMessage(rawmsg)",
       "for i, msg := range messages { if msg == nil { messages[i] = new(jsonrpcMessage) } }",
       "return messages, batch, nil"] ∧
    Gen.rpcsrvParseMessageStmts =
      ["if !isBatch(raw) { msgs := []*jsonrpcMessage{{}} json.Unmarshal(raw, &msgs[0]) return msgs, false }",
       "dec := json.NewDecoder(bytes.NewReader(raw))",
       "dec.Token()",
       "var msgs []*jsonrpcMessage",
       "for dec.More() { msgs = append(msgs, new(jsonrpcMessage)) dec.Decode(&msgs[len(msgs)-1]) }",
       "return msgs, true"] ∧
    Gen.rpcsrvIsBatchStmts =
      ["for _, c := range raw { if c == 0x20 || c == 0x09 || c == 0x0a || c == 0x0d { continue } return c == '[' }",
       "return false"] := by decide

/-- F2 `handle_batch_fact`: handleBatch answers the empty batch FIRST (`len(msgs) == 0` ⇒ write, return), then runs
    handleImmediate over every message, returns when no call is left, and hands the rest to one call goroutine;
    serveSingleRequest refuses subscriptions and indexes `reqs[0]` only in the non-batch branch -/
theorem handle_batch_fact :
    Gen.rpcsrvHandleBatchTop =
      ["if len(msgs) == 0 => return",
       "calls := make([]*jsonrpcMessage, 0, len(msgs))",
       "range msgs { if handled := h.handleImmediate(msg); !handled { calls = append(calls, msg) } }",
       "if len(calls) == 0 => return",
       "call h.startCallProc"] ∧
    Gen.rpcsrvHandleBatchTop.head? = some "if len(msgs) == 0 => return" ∧
    Gen.rpcsrvServeSingleRequestFlow =
      ["if atomic.LoadInt32(&s.run) == 0",
       "h := newHandler(ctx, codec, s.idgen, &s.services)",
       "h.allowSubscribe = false",
       "reqs, batch, err := codec.readBatch()",
       "if err != nil",
       "if err != io.EOF",
       "codec.writeJSON(ctx, errorMessage(&invalidMessageError{\"parse error\"}))",
       "if batch",
       "h.handleBatch(reqs)",
       "h.handleMsg(reqs[0])"] := by decide

/-- F3 `classification_fact`: the predicates `Msg.isNotification / isCall / isResponse / hasValidID / isSubscribe /
    isUnsubscribe` and `splitLastDot` were written for, the suffixes, and the member names of the message -/
theorem classification_fact :
    Gen.rpcsrvPredicates =
      ["isNotification: return msg.ID == nil && msg.Method != \"\"",
       "isCall: return msg.hasValidID() && msg.Method != \"\"",
       "isResponse: return msg.hasValidID() && msg.Method == \"\" && msg.Params == nil && (msg.Result != nil || msg.Error != nil)",
       "hasValidID: return len(msg.ID) > 0 && msg.ID[0] != '{' && msg.ID[0] != '['",
       "isSubscribe: return strings.HasSuffix(msg.Method, subscribeMethodSuffix)",
       "isUnsubscribe: return strings.HasSuffix(msg.Method, unsubscribeMethodSuffix)",
       "namespace: endIndex := strings.LastIndex(msg.Method, serviceMethodSeparator); return msg.Method[0:endIndex]"] ∧
    Gen.rpcsrvNameConsts =
      ["serviceMethodSeparator = \".\"",
       "subscribeMethodSuffix = \".subscribe\"",
       "unsubscribeMethodSuffix = \".unsubscribe\"",
       "notificationMethodSuffix = \".subscription\""] ∧
    Gen.rpcsrvMessageFields =
      ["Version string `json:\"jsonrpc,omitempty\"`",
       "ID json.RawMessage `json:\"id,omitempty\"`",
       "Method string `json:\"method,omitempty\"`",
       "Params json.RawMessage `json:\"params,omitempty\"`",
       "Error *jsonError `json:\"error,omitempty\"`",
       "Result json.RawMessage `json:\"result,omitempty\"`"] := by decide

/-- F4 `dispatch_fact`: the switches of handleImmediate and handleCallMsg, the order of the checks in handleCall /
    handleSubscribe (allowSubscribe, subscription name, namespace(), lookup, arguments) and the −1 guard of
    serviceRegistry.callback -/
theorem dispatch_fact :
    Gen.rpcsrvHandleImmediateCases =
      ["msg.isNotification() => return true | return false",
       "msg.isResponse() => return true",
       "default => return false"] ∧
    Gen.rpcsrvHandleCallMsgCases =
      ["msg.isNotification() => return nil",
       "msg.isCall() => return resp",
       "msg.hasValidID() => return msg.errorResponse(&invalidRequestError{\"invalid request\"})",
       "default => return errorMessage(&invalidRequestError{\"invalid request\"})"] ∧
    Gen.rpcsrvHandleCallFlow =
      ["if msg.isSubscribe()",
       "return h.handleSubscribe(cp, msg)",
       "if msg.isUnsubscribe()",
       "callb = h.unsubscribeCb",
       "callb = h.reg.callback(msg.Method)",
       "if callb == nil",
       "return msg.errorResponse(&methodNotFoundError{method: msg.Method})",
       "args, err := parsePositionalArguments(msg.Params, callb.argTypes)",
       "if err != nil",
       "return msg.errorResponse(&invalidParamsError{err.Error()})",
       "if callb != h.unsubscribeCb",
       "if answer.Error != nil",
       "return answer"] ∧
    Gen.rpcsrvHandleSubscribeFlow =
      ["if !h.allowSubscribe",
       "return msg.errorResponse(ErrNotificationsUnsupported)",
       "name, err := parseSubscriptionName(msg.Params)",
       "if err != nil",
       "return msg.errorResponse(&invalidParamsError{err.Error()})",
       "namespace := msg.namespace()",
       "callb := h.reg.subscription(namespace, name)",
       "if callb == nil",
       "return msg.errorResponse(&subscriptionNotFoundError{namespace, name})",
       "args, err := parsePositionalArguments(msg.Params, argTypes)",
       "if err != nil",
       "return msg.errorResponse(&invalidParamsError{err.Error()})",
       "args = args[1:]",
       "return h.runMethod(ctx, msg, callb, args)"] ∧
    Gen.rpcsrvRegistryCallbackFlow =
      ["if endIndex == -1",
       "return nil",
       "return r.services[elem[0]].callbacks[elem[1]]"] := by decide

/-- F5 `error_codes_fact`: the codes of errors.go are the constants of the model -/
theorem error_codes_fact :
    Gen.rpcsrvErrorCodes =
      ["defaultErrorCode -32000",
       "invalidMessageError -32700",
       "invalidParamsError -32602",
       "invalidRequestError -32600",
       "methodNotFoundError -32601",
       "parseError -32700",
       "subscriptionNotFoundError -32601"] ∧
    parseErrorCode = -32700 ∧ invalidRequest = -32600 ∧ methodNotFound = -32601 ∧ invalidParams = -32602 ∧
    defaultErrorCode = -32000 := by decide

/-- F6 `http_fact`: the limits of http.go and the order of validateRequest (PUT / DELETE 405, content length above 5 MiB 413,
    OPTIONS passes, media type not in the accepted list 415) — the structured requests of the stream are POSTs of
    application/json far below the limit, every one must be answered with status 200 -/
theorem http_fact :
    Gen.rpcsrvHttpConsts =
      ["maxRequestContentLength = 1024 * 1024 * 5",
       "contentType = \"application/json\"",
       "acceptedContentTypes = []string{contentType, \"application/json-rpc\", \"application/jsonrequest\"}"] ∧
    Gen.rpcsrvValidateRequestFlow =
      ["if r.Method == http.MethodPut || r.Method == http.MethodDelete",
       "return http.StatusMethodNotAllowed, errors.New(\"method not allowed\")",
       "if r.ContentLength > maxRequestContentLength",
       "return http.StatusRequestEntityTooLarge, err",
       "if r.Method == http.MethodOptions",
       "return 0, nil",
       "if err == nil",
       "if accepted == mt",
       "return 0, nil",
       "return http.StatusUnsupportedMediaType, err"] := by decide

theorem splitLastDot_none_of_not_mem (l : List Char) (hl : '.' ∉ l) : splitLastDot l = none := by
  induction l with
  | nil => rfl
  | cons c cs ih =>
    have hc : c ≠ '.' := fun e => hl (by simp [e])
    have hcs : '.' ∉ cs := fun e => hl (by simp [e])
    simp [splitLastDot, ih hcs, hc]

theorem splitLastDot_append (a b : List Char) (hb : '.' ∉ b) : splitLastDot (a ++ '.' :: b) = some (a, b) := by
  have hnone := splitLastDot_none_of_not_mem b hb
  induction a with
  | nil => simp [splitLastDot, hnone]
  | cons c cs ih => simp [splitLastDot, ih]

/-- a registry whose method names are free of the separator (a service name may contain it: "embedded.token") finds for
    every entry, under "service.method", an entry of that service and name — `serviceRegistry.callback` splits at the LAST
    separator -/
theorem registry_lookup (r : Registry) (h : ∀ c ∈ r.methods, '.' ∉ c.name.toList) (c : Callback) (hc : c ∈ r.methods) :
    ∃ c', r.callbackL (c.service.toList ++ '.' :: c.name.toList) = some c' ∧
      c'.service.toList = c.service.toList ∧ c'.name.toList = c.name.toList := by
  unfold Registry.callbackL
  rw [splitLastDot_append _ _ (h c hc)]
  simp only [findCallback]
  cases hf : r.methods.find? (fun x => decide (x.service.toList = c.service.toList) && decide (x.name.toList = c.name.toList)) with
  | none =>
    have := List.find?_eq_none.mp hf c hc
    simp at this
  | some c' =>
    have := List.find?_some hf
    simp only [Bool.and_eq_true, decide_eq_true_eq] at this
    exact ⟨c', rfl, this.1, this.2⟩

/-- F7 `registry_fact`: the registry the stream serves (and the driver evaluates `respond` with): no method name contains the
    separator (so `registry_lookup` applies: every entry is found under its qualified name), the calls of the directed
    corpus exist with the arities the model uses, the Go method name (upper-case initial) and a truncated service name do
    not, no subscriptions are registered (the subscribe API needs the node's subscription server) -/
theorem registry_fact :
    (servedRegistry.methods.all (fun c => !c.name.toList.contains '.' && c.name != "" && c.service != "")) = true ∧
    servedRegistry.methods.length = Gen.rpcsrvMethods.length ∧
    servedRegistry.callback "ledger.getFrontierMomentum" = some ⟨"ledger", "getFrontierMomentum", []⟩ ∧
    servedRegistry.callback "ledger.getMomentumsByPage" = some ⟨"ledger", "getMomentumsByPage", [false, false]⟩ ∧
    servedRegistry.callback "embedded.token.getAll" = some ⟨"embedded.token", "getAll", [false, false]⟩ ∧
    servedRegistry.callback "ledger.publishRawTransaction" = some ⟨"ledger", "publishRawTransaction", [true]⟩ ∧
    servedRegistry.callback "rpc.modules" = some ⟨"rpc", "modules", []⟩ ∧
    servedRegistry.callback "ledger.GetFrontierMomentum" = none ∧
    servedRegistry.callback "token.getAll" = none ∧
    servedRegistry.subscriptions = [] := by decide

end ZV.C18Rpc
