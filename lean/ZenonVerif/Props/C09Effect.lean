import ZenonVerif.Lemmas.ContractsJoint
import ZenonVerif.Props.C09
/-
C09, per-method effect — "either applies the call or returns exactly the sent amount", with APPLIES spelled out per
method: when the receive of a modelled method is answered "applied", the contract's storage afterwards contains
exactly the entry the call asked for — amount, owner, beneficiary, expiry / lock time, hash lock, field by field, under
the key derived from the call — every other entry is as it was, and the contract's balance moved by exactly the sent
amount minus what the method pays out; when it is answered "refused", the storage is as it was and the refund is
exactly the sent amount. Property theorems only.

  `X.Asked op s c s' ps`   what a call of method `op` of contract X asks for: relation between the storage before,
                           the call, the storage after and the descendant sends
  `vmStep`                 generateEmbeddedReceive (Model/Contracts.lean); status 1 = applied, 2 = refused and refunded
-/
namespace ZV.C09Effect
open ZV.Contracts ZV.ContractsJoint

/-- undo the guards of a method definition applied to `h : method … = some (s', ps)` -/
local macro "unwind " h:ident : tactic => `(tactic| repeat' (first | cases $h:ident | split at $h:ident))

/-! ## the generic half: applied with the method's effect, or refused with the exact refund -/

/-- E0: for ANY method whose successful outcomes satisfy `Asked`: the receive is either APPLIED — the storage and the
    descendant sends satisfy `Asked`, and the balance of every real token is the old balance + the sent amount − what
    the descendants carry — or REFUSED — storage unchanged, the descendants are exactly the refund of the sent amount
    to the sender (nothing when the amount is 0), every balance as before. -/
theorem applied_call_has_asked_effect {σ : Type} (m : Method σ) (Asked : σ → Ctx → σ → List Payout → Prop)
    (hm : ∀ s c s' ps, m s c = some (s', ps) → Asked s c s' ps) (s : σ) (bal : Bal) (c : Ctx) :
    ((vmStep m s bal c).status = 1 ∧ Asked s c (vmStep m s bal c).st (vmStep m s bal c).descs ∧
        ∀ tok, tok ≠ zeroTok → (vmStep m s bal c).bal.get tok + payTotal tok (vmStep m s bal c).descs
            = bal.get tok + (if tok = c.token then c.amount else 0)) ∨
    ((vmStep m s bal c).status = 2 ∧ (vmStep m s bal c).st = s ∧ (vmStep m s bal c).descs = refundOf c ∧
        ∀ tok, tok ≠ zeroTok → (vmStep m s bal c).bal.get tok = bal.get tok) := by
  rcases vmStep_status m s bal c with h1 | h2
  · exact Or.inl ⟨h1, hm _ _ _ _ (vmStep_applied m s bal c h1), fun tok ht => vmStep_balance_law m s bal c ht⟩
  · obtain ⟨e1, e2⟩ := vmStep_refused m s bal c h2
    refine Or.inr ⟨h2, e1, e2, fun tok ht => ?_⟩
    have := vmStep_balance_law m s bal c ht
    rw [e2] at this
    unfold refundOf at this
    by_cases hc : tok = c.token
    · subst hc
      split at this <;> simp [payTotal] at this <;> omega
    · have hc' : ¬ c.token = tok := fun e => hc e.symm
      split at this <;> simp [payTotal, hc'] at this <;> omega

/-- E0 composed with the ledger skeleton (`C09.complete_or_refund`): on the abstract ledger an accepted receive with
    status 2 emits exactly the refund and restores the contract's balances; the per-contract machine's refused branch
    says the same of its storage. The two refunds are the same list. -/
theorem refusal_is_the_ledger_refund (L L' : ZV.Ledger.State) (a : ZV.Ledger.Addr) (h : ZV.Ledger.Hash)
    (ds : List ZV.Ledger.Desc) (hok : ZV.Ledger.crecv L a h 2 ds = .ok L') :
    ∃ snd, ZV.Ledger.checkFrom L a h = .ok snd ∧ ZV.Ledger.descShape ds = ZV.Ledger.refundOf snd ∧
      (∀ (c : Ctx), c.sender = snd.src → c.token = snd.tok → c.amount = snd.amt →
        (refundOf c).map (fun p => (p.dst, p.tok, p.amt)) = ZV.Ledger.refundOf snd) := by
  obtain ⟨snd, h1, h2⟩ := ZV.C09.complete_or_refund L L' a h 2 ds hok
  rcases h2 with h2 | ⟨_, h3, _, _⟩
  · cases h2
  · refine ⟨snd, h1, h3, fun c e1 e2 e3 => ?_⟩
    simp only [refundOf, ZV.Ledger.refundOf, e1, e2, e3]
    split <;> simp

/-! ## plasma -/

/-- what a plasma call asks for -/
def PlasmaAsked (P : Params) : PlasmaOp → Plasma → Ctx → Plasma → List Payout → Prop
  | .fuse b, s, c, s', ps =>
    -- a fusion entry under (sender, send hash): the sent amount, expiring fuseExpiration momentums after the frontier,
    -- for the named beneficiary, whose fused total grows by the amount; nothing else moves; nothing is paid
    ps = [] ∧ c.token = qsrTok ∧
    lookup (c.sender, c.hash) s'.fusions = some ⟨c.amount, c.height + P.fuseExpiration, b⟩ ∧
    (∀ k, k ≠ (c.sender, c.hash) → lookup k s'.fusions = lookup k s.fusions) ∧
    s'.fusedOf b = s.fusedOf b + c.amount ∧ (∀ b', b' ≠ b → s'.fusedOf b' = s.fusedOf b')
  | .cancelFuse id, s, c, s', ps =>
    -- the caller's own entry `id`, matured: deleted, its amount paid to the caller in QSR; no other entry moves
    c.amount = 0 ∧ ∃ f, lookup (c.sender, id) s.fusions = some f ∧ f.expH ≤ c.height ∧
      ps = [⟨c.sender, qsrTok, f.amount, .none⟩] ∧ lookup (c.sender, id) s'.fusions = none ∧
      (∀ k, k ≠ (c.sender, id) → lookup k s'.fusions = lookup k s.fusions) ∧
      (∀ b', b' ≠ f.beneficiary → s'.fusedOf b' = s.fusedOf b')

/-- E1 (plasma): every successful outcome of Fuse / CancelFuse is what the call asked for -/
theorem plasma_method_effect (P : Params) (op : PlasmaOp) (s : Plasma) (c : Ctx) (s' : Plasma) (ps : List Payout)
    (h : op.method P s c = some (s', ps)) : PlasmaAsked P op s c s' ps := by
  cases op with
  | fuse b =>
    simp only [PlasmaOp.method, fuse] at h
    unwind h
    rename_i h1 _
    refine ⟨rfl, Decidable.byContradiction fun hn => h1 (Or.inl hn), lookup_put_self _ _ _, fun k hk => lookup_put_ne hk _ _, ?_, ?_⟩
    · simp [Plasma.fusedOf, lookup_put_self]
    · intro b' hb; simp [Plasma.fusedOf, lookup_put_ne hb]
  | cancelFuse id =>
    simp only [PlasmaOp.method, cancelFuse] at h
    unwind h
    rename_i h0 f hf hexp
    refine ⟨by omega, f, hf, by omega, rfl, lookup_erase_self _ _, fun k hk => lookup_erase_ne hk _, ?_⟩
    intro b' hb
    simp only [Plasma.fusedOf]
    congr 1
    by_cases hr : ((s.fusedOf f.beneficiary : Int) - f.amount) = 0
    · simp only [Plasma.fusedOf] at hr; simp [hr, lookup_erase_ne hb]
    · simp only [Plasma.fusedOf] at hr; simp [hr, lookup_put_ne hb]

/-- E1 (plasma, whole receive) -/
theorem plasma_applied_call_has_asked_effect (P : Params) (op : PlasmaOp) (s : Plasma) (bal : Bal) (c : Ctx) :
    let r := vmStep (op.method P) s bal c
    (r.status = 1 ∧ PlasmaAsked P op s c r.st r.descs ∧
        ∀ tok, tok ≠ zeroTok → r.bal.get tok + payTotal tok r.descs = bal.get tok + (if tok = c.token then c.amount else 0)) ∨
    (r.status = 2 ∧ r.st = s ∧ r.descs = refundOf c ∧ ∀ tok, tok ≠ zeroTok → r.bal.get tok = bal.get tok) :=
  applied_call_has_asked_effect (op.method P) (PlasmaAsked P op) (plasma_method_effect P op) s bal c

/-! ## stake -/

def StakeAsked (P : Params) : StakeOp → Stake → Ctx → Stake → List Payout → Prop
  | .stake d, s, c, s', ps =>
    ps = [] ∧ c.token = znnTok ∧
    lookup (c.sender, c.hash) s'.entries = some ⟨c.amount, weightedStake P c.amount d, c.now, 0, c.now + d⟩ ∧
    (∀ k, k ≠ (c.sender, c.hash) → lookup k s'.entries = lookup k s.entries)
  | .cancel id, s, c, s', ps =>
    c.amount = 0 ∧ ∃ e, lookup (c.sender, id) s.entries = some e ∧ e.expiration ≤ c.now ∧
      ps = [⟨c.sender, znnTok, e.amount, .none⟩] ∧
      lookup (c.sender, id) s'.entries = some { e with revoke := c.now, amount := 0 } ∧
      (∀ k, k ≠ (c.sender, id) → lookup k s'.entries = lookup k s.entries)

/-- E2 (stake): every successful outcome of Stake / Cancel is what the call asked for -/
theorem stake_method_effect (P : Params) (op : StakeOp) (s : Stake) (c : Ctx) (s' : Stake) (ps : List Payout)
    (h : op.method P s c = some (s', ps)) : StakeAsked P op s c s' ps := by
  cases op with
  | stake d =>
    simp only [StakeOp.method, stake] at h
    unwind h
    rename_i h1 _
    exact ⟨rfl, Decidable.byContradiction fun hn => h1 (Or.inr hn), lookup_put_self _ _ _, fun k hk => lookup_put_ne hk _ _⟩
  | cancel id =>
    simp only [StakeOp.method, cancelStake] at h
    unwind h
    rename_i h0 _ e he hexp
    exact ⟨Decidable.byContradiction fun hn => h0 hn, e, he, by omega, rfl, lookup_put_self _ _ _, fun k hk => lookup_put_ne hk _ _⟩

theorem stake_applied_call_has_asked_effect (P : Params) (op : StakeOp) (s : Stake) (bal : Bal) (c : Ctx) :
    let r := vmStep (op.method P) s bal c
    (r.status = 1 ∧ StakeAsked P op s c r.st r.descs ∧
        ∀ tok, tok ≠ zeroTok → r.bal.get tok + payTotal tok r.descs = bal.get tok + (if tok = c.token then c.amount else 0)) ∨
    (r.status = 2 ∧ r.st = s ∧ r.descs = refundOf c ∧ ∀ tok, tok ≠ zeroTok → r.bal.get tok = bal.get tok) :=
  applied_call_has_asked_effect (op.method P) (StakeAsked P op) (stake_method_effect P op) s bal c

/-! ## htlc -/

def HtlcAsked (H : HashFn) : HtlcOp → Htlc → Ctx → Htlc → List Payout → Prop
  | .create hashLocked expiration hashType keyMax hashLock, s, c, s', ps =>
    ps = [] ∧ s'.proxy = s.proxy ∧
    lookup c.hash s'.entries = some ⟨c.sender, hashLocked, c.token, c.amount, expiration, hashType, keyMax, hashLock⟩ ∧
    (∀ k, k ≠ c.hash → lookup k s'.entries = lookup k s.entries)
  | .reclaim id, s, c, s', ps =>
    s'.proxy = s.proxy ∧ ∃ e, lookup id s.entries = some e ∧ e.timeLocked = c.sender ∧ e.expiration ≤ c.now ∧
      ps = [⟨e.timeLocked, e.tok, e.amount, .none⟩] ∧ lookup id s'.entries = none ∧
      (∀ k, k ≠ id → lookup k s'.entries = lookup k s.entries)
  | .unlock id pre, s, c, s', ps =>
    s'.proxy = s.proxy ∧ ∃ e, lookup id s.entries = some e ∧ c.now < e.expiration ∧ H e.hashType pre = e.hashLock ∧
      ps = [⟨e.hashLocked, e.tok, e.amount, .none⟩] ∧ lookup id s'.entries = none ∧
      (∀ k, k ≠ id → lookup k s'.entries = lookup k s.entries)
  | .deny, s, c, s', ps =>
    ps = [] ∧ s'.entries = s.entries ∧ lookup c.sender s'.proxy = some false ∧ (∀ a, a ≠ c.sender → lookup a s'.proxy = lookup a s.proxy)
  | .allow, s, c, s', ps =>
    ps = [] ∧ s'.entries = s.entries ∧ lookup c.sender s'.proxy = some true ∧ (∀ a, a ≠ c.sender → lookup a s'.proxy = lookup a s.proxy)

/-- E3 (htlc): every successful outcome of Create / Reclaim / Unlock / Deny / AllowProxyUnlock is what the call asked for -/
theorem htlc_method_effect (H : HashFn) (op : HtlcOp) (s : Htlc) (c : Ctx) (s' : Htlc) (ps : List Payout)
    (h : op.method H s c = some (s', ps)) : HtlcAsked H op s c s' ps := by
  cases op with
  | create a ex ty km hl =>
    simp only [HtlcOp.method, createHtlc] at h
    unwind h
    exact ⟨rfl, rfl, lookup_put_self _ _ _, fun k hk => lookup_put_ne hk _ _⟩
  | reclaim id =>
    simp only [HtlcOp.method, reclaimHtlc] at h
    unwind h
    rename_i _ e he howner hexp
    exact ⟨rfl, e, he, Decidable.byContradiction fun hn => howner hn, by omega, rfl, lookup_erase_self _ _, fun k hk => lookup_erase_ne hk _⟩
  | unlock id pre =>
    simp only [HtlcOp.method, unlockHtlc] at h
    unwind h
    rename_i _ e he _ hexp _ hhash
    exact ⟨rfl, e, he, by omega, Decidable.byContradiction fun hn => hhash hn, rfl, lookup_erase_self _ _, fun k hk => lookup_erase_ne hk _⟩
  | deny =>
    simp only [HtlcOp.method, setProxyUnlock] at h
    unwind h
    exact ⟨rfl, rfl, lookup_put_self _ _ _, fun a ha => lookup_put_ne ha _ _⟩
  | allow =>
    simp only [HtlcOp.method, setProxyUnlock] at h
    unwind h
    exact ⟨rfl, rfl, lookup_put_self _ _ _, fun a ha => lookup_put_ne ha _ _⟩

theorem htlc_applied_call_has_asked_effect (H : HashFn) (op : HtlcOp) (s : Htlc) (bal : Bal) (c : Ctx) :
    let r := vmStep (op.method H) s bal c
    (r.status = 1 ∧ HtlcAsked H op s c r.st r.descs ∧
        ∀ tok, tok ≠ zeroTok → r.bal.get tok + payTotal tok r.descs = bal.get tok + (if tok = c.token then c.amount else 0)) ∨
    (r.status = 2 ∧ r.st = s ∧ r.descs = refundOf c ∧ ∀ tok, tok ≠ zeroTok → r.bal.get tok = bal.get tok) :=
  applied_call_has_asked_effect (op.method H) (HtlcAsked H op) (htlc_method_effect H op) s bal c

/-! ## liquidity stakes -/

def LiquidityAsked (P : Params) : LiquidityOp → Liquidity → Ctx → Liquidity → List Payout → Prop
  | .stake d, s, c, s', ps =>
    ps = [] ∧ s'.tuples = s.tuples ∧
    lookup (c.sender, c.hash) s'.entries = some ⟨c.amount, c.token, weightedLiquidityStake P c.amount d, c.now, 0, c.now + d⟩ ∧
    (∀ k, k ≠ (c.sender, c.hash) → lookup k s'.entries = lookup k s.entries)
  | .cancel id, s, c, s', ps =>
    s'.tuples = s.tuples ∧ ∃ e, lookup (c.sender, id) s.entries = some e ∧ e.expiration ≤ c.now ∧
      ps = [⟨c.sender, e.tok, e.amount, .none⟩] ∧
      lookup (c.sender, id) s'.entries = some { e with revoke := c.now, amount := 0 } ∧
      (∀ k, k ≠ (c.sender, id) → lookup k s'.entries = lookup k s.entries)

/-- E4 (liquidity): every successful outcome of LiquidityStake / CancelLiquidityStake is what the call asked for -/
theorem liquidity_method_effect (P : Params) (op : LiquidityOp) (s : Liquidity) (c : Ctx) (s' : Liquidity) (ps : List Payout)
    (h : op.method P s c = some (s', ps)) : LiquidityAsked P op s c s' ps := by
  cases op with
  | stake d =>
    simp only [LiquidityOp.method, liquidityStake] at h
    unwind h
    exact ⟨rfl, rfl, lookup_put_self _ _ _, fun k hk => lookup_put_ne hk _ _⟩
  | cancel id =>
    simp only [LiquidityOp.method, cancelLiquidityStake] at h
    unwind h
    rename_i _ e he hexp
    exact ⟨rfl, e, he, by omega, rfl, lookup_put_self _ _ _, fun k hk => lookup_put_ne hk _ _⟩

theorem liquidity_applied_call_has_asked_effect (P : Params) (op : LiquidityOp) (s : Liquidity) (bal : Bal) (c : Ctx) :
    let r := vmStep (op.method P) s bal c
    (r.status = 1 ∧ LiquidityAsked P op s c r.st r.descs ∧
        ∀ tok, tok ≠ zeroTok → r.bal.get tok + payTotal tok r.descs = bal.get tok + (if tok = c.token then c.amount else 0)) ∨
    (r.status = 2 ∧ r.st = s ∧ r.descs = refundOf c ∧ ∀ tok, tok ≠ zeroTok → r.bal.get tok = bal.get tok) :=
  applied_call_has_asked_effect (op.method P) (LiquidityAsked P op) (liquidity_method_effect P op) s bal c

/-! ## QSR deposits, pillar, sentinel -/

/-- what checkAndConsumeQsr does to the deposits: exactly `required` less for the owner, nobody else's moves -/
theorem consumeQsr_exact (d d' : Deposits) (owner : Addr) (required : Nat) (h : consumeQsr d owner required = some d') :
    depositOf d' owner + required = depositOf d owner ∧ ∀ a, a ≠ owner → depositOf d' a = depositOf d a := by
  unfold consumeQsr at h
  unwind h
  · rename_i h1 h2
    exact ⟨by simp [depositOf, lookup_erase_self] at *; omega, fun a ha => by simp [depositOf, lookup_erase_ne ha]⟩
  · rename_i h1 h2
    exact ⟨by simp [depositOf, lookup_put_self] at *; omega, fun a ha => by simp [depositOf, lookup_put_ne ha]⟩

/-- the effect of DepositQsr / WithdrawQsr on a deposit table -/
def DepositAsked (d : Deposits) (c : Ctx) (d' : Deposits) (ps : List Payout) : Prop :=
  ps = [] ∧ c.token = qsrTok ∧ depositOf d' c.sender = depositOf d c.sender + c.amount ∧ ∀ a, a ≠ c.sender → depositOf d' a = depositOf d a

def WithdrawAsked (d : Deposits) (c : Ctx) (d' : Deposits) (ps : List Payout) : Prop :=
  c.amount = 0 ∧ ps = [⟨c.sender, qsrTok, depositOf d c.sender, .none⟩] ∧ depositOf d' c.sender = 0 ∧
    ∀ a, a ≠ c.sender → depositOf d' a = depositOf d a

theorem depositQsr_effect (d d' : Deposits) (c : Ctx) (h : depositQsr d c = some d') : DepositAsked d c d' [] := by
  unfold depositQsr at h
  unwind h
  rename_i h1
  exact ⟨rfl, Decidable.byContradiction fun hn => h1 (Or.inl hn), by simp [depositOf, lookup_put_self],
    fun a ha => by simp [depositOf, lookup_put_ne ha]⟩

theorem withdrawQsr_effect (d d' : Deposits) (c : Ctx) (ps : List Payout) (h : withdrawQsr d c = some (d', ps)) :
    WithdrawAsked d c d' ps := by
  obtain ⟨h1, _, h3, h4, _⟩ := withdrawQsr_law h
  subst h4
  exact ⟨h1, h3, by simp [depositOf, lookup_erase_self], fun a ha => by simp [depositOf, lookup_erase_ne ha]⟩

def PillarAsked (P : Params) : PillarOp → Pillar → Ctx → Pillar → List Payout → Prop
  | .register name producer reward pb pd _, s, c, s', ps =>
    -- the pillar entry under the name: owner = sender, the constant collateral, registered at the frontier time, active,
    -- producer / reward address / percentages of the call; the QSR cost taken from the sender's deposit and burned
    ps = [⟨tokenContract, qsrTok, pillarQsrCost P s, .burn⟩] ∧ c.token = znnTok ∧ c.amount = P.pillarStakeAmount ∧
    lookup name s.pillars = none ∧
    lookup name s'.pillars = some ⟨c.sender, P.pillarStakeAmount, c.now, 0, producer, reward, ZV.Gen.NormalPillarType, pb, pd⟩ ∧
    (∀ k, k ≠ name → lookup k s'.pillars = lookup k s.pillars) ∧
    lookup producer s'.producing = some name ∧ s'.delegations = s.delegations ∧
    depositOf s'.deposits c.sender + pillarQsrCost P s = depositOf s.deposits c.sender ∧
    (∀ a, a ≠ c.sender → depositOf s'.deposits a = depositOf s.deposits a)
  | .revoke name _, s, c, s', ps =>
    c.amount = 0 ∧ ∃ p, lookup name s.pillars = some p ∧ p.revokeTime = 0 ∧ p.stakeAddr = c.sender ∧
      ps = [⟨p.stakeAddr, znnTok, P.pillarStakeAmount, .none⟩] ∧
      lookup name s'.pillars = some { p with revokeTime := c.now, amount := 0 } ∧
      (∀ k, k ≠ name → lookup k s'.pillars = lookup k s.pillars) ∧
      s'.deposits = s.deposits ∧ s'.delegations = s.delegations ∧ s'.producing = s.producing
  | .update name producer reward pb pd _, s, c, s', ps =>
    ps = [] ∧ ∃ p, lookup name s.pillars = some p ∧ p.stakeAddr = c.sender ∧ p.revokeTime = 0 ∧
      lookup name s'.pillars = some { p with producer := producer, reward := reward, pctBlock := pb, pctDelegate := pd } ∧
      (∀ k, k ≠ name → lookup k s'.pillars = lookup k s.pillars) ∧
      s'.deposits = s.deposits ∧ s'.delegations = s.delegations
  | .delegate name _, s, c, s', ps =>
    ps = [] ∧ lookup c.sender s'.delegations = some name ∧ (∀ a, a ≠ c.sender → lookup a s'.delegations = lookup a s.delegations) ∧
      s'.pillars = s.pillars ∧ s'.deposits = s.deposits ∧ s'.producing = s.producing
  | .undelegate, s, c, s', ps =>
    ps = [] ∧ lookup c.sender s'.delegations = none ∧ (∀ a, a ≠ c.sender → lookup a s'.delegations = lookup a s.delegations) ∧
      s'.pillars = s.pillars ∧ s'.deposits = s.deposits ∧ s'.producing = s.producing
  | .deposit, s, c, s', ps =>
    DepositAsked s.deposits c s'.deposits ps ∧ s'.pillars = s.pillars ∧ s'.delegations = s.delegations ∧ s'.producing = s.producing
  | .withdraw, s, c, s', ps =>
    WithdrawAsked s.deposits c s'.deposits ps ∧ s'.pillars = s.pillars ∧ s'.delegations = s.delegations ∧ s'.producing = s.producing

/-- E5 (pillar): every successful outcome of Register / Revoke / UpdatePillar / Delegate / Undelegate / DepositQsr /
    WithdrawQsr is what the call asked for -/
theorem pillar_method_effect (P : Params) (op : PillarOp) (s : Pillar) (c : Ctx) (s' : Pillar) (ps : List Payout)
    (h : op.method P s c = some (s', ps)) : PillarAsked P op s c s' ps := by
  cases op with
  | register name producer reward pb pd ok =>
    obtain ⟨ht, ha, hn, d', hd, hs, hp⟩ := registerPillar_spec h
    subst hs
    obtain ⟨e1, e2⟩ := consumeQsr_exact _ _ _ _ hd
    exact ⟨hp, ht, ha, hn, lookup_put_self _ _ _, fun k hk => lookup_put_ne hk _ _, lookup_put_self _ _ _, rfl, e1, e2⟩
  | revoke name ok =>
    obtain ⟨ha, p, hp, hrev, howner, _, hs, hps⟩ := revokePillar_spec h
    subst hs
    exact ⟨ha, p, hp, hrev, howner, hps, lookup_put_self _ _ _, fun k hk => lookup_put_ne hk _ _, rfl, rfl, rfl⟩
  | update name producer reward pb pd ok =>
    simp only [PillarOp.method, updatePillar] at h
    unwind h
    rename_i _ p hp howner hrev _
    exact ⟨rfl, p, hp, Decidable.byContradiction fun hn => howner hn, Decidable.byContradiction fun hn => hrev hn,
      lookup_put_self _ _ _, fun k hk => lookup_put_ne hk _ _, rfl, rfl⟩
  | delegate name ok =>
    simp only [PillarOp.method, delegate] at h
    unwind h
    exact ⟨rfl, lookup_put_self _ _ _, fun a ha => lookup_put_ne ha _ _, rfl, rfl, rfl⟩
  | undelegate =>
    simp only [PillarOp.method, undelegate] at h
    unwind h
    exact ⟨rfl, lookup_erase_self _ _, fun a ha => lookup_erase_ne ha _, rfl, rfl, rfl⟩
  | deposit =>
    simp only [PillarOp.method, pillarDeposit] at h
    unwind h
    rename_i d hd
    exact ⟨depositQsr_effect _ _ _ hd, rfl, rfl, rfl⟩
  | withdraw =>
    simp only [PillarOp.method, pillarWithdraw] at h
    unwind h
    rename_i hd
    exact ⟨withdrawQsr_effect _ _ _ _ hd, rfl, rfl, rfl⟩

theorem pillar_applied_call_has_asked_effect (P : Params) (op : PillarOp) (s : Pillar) (bal : Bal) (c : Ctx) :
    let r := vmStep (op.method P) s bal c
    (r.status = 1 ∧ PillarAsked P op s c r.st r.descs ∧
        ∀ tok, tok ≠ zeroTok → r.bal.get tok + payTotal tok r.descs = bal.get tok + (if tok = c.token then c.amount else 0)) ∨
    (r.status = 2 ∧ r.st = s ∧ r.descs = refundOf c ∧ ∀ tok, tok ≠ zeroTok → r.bal.get tok = bal.get tok) :=
  applied_call_has_asked_effect (op.method P) (PillarAsked P op) (pillar_method_effect P op) s bal c

/-- E5′ (pillar, legacy registration): the entry of the call, of the legacy type; the QSR taken from the caller's
    deposit and burned is the constant base amount -/
theorem registerLegacyPillar_effect (P : Params) (name : Hash) (producer reward : Addr) (pb pd : Nat) (ok slot : Bool)
    (s s' : Pillar) (c : Ctx) (ps : List Payout)
    (h : registerLegacyPillar P name producer reward pb pd ok slot s c = some (s', ps)) :
    ps = [⟨tokenContract, qsrTok, P.pillarQsrBase, .burn⟩] ∧ c.token = znnTok ∧ c.amount = P.pillarStakeAmount ∧ slot = true ∧
    lookup name s.pillars = none ∧
    lookup name s'.pillars = some ⟨c.sender, P.pillarStakeAmount, c.now, 0, producer, reward, ZV.Gen.LegacyPillarType, pb, pd⟩ ∧
    (∀ k, k ≠ name → lookup k s'.pillars = lookup k s.pillars) ∧ s'.delegations = s.delegations ∧
    depositOf s'.deposits c.sender + P.pillarQsrBase = depositOf s.deposits c.sender ∧
    (∀ a, a ≠ c.sender → depositOf s'.deposits a = depositOf s.deposits a) := by
  obtain ⟨ht, ha, hn, hslot, d', hd, hs, hp⟩ := registerLegacyPillar_spec h
  subst hs
  obtain ⟨e1, e2⟩ := consumeQsr_exact _ _ _ _ hd
  exact ⟨hp, ht, ha, hslot, hn, lookup_put_self _ _ _, fun k hk => lookup_put_ne hk _ _, rfl, e1, e2⟩

def SentinelAsked (P : Params) : SentinelOp → Sentinel → Ctx → Sentinel → List Payout → Prop
  | .register, s, c, s', ps =>
    ps = [] ∧ c.token = znnTok ∧ c.amount = P.sentinelZnn ∧ lookup c.sender s.entries = none ∧
    lookup c.sender s'.entries = some ⟨c.now, 0, P.sentinelZnn, P.sentinelQsr⟩ ∧
    (∀ k, k ≠ c.sender → lookup k s'.entries = lookup k s.entries) ∧
    depositOf s'.deposits c.sender + P.sentinelQsr = depositOf s.deposits c.sender ∧
    (∀ a, a ≠ c.sender → depositOf s'.deposits a = depositOf s.deposits a)
  | .revoke, s, c, s', ps =>
    c.amount = 0 ∧ ∃ e, lookup c.sender s.entries = some e ∧ e.revokeTime = 0 ∧
      ps = [⟨c.sender, znnTok, e.znn, .none⟩, ⟨c.sender, qsrTok, e.qsr, .none⟩] ∧
      lookup c.sender s'.entries = some { e with revokeTime := c.now, znn := 0, qsr := 0 } ∧
      (∀ k, k ≠ c.sender → lookup k s'.entries = lookup k s.entries) ∧ s'.deposits = s.deposits
  | .deposit, s, c, s', ps => DepositAsked s.deposits c s'.deposits ps ∧ s'.entries = s.entries
  | .withdraw, s, c, s', ps => WithdrawAsked s.deposits c s'.deposits ps ∧ s'.entries = s.entries

/-- E6 (sentinel): every successful outcome of Register / Revoke / DepositQsr / WithdrawQsr is what the call asked for -/
theorem sentinel_method_effect (P : Params) (op : SentinelOp) (s : Sentinel) (c : Ctx) (s' : Sentinel) (ps : List Payout)
    (h : op.method P s c = some (s', ps)) : SentinelAsked P op s c s' ps := by
  cases op with
  | register =>
    obtain ⟨ht, ha, hn, d', hd, hs, hp⟩ := registerSentinel_spec h
    subst hs
    obtain ⟨e1, e2⟩ := consumeQsr_exact _ _ _ _ hd
    exact ⟨hp, ht, ha, hn, lookup_put_self _ _ _, fun k hk => lookup_put_ne hk _ _, e1, e2⟩
  | revoke =>
    obtain ⟨ha, e, he, hrev, _, hs, hps⟩ := revokeSentinel_spec h
    subst hs
    exact ⟨ha, e, he, hrev, hps, lookup_put_self _ _ _, fun k hk => lookup_put_ne hk _ _, rfl⟩
  | deposit =>
    simp only [SentinelOp.method, sentinelDeposit] at h
    unwind h
    rename_i d hd
    exact ⟨depositQsr_effect _ _ _ hd, rfl⟩
  | withdraw =>
    simp only [SentinelOp.method, sentinelWithdraw] at h
    unwind h
    rename_i hd
    exact ⟨withdrawQsr_effect _ _ _ _ hd, rfl⟩

theorem sentinel_applied_call_has_asked_effect (P : Params) (op : SentinelOp) (s : Sentinel) (bal : Bal) (c : Ctx) :
    let r := vmStep (op.method P) s bal c
    (r.status = 1 ∧ SentinelAsked P op s c r.st r.descs ∧
        ∀ tok, tok ≠ zeroTok → r.bal.get tok + payTotal tok r.descs = bal.get tok + (if tok = c.token then c.amount else 0)) ∨
    (r.status = 2 ∧ r.st = s ∧ r.descs = refundOf c ∧ ∀ tok, tok ≠ zeroTok → r.bal.get tok = bal.get tok) :=
  applied_call_has_asked_effect (op.method P) (SentinelAsked P op) (sentinel_method_effect P op) s bal c

/-! ## reward bookkeeping and donations (Model/ContractsJoint.lean) -/

/-- E7: Donate, the reward Update of pillar / sentinel and CollectReward write no entry of the modelled storage; Donate
    and Update emit nothing, CollectReward emits only zero-amount Mint calls to the token contract naming the caller —
    so an applied Donate raises the balance by exactly the sent amount and the others leave it as it was -/
theorem bookkeeping_effect {σ : Type} (s s' : σ) (c : Ctx) (ps : List Payout) :
    ((donate : Method σ) s c = some (s', ps) → s' = s ∧ ps = []) ∧
    (∀ ok, (rewardUpdate ok : Method σ) s c = some (s', ps) → s' = s ∧ ps = [] ∧ c.amount = 0) ∧
    (∀ rw, (collectReward rw : Method σ) s c = some (s', ps) → s' = s ∧ c.amount = 0 ∧ ps ≠ [] ∧
        ∀ p ∈ ps, p.dst = tokenContract ∧ p.amt = 0 ∧ ∃ t a, p.call = .mint t a c.sender ∧ (t, a) ∈ rw) := by
  refine ⟨fun h => ?_, fun ok h => ?_, fun rw h => ?_⟩
  · simp only [donate, Option.some.injEq, Prod.mk.injEq] at h
    exact ⟨h.1.symm, h.2.symm⟩
  · unfold rewardUpdate at h
    unwind h
    rename_i h0 _
    exact ⟨rfl, rfl, Decidable.byContradiction fun hn => h0 hn⟩
  · unfold collectReward at h
    unwind h
    rename_i h0 h1
    refine ⟨rfl, Decidable.byContradiction fun hn => h0 hn, ?_, ?_⟩
    · cases rw with
      | nil => simp at h1
      | cons a r => simp
    · intro p hp
      obtain ⟨m, hm, rfl⟩ := List.mem_map.1 hp
      exact ⟨rfl, rfl, m.1, m.2, rfl, hm⟩

/-! ## bridge: unwrap requests -/

/-- E8 (bridge): UnwrapToken records exactly the signed request (recipient, foreign token, paired token standard,
    amount, registration height = frontier height, not redeemed, not revoked) under (transaction hash, log index) and
    nothing else; Redeem sets the redeemed flag of that request and pays / mints exactly its amount to its recipient;
    RevokeUnwrapRequest sets its revoked flag; no other request moves. -/
theorem bridge_method_effect (s s' : Bridge) (c : Ctx) (ps : List Payout) :
    (∀ canAct sigOk pair tx log to ta amount, unwrapToken canAct sigOk pair tx log to ta amount s c = some (s', ps) →
        ps = [] ∧ lookup (tx, log) s.requests = none ∧ ∃ p, pair = some p ∧
        lookup (tx, log) s'.requests = some ⟨c.height, to, ta, p.tok, amount, 0, 0⟩ ∧
        ∀ k, k ≠ (tx, log) → lookup k s'.requests = lookup k s.requests) ∧
    (∀ canAct pair tx log, redeemUnwrap canAct pair tx log s c = some (s', ps) →
        ∃ r p, lookup (tx, log) s.requests = some r ∧ pair = some p ∧ r.redeemed = 0 ∧ r.revoked = 0 ∧
        lookup (tx, log) s'.requests = some { r with redeemed := 1 } ∧
        (ps = [⟨tokenContract, p.tok, 0, .mint p.tok r.amount r.toAddr⟩] ∨ ps = [⟨r.toAddr, p.tok, r.amount, .none⟩]) ∧
        ∀ k, k ≠ (tx, log) → lookup k s'.requests = lookup k s.requests) ∧
    (∀ isAdmin tx log, revokeUnwrap isAdmin tx log s c = some (s', ps) →
        ps = [] ∧ ∃ r, lookup (tx, log) s.requests = some r ∧ lookup (tx, log) s'.requests = some { r with revoked := 1 } ∧
        ∀ k, k ≠ (tx, log) → lookup k s'.requests = lookup k s.requests) := by
  refine ⟨fun canAct sigOk pair tx log to ta amount h => ?_, fun canAct pair tx log h => ?_, fun isAdmin tx log h => ?_⟩
  · unfold unwrapToken at h
    unwind h
    rename_i _ _ _ hex _ p _ _
    refine ⟨rfl, ?_, p, rfl, lookup_put_self _ _ _, fun k hk => lookup_put_ne hk _ _⟩
    cases hl : lookup (tx, log) s.requests with
    | none => rfl
    | some v => simp [hl] at hex
  · unfold redeemUnwrap at h
    unwind h
    · rename_i _ _ _ r hr hflags _ p _ _
      exact ⟨r, p, hr, rfl, by omega, by omega, lookup_put_self _ _ _, Or.inl rfl, fun k hk => lookup_put_ne hk _ _⟩
    · rename_i _ _ _ r hr hflags _ p _ _
      exact ⟨r, p, hr, rfl, by omega, by omega, lookup_put_self _ _ _, Or.inr rfl, fun k hk => lookup_put_ne hk _ _⟩
  · unfold revokeUnwrap at h
    unwind h
    rename_i _ _ r hr _
    exact ⟨rfl, r, hr, lookup_put_self _ _ _, fun k hk => lookup_put_ne hk _ _⟩

end ZV.C09Effect
