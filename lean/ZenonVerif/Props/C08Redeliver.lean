import ZenonVerif.Lemmas.CrashRedeliver
import ZenonVerif.Props.C08
/-
C08, continuation clause — "continuing from there (re-delivering the momentum, or a competing one) leads to the same state a
node without the crash reaches", for the continuation the crash stream now drives on every image: the momentum is rolled
back and THE SAME momentum (same identifier, same content) is delivered again. Property theorems only; helper lemmas in
Lemmas/CrashRedeliver.lean.
-/
namespace ZV.C08Redeliver
open ZV ZV.Kv ZV.KvLogic ZV.Versioned ZV.Crash ZV.CrashRedeliver

/-- T3 `pop_then_readd`: commit a momentum on the frontier, roll it back, deliver the very same momentum again: the rollback
    succeeds, leaves the frontier pointer on the parent, and the second delivery is NOT ignored - it reaches exactly the
    state after the first delivery: every raw key of the frontier key space (deletion markers included), the stored redo
    records and the stored undo records. -/
theorem pop_then_readd (s s' : Ldb) (prev id : Id) (ops : Patch)
    (hs : Sorted s.frontier) (hp : prev = s.frontierId) (hb : id.height < two64)
    (h : s.add prev id ops = some s') :
    ∃ s'', s'.pop = some s'' ∧ s''.frontierId = prev ∧ s''.add prev id ops = some s' := by
  subst hp
  unfold Ldb.add at h
  rw [get_frontier] at h
  simp only [if_true, Option.some.injEq] at h
  generalize hview : (if s.frontierId.isZero then Root.mem else Root.front s.frontier) = view at h
  subst h
  -- what the view of the first delivery reads, and what the rollback makes of the frontier key space logically
  have hlog : ∀ t : Store, frontierIdOf (applyP t (rollbackPatch view.get (ops ++ frontierOps id))) = s.frontierId ∨
      s.frontierId.isZero = false := by
    intro t
    by_cases hz : s.frontierId.isZero = true
    · left
      simp only [hz, if_true] at hview
      subst hview
      rw [root_mem_get, isZero_eq hz]
      simp only [frontierIdOf, rollback_restores, keyFrontierId_mem, if_true]
    · right; simpa using hz
  have habs : abs (edApply (edApply s.frontier (ops ++ frontierOps id))
      (rollbackPatch view.get (ops ++ frontierOps id))) = abs s.frontier ∨ s.frontierId.isZero = true := by
    by_cases hz : s.frontierId.isZero = true
    · exact Or.inr hz
    · left
      simp only [hz, Bool.false_eq_true, if_false] at hview
      subst hview
      simp only [abs_edApply, root_front_get, applyP_undo]
  have hfid' : Ldb.frontierId
      { frontier := edApply s.frontier (ops ++ frontierOps id),
        rollbacks := (id.height, rollbackPatch view.get (ops ++ frontierOps id)) ::
          s.rollbacks.filter (fun e => e.1 ≠ id.height),
        patches := (id.height, ops ++ frontierOps id) :: s.patches.filter (fun e => e.1 ≠ id.height) } = id := by
    rw [frontierId_abs]; simp only [abs_edApply]; exact frontierIdOf_commit _ ops id hb
  have hfid'' : Ldb.frontierId
      { frontier := edApply (edApply s.frontier (ops ++ frontierOps id)) (rollbackPatch view.get (ops ++ frontierOps id)),
        rollbacks := s.rollbacks.filter (fun e => e.1 ≠ id.height),
        patches := s.patches.filter (fun e => e.1 ≠ id.height) } = s.frontierId := by
    rw [frontierId_abs]
    rcases habs with hf | hz
    · simp only [hf]; rfl
    · simp only [abs_edApply]
      rcases hlog (applyP (abs s.frontier) (ops ++ frontierOps id)) with h1 | h1
      · exact h1
      · rw [hz] at h1; exact absurd h1 (by simp)
  refine ⟨{ frontier := edApply (edApply s.frontier (ops ++ frontierOps id)) (rollbackPatch view.get (ops ++ frontierOps id)),
            rollbacks := s.rollbacks.filter (fun e => e.1 ≠ id.height),
            patches := s.patches.filter (fun e => e.1 ≠ id.height) }, ?_, hfid'', ?_⟩
  · unfold Ldb.pop
    simp only [hfid', lookupH, if_true, filter_ne_idem]
  · unfold Ldb.add
    rw [← hfid'', get_frontier, hfid'']
    simp only [if_true]
    -- the view of the second delivery reads what the view of the first one read
    have hget : (if s.frontierId.isZero then Root.mem else Root.front
        (edApply (edApply s.frontier (ops ++ frontierOps id)) (rollbackPatch view.get (ops ++ frontierOps id)))).get
          = view.get := by
      by_cases hz : s.frontierId.isZero = true
      · simp only [hz, if_true] at hview ⊢; rw [← hview]
      · simp only [hz, Bool.false_eq_true, if_false] at hview ⊢
        rcases habs with hf | hf
        · rw [root_front_get, hf, ← hview, root_front_get]
        · exact absurd hf hz
    rw [hget]
    simp only [List.filter_filter, Bool.and_self]
    rw [edApply_undo_redo hs _ _ (keys_rollbackPatch _ _)]

/-- T4 `redeliver_popped_after_crash`: the process dies at any point k of the rollback of the momentum that was committed
    last; the restarted node is in the state before or after the rollback (T1); once the rollback is complete (re-issued when
    the crash left the state before), delivering the rolled back momentum itself again restores exactly the state before the
    rollback - what a node that never rolled back holds. -/
theorem redeliver_popped_after_crash (s s' : Ldb) (prev id : Id) (ops : Patch)
    (hs : Sorted s.frontier) (hp : prev = s.frontierId) (hb : id.height < two64)
    (h : s.add prev id ops = some s') (k : Nat) :
    ∃ s'', s'.pop = some s'' ∧
      (afterWrites s' (planPop s') k = s' ∨ afterWrites s' (planPop s') k = s'') ∧
      ((if afterWrites s' (planPop s') k = s'' then some s'' else (afterWrites s' (planPop s') k).pop).bind
        (fun d => d.add prev id ops) = some s') := by
  obtain ⟨s'', hpop, _, hadd⟩ := pop_then_readd s s' prev id ops hs hp hb h
  refine ⟨s'', hpop, C08.crash_atomic_pop s' s'' hpop k, ?_⟩
  rcases C08.crash_atomic_pop s' s'' hpop k with h1 | h1
  · rw [h1]
    by_cases he : s' = s''
    · simp [he, hadd]
    · simp [he, hpop, hadd]
  · rw [h1]; simp [hadd]

/-- a first commit, then a commit that overwrites, deletes and puts the empty value -/
def exOps : Patch := [Op.put [3] [7], Op.del [4], Op.put [5] []]
def ex1 : Option Ldb := Ldb.empty.add Id.zero ⟨1, [9]⟩ [Op.put [3] [1], Op.put [4] [2]]
def ex2 : Option Ldb := ex1.bind (fun s => s.add ⟨1, [9]⟩ ⟨2, [8]⟩ exOps)

/-- hypotheses are satisfiable and the statement is not about the empty patch: commit, rollback, the same commit again
    on top of a first commit; the rollback does not give back the raw store before (deletion markers stay) -/
example : ex2.isSome = true ∧
    ex2.bind (fun s2 => s2.pop.bind (fun d => d.add ⟨1, [9]⟩ ⟨2, [8]⟩ exOps)) = ex2 ∧
    ex2.bind (fun s2 => s2.pop) ≠ ex1 := by decide

end ZV.C08Redeliver
