import ZenonVerif.Model.Pow
/-
C12 — plasma and proof-of-work: property theorems only.
-/
namespace ZV.C12
open ZV ZV.Pow

/-- T1 `pow_target`: for every difficulty a block can carry (2 ≤ d < 2^64) the stored target is
    exactly the statement's threshold 2^64 − ⌊2^64/d⌋ (no wrap-around). -/
theorem pow_target (d : Nat) (h1 : 2 ≤ d) (h2 : d < two64) : target d = two64 - two64 / d := by
  unfold target
  have hd : d ≠ 0 := by omega
  simp only [hd, if_false]
  apply Nat.mod_eq_of_lt
  have hpos : 0 < two64 / d := Nat.div_pos (by omega) (by omega)
  have : 0 < two64 := by decide
  omega

/-- d = 1: 2^64 − 2^64/1 = 0 — every nonce qualifies; d = 0: all-zero target. -/
theorem pow_target_one : target 1 = 0 := by decide
theorem pow_target_zero : target 0 = 0 := by decide

/-- The threshold is at least 2^63 for every d ≥ 2 and grows with d: a larger claimed difficulty never
    has a smaller threshold. -/
theorem pow_target_ge_half (d : Nat) (h1 : 2 ≤ d) (h2 : d < two64) : two63 ≤ target d := by
  rw [pow_target d h1 h2]
  have : two64 / d ≤ two64 / 2 := Nat.div_le_div_left h1 (by decide)
  have : two64 / 2 = two63 := by decide
  have : two64 = 2 * two63 := by decide
  omega

theorem pow_target_mono (d e : Nat) (h1 : 2 ≤ d) (hde : d ≤ e) (h2 : e < two64) :
    target d ≤ target e := by
  rw [pow_target d h1 (by omega), pow_target e (by omega) h2]
  have : two64 / e ≤ two64 / d := Nat.div_le_div_left hde (by omega)
  omega

theorem pow_target_lt (d : Nat) : target d < two64 := by
  unfold target
  split
  · decide
  · exact Nat.mod_lt _ (by decide)

/-- big-endian (most significant first) comparison = comparison of values -/
theorem geMSB_spec : ∀ (x y : Bytes), x.length = y.length → x.WF → y.WF →
    geMSB x y = decide (leVal x.reverse ≥ leVal y.reverse) := by
  intro x
  induction x with
  | nil =>
    intro y hl _ _
    cases y with
    | nil => simp [geMSB]
    | cons b bs => simp at hl
  | cons a as ih =>
    intro y hl hx hy
    cases y with
    | nil => simp at hl
    | cons b bs =>
      have hl' : as.length = bs.length := by simpa using hl
      have hxa : a < 256 := hx a (by simp)
      have hyb : b < 256 := hy b (by simp)
      have hxs : Bytes.WF as := fun z hz => hx z (by simp [hz])
      have hys : Bytes.WF bs := fun z hz => hy z (by simp [hz])
      have ih' := ih bs hl' hxs hys
      -- value of reversed cons: leVal (as.reverse ++ [a]) = leVal as.reverse + 256^len * a
      have key : ∀ (l : Bytes) (c : Nat), leVal (l ++ [c]) = leVal l + 256 ^ l.length * c := by
        intro l c
        induction l with
        | nil => simp [leVal]
        | cons h t iht =>
          simp only [List.cons_append, leVal, iht, List.length_cons, Nat.pow_succ]
          rw [Nat.mul_add, Nat.mul_assoc, Nat.mul_left_comm]; omega
      simp only [List.reverse_cons, key, List.length_reverse]
      have hA : leVal as.reverse < 256 ^ as.length := by
        have := leVal_lt as.reverse (fun z hz => hxs z (by simpa using hz))
        simpa using this
      have hB : leVal bs.reverse < 256 ^ as.length := by
        have := leVal_lt bs.reverse (fun z hz => hys z (by simpa using hz))
        simpa [hl'] using this
      rw [← hl']
      generalize 256 ^ as.length = P at *
      unfold geMSB
      by_cases hgt : a > b
      · simp only [hgt, if_true]
        have : P * (b + 1) ≤ P * a := Nat.mul_le_mul_left P hgt
        rw [Nat.mul_add] at this
        simp only [ge_iff_le, true_eq_decide_iff]; omega
      · simp only [hgt, if_false]
        by_cases hlt : a < b
        · simp only [hlt, if_true]
          have : P * (a + 1) ≤ P * b := Nat.mul_le_mul_left P hlt
          rw [Nat.mul_add] at this
          simp only [ge_iff_le, false_eq_decide_iff]; omega
        · simp only [hlt, if_false]
          have : a = b := by omega
          subst this
          rw [ih']
          simp only [ge_iff_le, decide_eq_decide]; omega

/-- T2 `pow_compare`: `greaterDifficulty x y ↔ le64 x ≥ le64 y` for all equally long byte strings
    (8 bytes in the code). -/
theorem pow_compare (x y : Bytes) (hl : x.length = y.length) (hx : x.WF) (hy : y.WF) :
    greaterDifficulty x y = decide (leVal x ≥ leVal y) := by
  unfold greaterDifficulty
  rw [geMSB_spec x.reverse y.reverse (by simpa using hl)
    (fun z hz => hx z (by simpa using hz)) (fun z hz => hy z (by simpa using hz))]
  simp

/-- T2′: a PoW claim of difficulty d (2 ≤ d < 2^64) is honoured iff the 64-bit little-endian value of the
    hash prefix is at least 2^64 − 2^64/d. The hash is a parameter (SHA3 is not modelled). -/
theorem pow_honoured_iff (h8 : Bytes) (d : Nat) (hl : h8.length = 8) (hw : h8.WF)
    (h1 : 2 ≤ d) (h2 : d < two64) :
    checkPoWNonce h8 d = decide (leVal h8 ≥ two64 - two64 / d) := by
  unfold checkPoWNonce targetBytes
  rw [pow_compare h8 _ (by simp [hl, leBytes_length]) hw (leBytes_wf _ _)]
  rw [leVal_leBytes, Nat.mod_eq_of_lt (by have := pow_target_lt d; simpa [two64] using this), pow_target d h1 h2]

/-- T3 `difficulty_plasma`: DifficultyToPlasma = min(⌊d/perPlasma⌋, cap) (with the regenerated constants),
    and is monotone. -/
theorem difficulty_plasma_spec (d : Nat) :
    difficultyToPlasma d = min (d / Gen.PoWDifficultyPerPlasma) Gen.MaxPoWPlasmaForAccountBlock := by
  unfold difficultyToPlasma
  split
  · subst_vars; decide
  · split <;> simp only [Gen.MaxDifficultyForAccountBlock, Gen.MaxPoWPlasmaForAccountBlock,
      Gen.PoWDifficultyPerPlasma] at * <;> omega

theorem difficulty_plasma_mono (d e : Nat) (h : d ≤ e) : difficultyToPlasma d ≤ difficultyToPlasma e := by
  rw [difficulty_plasma_spec, difficulty_plasma_spec]
  have : d / Gen.PoWDifficultyPerPlasma ≤ e / Gen.PoWDifficultyPerPlasma := Nat.div_le_div_right h
  omega

theorem difficulty_plasma_le_cap (d : Nat) : difficultyToPlasma d ≤ Gen.MaxPoWPlasmaForAccountBlock := by
  rw [difficulty_plasma_spec]; omega

/-- plasma is never granted for less work than it costs: p plasma needs d ≥ p·perPlasma -/
theorem difficulty_plasma_paid (d : Nat) :
    difficultyToPlasma d * Gen.PoWDifficultyPerPlasma ≤ d := by
  rw [difficulty_plasma_spec]
  have := Nat.div_mul_le_self d Gen.PoWDifficultyPerPlasma
  have h2 : min (d / Gen.PoWDifficultyPerPlasma) Gen.MaxPoWPlasmaForAccountBlock ≤ d / Gen.PoWDifficultyPerPlasma := by omega
  exact Nat.le_trans (Nat.mul_le_mul_right _ h2) this

/-- fused amount → plasma: capped, monotone, never exceeds PlasmaPerFusionUnit per CostPerFusionUnit of QSR. -/
theorem fused_plasma_le_cap (a : Int) : fusedAmountToPlasma a ≤ Gen.MaxFusionPlasmaForAccount := by
  unfold fusedAmountToPlasma
  split
  · omega
  · split <;> simp only [Gen.MaxFussedAmountForAccountBig, Gen.MaxFusionPlasmaForAccount,
      Gen.CostPerFusionUnit, Gen.PlasmaPerFusionUnit, two64] at * <;> omega

theorem fused_plasma_backed (a : Int) (h : 0 ≤ a) :
    (fusedAmountToPlasma a : Int) * Gen.CostPerFusionUnit ≤ a * Gen.PlasmaPerFusionUnit := by
  unfold fusedAmountToPlasma
  split
  · simp only [Gen.CostPerFusionUnit, Gen.PlasmaPerFusionUnit]; omega
  · split <;> simp only [Gen.MaxFussedAmountForAccountBig, Gen.MaxFusionPlasmaForAccount,
      Gen.CostPerFusionUnit, Gen.PlasmaPerFusionUnit, two64] at * <;> omega

theorem fused_plasma_mono (a b : Int) (h : a ≤ b) : fusedAmountToPlasma a ≤ fusedAmountToPlasma b := by
  unfold fusedAmountToPlasma
  by_cases a0 : a ≤ 0
  · rw [if_pos a0]; omega
  · rw [if_neg a0, if_neg (by omega : ¬ b ≤ 0)]
    by_cases a1 : a ≥ (Gen.MaxFussedAmountForAccountBig : Int)
    · rw [if_pos a1, if_pos (by omega)]; omega
    · rw [if_neg a1]
      by_cases b1 : b ≥ (Gen.MaxFussedAmountForAccountBig : Int)
      · rw [if_pos b1]
        simp only [Gen.MaxFussedAmountForAccountBig, Gen.MaxFusionPlasmaForAccount,
          Gen.CostPerFusionUnit, Gen.PlasmaPerFusionUnit, two64] at *
        omega
      · rw [if_neg b1]
        simp only [Gen.MaxFussedAmountForAccountBig, Gen.MaxFusionPlasmaForAccount,
          Gen.CostPerFusionUnit, Gen.PlasmaPerFusionUnit, two64] at *
        have h1 : a.toNat % 18446744073709551616 = a.toNat := Nat.mod_eq_of_lt (by omega)
        have h2 : b.toNat % 18446744073709551616 = b.toNat := Nat.mod_eq_of_lt (by omega)
        rw [h1, h2]
        have : a.toNat / 100000000 ≤ b.toNat / 100000000 := Nat.div_le_div_right (by omega)
        omega

end ZV.C12
