import ZenonVerif.Model.Pow
import ZenonVerif.Gen.Spork
/-
C12 — plasma and proof-of-work: property theorems only.
-/
namespace ZV.C12
open ZV ZV.Pow

/-- T1 `pow_target`: for every difficulty a block can carry (2 ≤ d < 2^64) the stored target is
    exactly the statement's threshold 2^64 − ⌊2^64/d⌋ (no wrap-around). -/
theorem pow_target (d : Nat) (h1 : 2 ≤ d) (h2 : d < two64) : target d = two64 - two64 / d := by
  unfold target
  have hd : d ≠ 0 := by omega
  simp only [hd, if_false]
  apply Nat.mod_eq_of_lt
  have hpos : 0 < two64 / d := Nat.div_pos (by omega) (by omega)
  have : 0 < two64 := by decide
  omega

/-- d = 1: 2^64 − 2^64/1 = 0 — every nonce qualifies; d = 0: all-zero target. -/
theorem pow_target_one : target 1 = 0 := by decide
theorem pow_target_zero : target 0 = 0 := by decide

/-- The threshold is at least 2^63 for every d ≥ 2 and grows with d: a larger claimed difficulty never
    has a smaller threshold. -/
theorem pow_target_ge_half (d : Nat) (h1 : 2 ≤ d) (h2 : d < two64) : two63 ≤ target d := by
  rw [pow_target d h1 h2]
  have : two64 / d ≤ two64 / 2 := Nat.div_le_div_left h1 (by decide)
  have : two64 / 2 = two63 := by decide
  have : two64 = 2 * two63 := by decide
  omega

theorem pow_target_mono (d e : Nat) (h1 : 2 ≤ d) (hde : d ≤ e) (h2 : e < two64) :
    target d ≤ target e := by
  rw [pow_target d h1 (by omega), pow_target e (by omega) h2]
  have : two64 / e ≤ two64 / d := Nat.div_le_div_left hde (by omega)
  omega

theorem pow_target_lt (d : Nat) : target d < two64 := by
  unfold target
  split
  · decide
  · exact Nat.mod_lt _ (by decide)

/-- big-endian (most significant first) comparison = comparison of values -/
theorem geMSB_spec : ∀ (x y : Bytes), x.length = y.length → x.WF → y.WF →
    geMSB x y = decide (leVal x.reverse ≥ leVal y.reverse) := by
  intro x
  induction x with
  | nil =>
    intro y hl _ _
    cases y with
    | nil => simp [geMSB]
    | cons b bs => simp at hl
  | cons a as ih =>
    intro y hl hx hy
    cases y with
    | nil => simp at hl
    | cons b bs =>
      have hl' : as.length = bs.length := by simpa using hl
      have hxa : a < 256 := hx a (by simp)
      have hyb : b < 256 := hy b (by simp)
      have hxs : Bytes.WF as := fun z hz => hx z (by simp [hz])
      have hys : Bytes.WF bs := fun z hz => hy z (by simp [hz])
      have ih' := ih bs hl' hxs hys
      -- value of reversed cons: leVal (as.reverse ++ [a]) = leVal as.reverse + 256^len * a
      have key : ∀ (l : Bytes) (c : Nat), leVal (l ++ [c]) = leVal l + 256 ^ l.length * c := by
        intro l c
        induction l with
        | nil => simp [leVal]
        | cons h t iht =>
          simp only [List.cons_append, leVal, iht, List.length_cons, Nat.pow_succ]
          rw [Nat.mul_add, Nat.mul_assoc, Nat.mul_left_comm]; omega
      simp only [List.reverse_cons, key, List.length_reverse]
      have hA : leVal as.reverse < 256 ^ as.length := by
        have := leVal_lt as.reverse (fun z hz => hxs z (by simpa using hz))
        simpa using this
      have hB : leVal bs.reverse < 256 ^ as.length := by
        have := leVal_lt bs.reverse (fun z hz => hys z (by simpa using hz))
        simpa [hl'] using this
      rw [← hl']
      generalize 256 ^ as.length = P at *
      unfold geMSB
      by_cases hgt : a > b
      · simp only [hgt, if_true]
        have : P * (b + 1) ≤ P * a := Nat.mul_le_mul_left P hgt
        rw [Nat.mul_add] at this
        simp only [ge_iff_le, true_eq_decide_iff]; omega
      · simp only [hgt, if_false]
        by_cases hlt : a < b
        · simp only [hlt, if_true]
          have : P * (a + 1) ≤ P * b := Nat.mul_le_mul_left P hlt
          rw [Nat.mul_add] at this
          simp only [ge_iff_le, false_eq_decide_iff]; omega
        · simp only [hlt, if_false]
          have : a = b := by omega
          subst this
          rw [ih']
          simp only [ge_iff_le, decide_eq_decide]; omega

/-- T2 `pow_compare`: `greaterDifficulty x y ↔ le64 x ≥ le64 y` for all equally long byte strings
    (8 bytes in the code). -/
theorem pow_compare (x y : Bytes) (hl : x.length = y.length) (hx : x.WF) (hy : y.WF) :
    greaterDifficulty x y = decide (leVal x ≥ leVal y) := by
  unfold greaterDifficulty
  rw [geMSB_spec x.reverse y.reverse (by simpa using hl)
    (fun z hz => hx z (by simpa using hz)) (fun z hz => hy z (by simpa using hz))]
  simp

/-- T2′: a PoW claim of difficulty d (2 ≤ d < 2^64) is honoured iff the 64-bit little-endian value of the
    hash prefix is at least 2^64 − 2^64/d. The hash is a parameter (SHA3 is not modelled). -/
theorem pow_honoured_iff (h8 : Bytes) (d : Nat) (hl : h8.length = 8) (hw : h8.WF)
    (h1 : 2 ≤ d) (h2 : d < two64) :
    checkPoWNonce h8 d = decide (leVal h8 ≥ two64 - two64 / d) := by
  unfold checkPoWNonce targetBytes
  rw [pow_compare h8 _ (by simp [hl, leBytes_length]) hw (leBytes_wf _ _)]
  rw [leVal_leBytes, Nat.mod_eq_of_lt (by have := pow_target_lt d; simpa [two64] using this), pow_target d h1 h2]

/-- T2″ `check_seq_history_free`: in a session of checks the answer to a query is `checkPoWNonce` of that query alone —
    it does not depend on the queries asked before it (nor on those after it): the same (hash, nonce) asked first with
    difficulty 1 and then with a high difficulty is judged at the high difficulty as if it had never been seen. -/
theorem check_seq_history_free (pre post : List (Bytes × Nat)) (h8 : Bytes) (d : Nat) :
    (checkSeq (pre ++ (h8, d) :: post))[pre.length]? = some (checkPoWNonce h8 d) := by
  unfold checkSeq
  simp

theorem check_seq_length (qs : List (Bytes × Nat)) : (checkSeq qs).length = qs.length := by
  unfold checkSeq
  simp

/-- … and therefore every answer of a session is the statement's comparison, for every d a block can carry. -/
theorem check_seq_honoured_iff (pre post : List (Bytes × Nat)) (h8 : Bytes) (d : Nat)
    (hl : h8.length = 8) (hw : h8.WF) (h1 : 2 ≤ d) (h2 : d < two64) :
    (checkSeq (pre ++ (h8, d) :: post))[pre.length]? = some (decide (leVal h8 ≥ two64 - two64 / d)) := by
  rw [check_seq_history_free, pow_honoured_iff h8 d hl hw h1 h2]

/-- the same query asked twice in a session gets the same answer twice -/
theorem check_seq_repeat (a b c : List (Bytes × Nat)) (h8 : Bytes) (d : Nat) :
    (checkSeq (a ++ (h8, d) :: b ++ (h8, d) :: c))[a.length]? =
    (checkSeq (a ++ (h8, d) :: b ++ (h8, d) :: c))[(a ++ (h8, d) :: b).length]? := by
  have h1 := check_seq_history_free a (b ++ (h8, d) :: c) h8 d
  have h2 := check_seq_history_free (a ++ (h8, d) :: b) c h8 d
  simp only [List.append_assoc, List.cons_append] at h1 h2 ⊢
  rw [h1, h2]

/-- T3 `difficulty_plasma`: DifficultyToPlasma = min(⌊d/perPlasma⌋, cap) (with the regenerated constants),
    and is monotone. -/
theorem difficulty_plasma_spec (d : Nat) :
    difficultyToPlasma d = min (d / Gen.PoWDifficultyPerPlasma) Gen.MaxPoWPlasmaForAccountBlock := by
  unfold difficultyToPlasma
  split
  · subst_vars; decide
  · split <;> simp only [Gen.MaxDifficultyForAccountBlock, Gen.MaxPoWPlasmaForAccountBlock,
      Gen.PoWDifficultyPerPlasma] at * <;> omega

theorem difficulty_plasma_mono (d e : Nat) (h : d ≤ e) : difficultyToPlasma d ≤ difficultyToPlasma e := by
  rw [difficulty_plasma_spec, difficulty_plasma_spec]
  have : d / Gen.PoWDifficultyPerPlasma ≤ e / Gen.PoWDifficultyPerPlasma := Nat.div_le_div_right h
  omega

theorem difficulty_plasma_le_cap (d : Nat) : difficultyToPlasma d ≤ Gen.MaxPoWPlasmaForAccountBlock := by
  rw [difficulty_plasma_spec]; omega

/-- plasma is never granted for less work than it costs: p plasma needs d ≥ p·perPlasma -/
theorem difficulty_plasma_paid (d : Nat) :
    difficultyToPlasma d * Gen.PoWDifficultyPerPlasma ≤ d := by
  rw [difficulty_plasma_spec]
  have := Nat.div_mul_le_self d Gen.PoWDifficultyPerPlasma
  have h2 : min (d / Gen.PoWDifficultyPerPlasma) Gen.MaxPoWPlasmaForAccountBlock ≤ d / Gen.PoWDifficultyPerPlasma := by omega
  exact Nat.le_trans (Nat.mul_le_mul_right _ h2) this

/-- fused amount → plasma: capped, monotone, never exceeds PlasmaPerFusionUnit per CostPerFusionUnit of QSR. -/
theorem fused_plasma_le_cap (a : Int) : fusedAmountToPlasma a ≤ Gen.MaxFusionPlasmaForAccount := by
  unfold fusedAmountToPlasma
  split
  · omega
  · split <;> simp only [Gen.MaxFussedAmountForAccountBig, Gen.MaxFusionPlasmaForAccount,
      Gen.CostPerFusionUnit, Gen.PlasmaPerFusionUnit, two64] at * <;> omega

theorem fused_plasma_backed (a : Int) (h : 0 ≤ a) :
    (fusedAmountToPlasma a : Int) * Gen.CostPerFusionUnit ≤ a * Gen.PlasmaPerFusionUnit := by
  unfold fusedAmountToPlasma
  split
  · simp only [Gen.CostPerFusionUnit, Gen.PlasmaPerFusionUnit]; omega
  · split <;> simp only [Gen.MaxFussedAmountForAccountBig, Gen.MaxFusionPlasmaForAccount,
      Gen.CostPerFusionUnit, Gen.PlasmaPerFusionUnit, two64] at * <;> omega

theorem fused_plasma_mono (a b : Int) (h : a ≤ b) : fusedAmountToPlasma a ≤ fusedAmountToPlasma b := by
  unfold fusedAmountToPlasma
  by_cases a0 : a ≤ 0
  · rw [if_pos a0]; omega
  · rw [if_neg a0, if_neg (by omega : ¬ b ≤ 0)]
    by_cases a1 : a ≥ (Gen.MaxFussedAmountForAccountBig : Int)
    · rw [if_pos a1, if_pos (by omega)]; omega
    · rw [if_neg a1]
      by_cases b1 : b ≥ (Gen.MaxFussedAmountForAccountBig : Int)
      · rw [if_pos b1]
        simp only [Gen.MaxFussedAmountForAccountBig, Gen.MaxFusionPlasmaForAccount,
          Gen.CostPerFusionUnit, Gen.PlasmaPerFusionUnit, two64] at *
        omega
      · rw [if_neg b1]
        simp only [Gen.MaxFussedAmountForAccountBig, Gen.MaxFusionPlasmaForAccount,
          Gen.CostPerFusionUnit, Gen.PlasmaPerFusionUnit, two64] at *
        have h1 : a.toNat % 18446744073709551616 = a.toNat := Nat.mod_eq_of_lt (by omega)
        have h2 : b.toNat % 18446744073709551616 = b.toNat := Nat.mod_eq_of_lt (by omega)
        rw [h1, h2]
        have : a.toNat / 100000000 ≤ b.toNat / 100000000 := Nat.div_le_div_right (by omega)
        omega

end ZV.C12

namespace ZV.C12
open ZV ZV.Pow

/-- T4 `enough_plasma_sound`: a user block that passes `enoughPlasma` has its fused part within what the fused QSR
    provides after subtracting the plasma already committed to the account's unconfirmed blocks, its total is exactly
    fused + PoW plasma (no uint64 wrap), at least the base cost and at most the per-block cap. -/
theorem enough_plasma_sound (fusedQsr : Int) (committed uncommitted fused difficulty base total : Nat)
    (h : enoughPlasma fusedQsr committed uncommitted fused difficulty base = .ok total) :
    (fused : Int) + uncommitted ≤ (fusedAmountToPlasma fusedQsr : Int) + committed ∧
    total = difficultyToPlasma difficulty + fused ∧ base ≤ total ∧ total ≤ Gen.MaxPlasmaForAccountBlock := by
  unfold enoughPlasma at h
  cases ha : availablePlasma fusedQsr committed uncommitted with
  | none => simp [ha] at h
  | some avail =>
    simp only [ha] at h
    have hcap := difficulty_plasma_le_cap difficulty
    have hf := fused_plasma_le_cap fusedQsr
    -- what `available` means
    have hav : (avail : Int) ≤ (fusedAmountToPlasma fusedQsr : Int) + committed - uncommitted := by
      unfold availablePlasma at ha
      simp only [] at ha
      split at ha
      · cases ha
      · split at ha
        · rename_i h1 h2
          cases ha
          simp only [Gen.MaxFussedAmountForAccount, Gen.MaxFussedAmountForAccountBig] at *
          omega
        · cases ha; omega
    split at h
    · cases h
    · rename_i h1
      split at h
      · cases h
      · rename_i h2
        split at h
        · cases h
        · rename_i h3
          cases h
          -- no wrap: fused ≤ avail ≤ cap-ish and pow plasma ≤ 94500
          have hav2 : avail ≤ Gen.MaxFussedAmountForAccount := by
            unfold availablePlasma at ha
            simp only [] at ha
            split at ha
            · cases ha
            · split at ha
              · cases ha; exact Nat.le_refl _
              · rename_i h4 h5
                cases ha
                simp only [Gen.MaxFussedAmountForAccount, Gen.MaxFussedAmountForAccountBig] at *
                omega
          have hlt : difficultyToPlasma difficulty + fused < two64 := by
            simp only [Gen.MaxFussedAmountForAccount, Gen.MaxPoWPlasmaForAccountBlock, two64] at *
            omega
          rw [Nat.mod_eq_of_lt hlt] at h2 h3 ⊢
          refine ⟨by omega, rfl, by omega, by omega⟩

/-- T5 `no_double_spend_of_plasma`: along a chain of unconfirmed blocks of one account, each accepted by
    `enoughPlasma` against the same acknowledged ledger state, the fused plasma they spend in total never exceeds what
    the fused QSR provides (each accepted block adds its fused part to the account's chain plasma). -/
theorem no_double_spend_of_plasma (fusedQsr : Int) (committed : Nat) :
    ∀ (blocks : List (Nat × Nat × Nat)) (uncommitted : Nat),   -- (fused, difficulty, base) per block
      (∀ pre b post, blocks = pre ++ b :: post →
        ∃ t, enoughPlasma fusedQsr committed (uncommitted + (pre.map (·.1)).sum) b.1 b.2.1 b.2.2 = .ok t) →
      (blocks.map (·.1)).sum + uncommitted ≤ fusedAmountToPlasma fusedQsr + committed ∨ blocks = [] := by
  intro blocks uncommitted hall
  rcases List.eq_nil_or_concat blocks with h | ⟨pre, b, h⟩
  · right; exact h
  · left
    rw [List.concat_eq_append] at h
    obtain ⟨t, ht⟩ := hall pre b [] h
    have := (enough_plasma_sound fusedQsr committed _ b.1 b.2.1 b.2.2 t ht).1
    subst h
    simp only [List.map_append, List.map_cons, List.map_nil, List.sum_append, List.sum_cons, List.sum_nil]
    generalize (List.map (fun x : Nat × Nat × Nat => x.1) pre).sum = S at this ⊢
    omega

/-- T6 `base_cost`: the base cost is 21000 for receives, 21000 + 68 per data byte for plain sends, the method's table
    cost for embedded calls (regenerated constants) -/
theorem base_cost (isReceive : Bool) (mc : Option Nat) (n : Nat) :
    basePlasma isReceive mc n =
      if isReceive then 21000 else match mc with | some c => c | none => 21000 + 68 * n := by
  unfold basePlasma
  simp only [Gen.AccountBlockBasePlasma, Gen.ABByteDataPlasma]
  cases isReceive <;> cases mc <;> simp <;> omega

/-- T6b `base_cost_checked` (the function the driver evaluates for the `plasma-base` lines): whenever the node assigns a
    base cost it is the cost of T6 - 21000 for a receive, the method's cost for an embedded call, 21000 + 68 per data byte
    for every other send, whatever its destination (the destination is not an argument) -, and a plain send is priced iff
    its data fits the limit: there is no shape of send block that is priced like a receive -/
theorem base_cost_checked (isReceive : Bool) (mc : Option Nat) (n : Nat) :
    (∀ v, basePlasmaChecked isReceive mc n = some v →
      v = if isReceive then 21000 else match mc with | some c => c | none => 21000 + 68 * n) ∧
    (basePlasmaChecked isReceive mc n = none ↔ (isReceive = false ∧ mc = none ∧ n > 16384)) := by
  unfold basePlasmaChecked
  constructor
  · intro v h
    rw [← base_cost]
    cases isReceive <;> cases mc <;> simp at h ⊢
    · exact h.2.symm
    · exact h.symm
    · exact h.symm
    · exact h.symm
  · cases isReceive <;> cases mc <;> simp [Gen.MaxDataLength]

/-- a send that carries data costs strictly more than a receive, wherever it goes -/
theorem data_is_paid_for (n : Nat) (v : Nat) (hn : 0 < n) (h : basePlasmaChecked false none n = some v) :
    v ≥ 21000 + 68 ∧ v > basePlasma true none n := by
  have := (base_cost_checked false none n).1 v h
  simp at this
  have hb := base_cost true none n
  simp at hb
  omega

example : enoughPlasma 1000000000 0 0 21000 0 21000 = .ok 21000 := by decide
example : enoughPlasma 1000000000 0 21000 21000 0 21000 = .notEnoughPlasma := by decide

end ZV.C12

namespace ZV.C12
open ZV ZV.Pow

/-! ## base cost of every embedded method (reviewed table of `Model/Pow.lean` vs the regenerated method tables) -/

/-- the plasma table has the statement's values: a simple call costs 2.5, a call answered by one descendant send 3.5, by
    two 4.5 base costs of an account block -/
theorem plasma_table_statement :
    2 * Gen.PT_EmbeddedSimple = 5 * Gen.AccountBlockBasePlasma ∧
    2 * Gen.PT_EmbeddedWWithdraw = 7 * Gen.AccountBlockBasePlasma ∧
    2 * Gen.PT_EmbeddedWDoubleWithdraw = 9 * Gen.AccountBlockBasePlasma ∧
    Gen.PT_TxPlasma = Gen.AccountBlockBasePlasma ∧ Gen.PT_TxDataPlasma = Gen.ABByteDataPlasma := by decide

/-- TOTAL COVERAGE: the reviewed table names exactly the (contract, method) pairs that the real `GetEmbeddedMethod` resolves
    under at least one of the 8 spork regimes (regenerated on every run): a method that is added to a contract later - or
    renamed, or removed - fails this theorem until the table in `Model/Pow.lean` has been reviewed -/
theorem method_costs_every_method_reviewed : reviewedClasses.map (·.1) = Gen.methodNames := by decide +kernel

/-- under every spork regime the real `GetPlasma` of every resolved method (regenerated rows) is the cost of the method's
    REVIEWED kind: a withdraw method priced as a simple call (or any other slip of a method's price) fails here -/
theorem method_costs_as_reviewed : Gen.methodTable.all (rowAsReviewed Gen.methodNames) = true := by decide +kernel

/-- a method that answers with descendant sends is never cheaper than a simple call + one base cost per answer -/
theorem class_cost_by_answers (acc : Bool) :
    classCost acc .withdraw = classCost acc .simple + Gen.AccountBlockBasePlasma ∧
    classCost acc .doubleWithdraw = classCost acc .simple + 2 * Gen.AccountBlockBasePlasma ∧
    classCost acc .simple ≤ classCost acc .reward ∧ classCost acc .withdraw ≤ classCost acc .twoSimple := by
  cases acc <;> decide

/-- a call is paid iff its total plasma reaches the reviewed cost (what the driver answers on `plasma-call` lines) -/
theorem method_call_paid_iff (regime : Nat) (name : String) (total c : Nat) (h : reviewedCost regime name = some c) :
    methodCallPaid regime name total = some (decide (c ≤ total)) := by
  simp [methodCallPaid, h]

/-- the seeded family in one instance: CancelFuse, CancelStake, Revoke, WithdrawQsr, Reclaim, Unlock are withdraw methods
    under every regime -/
theorem withdraw_methods (regime : Nat) :
    ∀ n ∈ ["plasma.CancelFuse", "stake.Cancel", "pillar.Revoke", "pillar.WithdrawQsr", "sentinel.WithdrawQsr",
           "htlc.Reclaim", "htlc.Unlock", "liquidity.CancelLiquidityStake", "token.Mint", "token.IssueToken"],
      reviewedCost regime n = some Gen.PT_EmbeddedWWithdraw := by
  intro n hn
  simp only [List.mem_cons, List.mem_nil_iff, or_false] at hn
  rcases hn with h | h | h | h | h | h | h | h | h | h <;> subst h <;> rfl

end ZV.C12
