import ZenonVerif.Model.Wallet
import ZenonVerif.Lemmas.Wallet
/-
C19 — wallet key files: property theorems only. The primitives are parameters (`C : Crypto`); the laws used are
fields of `Crypto`. NOT a theorem, by nature: "decryption fails with any other password or after any change to
ciphertext, nonce or salt" is the authenticity of AES-GCM and the collision behaviour of Argon2id — a cryptographic
assumption. It is covered by the `wallet` stream only (wrong passwords, single-bit flips on the real code).
-/
namespace ZV.C19
open ZV ZV.Wallet

/-- T1 `path_grammar`: `isValidPath` accepts exactly `m(/<decimal>')+` with every decimal below 2^32. -/
theorem path_grammar (p : Bytes) : isValidPath p = true ↔ PathGrammar p := isValidPath_iff p

/-- the regular expression the automaton `pstep` was written for is the one in the tree, and both
    `strconv.ParseUint` calls use base 10 / 32 bits -/
theorem path_regex_fact :
    Gen.pathRegexSrc = "^m(\\/[0-9]+')+$" ∧ Gen.parseUintArgs_isValidPath = [10, 32] ∧
      Gen.parseUintArgs_DeriveForPath = [10, 32] := by decide

/-- T2a `hardened_only`: every HMAC step `DeriveForPath` issues below the master key uses an index in
    [2^31, 2^32) — there is no public (non-hardened) derivation, whatever the path and the primitives. -/
theorem hardened_only (C : CryptoFns) (path seed : Bytes) :
    ∀ q ∈ (deriveForPathLog C path seed).1,
      q = .master seed ∨ ∃ chain key i, q = .child chain key i ∧ two31 ≤ i ∧ i < two32 :=
  deriveForPathLog_hardened C path seed

/-- T2a′: the single step `key.derive(i)` refuses exactly the non-hardened indices (no public derivation). -/
theorem derive_refuses (C : CryptoFns) (k : Key) (i : Nat) :
    (derive C k i = .error .noPublicDerivation ↔ i < two31) ∧
      (two31 ≤ i → derive C k i = .ok (splitKey (C.hmac k.chain (0 :: (k.key ++ beBytes 4 i))))) := by
  have h : Gen.FirstHardenedIndex = two31 := by decide
  rw [deriveSegs_step, h]
  constructor
  · by_cases hi : i < two31
    · simp [hi]
    · simp [hi]
  · intro hi
    have : ¬ i < two31 := by omega
    simp [this, ask, Query.hkey, Query.msg, deriveInput]

/-- T2b: outcome of `DeriveForPath` on a path of the grammar with digit strings `segs`: it succeeds iff every
    segment value is below 2^31; otherwise (a value in [2^31, 2^32): the uint32 sum `v + 0x80000000` wraps below
    2^31) it is refused with ErrNoPublicDerivation. Paths outside the grammar are ErrInvalidPath (T2c). -/
theorem derive_outcome (C : CryptoFns) (segs : List Bytes) (seed : Bytes) (hne : segs ≠ [])
    (h : ∀ d ∈ segs, DigitStr d ∧ decVal d < two32) :
    (if ∀ d ∈ segs, decVal d < two31 then ∃ k, deriveKey C (pathOf segs) seed = .ok k
     else deriveKey C (pathOf segs) seed = .error .noPublicDerivation) :=
  deriveKey_outcome C segs seed hne h

/-- T2c: a path outside the grammar is refused with ErrInvalidPath and issues no HMAC query at all. -/
theorem derive_invalid (C : CryptoFns) (p seed : Bytes) (h : ¬ PathGrammar p) :
    deriveForPathLog C p seed = ([], .error .invalidPath) := by
  have : isValidPath p = false := by
    cases hv : isValidPath p with
    | false => rfl
    | true => exact absurd ((isValidPath_iff p).1 hv) h
  simp [deriveForPathLog, this]

/-- T2d: `DeriveWithIndex(i)` (path m/44'/73404'/i') succeeds exactly for the indices below 2^31. -/
theorem derive_index (C : CryptoFns) (i : Nat) (seed : Bytes) (hi : i < two32) :
    (∃ kp, deriveWithIndex C i seed = .ok kp) ↔ i < two31 :=
  deriveWithIndex_ok_iff C i seed hi

/-- T3a `derive_layout`: the data hashed in one step is 0x00 ‖ key ‖ be32(i): 37 bytes for a 32-byte key. -/
theorem derive_layout (chain key : Bytes) (i : Nat) (hk : key.length = 32) :
    (Query.child chain key i).msg = 0 :: (key ++ beBytes 4 i) ∧ (Query.child chain key i).msg.length = 37 ∧
      (Query.child chain key i).hkey = chain := by
  simp [Query.msg, Query.hkey, deriveInput, beBytes, leBytes_length, hk]

/-- T3b: the map (key, i) ↦ HMAC input is injective on 32-byte keys and uint32 indices. -/
theorem derive_input_injective (k₁ k₂ : Bytes) (i₁ i₂ : Nat) (h₁ : k₁.length = 32) (h₂ : k₂.length = 32)
    (hi₁ : i₁ < two32) (hi₂ : i₂ < two32) (h : deriveInput k₁ i₁ = deriveInput k₂ i₂) : k₁ = k₂ ∧ i₁ = i₂ :=
  deriveInput_inj k₁ k₂ i₁ i₂ h₁ h₂ hi₁ hi₂ h

/-- T3c: the master key is HMAC-SHA512(key = "ed25519 seed", seed) split 32/32. -/
theorem master_layout (C : CryptoFns) (seed : Bytes) :
    newMasterKey C seed = splitKey (C.hmac [101, 100, 50, 53, 53, 49, 57, 32, 115, 101, 101, 100] seed) := rfl

/-- T3d: with a 64-byte HMAC every derived key and chain code is 32 bytes (so T3a/T3b apply at every step). -/
theorem ask_lengths (C : Crypto) (q : Query) : (ask C.toCryptoFns q).key.length = 32 ∧ (ask C.toCryptoFns q).chain.length = 32 := by
  simp [ask, splitKey, C.hmac_len]

/-- the two Argon2id parameter lists and the two additional-data strings in the tree coincide (regenerated) -/
theorem kdf_ad_fact : Gen.argonParams_Set = Gen.argonParams_SetFromJSON ∧ Gen.sealAD = Gen.openAD ∧
    Gen.sealAD = [122, 101, 110, 111, 110] ∧ Gen.argonParams_Set = [1, 65536, 4, 32] ∧
    Gen.nonceLen = 12 ∧ Gen.saltLen = 16 ∧ Gen.nonceLen = Gen.gcmNonceSize := by decide

/-- T4a `keyfile_roundtrip`: decrypting the key file made from `ks` with password `pw` (any salt, any nonce of the
    length `Encrypt` draws) with the same password yields exactly the entropy of `ks`. Uses only `open_seal`. -/
theorem keyfile_roundtrip (C : Crypto) (ks : KeyStore) (pw salt nonce : Bytes) (hn : nonce.length = Gen.nonceLen) :
    decryptEntropy C.toCryptoFns (encrypt C.toCryptoFns ks pw salt nonce) pw = .ok ks.entropy := by
  have h1 : Gen.argonParams_SetFromJSON = Gen.argonParams_Set := by decide
  have h2 : Gen.openAD = Gen.sealAD := by decide
  have h3 : Gen.nonceLen = Gen.gcmNonceSize := by decide
  simp only [decryptEntropy, encrypt, h1, h2, C.open_seal, hn, h3, ne_eq, not_true_eq_false, if_false]

/-- T4b: … and the whole key store is recovered: `Decrypt(Encrypt(ks))` = `keyStoreFromEntropy(entropy)` = `ks`
    for every key store that came from `keyStoreFromEntropy`; the written file passes `ReadKeyFile`'s checks. -/
theorem keystore_roundtrip (C : Crypto) (entropy : Bytes) (ks : KeyStore) (pw salt nonce : Bytes)
    (hn : nonce.length = Gen.nonceLen) (hks : keyStoreFromEntropy C.toCryptoFns entropy = .ok ks) :
    readChecks (encrypt C.toCryptoFns ks pw salt nonce) = .ok (encrypt C.toCryptoFns ks pw salt nonce) ∧
    decrypt C.toCryptoFns (encrypt C.toCryptoFns ks pw salt nonce) pw = .ok ks := by
  have he : ks.entropy = entropy := keyStoreFromEntropy_entropy C.toCryptoFns entropy ks hks
  refine ⟨by simp [readChecks, encrypt], ?_⟩
  simp only [decrypt, keyfile_roundtrip C ks pw salt nonce hn, he, hks]

/-- T4d: the JSON text of the three byte fields (`hexutil.Bytes`: "0x" + hex) reads back to the same bytes, so
    write → read is the identity on (cipherData, nonce, salt). -/
theorem keyfile_text_roundtrip (kf : KeyFile) (h1 : kf.cipherData.WF) (h2 : kf.nonce.WF) (h3 : kf.salt.WF) :
    kf.text.parse = some (kf.cipherData, kf.nonce, kf.salt) := by
  simp [KeyFile.text, KeyFileText.parse, hexutil_roundtrip _ h1, hexutil_roundtrip _ h2, hexutil_roundtrip _ h3]

/-- T4e `keyfile_readonly` (one step): no operation on a key file object — decrypting with the right or a wrong
    password, unlocking / locking through the Manager, writing it and reading it back, wiping a key store that was
    handed out — changes the key file the object holds. -/
theorem kfStep_keyfile (C : CryptoFns) (h : KfHolder) (op : KfOp)
    (h1 : h.kf.cipherData.WF) (h2 : h.kf.nonce.WF) (h3 : h.kf.salt.WF) : (kfStep C h op).1.kf = h.kf := by
  cases op with
  | decrypt pw => rfl
  | unlock pw =>
    simp only [kfStep]
    split <;> rfl
  | lock => rfl
  | writeRead =>
    simp only [kfStep, keyfile_text_roundtrip h.kf h1 h2 h3]
  | scrub => rfl

/-- T4e (sequences): after ANY sequence of operations the object holds the key file it started with. -/
theorem kfRun_keyfile (C : CryptoFns) (ops : List KfOp) (h : KfHolder)
    (h1 : h.kf.cipherData.WF) (h2 : h.kf.nonce.WF) (h3 : h.kf.salt.WF) : (kfRun C h ops).1.kf = h.kf := by
  induction ops generalizing h with
  | nil => rfl
  | cons op ops ih =>
    have hs := kfStep_keyfile C h op h1 h2 h3
    simp only [kfRun]
    rw [ih (kfStep C h op).1 (hs ▸ h1) (hs ▸ h2) (hs ▸ h3), hs]

/-- T4f `keyfile_roundtrip_always`: whatever was done with the object before (any sequence of operations with any
    passwords), the key file made from `ks` with password `pw` still decrypts with `pw` to exactly the entropy of
    `ks` — the round trip holds on every decryption, not only the first. -/
theorem kfRun_right_password (C : Crypto) (ks : KeyStore) (pw salt nonce : Bytes) (unl : Option Bytes)
    (ops : List KfOp) (hn : nonce.length = Gen.nonceLen)
    (h1 : (encrypt C.toCryptoFns ks pw salt nonce).cipherData.WF) (h2 : nonce.WF) (h3 : salt.WF) :
    (kfStep C.toCryptoFns (kfRun C.toCryptoFns ⟨encrypt C.toCryptoFns ks pw salt nonce, unl⟩ ops).1 (.decrypt pw)).2 =
      .entropy (.ok ks.entropy) := by
  have hk := kfRun_keyfile C.toCryptoFns ops ⟨encrypt C.toCryptoFns ks pw salt nonce, unl⟩ h1 h2 h3
  simp only [kfStep, hk, keyfile_roundtrip C ks pw salt nonce hn]

/-- T4b′: what the code does on a key file whose nonce is not 12 bytes: `Decrypt` does not return an error, the AEAD
    panics (modelled as the outcome `nonceLength`). A file written by `Encrypt` never has such a nonce (T4a). -/
theorem decrypt_bad_nonce_length (C : CryptoFns) (kf : KeyFile) (pw : Bytes) (h : kf.nonce.length ≠ 12) :
    decryptEntropy C kf pw = .error .nonceLength := by
  have : Gen.gcmNonceSize = 12 := by decide
  simp [decryptEntropy, this, h]

/-- T4c: the address recorded in the key file is the address of derivation index 0 of the seed. -/
theorem keyfile_base_address (C : CryptoFns) (entropy : Bytes) (ks : KeyStore) (pw salt nonce : Bytes)
    (hks : keyStoreFromEntropy C entropy = .ok ks) :
    ∃ kp, deriveWithIndex C 0 ks.seed = .ok kp ∧ (encrypt C ks pw salt nonce).baseAddress = kp.address :=
  keyStoreFromEntropy_base C entropy ks hks pw salt nonce

/-- T4e: the members of a key file that are not bound to the password — the recorded address, the names, the version —
    have no influence on the key store `Decrypt` returns. -/
theorem decrypt_ignores_unauthenticated (C : CryptoFns) (kf : KeyFile) (pw a cn kd : Bytes) (v : Nat) :
    decrypt C { kf with baseAddress := a, cipherName := cn, kdf := kd, version := v } pw = decrypt C kf pw := rfl

/-- T4f: whatever address a key file records, the base address of the key store decrypted from it is the address of
    derivation index 0 of the decrypted entropy's seed, the key store is the one of that entropy, and the key file made
    from it again (`Encrypt` with any password / salt / nonce) records that index-0 address. -/
theorem decrypt_base_address (C : CryptoFns) (kf : KeyFile) (pw : Bytes) (ks : KeyStore)
    (h : decrypt C kf pw = .ok ks) (pw' salt nonce : Bytes) :
    keyStoreFromEntropy C ks.entropy = .ok ks ∧
    ∃ kp, deriveWithIndex C 0 ks.seed = .ok kp ∧ ks.baseAddress = kp.address ∧
      (encrypt C ks pw' salt nonce).baseAddress = kp.address := by
  unfold decrypt at h
  split at h
  · cases h
  · rename_i e _
    have he : ks.entropy = e := keyStoreFromEntropy_entropy C e ks h
    obtain ⟨kp, hkp, hb⟩ := keyStoreFromEntropy_base C e ks h pw' salt nonce
    exact ⟨by rw [he]; exact h, kp, hkp, hb, hb⟩

/-- T5 `address_layout`: the address of a public key is 0x00 ‖ sha3(pk)[0:19], 20 bytes. -/
theorem address_layout (C : Crypto) (pk : Bytes) :
    pubKeyToAddress C.toCryptoFns pk = 0 :: (C.sha3 pk).take 19 ∧ (pubKeyToAddress C.toCryptoFns pk).length = 20 := by
  simp [pubKeyToAddress, Gen.UserAddrByte, Gen.AddressCoreSize, C.sha3_len]

/-- T5b: every derived key pair carries the address of its own public key. -/
theorem keypair_address (C : CryptoFns) (path seed : Bytes) (kp : KeyPair) (h : deriveForPath C path seed = .ok kp) :
    kp.address = pubKeyToAddress C kp.pub ∧ kp.pub = C.edPub kp.secret := by
  unfold deriveForPath at h
  cases hk : deriveKey C path seed with
  | error e => simp [hk, Except.map] at h
  | ok k =>
    simp only [hk, Except.map, Except.ok.injEq] at h
    subst h
    simp [toKeyPair]

/-- T6 `sign_verify`: a signature made with a derived key verifies under its public key. From `verify_sign`. -/
theorem sign_verify (C : Crypto) (path seed msg : Bytes) (kp : KeyPair)
    (h : deriveForPath C.toCryptoFns path seed = .ok kp) :
    verify C.toCryptoFns kp.pub msg (sign C.toCryptoFns kp msg) = true := by
  have hp := (keypair_address C.toCryptoFns path seed kp h).2
  simp only [verify, sign, hp, C.verify_sign]

/-- determinism: key pair and address are functions of (seed, path); key store of the entropy — by construction
    (`deriveForPath`, `keyStoreFromEntropy` are Lean functions); stated for the record on equal inputs. -/
theorem derive_deterministic (C : CryptoFns) (p₁ p₂ s₁ s₂ : Bytes) (hp : p₁ = p₂) (hs : s₁ = s₂) :
    deriveForPath C p₁ s₁ = deriveForPath C p₂ s₂ := by subst hp; subst hs; rfl

/-- hypotheses are satisfiable: a (cryptographically worthless) instance of `Crypto` exists … -/
example : Crypto := toyCrypto
/-- … and with it index 0 derives and the key file round-trips on a concrete 16-byte entropy -/
example : ∃ ks, keyStoreFromEntropy toyCrypto.toCryptoFns (List.replicate 16 7) = .ok ks ∧
    decrypt toyCrypto.toCryptoFns (encrypt toyCrypto.toCryptoFns ks [1] [2] (List.replicate 12 3)) [1] = .ok ks := by
  obtain ⟨kp, hkp⟩ := (derive_index toyCrypto.toCryptoFns 0 (List.replicate 16 7) (by decide)).2 (by decide)
  have hks : keyStoreFromEntropy toyCrypto.toCryptoFns (List.replicate 16 7) =
      .ok ⟨List.replicate 16 7, List.replicate 16 7, List.replicate 16 7, kp.address⟩ := by
    have hm : toyCrypto.toCryptoFns.mnemonic (List.replicate 16 7) = some (List.replicate 16 7) := by decide
    have hs : toyCrypto.toCryptoFns.seed (List.replicate 16 7) = List.replicate 16 7 := rfl
    simp only [keyStoreFromEntropy, hm, hs, hkp]
  exact ⟨_, hks, (keystore_roundtrip toyCrypto _ _ [1] [2] (List.replicate 12 3) (by decide) hks).2⟩

end ZV.C19
