import ZenonVerif.Lemmas.KvLogic
/-
C06 — reorganisation leaves no trace. Property theorems only.
-/
namespace ZV.C06
open ZV ZV.Kv ZV.KvLogic

/-- T2 `rollback_exact`: rolling back a commit restores exactly the state before it, for every key:
    applying the undo patch recorded at commit time to the committed state gives the previous state. -/
theorem rollback_exact (s : Store) (p : Patch) : applyP (applyP s p) (rollbackPatch s p) = s := by
  funext x
  rw [rollback_restores]
  by_cases h : x ∈ keys p
  · simp [h]
  · simp [h, applyP_not_mem p s x h]

/-- byte level: the raw frontier after commit + pop abstracts to the frontier before -/
theorem rollback_exact_raw (r : Raw) (p : Patch) :
    abs (edApply (edApply r p) (rollbackPatch (abs r) p)) = abs r := by
  rw [abs_edApply, abs_edApply, rollback_exact]

/-- a branch switch (pop the commits of branch A in reverse order, then commit branch B) ends in the state of a
    store that only ever saw branch B -/
def commitAll (s : Store) : List Patch → Store
  | [] => s
  | p :: ps => commitAll (applyP s p) ps

/-- undo patches of a branch, newest first -/
def undoAll (s : Store) : List Patch → List Patch
  | [] => []
  | p :: ps => undoAll (applyP s p) ps ++ [rollbackPatch s p]

theorem popAll_exact (s : Store) (ps : List Patch) :
    (undoAll s ps).foldl applyP (commitAll s ps) = s := by
  induction ps generalizing s with
  | nil => rfl
  | cons p ps ih =>
    simp only [undoAll, commitAll, List.foldl_append, List.foldl_cons, List.foldl_nil]
    rw [ih (applyP s p), rollback_exact]

/-- T3 `branch_switch` (state level) -/
theorem branch_switch (s : Store) (a b : List Patch) :
    commitAll ((undoAll s a).foldl applyP (commitAll s a)) b = commitAll s b := by
  rw [popAll_exact]

example : applyP (applyP Store.empty [Op.put [3] [1], Op.del [4]]) (rollbackPatch Store.empty [Op.put [3] [1], Op.del [4]]) [3] = none := by
  decide

end ZV.C06
