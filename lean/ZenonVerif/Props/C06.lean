import ZenonVerif.Lemmas.KvLogic
import ZenonVerif.Lemmas.LdbInv
/-
C06 — reorganisation leaves no trace. Property theorems only.
-/
namespace ZV.C06
open ZV ZV.Kv ZV.KvLogic ZV.Versioned

/-- T2 `rollback_exact`: rolling back a commit restores exactly the state before it, for every key:
    applying the undo patch recorded at commit time to the committed state gives the previous state. -/
theorem rollback_exact (s : Store) (p : Patch) : applyP (applyP s p) (rollbackPatch s p) = s := applyP_undo s p

/-- byte level: the raw frontier after commit + pop abstracts to the frontier before -/
theorem rollback_exact_raw (r : Raw) (p : Patch) :
    abs (edApply (edApply r p) (rollbackPatch (abs r) p)) = abs r := by
  rw [abs_edApply, abs_edApply, rollback_exact]

/-- a branch switch (pop the commits of branch A in reverse order, then commit branch B) ends in the state of a
    store that only ever saw branch B -/
def commitAll (s : Store) : List Patch → Store
  | [] => s
  | p :: ps => commitAll (applyP s p) ps

/-- undo patches of a branch, newest first -/
def undoAll (s : Store) : List Patch → List Patch
  | [] => []
  | p :: ps => undoAll (applyP s p) ps ++ [rollbackPatch s p]

theorem popAll_exact (s : Store) (ps : List Patch) :
    (undoAll s ps).foldl applyP (commitAll s ps) = s := by
  induction ps generalizing s with
  | nil => rfl
  | cons p ps ih =>
    simp only [undoAll, commitAll, List.foldl_append, List.foldl_cons, List.foldl_nil]
    rw [ih (applyP s p), rollback_exact]

/-- T3 `branch_switch` (state level) -/
theorem branch_switch (s : Store) (a b : List Patch) :
    commitAll ((undoAll s a).foldl applyP (commitAll s a)) b = commitAll s b := by
  rw [popAll_exact]


/-! ### the executable manager: commit + pop leaves no observable trace -/

/-- T1 `pop_add` on the executable manager model. In every reachable state, a commit on the frontier (only the
    height discipline is assumed: height = frontier height + 1 < 2^64 — the hash may even collide and the
    operations may touch the bookkeeping keys) followed by a pop gives a state that is observationally equal to
    the state before: same logical frontier content, same frontier identifier, and for EVERY identifier `Get`
    answers alike (refused / a view) with views that agree on every lookup and every ordered prefix scan
    (`ObsEq`, Lemmas/LdbInv.lean). The raw frontier is NOT equal (tombstones of created keys remain). -/
theorem pop_add {s s1 s2 : Ldb} {h : List Ver} (hr : Reach s h) {id : Id} {ops : Patch}
    (hok : HOk s.frontierId id) (ha : s.add s.frontierId id ops = some s1) (hp : s1.pop = some s2) :
    abs s2.frontier = abs s.frontier ∧ s2.frontierId = s.frontierId ∧ ObsEq s s2 := by
  have hi2 : Inv s2 h := hr.inv.add_pop hok ha hp
  exact ⟨by rw [hi2.inv0.front, hr.inv.inv0.front], by rw [hi2.inv0.frontierId, hr.inv.inv0.frontierId],
    hr.inv.obsEq hi2⟩

/-- `pop_add`, spelled out for the versions on the chain: their views read the same before and after -/
theorem pop_add_views {s s1 s2 : Ldb} {h : List Ver} (hr : Reach s h) {id : Id} {ops : Patch}
    (hok : HOk s.frontierId id) (ha : s.add s.frontierId id ops = some s1) (hp : s1.pop = some s2) :
    ∀ v ∈ h, ∃ r r2, s.get v.id = some r ∧ s2.get v.id = some r2 ∧ (∀ k, r.get k = r2.get k) ∧
      (∀ p, edEntries (r.rawScan p) = edEntries (r2.rawScan p)) := by
  intro v hv
  have hi2 : Inv s2 h := hr.inv.add_pop hok ha hp
  obtain ⟨r, hg, hget, hscan⟩ := hr.inv.view_scan hv
  obtain ⟨r2, hg2, hget2, hscan2⟩ := hi2.view_scan hv
  exact ⟨r, r2, hg, hg2, fun k => by rw [hget, hget2], fun p => (hscan p).unique (hscan2 p)⟩

/-- the commit and the pop in `pop_add` cannot fail -/
theorem pop_add_total {s : Ldb} {h : List Ver} (hr : Reach s h) {id : Id} (ops : Patch)
    (hok : HOk s.frontierId id) : ∃ s1 s2, s.add s.frontierId id ops = some s1 ∧ s1.pop = some s2 := by
  obtain ⟨s1, ha⟩ := hr.inv.inv0.add_succeeds id ops
  obtain ⟨s2, hp⟩ := (hr.inv.inv0.add ops hok ha).pop_succeeds
  exact ⟨s1, s2, ha, hp⟩

/-- T3 `branch_switch` on the executable manager: whatever route led there (e.g. commit branch A, pop it, commit
    branch B — versus committing B directly), two reachable states with the same chain of versions are
    observationally equal: no identifier, key or scan tells them apart. -/
theorem same_history_same_obs {s t : Ldb} {h : List Ver} (hs : Reach s h) (ht : Reach t h) : ObsEq s t :=
  hs.inv.obsEq ht.inv

/-- pop returns to the predecessor: content and identifier of the version below -/
theorem pop_restores {s s' : Ldb} {v : Ver} {h : List Ver} (hr : Reach s (v :: h)) (hp : s.pop = some s') :
    abs s'.frontier = topStore h ∧ s'.frontierId = topId h :=
  ⟨(hr.inv.inv0.pop hp).front, (hr.inv.inv0.pop hp).frontierId⟩

/-- nothing to pop on the empty history: refused -/
theorem pop_empty_refused {s : Ldb} (hr : Reach s []) : s.pop = none := hr.inv.inv0.pop_empty

/-- non-vacuity of `pop_add` and a witness that the RAW frontier differs after commit + pop (a tombstone for the
    created key stays behind) although nothing observable does -/
example : ∃ s s1 s2 : Ldb, ∃ h, Reach s h ∧ HOk s.frontierId ⟨2, [8]⟩ ∧
    s.add s.frontierId ⟨2, [8]⟩ [Op.put [10] [5]] = some s1 ∧ s1.pop = some s2 ∧
    rget s.frontier [10] = none ∧ rget s2.frontier [10] = some [] := by
  have r0 := Reach.init
  obtain ⟨s1, a1⟩ := r0.inv.inv0.add_succeeds ⟨1, [7]⟩ [Op.put [9] []]
  have r1 := Reach.add (id := ⟨1, [7]⟩) (ops := [Op.put [9] []]) r0
    ⟨⟨by decide, by decide⟩, by simp, by decide⟩ a1
  have f1 : s1.frontierId = ⟨1, [7]⟩ := r1.inv.inv0.frontierId
  have hok : HOk s1.frontierId ⟨2, [8]⟩ := ⟨by rw [f1], by decide⟩
  obtain ⟨s2, s3, a2, p3⟩ := pop_add_total r1 [Op.put [10] [5]] hok
  refine ⟨s1, s2, s3, _, r1, hok, a2, p3, ?_, ?_⟩
  · have e1 := r0.inv.inv0.add_eq _ _ a1
    subst e1; decide
  · have e1 := r0.inv.inv0.add_eq _ _ a1
    have e2 := r1.inv.inv0.add_eq _ _ a2
    have e3 := (r1.inv.inv0.add _ hok a2).pop_eq p3
    subst e1; subst e2; subst e3; decide

example : applyP (applyP Store.empty [Op.put [3] [1], Op.del [4]]) (rollbackPatch Store.empty [Op.put [3] [1], Op.del [4]]) [3] = none := by
  decide

end ZV.C06
