import ZenonVerif.Model.Accept
import ZenonVerif.Lemmas.Codec
/-
C13, acceptance side (T2): what a node stores for a delivered account block is a function of the fields the hash covers and
of the node's state — except for the residue that is named here and nowhere else. Model: Model/Accept.lean
(`Supervisor.ApplyBlock` for a block that arrives from outside).
-/
namespace ZV.C13Accept
open ZV ZV.Codec ZV.Accept

/-! ## the tie: the assignments / reads of uncovered fields in the working tree are the ones the model was read from -/

theorem accept_assigns_current : Gen.acceptAssigns = reviewedAssigns := by rfl

theorem accept_uses_current : Gen.acceptUses = reviewedUses := by rfl

/-- on each path the fields ASSIGNED on the delivered object (outside `signFunc != nil`) are exactly the fields the model's
    table calls `recomputed` — a dropped or an added assignment breaks this -/
theorem assigned_fields_match_table :
    ∀ p ∈ [Path.user, Path.contractReceive], Gen.abStructFields.all (fun f =>
      (assignedOn p Gen.acceptAssigns).contains f == (treat p f == .recomputed)) = true := by decide

/-- the functions that READ an uncovered field of the delivered object, field by field: `ChangesHash` is read only inside
    the contract-receive case of `VM.applyBlock` (so never for a user block: F9), plasma fields only after `enoughPlasma`
    assigned them, key and signature only by the transaction verifier -/
theorem uncovered_reads_by_field :
    readIn "ChangesHash" Gen.acceptUses = ["VM.applyBlock"] ∧
    readIn "BasePlasma" Gen.acceptUses = ["enoughPlasma"] ∧
    readIn "TotalPlasma" Gen.acceptUses = ["enoughPlasma"] ∧
    readIn "PublicKey" Gen.acceptUses = ["accountBlockTransactionVerifier.signature", "accountBlockTransactionVerifier.producer"] ∧
    readIn "Signature" Gen.acceptUses = ["accountBlockTransactionVerifier.signature"] ∧
    readIn "Hash" Gen.acceptUses = ["Supervisor.packBlock", "VM.applyBlock", "accountBlockTransactionVerifier.signature",
      "accountBlockTransactionVerifier.hash"] := by decide

/-- every struct field has a treatment on both paths and the residue is exactly: `ChangesHash` (kept as delivered: known
    finding F9) and `Signature` (any signature the key holder makes verifies) of USER blocks; nothing for contract receives -/
theorem residue_is_exactly :
    residue .user = ["ChangesHash", "Signature"] ∧ residue .contractReceive = [] := by decide

/-- what the pool / ledger serialise of the accepted object (`AccountBlockTransaction.GetCommits` → `Serialize()` → `Proto()`,
    generated assignment list): every struct field the table does not call `notStored`, in struct order, on both paths — so
    equal stored objects are equal stored bytes and a field added to the struct without a treatment shows up here -/
theorem stored_fields_are_proto_fields :
    ∀ p ∈ [Path.user, Path.contractReceive],
      Gen.abStructFields.filter (fun f => treat p f != .notStored) = Gen.abProtoAssign.map (·.1) := by decide

/-! ## user blocks -/

private theorem strip_body {b1 b2 : Block} (h : b1.strip = b2.strip) : b1.body.strip = b2.body.strip := by
  obtain ⟨x, dx⟩ := b1; obtain ⟨y, dy⟩ := b2
  simp [Block.strip] at h
  exact h.1

private theorem enoughPlasma_user {e : Env} {b s : Block} (hu : e.isEmbedded b.body.address = false)
    (h : enoughPlasma e b = .ok s) :
    s = ⟨{ b.body with totalPlasma := (e.powPlasma b.body.difficulty + b.body.fusedPlasma) % two64,
                       basePlasma := e.basePlasma b.strip }, b.desc⟩ := by
  unfold enoughPlasma at h
  simp only [hu] at h
  repeat' split at h
  all_goals first | contradiction | (injection h with h; subst h; rfl) | cases h

private theorem applySwitch_user {e : Env} {b s : Block} (ht : b.body.blockType ≠ 5)
    (h : applySwitch e b = .ok s) : s = b := by
  unfold applySwitch at h
  repeat' split at h
  all_goals first | contradiction | omega | (injection h with h; subst h; rfl) | cases h

/-- what an accepted USER block is stored as -/
private theorem applyBlock_user {e : Env} {b s : Block} (hu : e.isEmbedded b.body.address = false)
    (h : applyBlock e b = .ok s) :
    s = ⟨{ b.body with totalPlasma := (e.powPlasma b.body.difficulty + b.body.fusedPlasma) % two64,
                       basePlasma := e.basePlasma b.strip }, b.desc⟩ ∧
    b.desc = [] ∧ e.pubKeyToAddress b.body.publicKey = b.body.address ∧ b.body.hash = abComputeHash e.H b := by
  unfold applyBlock at h
  split at h; · cases h
  split at h; · cases h
  rename_i hbt
  split at h; · cases h
  split at h; · cases h
  rename_i b1 h1
  have e1 := enoughPlasma_user hu h1
  split at h; · cases h
  rename_i b2 h2
  have hty : b1.body.blockType ≠ 5 := by
    rw [e1]
    simp [blockTypeOK, hu] at hbt
    simp only; omega
  have e2 := applySwitch_user hty h2
  split at h; · cases h
  rename_i h3
  injection h with h
  have hs : s = b1 := by rw [← h, e2]
  rw [e2] at h3
  rw [hs]
  refine ⟨e1, ?_⟩
  have hu1 : e.isEmbedded b1.body.address = false := by rw [e1]; exact hu
  unfold txVerify at h3
  simp only [hu1] at h3
  repeat' split at h3
  all_goals first | contradiction | cases h3 | skip
  rename_i hz hhash _ _ _ _ hpk hd
  rw [e1] at hpk hd hhash
  refine ⟨by simpa using hd, by simpa using hpk, ?_⟩
  have hh : ∀ t p, abComputeHash e.H ⟨{ b.body with totalPlasma := t, basePlasma := p }, b.desc⟩ = abComputeHash e.H b :=
    fun _ _ => rfl
  rw [hh] at hhash
  exact (by simpa using hhash : abComputeHash e.H b = b.body.hash).symm

/-- T2 for user blocks, `_partial`: two delivered variants with equal covered fields (what `C13.equal_hash_equal_covered`
    concludes from equal hashes) that the node accepts in the same state are stored with every field equal EXCEPT the residue
    `ChangesHash` (stored as delivered, never read: known finding F9) and `Signature` (every signature that verifies under the
    account's key is accepted; only the key holder can make one — `verifySig` is the Ed25519 oracle). The public key is pinned
    by the address (`pubKeyToAddress` without collision). Missing for the full strength: a comparison of `ChangesHash` with
    the computed changes on the non-signing path. -/
theorem stored_is_function_of_covered_fields_partial (e : Env)
    (hpk : ∀ p q, e.pubKeyToAddress p = e.pubKeyToAddress q → p = q)
    (b1 b2 s1 s2 : Block) (hcov : b1.strip = b2.strip) (hu : e.isEmbedded b1.body.address = false)
    (a1 : applyBlock e b1 = .ok s1) (a2 : applyBlock e b2 = .ok s2) :
    eraseResidue s1 = eraseResidue s2 := by
  have hb := strip_body hcov
  have haddr : b1.body.address = b2.body.address := by
    have := congrArg ABody.address hb; simpa [ABody.strip] using this
  obtain ⟨r1, d1, k1, -⟩ := applyBlock_user hu a1
  obtain ⟨r2, d2, k2, -⟩ := applyBlock_user (haddr ▸ hu) a2
  have hkey : b1.body.publicKey = b2.body.publicKey := hpk _ _ (by rw [k1, k2, haddr])
  subst r1; subst r2
  obtain ⟨x, dx⟩ := b1; obtain ⟨y, dy⟩ := b2
  simp only at d1 d2 hkey haddr hb
  subst d1; subst d2
  rw [hcov]
  cases x; cases y
  simp only [ABody.strip, ABody.mk.injEq] at hb
  simp_all [eraseResidue]

/-- The clause as the property states it: two USER blocks with the SAME HASH that one node accepts in one state are stored
    identically except the residue (`ChangesHash` = F9, `Signature` = key holder). Equal hashes give equal covered fields by
    `C13.equal_hash_equal_covered` (hash without collision on the inputs that arise, Go widths, amounts ≥ 0 as the verifier
    demands); that the `Hash` field is the computed hash is not assumed — the acceptance path checks it. -/
theorem same_hash_accepted_user_blocks_stored_equal_partial (e : Env) (hHlen : ∀ x, (e.H x).length = Gen.HashSize)
    (S : Bytes → Prop) (hH : InjOn e.H S)
    (hpk : ∀ p q, e.pubKeyToAddress p = e.pubKeyToAddress q → p = q)
    (b1 b2 s1 s2 : Block) (hu : e.isEmbedded b1.body.address = false) (hu2 : e.isEmbedded b2.body.address = false)
    (i1 : ∀ x ∈ b1.hashInputs e.H, S x) (i2 : ∀ x ∈ b2.hashInputs e.H, S x)
    (w1 : b1.body.WF ∧ 0 ≤ b1.body.amount) (w2 : b2.body.WF ∧ 0 ≤ b2.body.amount)
    (hh : b1.body.hash = b2.body.hash)
    (a1 : applyBlock e b1 = .ok s1) (a2 : applyBlock e b2 = .ok s2) :
    eraseResidue s1 = eraseResidue s2 := by
  obtain ⟨_, d1, _, c1⟩ := applyBlock_user hu a1
  obtain ⟨_, d2, _, c2⟩ := applyBlock_user hu2 a2
  have hcov : b1.strip = b2.strip := by
    obtain ⟨x, dx⟩ := b1; obtain ⟨y, dy⟩ := b2
    simp only at d1 d2; subst d1; subst d2
    exact strip_eq_of_hash_eq e.H hHlen S hH _ _ i1 i2
      (by simp [Block.DeepWF, DeepWFList]; exact w1) (by simp [Block.DeepWF, DeepWFList]; exact w2)
      (by simp [Block.Consistent, ConsistentList]; exact c1) (by simp [Block.Consistent, ConsistentList]; exact c2) hh
  exact stored_is_function_of_covered_fields_partial e hpk b1 b2 s1 s2 hcov hu a1 a2

/-- non-vacuity and negative witness in one: a toy node (constant hash, every signature verifies, one address) accepts two
    variants of one block that differ only in `ChangesHash` and stores them differently (F9) -/
def toyEnv : Env where
  H := fun _ => List.replicate 32 1
  isEmbedded := fun a => a == [9]
  verifierOK := fun _ => true
  available := fun _ => 100
  powPlasma := fun _ => 0
  maxPlasma := 1000
  basePlasma := fun _ => 5
  applyOK := fun _ => true
  generate := fun _ => none
  verifySig := fun _ _ s => s.length == 2
  pubKeyToAddress := fun p => p
  descOK := fun _ => true

def toyBody : ABody :=
  { (default : ABody) with
    blockType := 2
    hash := List.replicate 32 1
    address := [7]
    publicKey := [7]
    signature := [1, 2]
    fusedPlasma := 10
    changesHash := [1] }

/-- what the toy node stores for a delivered block (body; `none` = refused) -/
def toyStored (b : Block) : Option ABody := (applyBlock toyEnv b).toOption.map (·.body)

theorem changes_hash_variant_stored_differently :
    toyStored ⟨toyBody, []⟩ = some { toyBody with basePlasma := 5, totalPlasma := 10 } ∧
    toyStored (alter ⟨toyBody, []⟩ (.changesHash [2])) = some { toyBody with basePlasma := 5, totalPlasma := 10, changesHash := [2] } ∧
    toyBody.strip = (alter ⟨toyBody, []⟩ (.changesHash [2])).body.strip := by decide

/-- the second residue: another signature that verifies (only the key holder can make one) is a second stored form -/
theorem second_signature_stored_differently :
    toyStored ⟨toyBody, []⟩ = some { toyBody with basePlasma := 5, totalPlasma := 10 } ∧
    toyStored (alter ⟨toyBody, []⟩ (.signature [3, 4])) = some { toyBody with basePlasma := 5, totalPlasma := 10, signature := [3, 4] } ∧
    toyBody.strip = (alter ⟨toyBody, []⟩ (.signature [3, 4])).body.strip := by decide

/-- per uncovered field of a USER block: an alteration is refused, or what is stored is the same — for `BasePlasma`,
    `TotalPlasma` (recomputed) and `PublicKey` (pinned by the address) in every field, for the residue `ChangesHash` and
    `Signature` in every other field -/
theorem uncovered_field_alterations_refused_or_normalised (e : Env)
    (hpk : ∀ p q, e.pubKeyToAddress p = e.pubKeyToAddress q → p = q)
    (b s : Block) (hu : e.isEmbedded b.body.address = false) (a : applyBlock e b = .ok s) (u : UField) :
    match applyBlock e (alter b u) with
    | .error _ => True
    | .ok s' => eraseResidue s' = eraseResidue s ∧ ((residue .user).contains u.name = false → s' = s) := by
  split
  · trivial
  · rename_i s' a'
    have hcov : (alter b u).strip = b.strip := by
      obtain ⟨x, dx⟩ := b
      cases u <;> simp [alter, Block.strip, ABody.strip]
    have haddr : (alter b u).body.address = b.body.address := by cases u <;> rfl
    refine ⟨stored_is_function_of_covered_fields_partial e hpk _ _ _ _ hcov (haddr ▸ hu) a' a, ?_⟩
    intro hres
    obtain ⟨r1, d1, k1, -⟩ := applyBlock_user hu a
    obtain ⟨r2, d2, k2, -⟩ := applyBlock_user (haddr ▸ hu) a'
    have hkey : (alter b u).body.publicKey = b.body.publicKey := hpk _ _ (by rw [k1, k2, haddr])
    subst r1; subst r2
    rw [hcov]
    obtain ⟨x, dx⟩ := b
    cases u
    all_goals first
      | (exfalso; simp [UField.name, residue_is_exactly.1] at hres; done)
      | (cases x; simp_all [alter])

/-! ## contract receives -/

/-- what an accepted CONTRACT RECEIVE is stored as, read off the model -/
private theorem applyBlock_contract {e : Env} {b s : Block} (he : e.isEmbedded b.body.address = true)
    (h : applyBlock e b = .ok s) :
    ∃ g, e.generate b.strip = some g ∧ g.body.changesHash = b.body.changesHash ∧ abComputeHash e.H g = b.body.hash ∧
      s = ⟨{ b.body with basePlasma := g.body.basePlasma, totalPlasma := g.body.totalPlasma }, g.desc⟩ ∧
      abComputeHash e.H s = b.body.hash ∧ b.body.publicKey = [] ∧ b.body.signature = [] := by
  unfold applyBlock at h
  split at h; · cases h
  rename_i h4
  split at h; · cases h
  rename_i hbt
  split at h; · cases h
  split at h; · cases h
  rename_i b1 h1
  have e1 : b1 = b := by
    unfold enoughPlasma at h1
    simp only [he, if_true] at h1
    injection h1 with h1; exact h1.symm
  subst e1
  split at h; · cases h
  rename_i b2 h2
  split at h; · cases h
  rename_i h3
  injection h with h
  subst h
  have hty : b1.body.blockType = 5 := by
    simp [blockTypeOK, he] at hbt
    omega
  unfold applySwitch at h2
  split at h2; · omega
  split at h2; · cases h2
  rename_i g hg
  split at h2; · cases h2
  rename_i hch
  split at h2; · cases h2
  rename_i hgh
  injection h2 with h2
  refine ⟨g, hg, by simpa using hch, by simpa using hgh, h2.symm, ?_⟩
  unfold txVerify at h3
  have he2 : e.isEmbedded b2.body.address = true := by rw [← h2]; exact he
  simp only [he2, if_true] at h3
  repeat' split at h3
  all_goals first | contradiction | cases h3 | skip
  rename_i hz hhash hpk hsig _ _
  rw [← h2] at hhash hpk hsig
  refine ⟨?_, ?_, ?_⟩
  · rw [← h2]; simpa using hhash
  · exact List.eq_nil_of_length_eq_zero (by simpa using hpk)
  · exact List.eq_nil_of_length_eq_zero (by simpa using hsig)

/-- T2 for contract receives: what the node stores IS the block it regenerates from its own state — it depends on no
    delivered field beyond the covered ones that select the regeneration (`generate` reads `b.strip`). Hypotheses: the hash
    function has 32-byte digests and no collision on the inputs that arise (`S`), Go field widths, and the regenerated block
    is what `finalizeEmbedded` makes (its `Hash` is the computed hash, no key, no signature). -/
theorem contract_receive_stored_is_regenerated (e : Env) (hHlen : ∀ x, (e.H x).length = Gen.HashSize)
    (S : Bytes → Prop) (hH : InjOn e.H S) (b s g : Block)
    (he : e.isEmbedded b.body.address = true) (hg : e.generate b.strip = some g)
    (gh : g.body.hash = abComputeHash e.H g) (gk : g.body.publicKey = []) (gs : g.body.signature = [])
    (wb : b.body.WF) (wg : g.body.WF) (ab : 0 ≤ b.body.amount) (ag : 0 ≤ g.body.amount)
    (sS : S (abPreimage e.H s)) (sG : S (abPreimage e.H g)) (sd : S b.body.data) (sgd : S g.body.data)
    (a : applyBlock e b = .ok s) : s = g := by
  obtain ⟨g', hg', hch, hgh, hs, hsh, hpk, hsig⟩ := applyBlock_contract he a
  rw [hg] at hg'
  injection hg' with hg'
  subst hg'
  have hpre : abPreimage e.H s = abPreimage e.H g := hH _ _ sS sG (by
    have : abComputeHash e.H s = abComputeHash e.H g := by rw [hsh, hgh]
    simpa [abComputeHash] using this)
  have ws : s.body.WF := by
    rw [hs]
    exact ⟨wb.version, wb.chainIdentifier, wb.blockType, wb.hash, wb.previousHash, wb.height, wb.momentumAcknowledged,
      wb.address, wb.toAddress, wb.tokenStandard, wb.fromBlockHash, wb.fusedPlasma, wb.difficulty, wb.nonce⟩
  have as : 0 ≤ s.body.amount := by rw [hs]; exact ab
  obtain ⟨hd, _, hdata⟩ := abPreimage_split e.H hHlen s g ws wg as ag hpre
  have hdata' : s.body.data = g.body.data := hH _ _ (by rw [hs]; exact sd) sgd hdata
  have hhash : s.body.hash = g.body.hash := by
    have : s.body.hash = b.body.hash := by rw [hs]
    rw [this, gh, hgh]
  obtain ⟨h1, h2, h3, h4, h5, h6, h7, h8, h9, h10, h11, h12, h13, h14⟩ := hd
  obtain ⟨gb, gd⟩ := g
  obtain ⟨bb, bd⟩ := b
  subst hs
  cases gb; cases bb
  simp_all

/-- non-vacuity of `contract_receive_stored_is_regenerated`'s acceptance hypothesis and the refusals around it: a toy node
    whose regenerated block is `toyGen` accepts the delivered copy with altered plasma fields and descendants, stores the
    regenerated values, and refuses a copy with a key or another changes hash -/
def toyGen : ABody :=
  { (default : ABody) with blockType := 5, hash := List.replicate 32 1, address := [9], changesHash := [4], basePlasma := 0, totalPlasma := 0 }

def toyEnvC : Env := { toyEnv with generate := fun _ => some ⟨toyGen, []⟩ }

def toyStoredC (b : Block) : Option (ABody × Nat) := (applyBlock toyEnvC b).toOption.map (fun s => (s.body, s.desc.length))

theorem contract_receive_variants_witness :
    toyStoredC ⟨{ toyGen with basePlasma := 7, totalPlasma := 9 }, [⟨toyGen, []⟩]⟩ = some (toyGen, 0) ∧
    toyStoredC ⟨{ toyGen with publicKey := [1] }, []⟩ = none ∧
    toyStoredC ⟨{ toyGen with signature := [1] }, []⟩ = none ∧
    toyStoredC ⟨{ toyGen with changesHash := [5] }, []⟩ = none := by decide

end ZV.C13Accept
