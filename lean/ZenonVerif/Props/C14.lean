import ZenonVerif.Lemmas.Pool
import ZenonVerif.Lemmas.PoolFilter
import ZenonVerif.Lemmas.PoolChain
import ZenonVerif.Gen.Subscribe
/-
C14 — unconfirmed pool: property theorems only.
-/
namespace ZV.C14
open ZV ZV.Pool

/-! ### T3 — the competition rule `higherPriority` -/

/-- with the regenerated constants every accepted block's plasma fields are below 2^32, so the uint64 products of
    `higherPriority` never wrap -/
theorem bounded_small (a : Blk) (h : Bounded a) : Small a := by
  unfold Bounded at h
  unfold Small
  simp only [Gen.MaxPlasmaForAccountBlock, Gen.AccountBlockBasePlasma, Gen.ABByteDataPlasma, Gen.MaxDataLength,
    Gen.PT_EmbeddedSimple, Gen.PT_EmbeddedWWithdraw, Gen.PT_EmbeddedWDoubleWithdraw, two32] at *
  omega

/-- T3 `priority_total_antisymmetric`: for ALL uint64 plasma values (even when the products wrap), two blocks
    with distinct hashes are strictly ordered: exactly one of `higherPriority a b`, `higherPriority b a` succeeds. -/
theorem priority_total_antisymmetric (a b : Blk) (h : a.hash ≠ b.hash) :
    (higherPriority a b = .ok ∧ higherPriority b a ≠ .ok) ∨
    (higherPriority a b ≠ .ok ∧ higherPriority b a = .ok) := by
  simp only [ne_eq]
  rw [hp_ok_iff a b, hp_ok_iff b a]
  rcases bytesLt_total_x a.hash b.hash h with hl | hl
  · have hn := bytesLt_asymm_x _ _ hl
    by_cases h1 : prodL b a < prodL a b
    · left; refine ⟨Or.inl h1, ?_⟩; rintro (h2 | ⟨h2, _⟩) <;> omega
    · by_cases h2 : prodL a b = prodL b a
      · left; refine ⟨Or.inr ⟨h2, hl⟩, ?_⟩
        rintro (h3 | ⟨_, h3⟩)
        · omega
        · rw [hn] at h3; cases h3
      · right; refine ⟨?_, Or.inl (by omega)⟩
        rintro (h3 | ⟨h3, _⟩)
        · exact h1 h3
        · exact h2 h3
  · have hn := bytesLt_asymm_x _ _ hl
    by_cases h1 : prodL a b < prodL b a
    · right; refine ⟨?_, Or.inl h1⟩; rintro (h2 | ⟨h2, _⟩) <;> omega
    · by_cases h2 : prodL a b = prodL b a
      · right; refine ⟨?_, Or.inr ⟨h2.symm, hl⟩⟩
        rintro (h3 | ⟨_, h3⟩)
        · omega
        · rw [hn] at h3; cases h3
      · left; refine ⟨Or.inl (by omega), ?_⟩
        rintro (h3 | ⟨h3, _⟩)
        · exact h1 h3
        · exact h2 h3.symm

/-- antisymmetry needs no hypothesis at all -/
theorem priority_antisymm (a b : Blk) (h : higherPriority a b = .ok) : higherPriority b a ≠ .ok := by
  simp only [ne_eq]
  rw [hp_ok_iff] at h ⊢
  rintro (h2 | ⟨h2, h3⟩)
  · rcases h with h | ⟨h, _⟩ <;> omega
  · rcases h with h | ⟨_, h⟩
    · omega
    · rw [bytesLt_asymm_x _ _ h] at h3; cases h3

/-- irreflexive; more generally a block never displaces a block with the same hash and the same plasma fields
    (the plasma fields are not covered by the hash; for user blocks they are recomputed from hashed fields, so an
    equal hash means equal plasma) -/
theorem priority_irrefl (a b : Blk) (h : a.hash = b.hash) (ht : a.total = b.total) (hb : a.base = b.base) :
    higherPriority a b = .hashTieBreak := by
  unfold higherPriority
  simp [h, ht, hb, bytesLt_irrefl_x]

/-- the rule as the statement words it — "higher plasma ratio, then smaller hash" — for the plasma values accepted
    blocks carry; ratios are compared by cross-multiplication over unbounded naturals -/
theorem priority_spec (a b : Blk) (ha : Bounded a) (hb : Bounded b) :
    higherPriority a b = .ok ↔
      b.total * a.base < a.total * b.base ∨
      (b.total * a.base = a.total * b.base ∧ bytesLt a.hash b.hash = true) := by
  rw [hp_ok_small a b (bounded_small a ha) (bounded_small b hb)]
  unfold geR
  constructor
  · rintro (h | ⟨h1, h2, h3⟩)
    · left; omega
    · right; exact ⟨by omega, h3⟩
  · rintro (h | ⟨h1, h3⟩)
    · left; omega
    · right; exact ⟨by omega, by omega, h3⟩

/-- transitivity, when no product wraps and none of the three blocks has TotalPlasma = BasePlasma = 0
    (user blocks: BasePlasma ≥ 21000) -/
theorem priority_trans (a b c : Blk) (ha : Small a) (hb : Small b) (hc : Small c)
    (za : NZ a) (zb : NZ b) (zc : NZ c)
    (h1 : higherPriority a b = .ok) (h2 : higherPriority b c = .ok) : higherPriority a c = .ok := by
  rw [hp_ok_small _ _ ha hb] at h1
  rw [hp_ok_small _ _ hb hc] at h2
  rw [hp_ok_small _ _ ha hc]
  have tot := geR_total
  rcases h1 with h1 | ⟨h1a, h1b, h1c⟩
  · -- a strictly above b
    have hbc : geR b c := by
      rcases h2 with h2 | ⟨h2, _, _⟩
      · rcases tot b c with h | h
        · exact h
        · exact absurd h h2
      · exact h2
    left; intro hca
    exact h1 (geR_trans b c a zc hbc hca)
  · rcases h2 with h2 | ⟨h2a, h2b, h2c⟩
    · left; intro hca
      exact h2 (geR_trans c a b za hca h1a)
    · right
      exact ⟨geR_trans a b c zb h1a h2a, geR_trans c b a zb h2b h1b, bytesLt_trans_x _ _ _ h1c h2c⟩

/-- blocks of embedded addresses carry no plasma (enoughPlasma returns before setting the fields,
    GetBasePlasmaForAccountBlock = 0): among them the rule is the hash order -/
theorem priority_zero_plasma (a b : Blk) (ha : ¬ NZ a) (hb : ¬ NZ b) :
    higherPriority a b = .ok ↔ bytesLt a.hash b.hash = true := by
  have ha1 : a.total = 0 := by unfold NZ at ha; omega
  have ha2 : a.base = 0 := by unfold NZ at ha; omega
  have hb1 : b.total = 0 := by unfold NZ at hb; omega
  have hb2 : b.base = 0 := by unfold NZ at hb; omega
  rw [hp_ok_iff]; unfold prodL
  simp [ha1, ha2, hb1, hb2]

theorem priority_trans_uniform (l : List Blk) (hs : ∀ x ∈ l, Small x) (hu : Uniform l) (a b c : Blk)
    (ha : a ∈ l) (hb : b ∈ l) (hc : c ∈ l)
    (h1 : higherPriority a b = .ok) (h2 : higherPriority b c = .ok) : higherPriority a c = .ok := by
  rcases hu with hu | hu
  · exact priority_trans a b c (hs a ha) (hs b hb) (hs c hc) (hu a ha) (hu b hb) (hu c hc) h1 h2
  · rw [priority_zero_plasma _ _ (hu _ ‹_›) (hu _ ‹_›)] at h1 h2 ⊢
    exact bytesLt_trans_x _ _ _ h1 h2

/-- negative witness (zero BasePlasma): a block with TotalPlasma = BasePlasma = 0 ties with every ratio, so among
    mixed competitors the rule is cyclic: a beats z by hash, z beats c by hash, c beats a by ratio. All values are in
    the accepted range; transitivity and with it order-independence fail. -/
theorem priority_trans_fails_with_zero_plasma :
    ∃ a z c : Blk, Small a ∧ Small z ∧ Small c ∧ a.hash ≠ z.hash ∧ z.hash ≠ c.hash ∧ a.hash ≠ c.hash ∧
      higherPriority a z = .ok ∧ higherPriority z c = .ok ∧ higherPriority c a = .ok ∧
      winner [a, z, c] ≠ winner [z, c, a] :=
  ⟨{ height := 1, hash := [1], prevHash := [], total := 21000, base := 21000 },
   { height := 1, hash := [2], prevHash := [], total := 0, base := 0 },
   { height := 1, hash := [3], prevHash := [], total := 42000, base := 21000 }, by decide⟩

/-- negative witness (wrap-around): with positive BasePlasma but TotalPlasma = 2^63 the uint64 product wraps to 0 and
    the rule is cyclic (a > b > c > a) — the bound hypotheses of `priority_trans` are necessary. -/
theorem priority_trans_fails_on_wrap :
    ∃ a b c : Blk, a.total < two64 ∧ a.base < two64 ∧ 0 < a.base ∧ 0 < b.base ∧ 0 < c.base ∧
      higherPriority a b = .ok ∧ higherPriority b c = .ok ∧ higherPriority c a = .ok ∧
      c.total * a.base < a.total * c.base :=
  ⟨{ height := 1, hash := [1], prevHash := [], total := two63, base := 1 },
   { height := 1, hash := [2], prevHash := [], total := 1, base := 1 },
   { height := 1, hash := [3], prevHash := [], total := 1, base := 2 }, by decide⟩

/-- the fold keeps the maximum of what it has seen -/
private theorem fold_max (l : List Blk)
    (htr : ∀ a b c, a ∈ l → b ∈ l → c ∈ l → higherPriority a b = .ok → higherPriority b c = .ok →
      higherPriority a c = .ok) :
    ∀ (xs : List Blk) (cur : Blk), (∀ y ∈ cur :: xs, y ∈ l) →
      (cur :: xs).Pairwise (fun x y => x.hash ≠ y.hash) →
      xs.foldl pick cur ∈ cur :: xs ∧
      ∀ y ∈ cur :: xs, y = xs.foldl pick cur ∨ higherPriority (xs.foldl pick cur) y = .ok := by
  intro xs
  induction xs with
  | nil => intro cur _ _; simp
  | cons z zs ih =>
    intro cur hl hpw
    simp only [List.foldl_cons]
    have hcz : cur.hash ≠ z.hash := by
      have := (List.pairwise_cons.mp hpw).1 z (by simp); exact this
    have hpw' : (pick cur z :: zs).Pairwise (fun x y => x.hash ≠ y.hash) := by
      have h1 := List.pairwise_cons.mp hpw
      have h2 := List.pairwise_cons.mp h1.2
      unfold pick; split
      · exact h1.2
      · exact List.pairwise_cons.mpr ⟨fun y hy => h1.1 y (by simp [hy]), h2.2⟩
    have hmem : ∀ y ∈ pick cur z :: zs, y ∈ l := by
      intro y hy
      rcases List.mem_cons.mp hy with h | h
      · rw [h]; unfold pick; split
        · exact hl z (by simp)
        · exact hl cur (by simp)
      · exact hl y (by simp [h])
    obtain ⟨hw, hall⟩ := ih (pick cur z) hmem hpw'
    generalize hwdef : zs.foldl pick (pick cur z) = w at hw hall
    have hwl : w ∈ l := hmem w hw
    have hcl : cur ∈ l := hl cur (by simp)
    have hzl : z ∈ l := hl z (by simp)
    have hpk := hall (pick cur z) (by simp)
    constructor
    · rcases List.mem_cons.mp hw with h | h
      · rw [h]; unfold pick; split <;> simp
      · simp [h]
    · intro y hy
      have hcase : y = cur ∨ y = z ∨ y ∈ zs := by simpa using hy
      by_cases hzc : higherPriority z cur = .ok
      · have hpz : pick cur z = z := by unfold pick; simp [hzc]
        rw [hpz] at hpk
        rcases hcase with h | h | h
        · rw [h]
          rcases hpk with h' | h'
          · right; rw [← h']; exact hzc
          · right; exact htr w z cur hwl hzl hcl h' hzc
        · rw [h]; exact hpk
        · exact hall y (by simp [h])
      · have hpc : pick cur z = cur := by unfold pick; simp [hzc]
        rw [hpc] at hpk
        have hcz' : higherPriority cur z = .ok := by
          rcases priority_total_antisymmetric cur z hcz with h | h
          · exact h.1
          · exact absurd h.2 hzc
        rcases hcase with h | h | h
        · rw [h]; exact hpk
        · rw [h]
          rcases hpk with h' | h'
          · right; rw [← h']; exact hcz'
          · right; exact htr w cur z hwl hcl hzl h' hcz'
        · exact hall y (by simp [h])

/-- T3′ `winner_order_independent`: let a finite set of competitors for one height (pairwise distinct hashes,
    plasma fields in the no-wrap range, all with plasma or all without) arrive in two different orders; each arrival
    replaces the held block iff `higherPriority arrival held` succeeds. Both orders leave the same block. -/
theorem winner_order_independent (l₁ l₂ : List Blk) (hperm : l₁.Perm l₂)
    (hs : ∀ x ∈ l₁, Small x) (hu : Uniform l₁)
    (hd : l₁.Pairwise (fun x y => x.hash ≠ y.hash)) : winner l₁ = winner l₂ := by
  have hd2 : l₂.Pairwise (fun x y => x.hash ≠ y.hash) :=
    (hperm.pairwise_iff (fun h => Ne.symm h)).mp hd
  have htr := priority_trans_uniform l₁ hs hu
  match l₁, l₂, hperm, hd, hd2, htr with
  | [], [], _, _, _, _ => rfl
  | [], _ :: _, hp, _, _, _ => exact absurd hp.length_eq (by simp)
  | _ :: _, [], hp, _, _, _ => exact absurd hp.length_eq (by simp)
  | x :: xs, y :: ys, hp, hd, hd2, htr =>
    simp only [winner, Option.some.injEq]
    obtain ⟨hw1, hall1⟩ := fold_max (x :: xs) htr xs x (fun _ h => h) hd
    obtain ⟨hw2, hall2⟩ := fold_max (x :: xs) htr ys y (fun z h => hp.mem_iff.mpr h) hd2
    generalize xs.foldl pick x = w1 at *
    generalize ys.foldl pick y = w2 at *
    rcases hall1 w2 (hp.mem_iff.mpr hw2) with h | h
    · exact h.symm
    · rcases hall2 w1 (hp.mem_iff.mp hw1) with h' | h'
      · exact h'
      · exact absurd h' (priority_antisymm _ _ h)

/-- for accepted user blocks (bounded plasma, BasePlasma > 0) the hypotheses of `winner_order_independent` hold -/
theorem winner_order_independent_user (l₁ l₂ : List Blk) (hperm : l₁.Perm l₂)
    (hb : ∀ x ∈ l₁, Bounded x ∧ 0 < x.base)
    (hd : l₁.Pairwise (fun x y => x.hash ≠ y.hash)) : winner l₁ = winner l₂ :=
  winner_order_independent l₁ l₂ hperm (fun x hx => bounded_small x (hb x hx).1)
    (Or.inl (fun x hx => Or.inr (by have := (hb x hx).2; omega))) hd

example : ∃ l₁ l₂ : List Blk, l₁.Perm l₂ ∧ l₁ ≠ l₂ ∧ (∀ x ∈ l₁, Bounded x ∧ 0 < x.base) ∧
    l₁.Pairwise (fun x y => x.hash ≠ y.hash) ∧ winner l₁ = winner l₂ :=
  ⟨[{ height := 1, hash := [1], prevHash := [], total := 21000, base := 21000 },
    { height := 1, hash := [2], prevHash := [], total := 42000, base := 21000 }],
   [{ height := 1, hash := [2], prevHash := [], total := 42000, base := 21000 },
    { height := 1, hash := [1], prevHash := [], total := 21000, base := 21000 }],
   by decide, by decide, by decide, by decide, by decide⟩

/-! ### T5 — `filterBlocksToCommit` -/

/-- the result is a prefix of the input -/
theorem filter_prefix (ts : List Nat) : filterBlocksToCommit ts <+: ts := by
  have := filterGo_prefix isContractSend Gen.MaxAccountBlocksInMomentum ts [] []
  simpa [filterBlocksToCommit] using this

/-- at most `MaxAccountBlocksInMomentum` blocks -/
theorem filter_length (ts : List Nat) : (filterBlocksToCommit ts).length ≤ Gen.MaxAccountBlocksInMomentum :=
  filterGo_length isContractSend _ ts [] [] (by simp)

/-- the result ends at a batch boundary: it is empty or its last block is not a ContractSend — the descendant
    sends of a contract receive are never offered without the receive that follows them -/
theorem filter_batch_boundary (ts : List Nat) (x : Nat) (h : (filterBlocksToCommit ts).getLast? = some x) :
    x ≠ Gen.BlockTypeContractSend := by
  have := filterGo_boundary isContractSend Gen.MaxAccountBlocksInMomentum ts [] [] (by intro x hx; simp at hx) x h
  simpa [isContractSend] using this

/-- maximal: every prefix of the input that ends at a batch boundary and respects the limit is at most as long as
    the result (so the result is THE longest such prefix) -/
theorem filter_maximal (ts p : List Nat) (hp : p <+: ts)
    (hB : ∀ x, p.getLast? = some x → x ≠ Gen.BlockTypeContractSend)
    (hl : p.length ≤ Gen.MaxAccountBlocksInMomentum) : p.length ≤ (filterBlocksToCommit ts).length := by
  apply filterGo_maximal isContractSend Gen.MaxAccountBlocksInMomentum ts [] [] p (by intro x hx; cases hx)
    (by simpa using hp) _ hl
  intro x hx
  have := hB x hx
  simpa [isContractSend] using this

example : filterBlocksToCommit [2, 4, 4, 5, 4] = [2, 4, 4, 5] := by decide

/-! ### T1 / T2 — the per-address pool (one-block transactions)

`Reachable c0 s`: `s` is reached from the confirmed account chain `c0` and an empty pool by any sequence of
add / force-add (any block of height ≥ 1), momentum insert (any blocks that extend the confirmed chain) and momentum
delete (cut the confirmed chain anywhere). -/

/-- T1 `pool_single_chain`: in every reachable state the manager of the address is built on the current confirmed
    chain and its pooled blocks form one chain on top of it: the first block's Previous() is the stable identifier,
    every other block's Previous() is the identifier of its predecessor (`Linked`), and the heights are
    stable+1, stable+2, … without gap. -/
theorem pool_single_chain (c0 : List Blk) (s : PState) (hr : Reachable c0 s) :
    s.manager.base = s.confirmed ∧ Linked (lastId s.confirmed) s.manager.pooled ∧
    ∀ (i : Nat) (h : i < s.manager.pooled.length),
      s.manager.pooled[i].height = (lastId s.confirmed).2 + 1 + i := by
  obtain ⟨h1, h2, h3⟩ := manager_ok (reachable_inv hr)
  exact ⟨h1, h2, linked_heights _ _ h2 h3⟩

/-- the whole frontier view (confirmed chain followed by the pooled blocks) is one chain from the zero identifier -/
theorem pool_view_is_chain (c0 : List Blk) (s : PState) (hr : Reachable c0 s) :
    Linked zeroId (s.manager.base ++ s.manager.pooled) := by
  have hi := reachable_inv hr
  obtain ⟨h1, h2, _⟩ := manager_ok hi
  rw [h1, linked_append]
  exact ⟨hi.1, by rw [← lastId_eq]; exact h2⟩

/-- T2 `confirmed_never_displaced`: no pool operation touches the confirmed chain, and an attempt to add (or force-add)
    a block at or below the confirmed height is answered "already inserted" — exactly when it IS the confirmed block
    of that height — or refused as older than the stable identifier; the pool keeps its blocks. The frontier store
    answers every height up to the confirmed one with the confirmed block. -/
theorem confirmed_never_displaced (c0 : List Blk) (s : PState) (hr : Reachable c0 s) (b : Blk) (f : Bool)
    (hb : b.height ≠ 0) (hle : b.height ≤ (lastId s.confirmed).2) :
    ((addBlock s b f).2 = .already ∨ (addBlock s b f).2 = .olderThanStable) ∧
    (addBlock s b f).1 = { s with mgr := some s.manager } ∧
    ((addBlock s b f).2 = .already ↔ (byHeight s.confirmed b.height).map Blk.id = some b.id) ∧
    ∀ h, h ≤ (lastId s.confirmed).2 →
      byHeight (s.manager.base ++ s.manager.pooled) h = byHeight s.confirmed h := by
  have hi := reachable_inv hr
  obtain ⟨h1, h2, h3⟩ := manager_ok hi
  -- pooled blocks lie strictly above the confirmed height
  have habove := linked_mem_height _ _ h2 h3
  have hview : ∀ h, h ≤ (lastId s.confirmed).2 →
      byHeight (s.manager.base ++ s.manager.pooled) h = byHeight s.confirmed h := by
    intro h hh
    rw [byHeight_append, byHeight_none _ _ (fun x hx => by have := (habove x hx).1; omega), h1]
    simp
  -- the block cannot be a fast-forward: the frontier is at or above the confirmed height
  have hfront : (s.manager.frontierId).2 = (lastId s.confirmed).2 + s.manager.pooled.length := by
    rw [frontierId_eq, h1]; exact linked_last_height _ _ h2 h3
  have hne : b.prev ≠ s.manager.frontierId := by
    intro he
    have : b.prev.2 = (s.manager.frontierId).2 := by rw [he]
    simp only [Blk.prev, hb, if_false] at this
    omega
  have hcr : canRollback s s.manager b = some .olderThanStable := by
    unfold canRollback; simp [hle]
  refine ⟨?_, ?_, ?_, hview⟩
  all_goals
    unfold addBlock
    simp only [hne, if_false, hview b.height hle, hcr]
    split <;> simp_all

/-- the call `higherPriority(block, trueBlock)` in addAccountBlockTransaction is made before `trueBlock` is known to be
    non-nil; in every reachable state it never is nil there (no nil dereference), forced or not -/
theorem add_never_nil_deref (c0 : List Blk) (s : PState) (hr : Reachable c0 s) (b : Blk) (f : Bool)
    (hb : b.height ≠ 0) : (addBlock s b f).2 ≠ .nilDeref := by
  have hi := reachable_inv hr
  obtain ⟨h1, h2, h3⟩ := manager_ok hi
  have hchain : Linked zeroId (s.manager.base ++ s.manager.pooled) := pool_view_is_chain c0 s hr
  have hho : HeightsOK (s.manager.base ++ s.manager.pooled) := heightsOK_append.mpr ⟨by rw [h1]; exact hi.2.1, h3⟩
  generalize hv : s.manager.base ++ s.manager.pooled = view at hchain hho
  have hlen := chain_last_height view hchain hho
  have hfid : s.manager.frontierId = lastId view := by rw [← hv]; rfl
  unfold addBlock
  simp only [hv]
  split
  · split <;> simp
  · rename_i hne
    split
    · simp
    · split
      · rename_i e he
        -- canRollback returned an error: it is never nilDeref
        unfold canRollback at he
        rw [hv] at he
        repeat' split at he
        all_goals first
          | (cases he; simp; done)
          | (cases he)
      · rename_i hcr
        split
        · -- trueBlock = none although canRollback passed: impossible
          rename_i htb
          exfalso
          unfold canRollback at hcr
          rw [hv] at hcr
          have habove0 : view.length < b.height := by
            apply Classical.byContradiction
            intro hle
            have := byHeight_isSome view hchain hho b.height (by omega) (by omega)
            rw [htb] at this; cases this
          split at hcr
          · cases hcr
          · split at hcr
            · -- first block of the account: the view would be empty, so this was a fast-forward
              rename_i h1z
              have hnil : view = [] := List.eq_nil_of_length_eq_zero (by omega)
              exact hne (by rw [hfid, hnil, h1z.2]; rfl)
            · split at hcr
              · cases hcr
              · rename_i tp htp
                split at hcr
                · cases hcr
                · rename_i hid
                  have hid : tp.id = b.prev := by simpa using hid
                  obtain ⟨htm, hth⟩ := byHeight_some htp
                  have habove := habove0
                  obtain ⟨i, hi', rfl⟩ := List.getElem_of_mem htm
                  have hhi := linked_heights view zeroId hchain hho i hi'
                  simp only [zeroId, Blk.prev, hb, if_false] at hhi hth
                  have htop : view[i].height = view.length := by omega
                  have := top_block_id view hchain hho view[i] htm htop
                  exact hne (by rw [hfid, ← this, hid])
        · repeat' split
          all_goals simp

/-- T3 at the level of the pool, for EVERY height (the first block of an account included): a well-formed competitor
    `b` (same Previous() as the pooled block `tb` it competes with, another hash) is decided by `higherPriority b tb`
    alone — it replaces `tb` (and everything pooled above it) iff it is forced or the rule lets it win; otherwise the
    pool is unchanged and the rule's error is returned. With `winner_order_independent` this makes the block held at a
    height independent of the arrival order of its competitors. -/
theorem competitor_decided_by_rule (c0 : List Blk) (s : PState) (hr : Reachable c0 s) (b tb : Blk) (f : Bool)
    (hb0 : b.height ≠ 0) (habove : (lastId s.confirmed).2 < b.height)
    (htb : byHeight (s.manager.base ++ s.manager.pooled) b.height = some tb)
    (hne : tb.hash ≠ b.hash) (hprev : b.prev = tb.prev) :
    addBlock s b f =
      if f = true ∨ higherPriority b tb = .ok then
        ({ s with mgr := some { s.manager with
            pooled := s.manager.pooled.take (b.height - 1 - (lastId s.confirmed).2) ++ [b] } }, .replaced)
      else ({ s with mgr := some s.manager },
            if higherPriority b tb = .ratioWorse then .ratioWorse else .hashTieBreak) := by
  have hi := reachable_inv hr
  have hmok := manager_ok hi
  obtain ⟨hb, hl, hh⟩ := hmok
  have hview : Linked zeroId (s.manager.base ++ s.manager.pooled) := pool_view_is_chain c0 s hr
  have hvh : HeightsOK (s.manager.base ++ s.manager.pooled) := heightsOK_append.mpr ⟨by rw [hb]; exact hi.2.1, hh⟩
  have hconf := chain_last_height _ hi.1 hi.2.1
  generalize hv : s.manager.base ++ s.manager.pooled = view at *
  have hN : view.length = s.confirmed.length + s.manager.pooled.length := by rw [← hv, hb]; simp
  have hfront : s.manager.frontierId = lastId view := by rw [← hv]; rfl
  have hfh := chain_last_height view hview hvh
  -- tb is the block of the view at index b.height - 1
  obtain ⟨htm, hth⟩ := byHeight_some htb
  obtain ⟨i, hi', rfl⟩ := List.getElem_of_mem htm
  have hhi := linked_heights view zeroId hview hvh i hi'
  simp only [zeroId] at hhi
  have hidx : i = b.height - 1 := by omega
  subst hidx
  have hpv : b.prev.2 = b.height - 1 := by simp [Blk.prev, hb0]
  -- not a fast-forward, not already there
  have hnff : ¬ b.prev = s.manager.frontierId := by
    intro he
    have : b.prev.2 = (s.manager.frontierId).2 := by rw [he]
    rw [hfront, hfh, hpv] at this; omega
  have hnal : ¬ (some (view[b.height - 1]).id = some b.id) := by
    intro he
    have : (view[b.height - 1]).hash = b.hash := by
      have := Option.some.inj he
      exact congrArg Prod.fst this
    exact hne this
  -- the claimed previous is the identifier the view has below b (the zero identifier for a first block)
  have hbp : b.prev = lastId (view.take (b.height - 1)) := by
    by_cases h1 : b.height = 1
    · have h0 : b.height - 1 = 0 := by omega
      rw [hprev]
      simp only [h0, List.take_zero]
      cases view with
      | nil => simp at hi'
      | cons x xs =>
        exact hview.1
    · have := linked_getElem_prev view zeroId hview (b.height - 2) (by omega)
      have e : b.height - 2 + 1 = b.height - 1 := by omega
      simp only [e] at this
      rw [hprev, this]
      have h2 := lastId_take view (b.height - 1) (by omega) (by omega)
      have e2 : b.height - 1 - 1 = b.height - 2 := by omega
      simp only [e2] at h2
      rw [h2]
  -- canRollback passes
  have hcr : canRollback s s.manager b = none := by
    unfold canRollback
    have hns : ¬ (lastId s.confirmed).2 ≥ b.height := by omega
    simp only [hns, if_false, hv]
    by_cases h1 : b.height = 1
    · have h0 : b.height - 1 = 0 := by omega
      have : b.prev = zeroId := by rw [hbp, h0]; rfl
      simp [h1, this]
    · have hn1 : ¬ (b.height = 1 ∧ b.prev = zeroId) := fun h => h1 h.1
      have hbelow : byHeight view (b.height - 1) = some (view[b.height - 2]'(by omega)) := by
        have := byHeight_chain view hview hvh (b.height - 2) (by omega)
        have e : b.height - 2 + 1 = b.height - 1 := by omega
        rw [e] at this; exact this
      have hlink : (view[b.height - 2]'(by omega)).id = b.prev := by
        have h2 := lastId_take view (b.height - 1) (by omega) (by omega)
        have e2 : b.height - 1 - 1 = b.height - 2 := by omega
        simp only [e2] at h2
        rw [hbp, h2]
      simp only [hn1, if_false, hpv, hbelow, hlink, ne_eq, not_true_eq_false]
  -- the rollback target is the pooled chain cut below b
  have htarget : b.prev = lastIdFrom (lastId s.confirmed) (s.manager.pooled.take (b.height - 1 - (lastId s.confirmed).2)) := by
    rw [hbp, ← hv, List.take_append, hb, hconf, List.take_of_length_le (by omega), lastId_append]
  have hroll := rollbackTo_reaches (conf := s.confirmed) (s.manager.pooled.length + 1) s.manager
    (b.height - 1 - (lastId s.confirmed).2) ⟨hb, hl, hh⟩ (by rw [hconf]; omega) (by omega)
  rw [← htarget] at hroll
  have hadd : Mgr.add { s.manager with pooled := s.manager.pooled.take (b.height - 1 - (lastId s.confirmed).2) } b =
      some { s.manager with pooled := s.manager.pooled.take (b.height - 1 - (lastId s.confirmed).2) ++ [b] } := by
    unfold Mgr.add
    have : b.prev = ({ s.manager with pooled := s.manager.pooled.take (b.height - 1 - (lastId s.confirmed).2) } : Mgr).frontierId := by
      rw [frontierId_eq, hb]; exact htarget
    simp [this]
  unfold addBlock
  simp only [hnff, if_false, hv, htb, Option.map_some, hnal, hcr, hroll, hadd]
  cases f <;> cases hp : higherPriority b (view[b.height - 1]) <;> simp

/-- T4 `rebuild_spec`: after a momentum that extends the confirmed chain by `nb`, the pool of an address holds exactly
    the previously pooled blocks above the new confirmed height if they (still) link to the new confirmed frontier, and
    nothing otherwise; the confirmed chain is the extended one; `rebuild` never meets a missing height (no nil
    dereference). Every address is rebuilt independently of the others (`rebuild_no_early_return`). -/
theorem rebuild_spec (c0 : List Blk) (s : PState) (hr : Reachable c0 s) (nb : List Blk) (hop : OpOK s (.insert nb)) :
    (insertMomentum s nb).1.confirmed = s.confirmed ++ nb ∧
    (insertMomentum s nb).1.manager.pooled =
      (if Linked (lastId (s.confirmed ++ nb)) (s.manager.pooled.drop nb.length)
       then s.manager.pooled.drop nb.length else []) ∧
    (insertMomentum s nb).2 ≠ .nilDeref := by
  have hi := reachable_inv hr
  have hnocs := reachable_nocs hr
  have hc : Linked zeroId (s.confirmed ++ nb) := (linked_append nb s.confirmed zeroId).mpr ⟨hi.1, hop.1⟩
  have hhc : HeightsOK (s.confirmed ++ nb) := heightsOK_append.mpr ⟨hi.2.1, hop.2⟩
  cases hm : s.mgr with
  | none =>
    simp [insertMomentum, hm, PState.manager, Linked]
  | some old =>
    obtain ⟨hb, hl, hh⟩ := hi.2.2 old hm
    have hp : s.manager = old := by simp [PState.manager, hm]
    rw [hp] at hnocs ⊢
    -- the old frontier view is a chain, so reading heights gives slices
    have hview : Linked zeroId (old.base ++ old.pooled) := by
      rw [hb, linked_append]; exact ⟨hi.1, by rw [← lastId_eq]; exact hl⟩
    have hvh : HeightsOK (old.base ++ old.pooled) := heightsOK_append.mpr ⟨by rw [hb]; exact hi.2.1, hh⟩
    have hlo := chain_last_height _ hc hhc
    have hhi := chain_last_height _ hview hvh
    have hunc : uncommittedOf (old.base ++ old.pooled) ((lastId (s.confirmed ++ nb)).2 + 1)
        ((lastId (old.base ++ old.pooled)).2 + 1 - ((lastId (s.confirmed ++ nb)).2 + 1)) =
        some (old.pooled.drop nb.length) := by
      rw [hlo, hhi]
      simp only [List.length_append, hb]
      by_cases hle : old.pooled.length ≤ nb.length
      · have h0 : s.confirmed.length + old.pooled.length + 1 - (s.confirmed.length + nb.length + 1) = 0 := by omega
        rw [h0, List.drop_eq_nil_of_le hle]; rfl
      · rw [← hb]
        rw [uncommittedOf_chain _ hview hvh _ (by omega) _ (by simp only [List.length_append, hb]; omega)]
        have e1 : old.base.length + nb.length + 1 - 1 = old.base.length + nb.length := by omega
        rw [e1, List.drop_append]
        have e2 : List.drop (old.base.length + nb.length) old.base = [] := List.drop_eq_nil_of_le (by omega)
        have e3 : old.base.length + nb.length - old.base.length = nb.length := by omega
        rw [e2, e3, List.nil_append, List.take_of_length_le (by simp only [List.length_drop]; omega)]
    -- no pooled block is a ContractSend, so the filter of `rebuild` keeps the slice as it is
    have hfilter : (old.pooled.drop nb.length).filter (fun b => !isContractSend b.btype) = old.pooled.drop nb.length := by
      rw [List.filter_eq_self]
      intro x hx
      have := hnocs x (List.mem_of_mem_drop hx)
      simp [this]
    -- the slice is internally linked
    have hinner : Linked (lastIdFrom (lastId s.confirmed) (old.pooled.take nb.length)) (old.pooled.drop nb.length) := by
      have := hl
      rw [← List.take_append_drop nb.length old.pooled, linked_append] at this
      exact this.2
    refine ⟨?_, ?_, ?_⟩
    · simp only [insertMomentum, hm]; repeat' split
      all_goals rfl
    · simp only [insertMomentum, hm, hunc]
      generalize old.pooled.drop nb.length = rest at hinner hfilter ⊢
      cases rest with
      | nil => simp [PState.manager, Linked]
      | cons b bs =>
        simp only [hfilter]
        by_cases hlk : Linked (lastId (s.confirmed ++ nb)) (b :: bs)
        · have := addAll_linked (b :: bs) ⟨s.confirmed ++ nb, []⟩ (by simpa [Mgr.frontierId] using hlk)
          simp [this, hlk, PState.manager]
        · have hne : b.prev ≠ (⟨s.confirmed ++ nb, []⟩ : Mgr).frontierId := by
            intro he
            exact hlk ⟨by simpa [Mgr.frontierId] using he, hinner.2⟩
          simp [addAll_unlinked b bs _ hne, hlk, PState.manager]
    · simp only [insertMomentum, hm, hunc]
      repeat' split
      all_goals simp_all

/-- the address loop of `rebuild` contains no `return` (regenerated from the AST of chain/account_pool.go): a failure
    to re-apply the blocks of one address cannot leave other addresses on managers built on the old stable database,
    which is what makes the per-address statements above statements about the whole pool -/
theorem rebuild_no_early_return : Gen.rebuildLoopReturns = 0 := by decide

/-! ### P — lock discipline (the logical part of the concurrency clause; data-race freedom itself is not a theorem) -/

/-- `pool_lock_discipline` over the fact list regenerated from the AST of chain/account_pool.go: every exported method
    of `accountPool` that reaches `ap.managers` (directly or through unexported methods) executes
    `ap.changes.Lock(); defer ap.changes.Unlock()` before its first such access, and no unexported method takes the
    lock (sync.Mutex is not re-entrant; the unexported methods run with the lock held). So all accesses to the
    per-address managers are serialised by one mutex. -/
theorem pool_lock_discipline : ∀ x ∈ Gen.poolLockSites,
    (x.2.1 = true → x.2.2.2 ≠ 0 → x.2.2.1 ≠ 0 ∧ x.2.2.1 < x.2.2.2) ∧ (x.2.1 = false → x.2.2.1 = 0) := by
  decide

/-- the fact list really contains the methods the property is about -/
theorem pool_lock_sites_cover : ∀ n ∈ ["AddAccountBlockTransaction", "ForceAddAccountBlockTransaction",
    "InsertMomentum", "DeleteMomentum", "GetUncommittedAccountBlocksByAddress", "GetAllUncommittedAccountBlocks",
    "GetFrontierAccountStore", "GetAccountStore", "GetPatch", "addAccountBlockTransaction", "rebuild"],
    n ∈ Gen.poolLockSites.map (·.1) := by
  decide

/-! ### S — confinement of the subscription table of rpc/api/subscribe to its worker goroutine

`Server.subscriptions` (and the `Subscription` objects in it) carries no lock: it is correct only as long as exactly one
goroutine touches it. The momentum listener `Server.InsertMomentum` runs on the INSERTING goroutine, the `Api` methods on
the goroutines of the RPC server; both may only hand events / subscriptions over through the channels mCh, acCh,
installCh, uninstallCh. `zvh facts` (harness/cmd/zvh/f_subscribe.go) regenerates from the AST of the package every access
to the table, the functions that reach one without leaving their goroutine, every reference to such a function, and the
`go` statements. -/

/-- reviewed accesses: the table is created in the constructor (under `oneSingleton`, before the server is published),
    filled with the per-type maps in `Init` (zenon.Init, before `Start`: the worker does not exist yet), and from then on
    read and written by the worker's functions only -/
def reviewedSubscribeAccess : List (String × String) := [
  ("GetSubscribeServer", "composite-init"),
  ("Server.Init", "write-index"),
  ("Server.work", "assign"),
  ("Server.install", "write-index"),
  ("Server.uninstall", "delete"),
  ("Server.broadcastMomentums", "range"),
  ("Server.broadcastBlocks", "range"),
  ("Server.broadcastBlocks", "range"),
  ("Server.broadcastBlocks", "range")]

/-- reviewed call graph into the functions that reach the table: everything is called from `Server.work` (or from a
    function only `work` calls), and `work` is started once, with `go`, by `Server.Start` -/
def reviewedSubscribeCallers : List (String × String × Bool) := [
  ("Server.broadcast", "Server.broadcastBlocks", false),
  ("Server.broadcast", "Server.broadcastMomentums", false),
  ("Server.broadcastBlocks", "Server.work", false),
  ("Server.broadcastMomentums", "Server.work", false),
  ("Server.install", "Server.work", false),
  ("Server.uninstall", "Server.broadcast", false),
  ("Server.uninstall", "Server.work", false),
  ("Server.work", "Server.Start", true)]

/-- the functions that run on the worker goroutine and nowhere else -/
def subscribeWorkerOnly : List String :=
  ["Server.work", "Server.install", "Server.uninstall", "Server.broadcast", "Server.broadcastMomentums",
   "Server.broadcastBlocks"]

/-- the functions that touch the table before the worker exists -/
def subscribeSetupOnly : List String := ["GetSubscribeServer", "Server.Init"]

/-- generated fact: the accesses to `Server.subscriptions` are the reviewed ones -/
theorem subscribe_access_reviewed : Gen.subscribeAccess = reviewedSubscribeAccess := by decide

/-- generated fact: the references to the functions that reach the table are the reviewed ones -/
theorem subscribe_callers_reviewed : Gen.subscribeCallers = reviewedSubscribeCallers := by decide

/-- generated fact: the package starts one goroutine, the function literal in `Start` that runs `work` -/
theorem subscribe_go_sites_reviewed : Gen.subscribeGoSites = ["Server.Start:func"] := by decide

/-- the functions that reach the table without leaving their goroutine are the worker's and the two set-up functions:
    in particular neither `Server.InsertMomentum` (inserting goroutine) nor a method of `Api` (RPC goroutines) -/
theorem subscribe_reaching_confined :
    ∀ f ∈ Gen.subscribeReaching, f ∈ subscribeWorkerOnly ∨ f ∈ subscribeSetupOnly := by decide

/-- confinement, independent of the reviewed edge list: whoever refers to a worker-only function is itself worker-only,
    except the one `go` statement that starts `work`; so every call chain that ends in an access to the table after
    set-up starts at the worker's `go` statement -/
theorem subscribe_worker_confinement : ∀ e ∈ Gen.subscribeCallers, e.1 ∈ subscribeWorkerOnly →
    e.2.1 ∈ subscribeWorkerOnly ∨ (e = ("Server.work", "Server.Start", true)) := by decide

/-- the set-up functions are not called from inside the package (so not from the worker, the listener or the Api),
    and every function the scan found is classified -/
theorem subscribe_setup_not_called : ∀ e ∈ Gen.subscribeCallers, e.1 ∉ subscribeSetupOnly := by decide

/-- the fact lists really speak about the worker loop and the listener's neighbours -/
theorem subscribe_sites_cover : ∀ n ∈ subscribeWorkerOnly, n ∈ Gen.subscribeReaching := by decide

/-! What crosses the goroutine boundary. An event queued on `mCh` / `acCh` (capacity 100) is read by the worker later -
after the inserting goroutine has gone on to the next momentums (sync burst, worker busy in `Notify` for a slow client).
It keeps its content only if nothing the inserting goroutine touches afterwards is reachable from it: the value sent must be
allocated by the sending function for this one send, and the listener must not keep state of its own on the server.
(The runtime side: the `subscribe` stream inserts bursts of momentums while a subscriber does not read and compares every
delivered event with the ledger's momentum.) -/

/-- the functions that run on the inserting goroutine (momentum listener) or on the goroutines of the RPC server (Api) -/
def subscribeOffWorker : List String :=
  ["Server.InsertMomentum", "Server.DeleteMomentum", "newAccountBlock", "Api.subscribe", "Api.Momentums",
   "Api.AllAccountBlocks", "Api.AccountBlocksByAddress", "Api.UnreceivedAccountBlocksByAddress"]

/-- generated fact: every value sent on a channel of the package - the momentum event, the account-block event, the new
    subscription - is freshly allocated by the sender (composite literal, `make` + `append` to that local, constructor
    call): no queued event aliases a buffer the sender keeps -/
theorem subscribe_sends_fresh : ∀ e ∈ Gen.subscribeChanSends, e.2.2 = "fresh" := by decide

/-- generated fact: the sends are the three reviewed hand-overs (listener -> worker twice, Api -> worker) -/
theorem subscribe_sends_reviewed : Gen.subscribeChanSends.map (fun e => (e.1, e.2.1)) =
    [("Server.InsertMomentum", "s.mCh"), ("Server.InsertMomentum", "s.acCh"), ("Api.subscribe", "s.installCh")] := by
  decide

/-- generated fact: no function of the inserting goroutine or of the RPC goroutines assigns to a field (of the server or of
    anything else): they keep no scratch state between two events -/
theorem subscribe_off_worker_writes_nothing : ∀ e ∈ Gen.subscribeFieldWrites, e.1 ∉ subscribeOffWorker := by decide

/-- generated fact: whoever assigns to a field is a worker function, a life-cycle function (`Init` / `Start` / `Stop`, called
    by the node's start-up and shut-down), a constructor filling the options object it has just allocated, or
    `Subscription.Closed` (called by `Server.broadcast` and `Subscription.Notify`, worker goroutine) -/
theorem subscribe_field_writers_classified : ∀ e ∈ Gen.subscribeFieldWrites,
    e.1 ∈ subscribeWorkerOnly ∨ e.1 ∈ ["Server.Init", "Server.Start", "Server.Stop"] ∨
    e.1 ∈ ["NewBlocksByAddressSubscription", "NewToUnreceivedBlocksSubscription"] ∨
    e = ("Subscription.Closed", "notifier") := by decide

example : ∃ s, Reachable [] s ∧ s.manager.pooled.length = 2 :=
  ⟨step (step ⟨[], none⟩ (.add { height := 1, hash := [1], prevHash := zeroHash } false))
      (.add { height := 2, hash := [2], prevHash := [1] } false),
   Reachable.step _ (Reachable.step _ (Reachable.init trivial (fun _ h => by simp at h)) (by decide))
     (by decide), by decide⟩

/-- the first block of an account is decided like any other height: whichever of two competitors (ratio 1 vs ratio 2)
    arrives first, the one with the higher ratio is held -/
example :
    let a : Blk := { height := 1, hash := [1], prevHash := zeroHash, total := 21000, base := 21000 }
    let b : Blk := { height := 1, hash := [2], prevHash := zeroHash, total := 42000, base := 21000 }
    (step (step ⟨[], none⟩ (.add a false)) (.add b false)).manager.pooled = [b] ∧
    (step (step ⟨[], none⟩ (.add b false)) (.add a false)).manager.pooled = [b] := by decide

end ZV.C14
