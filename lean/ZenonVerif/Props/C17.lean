import ZenonVerif.Lemmas.Spork
/-
C17 — spork-gated rules switch on by chain height only. Property theorems only.
-/
namespace ZV.C17
open ZV.Spork

/-- T1 `tables_monotone` (over the whole generated table, which is the full quantifier here): activating more
    sporks never removes a method: for all regimes r ⊑ r', every method resolved under r is resolved under r'.
    Consequence: a call that passed send-time validation against momentum M_a is still resolvable at the
    confirming momentum M_c ≥ M_a of the same chain (activity is monotone, T2), so the receive-time lookup cannot
    fail with method-not-found. -/
theorem tables_monotone :
    ∀ r ∈ List.range 8, ∀ r' ∈ List.range 8, regimeLe r r' = true → ∀ m ∈ methodsOf r, available r' m = true := by
  decide +kernel

/-- the features each spork guards, read off the generated tables along the activation order
    accelerator → bridge&liquidity → htlc -/
def accFeatures : List Nat := (methodsOf 1).filter (fun m => !available 0 m)
def bridgeFeatures : List Nat := (methodsOf 3).filter (fun m => !available 1 m)
def htlcFeatures : List Nat := (methodsOf 7).filter (fun m => !available 3 m)

/-- T3a `gate_in_order_partial`: when sporks are enforced in the order accelerator, bridge&liquidity, htlc (regimes
    0, 1, 3, 7), a gated method is available exactly when its own spork is enforced.
    PARTIAL: the statement for all 8 regimes is false — see `gate_out_of_order_leaks`. -/
theorem gate_in_order_partial :
    (∀ m ∈ accFeatures, available 0 m = false ∧ available 1 m = true ∧ available 3 m = true ∧ available 7 m = true) ∧
    (∀ m ∈ bridgeFeatures, available 0 m = false ∧ available 1 m = false ∧ available 3 m = true ∧ available 7 m = true) ∧
    (∀ m ∈ htlcFeatures, available 0 m = false ∧ available 1 m = false ∧ available 3 m = false ∧ available 7 m = true) := by
  decide +kernel

/-- non-vacuity: each spork guards something -/
theorem features_nonempty : accFeatures ≠ [] ∧ bridgeFeatures ≠ [] ∧ htlcFeatures ≠ [] := by decide +kernel

/-- N1 (negative witness, finding F17): GetEmbeddedMethod picks the table by priority htlc > bridge > accelerator and
    the later tables are built on top of the earlier ones, so with ONLY the htlc spork enforced (regime 4) every
    bridge&liquidity and accelerator feature is available although its own spork is not enforced; likewise with
    only bridge&liquidity enforced (regime 2) the accelerator features are available. -/
theorem gate_out_of_order_leaks :
    (∀ m ∈ bridgeFeatures, available 4 m = true) ∧ (∀ m ∈ accFeatures, available 4 m = true) ∧
    (∀ m ∈ accFeatures, available 2 m = true) := by
  decide +kernel

/-- T2 `active_monotone` (activate step): a spork that is active for the store at height h stays active at every
    later height after any further activation is received (activation is recorded once; the enforcement height of an
    activated spork never changes). -/
theorem activate_keeps_active (st st' : SState) (s : Sender) (fh id' id h h' : Nat) (hu : UniqueIds st)
    (hact : activate st s fh id' = some st') (ha : isActive st h id = true) (h0 : 0 < h) (hh : h ≤ h') :
    isActive st' h' id = true := by
  rw [isActive_iff] at ha ⊢
  obtain ⟨h1, sp, hm, hA, hE, hI⟩ := ha
  refine ⟨by omega, ?_⟩
  unfold activate at hact
  split at hact
  · cases hact
  · split at hact
    · cases hact
    · rename_i sp0 hf
      split at hact
      · cases hact
      · rename_i hna
        cases hact
        by_cases hid : sp.id = id'
        · exfalso
          have := find_of_mem_unique st hu sp hm
          rw [hid, hf] at this
          cases this
          exact hna hA
        · exact ⟨sp, List.mem_cons_of_mem _ (List.mem_filter.2 ⟨hm, by simpa using hid⟩), hA, by omega, hI⟩

/-- T2 (create step): creating another spork (a new id — the id is the hash of the creating send block) does not
    affect the activity of existing ones -/
theorem create_keeps_active (st st' : SState) (s : Sender) (fh id' id h h' : Nat)
    (hfresh : ∀ sp ∈ st, sp.id ≠ id')
    (hc : create st s fh id' = some st') (ha : isActive st h id = true) (h0 : 0 < h) (hh : h ≤ h') :
    isActive st' h' id = true := by
  rw [isActive_iff] at ha ⊢
  obtain ⟨h1, sp, hm, hA, hE, hI⟩ := ha
  refine ⟨by omega, ?_⟩
  unfold create at hc
  split at hc
  · cases hc
  · cases hc
    exact ⟨sp, List.mem_cons_of_mem _ (List.mem_filter.2 ⟨hm, by simpa using hfresh sp hm⟩), hA, by omega, hI⟩

/-- T3 `gate_by_height`: after the activation of `id` is received against a momentum of height fh, the spork is
    active for exactly the stores of height ≥ fh + SporkMinHeightDelay (and never for the genesis store): below the
    enforcement height it is unavailable to every block, from that height on it is available. -/
theorem gate_by_height (st st' : SState) (s : Sender) (fh id h : Nat) (hu : UniqueIds st)
    (hact : activate st s fh id = some st') :
    isActive st' h id = true ↔ (h ≠ 1 ∧ fh + Gen.SporkMinHeightDelay ≤ h) := by
  have hu' := activate_unique st st' s fh id hu hact
  rw [isActive_iff]
  unfold activate at hact
  split at hact
  · cases hact
  · split at hact
    · cases hact
    · split at hact
      · cases hact
      · cases hact
        constructor
        · rintro ⟨h1, sp, hm, hA, hE, hI⟩
          refine ⟨h1, ?_⟩
          have hnew : (⟨id, true, fh + Gen.SporkMinHeightDelay⟩ : SporkInfo) ∈
              (⟨id, true, fh + Gen.SporkMinHeightDelay⟩ : SporkInfo) :: st.filter (·.id ≠ id) := List.mem_cons_self
          have e1 := find_of_mem_unique _ hu' sp hm
          have e2 := find_of_mem_unique _ hu' _ hnew
          rw [hI] at e1
          simp only [] at e2
          rw [e2] at e1
          cases e1
          exact hE
        · rintro ⟨h1, he⟩
          exact ⟨h1, ⟨id, true, fh + Gen.SporkMinHeightDelay⟩, List.mem_cons_self, rfl, he, rfl⟩

/-- the minimum delay: the enforcement height is strictly above the momentum the activation was evaluated against -/
theorem activation_delayed (st st' : SState) (s : Sender) (fh id : Nat) (hu : UniqueIds st)
    (hact : activate st s fh id = some st') (h : Nat) (hle : h < fh + Gen.SporkMinHeightDelay) :
    isActive st' h id = false := by
  cases hb : isActive st' h id with
  | false => rfl
  | true => have := (gate_by_height st st' s fh id h hu hact).1 hb; omega

/-- activation cannot be repeated -/
theorem activate_once (st st' : SState) (s s2 : Sender) (fh fh2 id : Nat) (hu : UniqueIds st)
    (hact : activate st s fh id = some st') : activate st' s2 fh2 id = none := by
  have hu' := activate_unique st st' s fh id hu hact
  unfold activate at hact
  split at hact
  · cases hact
  · split at hact
    · cases hact
    · split at hact
      · cases hact
      · cases hact
        unfold activate
        split
        · rfl
        · have hnew : (⟨id, true, fh + Gen.SporkMinHeightDelay⟩ : SporkInfo) ∈
              (⟨id, true, fh + Gen.SporkMinHeightDelay⟩ : SporkInfo) :: st.filter (·.id ≠ id) := List.mem_cons_self
          have e2 := find_of_mem_unique _ hu' _ hnew
          simp only [] at e2
          rw [e2]
          rfl

/-- T4 `spork_authority`: create and activate succeed only for the designated keys; the community key only while the
    frontier height is inside its window -/
theorem spork_authority (st st' : SState) (s : Sender) (fh id : Nat)
    (h : create st s fh id = some st' ∨ activate st s fh id = some st') :
    s = .sporkKey ∨ (s = .community ∧ Gen.CommunitySporkAddressStartHeight ≤ fh ∧ fh < Gen.CommunitySporkAddressEndHeight) := by
  have ha : authorised s fh = true := by
    rcases h with h | h
    · unfold create at h; split at h
      · cases h
      · rename_i hn; simpa using hn
    · unfold activate at h; split at h
      · cases h
      · rename_i hn; simpa using hn
  cases s with
  | sporkKey => left; rfl
  | community => right; simpa [authorised] using ha
  | other => simp [authorised] at ha

/-- the window-parametrised definitions the driver evaluates are the model's at the regenerated mainnet window -/
theorem createW_mainnet (st : SState) (s : Sender) (fh id : Nat) :
    createW mainnetWindow st s fh id = create st s fh id := rfl

theorem activateW_mainnet (st : SState) (s : Sender) (fh id : Nat) :
    activateW mainnetWindow st s fh id = activate st s fh id := rfl

/-- T4 for every window (the statement the correspondence stream exercises with a window of a few momentums): whatever
    the state, the spork id and the height, a create or activate call succeeds only for the spork key, or for the
    community key while the frontier height the call is evaluated against lies inside the window. The height is the
    frontier of the executing contract's context — not a value the sender chooses. -/
theorem spork_authority_window (w : Nat × Nat) (st st' : SState) (s : Sender) (fh id : Nat)
    (h : createW w st s fh id = some st' ∨ activateW w st s fh id = some st') :
    s = .sporkKey ∨ (s = .community ∧ w.1 ≤ fh ∧ fh < w.2) := by
  have ha : authorisedW w s fh = true := by
    rcases h with h | h
    · unfold createW at h; split at h
      · cases h
      · rename_i hn; simpa using hn
    · unfold activateW at h; split at h
      · cases h
      · rename_i hn; simpa using hn
  cases s with
  | sporkKey => left; rfl
  | community => right; simpa [authorisedW] using ha
  | other => simp [authorisedW] at ha

/-- outside the window the community key changes nothing, inside it acts like the spork key -/
theorem community_outside_window (w : Nat × Nat) (st : SState) (fh id : Nat) (h : ¬ (w.1 ≤ fh ∧ fh < w.2)) :
    createW w st .community fh id = none ∧ activateW w st .community fh id = none := by
  have : authorisedW w .community fh = false := by
    simp only [authorisedW]
    by_cases h1 : w.1 ≤ fh
    · by_cases h2 : fh < w.2
      · exact absurd ⟨h1, h2⟩ h
      · simp [h2]
    · simp [h1]
  simp [createW, activateW, this]

theorem community_inside_window (w : Nat × Nat) (st : SState) (fh id : Nat) (h : w.1 ≤ fh ∧ fh < w.2) :
    createW w st .community fh id = createW w st .sporkKey fh id ∧
    activateW w st .community fh id = activateW w st .sporkKey fh id := by
  simp [createW, activateW, authorisedW, h.1, h.2]

example : createW (5, 10) [] .community 4 1 = none ∧ createW (5, 10) [] .community 10 1 = none ∧
    (createW (5, 10) [] .community 5 1).isSome ∧ (createW (5, 10) [] .community 9 1).isSome := by decide

/-- lookups at or below the fork point are untouched by a rollback -/
theorem histAt_rollback_le (hist : Hist) (h h' : Nat) (hle : h' ≤ h) :
    histAt (rollbackHist hist h) h' = histAt hist h' := by
  unfold histAt rollbackHist
  induction hist with
  | nil => rfl
  | cons e t ih =>
    by_cases hk : e.1 ≤ h
    · rw [List.filter_cons_of_pos (by simpa using hk)]
      by_cases he : e.1 = h'
      · simp [he]
      · simp only [List.find?_cons, he, decide_false]
        exact ih
    · rw [List.filter_cons_of_neg (by simpa using hk)]
      have he : ¬ e.1 = h' := by omega
      simp only [List.find?_cons, he, decide_false]
      exact ih

/-- nothing of the abandoned branch is left -/
theorem histAt_rollback_gt (hist : Hist) (h h' : Nat) (hgt : h < h') :
    histAt (rollbackHist hist h) h' = none := by
  unfold histAt rollbackHist
  induction hist with
  | nil => rfl
  | cons e t ih =>
    by_cases hk : e.1 ≤ h
    · rw [List.filter_cons_of_pos (by simpa using hk)]
      have he : ¬ e.1 = h' := by omega
      simp only [List.find?_cons, he, decide_false]
      exact ih
    · rw [List.filter_cons_of_neg (by simpa using hk)]
      exact ih

/-- T6 `rollback_follows_surviving_chain` (the step the driver takes on an `S-rollback` line): after a reorganisation
    down to height `h` the contract state is the one of the momentum of height `h`; every answer for a store at or
    below the fork point (state, hence `isActive` and the method tables) is what it was, and NOTHING recorded on the
    abandoned branch above it survives — what holds at the heights above `h` is decided by the momentums that are
    inserted afterwards, as on a node that only ever saw the surviving branch. -/
theorem rollback_follows_surviving_chain (hist hist' : Hist) (st : SState) (h : Nat)
    (hr : rollbackTo hist h = some (st, hist')) :
    histAt hist' h = some st ∧ (∀ h', h' ≤ h → histAt hist' h' = histAt hist h') ∧
    (∀ h' id, h' ≤ h → (histAt hist' h').map (isActive · h' id) = (histAt hist h').map (isActive · h' id)) ∧
    (∀ h', h < h' → histAt hist' h' = none) := by
  unfold rollbackTo at hr
  split at hr
  · rename_i st0 hs
    cases hr
    refine ⟨?_, ?_, ?_, ?_⟩
    · rw [histAt_rollback_le hist h h (Nat.le_refl h)]; exact hs
    · intro h' hle; exact histAt_rollback_le hist h h' hle
    · intro h' id hle; rw [histAt_rollback_le hist h h' hle]
    · intro h' hgt; exact histAt_rollback_gt hist h h' hgt
  · cases hr

/-- non-vacuity (the reorganisation across an enforcement height): branch A activates spork 42 against height 3
    (enforced from 9) and reaches height 12; the node switches at height 2 to a branch on which nobody activates it:
    at heights 9 and 12 of the surviving branch the spork is NOT active, although it was on the abandoned one; when the
    surviving branch activates it later (against height 7) it is active from 13, not from 9 -/
example :
    let stC := (create [] .sporkKey 1 42).get!
    let stA := (activate stC .sporkKey 3 42).get!
    let histA : Hist := [(12, stA), (9, stA), (4, stA), (3, stC), (2, stC)]
    let r := (rollbackTo histA 2).get!
    let stB := (activate r.1 .sporkKey 7 42).get!
    (histAt histA 9).map (isActive · 9 42) = some true ∧ r.1 = stC ∧ r.2 = [(2, stC)] ∧
    histAt r.2 9 = none ∧ isActive r.1 9 42 = false ∧ isActive r.1 12 42 = false ∧
    isActive stB 9 42 = false ∧ isActive stB 12 42 = false ∧ isActive stB 13 42 = true ∧
    rollbackTo histA 7 = none := by
  decide

/-- T5 `halt_on_unknown`: the node reports unimplemented sporks (and its callers stop) exactly when some activated
    spork whose enforcement height has been reached is not among the implemented ones -/
theorem halt_on_unknown (st : SState) (h : Nat) (impl : List Nat) :
    unimplemented st h impl ≠ [] ↔ ∃ sp ∈ st, sp.activated = true ∧ sp.enf ≤ h ∧ sp.id ∉ impl := by
  unfold unimplemented
  constructor
  · intro hne
    obtain ⟨sp, hsp⟩ := List.exists_mem_of_ne_nil _ hne
    have := List.mem_filter.1 hsp
    refine ⟨sp, this.1, ?_⟩
    simpa [Bool.and_eq_true, and_assoc] using this.2
  · rintro ⟨sp, hm, hA, hE, hI⟩ hnil
    have : sp ∈ st.filter (fun sp => sp.activated && decide (sp.enf ≤ h) && !impl.contains sp.id) :=
      List.mem_filter.2 ⟨hm, by simp [hA, hE, hI]⟩
    rw [hnil] at this
    cases this

/-- G0: defining a genesis spork keeps the ids of the contract state unique (so every theorem above applies to a chain
    whose genesis configuration defines sporks) -/
theorem genesis_unique (st : SState) (id enf : Nat) (a : Bool) (hu : UniqueIds st) :
    UniqueIds (defineGenesis st id a enf) :=
  unique_filter_cons st hu ⟨id, a, enf⟩

/-- G1 `genesis_gate_by_height`: a spork the genesis configuration defines as activated with enforcement height `e` is
    active on the store of every momentum of height h ≥ e above the genesis momentum - with e = 0 (the usual set-up of
    a network that starts with the feature on) from the FIRST momentum after genesis (height 2) on: there is no
    "too early for any spork" range of heights - -/
theorem genesis_gate_by_height (st : SState) (id e h : Nat) (h1 : h ≠ 1) (he : e ≤ h) :
    isActive (defineGenesis st id true e) h id = true := by
  rw [isActive_iff]
  exact ⟨h1, ⟨id, true, e⟩, List.mem_cons_self, rfl, he, rfl⟩

theorem genesis_active_from_first_momentum (st : SState) (id h : Nat) (h2 : 2 ≤ h) :
    isActive (defineGenesis st id true 0) h id = true :=
  genesis_gate_by_height st id 0 h (by omega) (Nat.zero_le h)

/-- … and not before its configured height, nor ever when it is only defined (not activated) -/
theorem genesis_gate_not_before (st : SState) (id e h : Nat) (a : Bool) (hlt : a = false ∨ h < e) :
    isActive (defineGenesis st id a e) h id = false := by
  cases hact : isActive (defineGenesis st id a e) h id with
  | false => rfl
  | true =>
    exfalso
    rw [isActive_iff] at hact
    obtain ⟨_, sp, hm, hA, hE, hI⟩ := hact
    unfold defineGenesis at hm
    rcases List.mem_cons.1 hm with h' | h'
    · subst h'
      rcases hlt with h0 | h0
      · simp only at hA; rw [h0] at hA; cases hA
      · simp only at hE; omega
    · have := (List.mem_filter.1 h').2
      simp only [ne_eq, decide_not, Bool.not_eq_eq_eq_not, Bool.not_true, decide_eq_false_iff_not] at this
      exact this hI

/-- G2 `genesis_activation_not_repeated`: ActivateSpork for a spork that the genesis configuration defines as activated is
    refused for every sender and height - whatever its enforcement height (0 included): the stored record, hence the
    enforcement height, stays what the configuration says -/
theorem genesis_activation_not_repeated (st : SState) (s : Sender) (id e fh : Nat) :
    activate (defineGenesis st id true e) s fh id = none := by
  unfold activate
  split
  · rfl
  · have : find (defineGenesis st id true e) id = some ⟨id, true, e⟩ := by
      unfold find defineGenesis
      simp only [List.find?_cons, decide_true]
    rw [this]
    rfl

theorem genesis_activation_not_repeatedW (w : Nat × Nat) (st : SState) (s : Sender) (id e fh : Nat) :
    activateW w (defineGenesis st id true e) s fh id = none := by
  unfold activateW
  split
  · rfl
  · have : find (defineGenesis st id true e) id = some ⟨id, true, e⟩ := by
      unfold find defineGenesis
      simp only [List.find?_cons, decide_true]
    rw [this]
    rfl

/-- G3 `genesis_feature_never_switched_off`: once a genesis-activated spork is enforced (height h), no activation call -
    for this or any other spork, by any sender - switches it off for a later height -/
theorem genesis_feature_never_switched_off (st st' : SState) (s : Sender) (fh id' id e h h' : Nat) (hu : UniqueIds st)
    (h2 : 2 ≤ h) (he : e ≤ h) (hh : h ≤ h') (hact : activate (defineGenesis st id true e) s fh id' = some st') :
    isActive st' h' id = true :=
  activate_keeps_active _ st' s fh id' id h h' (genesis_unique st id e true hu) hact
    (genesis_gate_by_height st id e h (by omega) he) (by omega) hh

/-- non-vacuity (the genesis family the stream runs): htlc defined as activated at 0, another spork activated from 9, a
    third only created: first momentum, boundary 8/9, the created one after its activation at frontier 4 -/
example :
    let g := defineGenesis (defineGenesis (defineGenesis [] 1 true 0) 2 true 9) 3 false 0
    isActive g 1 1 = false ∧ isActive g 2 1 = true ∧ isActive g 6 1 = true ∧ isActive g 8 2 = false ∧ isActive g 9 2 = true ∧
    isActive g 50 3 = false ∧ activate g .sporkKey 4 1 = none ∧ activate g .sporkKey 4 2 = none ∧
    (activate g .sporkKey 4 3).map (fun st => (isActive st 9 3, isActive st 10 3, isActive st 10 1)) = some (false, true, true) := by
  decide

/-- reviewed protocol constants (regenerated from the tree on every run): the minimum activation delay and the
    window of the community spork key. A change of consensus-critical constants must be a reviewed decision. -/
theorem spork_constants_reviewed :
    Gen.SporkMinHeightDelay = 6 ∧ Gen.CommunitySporkAddressStartHeight = 10109240 ∧
    Gen.CommunitySporkAddressEndHeight = 13243712 ∧ Gen.implementedSporkCount = 3 := by decide

/-- non-vacuity: create, activate at height 10 → active from 16 on, not at 15, second activation refused -/
example :
    let st1 := (create [] .sporkKey 5 42).get!
    let st2 := (activate st1 .sporkKey 10 42).get!
    isActive st2 15 42 = false ∧ isActive st2 16 42 = true ∧ activate st2 .sporkKey 20 42 = none ∧
    create [] .other 5 1 = none ∧ unimplemented st2 16 [7] ≠ [] ∧ unimplemented st2 15 [7] = [] := by
  decide

end ZV.C17
