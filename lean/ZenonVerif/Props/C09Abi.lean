import ZenonVerif.Lemmas.Abi
import ZenonVerif.Lemmas.AbiPack
/-
C09-T3 — the ABI decoder never panics (property theorems; model: Model/Abi.lean, helpers: Lemmas/Abi.lean).

Call data of a send block to an embedded contract is parsed by `abi.ABIContract.UnpackMethod` / `UnpackEmptyMethod` in
every `ValidateSendBlock`, and again on the receive path of the producing pillar (`ReceiveBlock` starts with
`ValidateSendBlock`), which has no `recover`. The model makes every slice expression and every `int` operation of that
code explicit and returns `panic` where Go would.

  `unpackMethod sel tys input`   `UnpackMethod` of the method with selector `sel` and argument types `tys`
  `unpackEmptyMethod sel input`  `UnpackEmptyMethod`
  `unpack tys data`              `Arguments.Unpack` (also what `UnpackVariable` runs on stored values)
  `Ty.WF`                        arbitrary nesting of slices/arrays over the elementary types; arrays non-empty with at most
                                 `maxAlloc` bytes of inline words; `bytesN` with N ≤ 32 (`NewType` produces a subset)
  `maxAlloc` = 2^48              the Go runtime's allocation limit: the length of every existing `[]byte` is below it
-/
namespace ZV.C09Abi
open ZV ZV.Abi

/-- T3, general form: for EVERY byte string (of a length a Go slice can have), every selector and every well-formed argument
    type list, the decoder returns a value or an error — never a panic: no slice expression is out of range, no `int`
    operation overflows, no allocation exceeds the input's own size. -/
theorem abi_no_panic_general (sel : Bytes) (tys : List Ty) (hwf : ∀ t ∈ tys, t.WF) (hw : headWords tys ≤ maxHeadWords)
    (input : Bytes) (hlen : input.length ≤ maxAlloc) :
    unpackMethod sel tys input ≠ .panic ∧ unpackEmptyMethod sel input ≠ .panic ∧ unpack tys input ≠ .panic :=
  ⟨unpackMethod_ne_panic sel tys hwf hw input hlen, unpackEmptyMethod_ne_panic sel input,
   unpack_ne_panic tys hwf hw input hlen⟩

/-- every argument type list of every method and every storage variable of every embedded ABI (generated from
    `definition.ABI*` of the working tree) is well-formed -/
theorem abi_signatures_wf :
    (∀ s ∈ Gen.abiSignatures, s.2.2.2.all Ty.wfb = true ∧ headWords s.2.2.2 ≤ maxHeadWords) ∧
    (∀ s ∈ Gen.abiVariables, s.2.2.all Ty.wfb = true ∧ headWords s.2.2 ≤ maxHeadWords) := by
  decide

/-- T3 `abi_no_panic`: for every method of every embedded ABI and EVERY call data, decoding returns a value or an error. -/
theorem abi_no_panic (abi method : String) (sel : Bytes) (tys : List Ty)
    (hs : (abi, method, sel, tys) ∈ Gen.abiSignatures) (input : Bytes) (hlen : input.length ≤ maxAlloc) :
    unpackMethod sel tys input ≠ .panic ∧ unpackEmptyMethod sel input ≠ .panic := by
  have h := abi_signatures_wf.1 _ hs
  have hwf : ∀ t ∈ tys, t.WF := fun t ht => Ty.wfb_sound t (List.all_eq_true.mp h.1 t ht)
  exact ⟨(abi_no_panic_general sel tys hwf h.2 input hlen).1, unpackEmptyMethod_ne_panic sel input⟩

/-- … and for every storage variable: whatever bytes a contract's storage holds, reading it back does not panic. -/
theorem abi_variables_no_panic (abi name : String) (tys : List Ty)
    (hs : (abi, name, tys) ∈ Gen.abiVariables) (data : Bytes) (hlen : data.length ≤ maxAlloc) :
    unpack tys data ≠ .panic := by
  have h := abi_signatures_wf.2 _ hs
  have hwf : ∀ t ∈ tys, t.WF := fun t ht => Ty.wfb_sound t (List.all_eq_true.mp h.1 t ht)
  exact unpack_ne_panic tys hwf h.2 data hlen

/-- what the stream's `abi` operation evaluates (`runCase` prints "panic" exactly for `Res.panic`) is never a panic -/
theorem decodeCase_never_panics (abi method : String) (sel : Bytes) (tys : List Ty)
    (hs : (abi, method, sel, tys) ∈ Gen.abiSignatures) (input : Bytes) (hlen : input.length ≤ maxAlloc) :
    decodeCase sel tys input ≠ .panic := by
  obtain ⟨h1, h2⟩ := abi_no_panic abi method sel tys hs input hlen
  unfold decodeCase
  split
  · exact h2
  · exact h1

set_option maxRecDepth 100000 in
/-- `MethodById` is a function of the selector: within each embedded ABI the 4-byte selectors are pairwise distinct
    (so the map iteration order in `MethodById` cannot matter) and have four well-formed bytes. -/
theorem selectors_distinct :
    ∀ s ∈ Gen.abiSignatures, ∀ s' ∈ Gen.abiSignatures, s.1 = s'.1 → s.2.2.1 = s'.2.2.1 → s.2.1 = s'.2.1 := by
  decide

theorem selectors_wellformed : ∀ s ∈ Gen.abiSignatures, s.2.2.1.length = 4 ∧ Bytes.WF s.2.2.1 := by
  decide

/-! ## unpack ∘ pack: what the receive path reads is what the send path validated

Every `ValidateSendBlock` decodes the call data, checks the values and REPLACES `block.Data` by `PackMethod(values)`; the
gossip path then refuses a block whose data was not already that encoding (the hash no longer matches), the template path
signs the re-packed block. `ReceiveBlock` decodes the stored data again — several methods with `common.DealWithErr` on the
result, i.e. a panic on the producer path if decoding the re-packed data could fail. -/

/-- `unpack_pack` for the flat argument types — static elementary types (uint8/16/32/64/256, int32/64, bool, address,
    tokenStandard, hash, bytesN), `string`, `bytes`, and slices (of slices …) of those, i.e. every argument type of every
    embedded ABI (`flat_signatures`): decoding the canonical encoding of well-typed values returns exactly those values.
    Partial: fixed-size arrays (not used by any embedded ABI; Go's own Pack and Unpack disagree on arrays of dynamic
    elements) and integer widths other than the listed ones are outside `Flat` / `HasTy`; that the values produced by a
    successful decode are well-typed (`HasTys`) is a hypothesis here (it is what the Go types of the decoded values say). -/
theorem unpack_pack_partial (sel : Bytes) (hsel : sel.length = 4) (tys : List Ty) (vs : List Val) (input : Bytes)
    (hflat : ∀ t ∈ tys, t.Flat) (hty : HasTys tys vs) (hp : packMethod sel tys vs = some input)
    (hlen : input.length ≤ maxAlloc) (hne : tys ≠ []) (hk : tys.length ≤ 1048576) :
    unpackMethod sel tys input = .ok vs :=
  unpackMethod_packMethod sel hsel tys vs input hflat hty hp hlen hne hk

/-- `unpack_pack_partial` covers every method of every embedded ABI of the working tree. -/
theorem flat_signatures : ∀ s ∈ Gen.abiSignatures, s.2.2.2.all Ty.flatb = true := by
  decide

theorem signature_lengths : ∀ s ∈ Gen.abiSignatures, s.2.2.2.length ≤ 1048576 := by decide

/-- The receive path decodes what the send path validated: for every live method with arguments, the data that
    `ValidateSendBlock` stores (`PackMethod` of the values it decoded and checked) decodes, at receive time, to exactly those
    values — never to an error, so the `DealWithErr` after the second decode cannot fire. -/
theorem receive_decodes_what_send_validated (abi method : String) (sel : Bytes) (tys : List Ty)
    (hs : (abi, method, sel, tys) ∈ Gen.abiSignatures) (hne : tys ≠ [])
    (vs : List Val) (hty : HasTys tys vs) (stored : Bytes) (hp : packMethod sel tys vs = some stored)
    (hlen : stored.length ≤ maxAlloc) :
    unpackMethod sel tys stored = .ok vs := by
  have hsel := (selectors_wellformed _ hs).1
  have hflat : tys.all Ty.flatb = true := flat_signatures _ hs
  have hk : tys.length ≤ 1048576 := signature_lengths _ hs
  exact unpack_pack_partial sel hsel tys vs stored
    (fun t ht => Ty.flatb_sound t (List.all_eq_true.mp hflat t ht)) hty hp hlen hne hk

/-- the hypotheses are satisfiable: a live signature, a concrete hostile input (offset 2^256-1) that is rejected, not crashed on -/
example : ("token", "Mint", [205, 112, 249, 188], [Ty.tokenStandard, Ty.uint 256, Ty.address]) ∈ Gen.abiSignatures := by decide
example : (match unpackMethod [124, 45, 93, 110] [Ty.string] ([124, 45, 93, 110] ++ List.replicate 32 255) with
    | .err => true | _ => false) = true := by decide

/-- non-vacuity of `unpack_pack_partial`: token.Mint(zts, 5, address) -/
example : HasTys [Ty.tokenStandard, Ty.uint 256, Ty.address]
    [.bytes (List.replicate 10 7), .num 5, .bytes (List.replicate 20 9)] :=
  .cons (by show (List.replicate 10 7).length = 10; rfl)
    (.cons (by show _ ∧ _ ∧ _; refine ⟨by omega, by omega, by decide⟩)
      (.cons (by show (List.replicate 20 9).length = 20; rfl) .nil))

end ZV.C09Abi
