import ZenonVerif.Lemmas.LdbCache
/-
C07 "… regardless of commits or rollbacks made afterwards, OF THE CACHE STATE …" and C06 "rollback leaves no trace" for the
two-level rollback-overlay cache of the leveldb manager — with the caches INSIDE the model.

`CLdb` (Model/VersionedCache.lean) = the cache-free manager `Ldb` + heap of mutable overlay objects + l1 / l2 (identifier ↦
(tag, object pointer)) + the views handed out so far (identifier, snapshot, object pointer). `CReach cfg s h`: `s` is reachable
from the empty manager by ANY sequence of commits on the frontier, commits on stale parents (their `Get(previous)` files an
overlay too), pops, `Get`s of arbitrary identifiers, evictions of arbitrary entries at arbitrary moments (the LRU policy as
nondeterminism) and `Stop`; `h` is the ghost history of the current chain. `cfg.Purges`: `Pop` purges both levels — what the
AST of the working tree says about the code (`code_purges`).
Property theorems only; the invariant `CInv` and its preservation are in Lemmas/LdbCache.lean.
-/
namespace ZV.C07Cache
open ZV ZV.Kv ZV.KvLogic ZV.Versioned ZV.VersionedCache

/-! ### the tie to the code: facts regenerated from the AST of common/db on every run -/

/-- the model's configuration of the code purges both levels on `Pop` (regenerated: `Pop` contains the two `Purge()` calls
    as unconditional top-level statements after the leveldb write) -/
theorem code_purges : Cfg.code.Purges := ⟨by decide, by decide⟩

/-- `Pop`, statement by statement: write the batch, then lock, purge l1, purge l2, unlock -/
theorem pop_statements_reviewed : Gen.VdbPopStmts =
    ["frontierIdentifier := GetFrontierIdentifier(m.Frontier())",
     "rollbackPatch := m.getRollback(frontierIdentifier.Height)",
     "batch := new(leveldb.Batch)",
     "if err := ApplyPatch(newBatchWriter(m.ldb, batch).Subset(frontierByte), rollbackPatch); err != nil",
     "batch.Delete(common.JoinBytes(patchByte, common.Uint64ToBytes(frontierIdentifier.Height)))",
     "batch.Delete(common.JoinBytes(rollbackByte, common.Uint64ToBytes(frontierIdentifier.Height)))",
     "if err := m.ldb.Write(batch, nil); err != nil",
     "m.changes.Lock()", "m.l1Cache.Purge()", "m.l2Cache.Purge()", "m.changes.Unlock()", "return nil"] := by decide

/-- every access to the two cache fields in package common/db: created in the constructor, looked up and filed by `Get`,
    purged by `Pop`, dropped by `Stop` — nothing else reads or writes them (`Add` reaches them only through `Get`) -/
theorem cache_writers_reviewed : Gen.VdbCacheAccesses =
    [("NewLevelDBManager", "l1Cache", "init l1Cache"),
     ("NewLevelDBManager", "l2Cache", "init l2Cache"),
     ("ldbManager.Get", "l1Cache", "Get(identifier)"),
     ("ldbManager.Get", "l2Cache", "Get(identifier)"),
     ("ldbManager.Get", "l1Cache", "Add(identifier, &rollbackCache{ frontier: frontierIdentifier, raw: rawChanges, })"),
     ("ldbManager.Get", "l2Cache", "Add(identifier, &rollbackCache{ frontier: frontierIdentifier, raw: rawChanges, })"),
     ("ldbManager.Pop", "l1Cache", "Purge()"),
     ("ldbManager.Pop", "l2Cache", "Purge()"),
     ("ldbManager.Stop", "l1Cache", "= nil"),
     ("ldbManager.Stop", "l2Cache", "= nil")] := by decide

/-- `Get`: l1 is looked up first, l2 only on an l1 miss, a fresh object only when both miss; the loop folds
    `getRollback(i)` without override; the entry is filed under `identifier` with tag `frontierIdentifier` in l1 when
    absDiff < maximumCacheHeightDifference, else in l2 — the other level is not touched -/
theorem get_calls_reviewed : Gen.VdbGetCalls =
    [("Get", "m.l1Cache.Get(identifier)", ""),
     ("Get", "m.l2Cache.Get(identifier)", "!(ok)"),
     ("Get", "newMemDBInternal()", "!(ok) && !(ok)"),
     ("Get", "m.getRollback(i)", "for i <= frontierIdentifier.Height"),
     ("Get", "ApplyWithoutOverride(rawChanges, rollback)", "for i <= frontierIdentifier.Height"),
     ("Get", "m.l1Cache.Add(identifier, &rollbackCache{ frontier: frontierIdentifier, raw: rawChanges, })",
       "absDiff(identifier.Height, frontierIdentifier.Height) < maximumCacheHeightDifference"),
     ("Get", "m.l2Cache.Add(identifier, &rollbackCache{ frontier: frontierIdentifier, raw: rawChanges, })",
       "!(absDiff(identifier.Height, frontierIdentifier.Height) < maximumCacheHeightDifference)"),
     ("Get", "newMemDBInternal()", "")] := by decide

/-- `Get`: where the loop starts from — the tag of the hit entry, or the identifier itself for a fresh object -/
theorem get_assigns_reviewed : Gen.VdbGetAssigns =
    [("Get", "toIdentifier = cache.(*rollbackCache).frontier", "ok"),
     ("Get", "rawChanges = cache.(*rollbackCache).raw", "ok"),
     ("Get", "toIdentifier = cache.(*rollbackCache).frontier", "!(ok) && ok"),
     ("Get", "rawChanges = cache.(*rollbackCache).raw", "!(ok) && ok"),
     ("Get", "rawChanges = newMemDBInternal()", "!(ok) && !(ok)"),
     ("Get", "toIdentifier = identifier", "!(ok) && !(ok)")] := by decide

/-- the bounds of the extension loop: heights toIdentifier.Height + 1 … frontierIdentifier.Height -/
theorem get_loop_bounds : Gen.VdbGetLoops =
    [" => for i := toIdentifier.Height + 1; i <= frontierIdentifier.Height; i += 1"] := by decide

theorem stop_statements_reviewed : Gen.VdbStopStmts =
    ["m.changes.Lock()", "defer m.changes.Unlock()", "if err := m.ldb.Close(); err != nil", "m.stopped = true",
     "m.ldb = nil", "m.l1Cache = nil", "m.l2Cache = nil", "return nil"] := by decide

/-- the cache parameters are constants of the package (a hook cannot shorten them; the stream reaches eviction with the
    real capacities) with these values -/
theorem cache_constants : Gen.VdbCacheParamsAreConst = true ∧ Gen.l1CacheSize = 400 ∧ Gen.l2CacheSize = 100 ∧
    Gen.maximumCacheHeightDifference = 360 ∧ Cfg.code.maxDiff = 360 := by decide

/-! ### cache transparency -/

/-- what a caller observes of a `Get`: the root it is handed, with the overlay pointer dereferenced in the heap after the
    call -/
def answer (cfg : Cfg) (s : CLdb) (i : Id) : Option Root :=
  (s.get cfg i).2.map (CRoot.resolve (s.get cfg i).1.heap)

/-- the cache-free projection of every reachable cached state is a reachable state of the cache-free manager of
    Model/Versioned.lean with the same history: all theorems of Props/C07.lean and Props/C06.lean about `Reach` apply -/
theorem projection_reachable {cfg : Cfg} (hp : cfg.Purges) {s : CLdb} {h : List Ver} (hr : CReach cfg s h) :
    Reach s.ldb h := hr.reach hp

/-- `cached_get_eq_uncached` — "regardless of the cache state". In EVERY reachable cached state (any history of commits,
    stale commits, pops, gets, evictions; any content of l1 and l2, stale entries of the other level included), for EVERY
    identifier, `Get` hands out exactly the root the cache-free `Ldb.get` builds from scratch — the same overlay, entry by
    entry, over the same snapshot — or refuses exactly when it refuses; and the store itself is not touched. -/
theorem cached_get_eq_uncached {cfg : Cfg} (hp : cfg.Purges) {s : CLdb} {h : List Ver} (hr : CReach cfg s h)
    (hs : s.stopped = false) (i : Id) :
    answer cfg s i = s.ldb.get i ∧ (s.get cfg i).1.ldb = s.ldb := by
  obtain ⟨_, hldb, _, hans, _⟩ := (hr.inv hp).get (cfg := cfg) hs i
  exact ⟨hans, hldb⟩

/-- spelled out for the three kinds of read: every lookup, every existence test and every ordered prefix scan through the
    view handed out by the cached `Get` is what the same read through the cache-free view returns -/
theorem cached_get_reads_eq_uncached {cfg : Cfg} (hp : cfg.Purges) {s : CLdb} {h : List Ver} (hr : CReach cfg s h)
    (hs : s.stopped = false) (i : Id) :
    match answer cfg s i, s.ldb.get i with
    | some r, some r' => (∀ k, r.get k = r'.get k) ∧ (∀ k, (r.get k).isSome = (r'.get k).isSome) ∧
        (∀ p, edEntries (r.rawScan p) = edEntries (r'.rawScan p))
    | none, none => True
    | _, _ => False := by
  rw [(cached_get_eq_uncached hp hr hs i).1]
  cases s.ldb.get i with
  | none => trivial
  | some r => exact ⟨fun _ => rfl, fun _ => rfl, fun _ => rfl⟩

/-- hence C07-T1 for the CACHED manager: in every reachable cached state `Get(id of a version on the chain)` succeeds and
    the view reads, for every key, the content that version had when it was committed; every ordered prefix scan is the
    key-ordered list of exactly those entries -/
theorem cached_view_shows_version {cfg : Cfg} (hp : cfg.Purges) {s : CLdb} {h : List Ver} (hr : CReach cfg s h)
    (hs : s.stopped = false) {v : Ver} (hv : v ∈ h) :
    ∃ r, answer cfg s v.id = some r ∧ (∀ k, r.get k = v.store k) ∧
      ∀ p, OrderedEntries (edEntries (r.rawScan p)) (fun k val => isPrefix p k = true ∧ v.store k = some val) := by
  obtain ⟨r, hg, hget, hscan⟩ := (hr.inv hp).inv.view_scan hv
  exact ⟨r, by rw [(cached_get_eq_uncached hp hr hs v.id).1, hg], fun k => congrFun hget k, hscan⟩

/-- an identifier that is not on the current chain — in particular one of an abandoned branch — is refused whatever the
    caches hold -/
theorem cached_unknown_id_refused {cfg : Cfg} (hp : cfg.Purges) {s : CLdb} {h : List Ver} (hr : CReach cfg s h)
    (hs : s.stopped = false) {id : Id} (hz : id.isZero = false) (hid : ∀ v ∈ h, v.id ≠ id) :
    answer cfg s id = none := by
  rw [(cached_get_eq_uncached hp hr hs id).1]
  exact (hr.inv hp).inv.get_unknown hz hid

/-- after `Stop` nothing is served and nothing is cached -/
theorem stopped_serves_nothing (cfg : Cfg) (s : CLdb) (i : Id) :
    answer cfg s.stop i = none ∧ s.stop.l1 = [] ∧ s.stop.l2 = [] := by
  refine ⟨?_, rfl, rfl⟩
  simp [answer, get_stopped cfg s.stop i rfl]

/-! ### aliasing: views handed out earlier share the overlay object that later `Get`s extend in place -/

/-- `old_views_survive_in_place_extension`. Take any reachable state and any version `v` below the frontier; `Get(v.id)`
    hands out a view = (pointer `o` to an overlay object, the snapshot of that moment). Let ANYTHING happen afterwards
    (`CSteps`: commits, stale commits, pops — also of `v` itself —, evictions, and in particular later `Get(v.id)` under later
    frontiers, which find the object in l1 / l2 and EXTEND IT IN PLACE while this view still points to it): the view, read
    through the heap of the later state over its OLD snapshot, still reads the content of `v` on every key, and each of its
    ordered prefix scans is still the key-ordered list of exactly `v`'s entries.
    Why: `ApplyWithoutOverride` adds an entry only for a key the object does not hold yet — a key no commit between `v` and
    the undo patch being folded touched — and the value it adds is the one the key had before that later commit, which is
    the value in the old snapshot and in `v` (`viewOf_extend`, `overlay_view_at`); after a `Pop` the object is referenced by
    no cache entry any more and is never written again. -/
theorem old_views_survive_in_place_extension {cfg : Cfg} (hp : cfg.Purges) {s : CLdb} {h : List Ver}
    (hr : CReach cfg s h) (hs : s.stopped = false) {v : Ver} (hv : v ∈ h) (hne : v.id ≠ s.ldb.frontierId) :
    ∃ o, (s.get cfg v.id).2 = some (CRoot.hist o s.ldb.frontier) ∧
      ∀ s2 h2, CSteps cfg (s.get cfg v.id).1 h s2 h2 →
        (∀ k, ((CRoot.hist o s.ldb.frontier).resolve s2.heap).get k = v.store k) ∧
        (∀ p, OrderedEntries (edEntries (((CRoot.hist o s.ldb.frontier).resolve s2.heap).rawScan p))
          (fun k val => isPrefix p k = true ∧ v.store k = some val)) := by
  have hi := hr.inv hp
  obtain ⟨r, hg, hget, hshape⟩ := hi.inv.view hv
  obtain ⟨o, hans, hviews⟩ := get_hist_shape cfg s v.id hs (hi.inv.inv0.hchain.mem_not_zero hv) hne (by rw [hg]; simp)
  obtain ⟨hi1, _, _, heq, _⟩ := hi.get (cfg := cfg) hs v.id
  refine ⟨o, hans, ?_⟩
  -- at hand-out the view shows `v`
  have hroot : Root.hist (objAt (s.get cfg v.id).1.heap o) s.ldb.frontier = r := by
    have := heq
    rw [hans, hg] at this
    simpa [CRoot.resolve] using this
  have hmem : (⟨v.id, s.ldb.frontier, o⟩ : CView) ∈ (s.get cfg v.id).1.views := by rw [hviews]; simp
  have hsh : ViewShows (s.get cfg v.id).1 ⟨v.id, s.ldb.frontier, o⟩ v.store := by
    refine ⟨hi1.viewsLt _ hmem, ?_, hi.inv.inv0.sorted, ?_⟩
    · rcases hshape with ⟨rfl, hf⟩ | ⟨_, rb, rfl, hrb⟩
      · exact absurd hf hne
      · have : objAt (s.get cfg v.id).1.heap o = rb := by injection hroot
        simp only [this]; exact hrb
    · have := hget
      rw [← hroot, Root.get_hist] at this
      exact this
  intro s2 h2 hsteps
  obtain ⟨_, hsh2⟩ := hsteps.view hp hi1 hmem hsh
  have hread : (Root.hist (objAt s2.heap o) s.ldb.frontier).get = v.store := by
    rw [Root.get_hist]; exact hsh2.shows
  refine ⟨fun k => congrFun hread k, fun p => ?_⟩
  have h1 := hist_scan_entries hsh2.sortedObj hsh2.sortedSnap p
  refine ⟨h1.1, fun k val => (h1.2 k val).trans ?_⟩
  rw [hsh2.shows]

/-- every view ever handed out that is still listed shows, in every later state, what it showed in any earlier one:
    one step form (what the driver replays: reads of old views go through the CURRENT heap) -/
theorem view_reads_stable_under_steps {cfg : Cfg} (hp : cfg.Purges) {s s' : CLdb} {h h' : List Ver}
    (hr : CReach cfg s h) (hst : CSteps cfg s h s' h') {vw : CView} (hvw : vw ∈ s.views) {X : Store}
    (hsh : ViewShows s vw X) : vw ∈ s'.views ∧ ViewShows s' vw X :=
  hst.view hp (hr.inv hp) hvw hsh

/-! ### rollback leaves no trace in the caches (C06) -/

/-- `pop_purges`: after a successful `Pop` of the code's configuration no cache entry exists -/
theorem pop_purges {s s' : CLdb} (hpop : s.pop Cfg.code = some s') : s'.l1 = [] ∧ s'.l2 = [] := by
  unfold CLdb.pop at hpop
  split at hpop
  · cases hpop
  · split at hpop
    · cases hpop
    · cases hpop
      exact ⟨by simp [code_purges.1], by simp [code_purges.2]⟩

/-- … and neither the store nor the objects nor the views are touched by the purge: the cached `Pop` is the cache-free
    `Pop` on the projection -/
theorem pop_projects {cfg : Cfg} (hp : cfg.Purges) {s s' : CLdb} {v : Ver} {h : List Ver} (hr : CReach cfg s (v :: h))
    (hpop : s.pop cfg = some s') : s.ldb.pop = some s'.ldb ∧ s'.heap = s.heap ∧ s'.views = s.views := by
  obtain ⟨_, a, b, c, _⟩ := (hr.inv hp).pop hp.1 hp.2 hpop
  exact ⟨a, b, c⟩

/-- the run used by the negative witnesses: execute a list of operations -/
def run (cfg : Cfg) : CLdb → List COp → CLdb
  | s, [] => s
  | s, op :: t => run cfg (s.step cfg op).1 t

/-- what `Get(i)` followed by a lookup of `k` answers: `none` = refused, `some none` = key not found -/
def readAt (cfg : Cfg) (s : CLdb) (i : Id) (k : Bytes) : Option (Option Bytes) :=
  (answer cfg s i).map (fun r => r.get k)

/-- the code before fix 961d8c2: `Pop` leaves both levels alone -/
def noPurge : Cfg := ⟨false, false, Gen.maximumCacheHeightDifference⟩

/-- commit 1, commit 2, open version 1 (its overlay — the undo patch of commit 2 — is cached under tag 2), pop,
    commit another version 2' that creates key 0b -/
def branchSwitch : List COp :=
  [.add Id.zero ⟨1, [7]⟩ [Op.put [9] [1]], .add ⟨1, [7]⟩ ⟨2, [8]⟩ [Op.put [10] [2]], .get ⟨1, [7]⟩, .pop,
   .add ⟨1, [7]⟩ ⟨2, [6]⟩ [Op.put [11] [3]]]

/-- NEGATIVE WITNESS `pop_without_purge_serves_abandoned_branch` (former finding F5): without the purge the entry
    cached for version 1 survives the pop with tag height 2 = the new frontier height, so no undo patch of the NEW branch
    is folded, and the view of version 1 shows key 0b — created by 2' after version 1 — with the new branch's value,
    while the cache-free `Get` on the same store (and the code's configuration on the same sequence) says "not found" -/
theorem pop_without_purge_serves_abandoned_branch :
    readAt noPurge (run noPurge CLdb.empty branchSwitch) ⟨1, [7]⟩ [11] = some (some [3]) ∧
    ((run noPurge CLdb.empty branchSwitch).ldb.get ⟨1, [7]⟩).map (fun r => r.get [11]) = some none ∧
    readAt Cfg.code (run Cfg.code CLdb.empty branchSwitch) ⟨1, [7]⟩ [11] = some none ∧
    (run noPurge CLdb.empty branchSwitch).l1.length = 1 ∧ (run Cfg.code CLdb.empty branchSwitch).l1.length = 0 := by
  decide

/-- the same with only ONE of the two purges missing, at a level boundary of 1 (so that the second level is used two
    commits below the frontier): leaving l2 unpurged serves the abandoned branch through l2 -/
theorem pop_without_l2_purge_serves_abandoned_branch :
    readAt ⟨true, false, 1⟩ (run ⟨true, false, 1⟩ CLdb.empty branchSwitch) ⟨1, [7]⟩ [11] = some (some [3]) ∧
    readAt ⟨true, true, 1⟩ (run ⟨true, true, 1⟩ CLdb.empty branchSwitch) ⟨1, [7]⟩ [11] = some none := by
  decide

/-! ### evictions, commits, tags -/

/-- what a caller observes of the manager depends only on the cache-free projection: two reachable cached states with the
    same store — whatever their histories of gets and evictions, whatever their caches hold — answer every `Get` alike, and
    every `Add` / `Pop` succeeds or fails alike and leaves the same store -/
theorem answers_depend_only_on_store {cfg : Cfg} (hp : cfg.Purges) {s t : CLdb} {h h' : List Ver}
    (hr : CReach cfg s h) (ht : CReach cfg t h') (he : s.ldb = t.ldb) (hs : s.stopped = false)
    (hts : t.stopped = false) :
    (∀ i, answer cfg s i = answer cfg t i) ∧
    (∀ prev id ops, (s.add cfg prev id ops).map (·.ldb) = (t.add cfg prev id ops).map (·.ldb)) ∧
    (s.pop cfg).map (·.ldb) = (t.pop cfg).map (·.ldb) := by
  refine ⟨fun i => ?_, fun prev id ops => ?_, ?_⟩
  · rw [(cached_get_eq_uncached hp hr hs i).1, (cached_get_eq_uncached hp ht hts i).1, he]
  · rw [(hr.inv hp).add_eq hs, (ht.inv hp).add_eq hts, he]
    cases t.ldb.add prev id ops <;> rfl
  · simp only [CLdb.pop, hs, hts, he, Bool.false_eq_true, if_false]
    cases t.ldb.pop <;> rfl

/-- `evictions_are_invisible`: evicting any entry of any level at any moment leads to a reachable state with the same
    store, hence (by `answers_depend_only_on_store`, and inductively for every continuation) to the same answers: any
    eviction schedule — any LRU capacity — yields the same observable behaviour -/
theorem evictions_are_invisible {cfg : Cfg} (hp : cfg.Purges) {s : CLdb} {h : List Ver} (hr : CReach cfg s h)
    (hs : s.stopped = false) (level1 : Bool) (e : Id) :
    CReach cfg (s.evict level1 e) h ∧ (s.evict level1 e).ldb = s.ldb ∧
    (∀ i, answer cfg (s.evict level1 e) i = answer cfg s i) ∧
    (∀ prev id ops, ((s.evict level1 e).add cfg prev id ops).map (·.ldb) = (s.add cfg prev id ops).map (·.ldb)) ∧
    ((s.evict level1 e).pop cfg).map (·.ldb) = (s.pop cfg).map (·.ldb) := by
  have hr' : CReach cfg (s.evict level1 e) h := CSteps.tail hr (CStep.evict level1 e)
  have hldb : (s.evict level1 e).ldb = s.ldb := by cases level1 <;> rfl
  have hst : (s.evict level1 e).stopped = false := by cases level1 <;> exact hs
  obtain ⟨a, b, c⟩ := answers_depend_only_on_store hp hr' hr hldb hst hs
  exact ⟨hr', hldb, a, b, c⟩

/-- whole runs. For EVERY list of operations (commits, stale commits, pops, gets, evictions, stop in any order) whose commits on
    the frontier satisfy the side conditions (`ValidU`, stated on the cache-free manager), the cached manager started empty
    gives, operation by operation, the answer the cache-free manager gives: ok / error for `Add` and `Pop`, and for `Get`
    the same root (compared as the root with the overlay pointer dereferenced after the call) -/
theorem cached_run_eq_uncached_run {cfg : Cfg} (hp : cfg.Purges) (ops : List COp)
    (hv : ValidU [] (Ldb.empty, false) ops) :
    answersC cfg CLdb.empty ops = answersU (Ldb.empty, false) ops :=
  answersC_eq_answersU hp ops (s := CLdb.empty) CInv.init hv

/-- `evictions_are_invisible`, whole-schedule form: two runs that differ only in their evictions — where, how many, of which
    entries of which level: i.e. ANY replacement policy and ANY capacities — give the same answers to all their other
    operations -/
theorem eviction_schedules_are_invisible {cfg : Cfg} (hp : cfg.Purges) (ops ops' : List COp)
    (he : dropEvicts ops = dropEvicts ops') (hv : ValidU [] (Ldb.empty, false) ops) :
    loud (answersC cfg CLdb.empty ops) = loud (answersC cfg CLdb.empty ops') := by
  have hv' : ValidU [] (Ldb.empty, false) ops' :=
    (validU_dropEvicts ops' _ _).2 (he ▸ (validU_dropEvicts ops _ _).1 hv)
  rw [cached_run_eq_uncached_run hp ops hv, cached_run_eq_uncached_run hp ops' hv', answersU_dropEvicts ops,
    answersU_dropEvicts ops', he]

/-- non-vacuity of `ValidU`: two commits, version 1 opened, its entry evicted, opened again, a pop — a valid run -/
example : ValidU [] (Ldb.empty, false)
    [.add Id.zero ⟨1, [7]⟩ [Op.put [9] [1]], .add ⟨1, [7]⟩ ⟨2, [8]⟩ [Op.put [10] [2]], .get ⟨1, [7]⟩,
     .evict true ⟨1, [7]⟩, .get ⟨1, [7]⟩, .pop] := by
  refine ⟨fun _ _ => ⟨⟨by decide, by decide⟩, by simp, by decide⟩, fun _ _ => ⟨⟨by decide, by decide⟩, ?_, by decide⟩,
    trivial, trivial, trivial, trivial, trivial⟩
  intro v hv
  have : v ∈ [commitVer [] ⟨1, [7]⟩ [Op.put [9] [1]]] := by
    have hg : ghostU [] (Ldb.empty, false) (.add Id.zero ⟨1, [7]⟩ [Op.put [9] [1]]) =
        [commitVer [] ⟨1, [7]⟩ [Op.put [9] [1]]] := by
      simp only [ghostU]; rw [if_pos (by decide)]
    rw [hg] at hv; exact hv
  simp only [List.mem_singleton] at this
  subst this
  simp [commitVer]

/-- a cache entry is valid for the chain `h`: it is filed under a version of the chain, tagged with a version of the
    chain that is not older, and its object is the overlay for that version folded up to some height between the tag and
    the frontier -/
def EntValid (s : CLdb) (h : List Ver) (e : CEnt) : Prop :=
  (∃ v ∈ h, v.id = e.id) ∧ (∃ w ∈ h, w.id = e.tag) ∧ e.id.height ≤ e.tag.height ∧
  ∃ top, e.tag.height ≤ top ∧ top ≤ s.ldb.frontierId.height ∧
    s.heap[e.obj]? = some (buildOverlay s.ldb.rollbacks e.id.height (top - e.id.height) [])

/-- in every reachable state every entry of both levels is valid -/
theorem cache_entries_valid {cfg : Cfg} (hp : cfg.Purges) {s : CLdb} {h : List Ver} (hr : CReach cfg s h) :
    ∀ e ∈ s.l1 ++ s.l2, EntValid s h e := by
  intro e he
  have hi := hr.inv hp
  obtain ⟨v, top, hoi⟩ := hi.objs e he
  obtain ⟨hid, htag, hlo, hto⟩ := hoi.ents e he rfl
  refine ⟨⟨v, hoi.mem, hid.symm⟩, htag, by rw [hid]; exact hlo, top, hto, ?_, ?_⟩
  · rw [inv0_frontierHeight hi.inv.inv0]; exact hoi.hi
  · rw [hid]; exact hoi.obj

/-- `add_keeps_cache_valid`: a commit on the frontier touches neither level, no object and no view, and every entry stays
    valid for the longer chain (its identifier and its tag stay on the chain; the undo patches it was folded from are
    still stored) — which is why `Add` need not purge -/
theorem add_keeps_cache_valid {cfg : Cfg} (hp : cfg.Purges) {s s' : CLdb} {h : List Ver} {id : Id} {ops : Patch}
    (hr : CReach cfg s h) (hok : AddOk s.ldb.frontierId h id ops) (ha : s.add cfg s.ldb.frontierId id ops = some s') :
    s'.l1 = s.l1 ∧ s'.l2 = s.l2 ∧ s'.heap = s.heap ∧ s'.views = s.views ∧
    ∀ e ∈ s.l1 ++ s.l2, EntValid s' (commitVer h id ops :: h) e := by
  obtain ⟨_, _, hh, hv, h1, h2, _⟩ := (hr.inv hp).add_frontier hok ha
  refine ⟨h1, h2, hh, hv, ?_⟩
  have hr' : CReach cfg s' (commitVer h id ops :: h) := CSteps.tail hr (CStep.add hok ha)
  intro e he
  exact cache_entries_valid hp hr' e (by rw [h1, h2]; exact he)

/-- the tag only has to be a LOWER bound of what the object really holds: extending an object that has been folded up to
    `top` from any tag height between the viewed height and `top` gives the overlay folded from scratch. (So the entry that
    stays behind in l1 with an older tag when the same object is filed in l2 — `Get` looks l1 up first and never removes it —
    costs repeated work but no correctness; filing under a tag AHEAD of the object would be wrong, see
    `pop_without_purge_serves_abandoned_branch`, where the tag is ahead of what was folded from the NEW branch.) -/
theorem tag_lower_bound_suffices {s : Ldb} {h : List Ver} (hr : Reach s h) (lo t top : Nat) (h0 : 1 ≤ lo)
    (h1 : lo ≤ t) (h2 : t ≤ top) (h3 : top ≤ s.frontierId.height) :
    buildOverlay s.rollbacks t (s.frontierId.height - t) (buildOverlay s.rollbacks lo (top - lo) []) =
      buildOverlay s.rollbacks lo (s.frontierId.height - lo) [] := by
  have hF := inv0_frontierHeight hr.inv.inv0
  exact overlay_extend _ _ _ _ _ h1 h2 h3
    (fun j a b => hr.inv.inv0.rb.isSome hr.inv.inv0.hchain j (by omega) (by omega))

/-! ### non-vacuity -/

/-- a level boundary of 2 instead of 360 (the theorems hold for every boundary) -/
def smallCfg : Cfg := ⟨true, true, 2⟩

/-- commits 1, 2; open version 1 (near: l1, tag 2); commit 3; open version 1 again (far: l1 hit, the SAME object 0 is
    extended in place and filed in l2 under tag 3 — the l1 entry stays behind with tag 2); commit 4 -/
def nearFar : List COp :=
  [.add Id.zero ⟨1, [7]⟩ [Op.put [9] [1]], .add ⟨1, [7]⟩ ⟨2, [8]⟩ [Op.put [10] [2]], .get ⟨1, [7]⟩,
   .add ⟨2, [8]⟩ ⟨3, [5]⟩ [Op.put [11] [3], Op.del [9]], .get ⟨1, [7]⟩, .add ⟨3, [5]⟩ ⟨4, [4]⟩ [Op.put [12] [4]]]

def nearFarState : CLdb := run smallCfg CLdb.empty nearFar

/-- the overlay a root holds (for comparing roots by `decide`) -/
def overlayOf : Option Root → Option Raw
  | some (.hist rb _) => some rb
  | _ => none

/-- the aliasing really happens in the model, and the stale l1 entry is really there: after `nearFar` both levels hold an
    entry for version 1 pointing to the same object 0, the l1 tag (height 2) is older than the l2 tag (height 3); the two
    views handed out (the first with the snapshot of frontier 2) both point to object 0, which was extended between the two
    hand-outs (it held 4 entries — key 0a and the three bookkeeping keys —, now 8); the next `Get` goes through the STALE l1 entry and still builds the overlay the
    cache-free `Get` builds (11 entries); and the first view, read through the heap after that `Get` over its old snapshot,
    still shows version 1: key 09 = 01 (deleted by commit 3), keys 0a, 0b, 0c not found -/
example :
    nearFarState.l1 = [⟨⟨1, [7]⟩, ⟨2, [8]⟩, 0⟩] ∧ nearFarState.l2 = [⟨⟨1, [7]⟩, ⟨3, [5]⟩, 0⟩] ∧
    nearFarState.views.map (·.obj) = [0, 0] ∧ nearFarState.heap.length = 1 ∧
    (objAt (run smallCfg CLdb.empty (nearFar.take 3)).heap 0).length = 4 ∧ (objAt nearFarState.heap 0).length = 8 ∧
    overlayOf (answer smallCfg nearFarState ⟨1, [7]⟩) = overlayOf (nearFarState.ldb.get ⟨1, [7]⟩) ∧
    (overlayOf (answer smallCfg nearFarState ⟨1, [7]⟩)).map List.length = some 11 ∧
    (nearFarState.views.getLast?.map
      (fun vw => (vw.root.resolve (nearFarState.get smallCfg ⟨1, [7]⟩).1.heap).get [9])) = some (some [1]) ∧
    (nearFarState.views.getLast?.map
      (fun vw => (vw.root.resolve (nearFarState.get smallCfg ⟨1, [7]⟩).1.heap).get [10])) = some none ∧
    (nearFarState.views.getLast?.map
      (fun vw => (vw.root.resolve (nearFarState.get smallCfg ⟨1, [7]⟩).1.heap).get [11])) = some none ∧
    (nearFarState.views.getLast?.map
      (fun vw => (vw.root.resolve (nearFarState.get smallCfg ⟨1, [7]⟩).1.heap).get [12])) = some none := by
  decide

/-- the hypotheses of the theorems are satisfiable with the code's configuration: a reachable cached state (two commits,
    then version 1 opened) with a non-empty first level, built with the relational steps -/
example : ∃ s h, CReach Cfg.code s h ∧ s.stopped = false ∧ h.length = 2 ∧ s.l1.length = 1 ∧ s.views.length = 1 := by
  have a1 : CLdb.empty.add Cfg.code CLdb.empty.ldb.frontierId ⟨1, [7]⟩ [Op.put [9] [1]] =
      some (run Cfg.code CLdb.empty [.add Id.zero ⟨1, [7]⟩ [Op.put [9] [1]]]) := by decide
  have a2 : (run Cfg.code CLdb.empty [.add Id.zero ⟨1, [7]⟩ [Op.put [9] [1]]]).add Cfg.code
      (run Cfg.code CLdb.empty [.add Id.zero ⟨1, [7]⟩ [Op.put [9] [1]]]).ldb.frontierId ⟨2, [8]⟩ [Op.put [10] [2]] =
      some (run Cfg.code CLdb.empty (branchSwitch.take 2)) := by decide
  have r1 := CSteps.tail CSteps.refl (CStep.add (h := []) ⟨⟨by decide, by decide⟩, by simp, by decide⟩ a1)
  have r2 := CSteps.tail r1 (CStep.add ⟨⟨by decide, by decide⟩, by simp [commitVer], by decide⟩ a2)
  have r3 := CSteps.tail r2 (CStep.get ⟨1, [7]⟩)
  exact ⟨_, _, r3, by decide, rfl, by decide, by decide⟩

end ZV.C07Cache
